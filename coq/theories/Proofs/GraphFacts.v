(* Facts about Base/StrOrd.v and Base/Graph.v: boolean string equality / membership reflect, Kahn layering is
   sound (a successful layering is a strict rank function on the edges). *)
From Verif Require Import Base.Prelude Base.StrOrd Base.Graph.

(* ---------- str_eqb / mem_str ---------- *)
Lemma str_eqb_refl x : str_eqb x x = true.
Proof. induction x as [|c x IH]; cbn; [reflexivity|]. now rewrite Ascii.eqb_refl, IH. Qed.

Lemma str_eqb_eq x y : str_eqb x y = true <-> x = y.
Proof.
  split.
  - revert y. induction x as [|c x IH]; destruct y as [|d y]; cbn; try discriminate; [reflexivity|].
    intros H. apply andb_true_iff in H as [H1 H2]. apply Ascii.eqb_eq in H1. subst. f_equal. now apply IH.
  - intros ->. apply str_eqb_refl.
Qed.

Lemma str_eqb_neq x y : str_eqb x y = false <-> x <> y.
Proof.
  split.
  - intros H E. apply str_eqb_eq in E. congruence.
  - intros H. destruct (str_eqb x y) eqn:E; [|reflexivity]. apply str_eqb_eq in E. contradiction.
Qed.

Lemma str_eqb_sym x y : str_eqb x y = str_eqb y x.
Proof.
  destruct (str_eqb x y) eqn:E.
  - apply str_eqb_eq in E. subst. symmetry. apply str_eqb_refl.
  - symmetry. apply str_eqb_neq. apply str_eqb_neq in E. congruence.
Qed.

Lemma str_eq_dec (x y : str) : {x = y} + {x <> y}.
Proof.
  destruct (str_eqb x y) eqn:E; [left; now apply str_eqb_eq | right; now apply str_eqb_neq].
Qed.

Lemma mem_str_In x l : mem_str x l = true <-> In x l.
Proof.
  induction l as [|y l IH]; cbn; [split; [discriminate | tauto]|].
  rewrite orb_true_iff, IH, str_eqb_eq. split; intros [H|H]; auto.
Qed.

Lemma mem_str_not_In x l : mem_str x l = false <-> ~ In x l.
Proof.
  split.
  - intros H HI. apply mem_str_In in HI. congruence.
  - intros H. destruct (mem_str x l) eqn:E; [|reflexivity]. apply mem_str_In in E. contradiction.
Qed.

Lemma nodup_strb_NoDup l : nodup_strb l = true <-> NoDup l.
Proof.
  induction l as [|x l IH]; cbn.
  - split; [constructor | reflexivity].
  - rewrite andb_true_iff, negb_true_iff, mem_str_not_In, IH. split.
    + intros [H1 H2]. now constructor.
    + intros H. inversion H; subst. auto.
Qed.

Lemma subset_str_incl a b : subset_str a b = true <-> incl a b.
Proof.
  unfold subset_str. rewrite forallb_forall. unfold incl. split; intros H x Hx.
  - apply mem_str_In. auto.
  - apply mem_str_In. auto.
Qed.

Lemma diff_str_In x a b : In x (diff_str a b) <-> In x a /\ ~ In x b.
Proof. unfold diff_str. rewrite filter_In, negb_true_iff, mem_str_not_In. tauto. Qed.

Lemma union_str_In x a b : In x (union_str a b) <-> In x a \/ In x b.
Proof.
  unfold union_str. rewrite in_app_iff, diff_str_In. destruct (in_dec str_eq_dec x a); tauto.
Qed.

Lemma dedup_aux_In x seen l : In x (dedup_aux seen l) <-> In x l /\ ~ In x seen.
Proof.
  revert seen. induction l as [|y l IH]; intros seen; cbn; [tauto|].
  destruct (mem_str y seen) eqn:E.
  - rewrite IH. apply mem_str_In in E. split; [tauto|]. intros [[->|H] H2]; tauto.
  - apply mem_str_not_In in E. cbn. rewrite IH. cbn. split.
    + intros [->|[H1 H2]]; [tauto|]. tauto.
    + intros [[->|H1] H2]; [tauto|]. destruct (str_eq_dec y x); [tauto|]. right. tauto.
Qed.

Lemma dedup_In x l : In x (dedup l) <-> In x l.
Proof. unfold dedup. rewrite dedup_aux_In. cbn. tauto. Qed.

Lemma dedup_aux_NoDup seen l : NoDup (dedup_aux seen l).
Proof.
  revert seen. induction l as [|y l IH]; intros seen; cbn; [constructor|].
  destruct (mem_str y seen); [apply IH|]. constructor; [|apply IH].
  rewrite dedup_aux_In. cbn. tauto.
Qed.

Lemma dedup_NoDup l : NoDup (dedup l).
Proof. apply dedup_aux_NoDup. Qed.

Lemma NoDup_app_inv {A} (a b : list A) :
  NoDup (a ++ b) -> NoDup a /\ NoDup b /\ (forall x, In x a -> ~ In x b).
Proof.
  induction a as [|x a IH]; cbn; intros H.
  - repeat split; [constructor|assumption|tauto].
  - inversion H as [|? ? Hn Hnd]; subst. destruct (IH Hnd) as [H1 [H2 H3]]. repeat split.
    + constructor; [|assumption]. intros Hi. apply Hn. apply in_app_iff. now left.
    + assumption.
    + intros y [->|Hy]; [|auto]. intros Hi. apply Hn. apply in_app_iff. now right.
Qed.

Lemma NoDup_app_intro {A} (a b : list A) :
  NoDup a -> NoDup b -> (forall x, In x a -> ~ In x b) -> NoDup (a ++ b).
Proof.
  induction a as [|x a IH]; cbn; intros Ha Hb Hd; [assumption|].
  inversion Ha; subst. constructor.
  - rewrite in_app_iff. intros [H|H]; [contradiction|]. eapply Hd; eauto.
  - apply IH; auto.
Qed.

(* ---------- insertion sort is a permutation ---------- *)
From Coq Require Import Permutation.

Lemma insert_perm {A} (ltb : A -> A -> bool) x l : Permutation (insert ltb x l) (x :: l).
Proof.
  induction l as [|y l IH]; cbn; [reflexivity|].
  destruct (ltb x y); [reflexivity|]. rewrite IH. apply perm_swap.
Qed.

Lemma sort_perm {A} (ltb : A -> A -> bool) l : Permutation (sort ltb l) l.
Proof.
  unfold sort. enough (H : forall acc, Permutation (fold_left (fun acc x => insert ltb x acc) l acc) (l ++ acc)).
  { rewrite H. now rewrite app_nil_r. }
  induction l as [|x l IH]; intros acc; cbn; [reflexivity|].
  rewrite IH. rewrite insert_perm. symmetry. apply Permutation_middle.
Qed.

Lemma sort_In {A} (ltb : A -> A -> bool) l x : In x (sort ltb l) <-> In x l.
Proof. split; apply Permutation_in; [apply sort_perm | symmetry; apply sort_perm]. Qed.

(* ---------- Kahn layering ---------- *)
Lemma rank_of_lt_length ls v : (exists l, In l ls /\ In v l) -> rank_of ls v < length ls.
Proof.
  induction ls as [|l ls IH]; intros [l0 [H1 H2]]; [destruct H1|]. cbn.
  destruct (mem_str v l) eqn:E; [lia|]. apply mem_str_not_In in E.
  destruct H1 as [->|H1]; [contradiction|]. apply -> Nat.succ_lt_mono. apply IH. eauto.
Qed.

Lemma kahn_cons fuel g r0 rem0 :
  kahn (S fuel) g (r0 :: rem0) =
  match filter (ready g (r0 :: rem0)) (r0 :: rem0) with
  | [] => None
  | a :: b => match kahn fuel g (diff_str (r0 :: rem0) (a :: b)) with Some ls => Some ((a :: b) :: ls) | None => None end
  end.
Proof. reflexivity. Qed.

(* soundness: every remaining node gets a layer, and predecessors that are still remaining come strictly earlier *)
Lemma kahn_sound g : forall fuel rem ls,
  kahn fuel g rem = Some ls ->
  length ls <= fuel
  /\ (forall v, In v rem -> exists l, In l ls /\ In v l)
  /\ (forall u v, In v rem -> In u rem -> In u (preds g v) -> rank_of ls u < rank_of ls v).
Proof.
  induction fuel as [|fuel IH]; intros rem ls H.
  - destruct rem; cbn in H; [|discriminate]. inversion H; subst. cbn. repeat split; [lia| |]; intros; contradiction.
  - destruct rem as [|r0 rem0]; [cbn in H; inversion H; subst; cbn; repeat split; [lia| |]; intros; contradiction|].
    rewrite kahn_cons in H. set (rem := r0 :: rem0) in *.
    destruct (filter (ready g rem) rem) as [|a b] eqn:El; [discriminate|].
    set (layer := a :: b) in *.
    destruct (kahn fuel g (diff_str rem layer)) as [ls'|] eqn:Ek; [|discriminate].
    inversion H; subst ls. clear H.
    destruct (IH _ _ Ek) as [Hlen [Hcov Hord]].
    assert (Hlay : forall v, In v layer <-> In v rem /\ ready g rem v = true).
    { intros v. subst layer. rewrite <- El. apply filter_In. }
    repeat split.
    + cbn. lia.
    + intros v Hv. destruct (in_dec str_eq_dec v layer) as [Hi|Hn].
      * exists layer. split; [now left|assumption].
      * destruct (Hcov v) as [l [Hl1 Hl2]]; [apply diff_str_In; tauto|]. exists l. split; [now right|assumption].
    + intros u v Hv Hu Hp. cbn [rank_of].
      destruct (mem_str v layer) eqn:Ev.
      * apply mem_str_In in Ev. apply Hlay in Ev as [_ Hr]. unfold ready in Hr.
        rewrite forallb_forall in Hr. specialize (Hr u Hp). apply negb_true_iff in Hr.
        apply mem_str_not_In in Hr. contradiction.
      * apply mem_str_not_In in Ev. destruct (mem_str u layer) eqn:Eu; [lia|].
        apply mem_str_not_In in Eu. apply -> Nat.succ_lt_mono. apply Hord; try (apply diff_str_In; tauto). assumption.
Qed.

Lemma topo_rank g ls :
  topo_generations g = Some ls ->
  (forall v, In v (nodes g) -> rank_of ls v < length (nodes g))
  /\ (forall u v, In v (nodes g) -> In u (nodes g) -> In (u, v) (edges g) -> rank_of ls u < rank_of ls v).
Proof.
  unfold topo_generations. intros H. destruct (kahn_sound _ _ _ _ H) as [Hlen [Hcov Hord]]. split.
  - intros v Hv. specialize (Hcov v Hv). apply rank_of_lt_length in Hcov. lia.
  - intros u v Hv Hu He. apply Hord; try assumption.
    unfold preds. apply in_map_iff. exists (u, v). split; [reflexivity|].
    apply filter_In. split; [assumption|]. cbn. apply str_eqb_refl.
Qed.

(* ---------- reachability is sound: whatever close / descendants / ancestors return is joined by a path ---------- *)
Inductive gpath (g : graph) : str -> str -> Prop :=
| gpath_refl x : gpath g x x
| gpath_step x y z : In (x, y) (edges g) -> gpath g y z -> gpath g x z.

Lemma gpath_trans g x y z : gpath g x y -> gpath g y z -> gpath g x z.
Proof. induction 1; intros H2; [assumption|]. econstructor; eauto. Qed.

Lemma gpath_snoc g x y z : gpath g x y -> In (y, z) (edges g) -> gpath g x z.
Proof. intros H1 H2. eapply gpath_trans; [exact H1|]. econstructor; [exact H2|constructor]. Qed.

Lemma succs_In g n y : In y (succs g n) <-> In (n, y) (edges g).
Proof.
  unfold succs. rewrite in_map_iff. split.
  - intros [[a b] [E H]]. cbn in E. subst b. apply filter_In in H as [H1 H2]. cbn in H2. apply str_eqb_eq in H2. now subst a.
  - intros H. exists (n, y). split; [reflexivity|]. apply filter_In. split; [assumption|]. cbn. apply str_eqb_refl.
Qed.

Lemma expand_sound g seen x : In x (expand g seen) -> In x seen \/ exists s0, In s0 seen /\ In (s0, x) (edges g).
Proof.
  unfold expand.
  assert (H : forall l acc, In x (fold_left (fun acc n => union_str acc (succs g n)) l acc) ->
                            In x acc \/ exists s0, In s0 l /\ In (s0, x) (edges g)).
  { induction l as [|n l IH]; intros acc Hin; cbn in Hin; [now left|].
    apply IH in Hin as [Hin|[s0 [H1 H2]]].
    - apply union_str_In in Hin as [Hin|Hin]; [now left|]. right. exists n. split; [now left|]. now apply succs_In.
    - right. exists s0. split; [now right|assumption]. }
  intros Hin. apply H in Hin. exact Hin.
Qed.

Lemma close_sound g : forall fuel seen x, In x (close fuel g seen) -> exists s0, In s0 seen /\ gpath g s0 x.
Proof.
  induction fuel as [|fuel IH]; intros seen x Hin; cbn in Hin.
  - exists x. split; [assumption|constructor].
  - apply IH in Hin as [s1 [H1 H2]]. apply expand_sound in H1 as [H1|[s0 [H0 He]]].
    + eauto.
    + exists s0. split; [assumption|]. econstructor; eauto.
Qed.

Lemma descendants_sound g n x : In x (descendants g n) -> exists y, In (n, y) (edges g) /\ gpath g y x.
Proof.
  unfold descendants, reach. intros H. apply filter_In in H as [H _]. apply close_sound in H as [s0 [H1 H2]].
  rewrite dedup_In in H1. apply in_flat_map in H1 as [m [[<-|[]] H1]]. apply succs_In in H1. eauto.
Qed.

Lemma gpath_rev g x y : gpath (rev_graph g) x y -> gpath g y x.
Proof.
  induction 1; [constructor|]. eapply gpath_snoc; [eassumption|]. cbn in H. apply in_map_iff in H as [[a b] [E H]].
  cbn in E. inversion E; subst. exact H.
Qed.

Lemma ancestors_sound g n x : In x (ancestors g n) -> gpath g x n.
Proof.
  unfold ancestors. intros H. apply descendants_sound in H as [y [H1 H2]]. apply gpath_rev in H2.
  eapply gpath_snoc; [exact H2|]. cbn in H1. apply in_map_iff in H1 as [[a b] [E H1]]. cbn in E. inversion E; subst. exact H1.
Qed.

(* the layers of a successful Kahn run partition the remaining nodes *)
Lemma filter_NoDup {A} (f : A -> bool) l : NoDup l -> NoDup (filter f l).
Proof.
  induction 1; cbn; [constructor|]. destruct (f x); [constructor; [|assumption]|assumption].
  intros Hin. apply filter_In in Hin. tauto.
Qed.

Lemma kahn_partition g : forall fuel rem ls, NoDup rem -> kahn fuel g rem = Some ls ->
  NoDup (concat ls) /\ (forall v, In v (concat ls) <-> In v rem).
Proof.
  induction fuel as [|fuel IH]; intros rem ls Hnd H.
  - destruct rem; cbn in H; [|discriminate]. inversion H; subst. cbn. split; [constructor|tauto].
  - destruct rem as [|r0 rem0]; [cbn in H; inversion H; subst; cbn; split; [constructor|tauto]|].
    rewrite kahn_cons in H. set (rem := r0 :: rem0) in *.
    destruct (filter (ready g rem) rem) as [|a b] eqn:El; [discriminate|]. set (layer := a :: b) in *.
    destruct (kahn fuel g (diff_str rem layer)) as [ls'|] eqn:Ek; [|discriminate]. inversion H; subst ls. clear H.
    assert (Hlnd : NoDup layer) by (subst layer; rewrite <- El; now apply filter_NoDup).
    assert (Hlsub : forall v, In v layer -> In v rem).
    { intros v Hv. subst layer. rewrite <- El in Hv. now apply filter_In in Hv. }
    destruct (IH (diff_str rem layer) ls' (filter_NoDup _ _ Hnd) Ek) as [H1 H2]. cbn [concat]. split.
    + apply NoDup_app_intro; auto. intros x Hx Hx'. apply H2 in Hx'. apply diff_str_In in Hx'. tauto.
    + intros v. rewrite in_app_iff, H2, diff_str_In. split.
      * intros [Hv|[Hv _]]; auto.
      * intros Hv. destruct (in_dec str_eq_dec v layer); [now left|right; tauto].
Qed.

(* ---------- reachability is complete: with fuel = number of nodes every path is found ---------- *)
Definition wf_graph (g : graph) : Prop := forall a b, In (a, b) (edges g) -> In a (nodes g) /\ In b (nodes g).

Lemma wf_graph_rev g : wf_graph g -> wf_graph (rev_graph g).
Proof.
  intros H a b Hin. cbn in Hin. apply in_map_iff in Hin as [[x y] [E Hin]]. cbn in E. inversion E; subst.
  destruct (H _ _ Hin). cbn. tauto.
Qed.

Lemma expand_fold_In g x : forall l acc,
  In x (fold_left (fun acc n => union_str acc (succs g n)) l acc) <-> In x acc \/ exists s0, In s0 l /\ In x (succs g s0).
Proof.
  induction l as [|n l IH]; intros acc; cbn.
  - split; [tauto|]. intros [H|[s0 [[] _]]]. exact H.
  - rewrite IH, union_str_In. split.
    + intros [[H|H]|[s0 [H1 H2]]]; [now left|right; exists n; auto|right; exists s0; auto].
    + intros [H|[s0 [[<-|H1] H2]]]; [left; now left|left; now right|right; eauto].
Qed.

Lemma expand_In g seen x : In x (expand g seen) <-> In x seen \/ exists s0, In s0 seen /\ In (s0, x) (edges g).
Proof.
  unfold expand. rewrite expand_fold_In. split; intros [H|[s0 [H1 H2]]]; auto; right; exists s0; split; auto; now apply succs_In.
Qed.

Definition closedb (g : graph) (seen : list str) : bool :=
  forallb (fun s0 => forallb (fun y => mem_str y seen) (succs g s0)) seen.

Lemma closedb_true g seen : closedb g seen = true <-> (forall s0 y, In s0 seen -> In (s0, y) (edges g) -> In y seen).
Proof.
  unfold closedb. rewrite forallb_forall. split.
  - intros H s0 y Hs He. specialize (H s0 Hs). rewrite forallb_forall in H. apply mem_str_In. apply H. now apply succs_In.
  - intros H s0 Hs. apply forallb_forall. intros y Hy. apply mem_str_In. eapply H; eauto. now apply succs_In.
Qed.

Lemma filter_nil_intro {A} (f : A -> bool) l : (forall x, In x l -> f x = false) -> filter f l = [].
Proof.
  induction l as [|a l IH]; intros H; cbn; [reflexivity|]. rewrite (H a) by now left. apply IH. intros x Hx. apply H. now right.
Qed.

Lemma forallb_false_exists {A} (f : A -> bool) l : forallb f l = false -> exists x, In x l /\ f x = false.
Proof.
  induction l as [|a l IH]; cbn; [discriminate|]. destruct (f a) eqn:E; cbn; [|eauto].
  intros H. destruct (IH H) as [x [H1 H2]]. eauto.
Qed.

Lemma filter_length_le {A} (f : A -> bool) l : length (filter f l) <= length l.
Proof. induction l as [|a l IH]; cbn; [lia|]. destruct (f a); cbn; lia. Qed.

Lemma expand_closed_id g seen : closedb g seen = true -> expand g seen = seen.
Proof.
  intros Hc. unfold expand.
  assert (H : forall l acc, (forall s0, In s0 l -> forall y, In y (succs g s0) -> In y acc) ->
                            fold_left (fun acc n => union_str acc (succs g n)) l acc = acc).
  { induction l as [|n l IH]; intros acc Hl; cbn; [reflexivity|].
    assert (E : union_str acc (succs g n) = acc).
    { unfold union_str, diff_str. replace (filter (fun x => negb (mem_str x acc)) (succs g n)) with (@nil str); [now rewrite app_nil_r|].
      symmetry. apply filter_nil_intro. intros y Hy. apply negb_false_iff. apply mem_str_In. apply (Hl n); auto. now left. }
    rewrite E. apply IH. intros s0 Hs0. apply Hl. now right. }
  apply H. intros s0 Hs y Hy. apply (proj1 (closedb_true g seen) Hc s0 y Hs). now apply succs_In.
Qed.

Lemma close_closed_id g : forall fuel seen, closedb g seen = true -> close fuel g seen = seen.
Proof. induction fuel as [|fuel IH]; intros seen Hc; cbn; [reflexivity|]. rewrite (expand_closed_id g seen Hc). now apply IH. Qed.

(* the number of nodes not yet seen *)
Definition missing (g : graph) (seen : list str) : nat := length (filter (fun n => negb (mem_str n seen)) (nodes g)).

Lemma filter_length_lt {A} (f h : A -> bool) l :
  (forall x, f x = true -> h x = true) -> (exists y, In y l /\ h y = true /\ f y = false) ->
  length (filter f l) < length (filter h l).
Proof.
  intros Hsub. induction l as [|a l IH]; intros [y [Hy [H1 H2]]]; [contradiction|]. cbn.
  assert (Hle : length (filter f l) <= length (filter h l)).
  { clear -Hsub. induction l as [|b l IHl]; cbn; [lia|]. destruct (f b) eqn:Ef; [rewrite (Hsub b Ef); cbn; lia|].
    destruct (h b); cbn; lia. }
  destruct Hy as [<-|Hy].
  - rewrite H1, H2. cbn. lia.
  - specialize (IH (ex_intro _ y (conj Hy (conj H1 H2)))). destruct (f a) eqn:Ef; [rewrite (Hsub a Ef); cbn; lia|].
    destruct (h a); cbn; lia.
Qed.

Lemma close_is_closed g : wf_graph g -> forall fuel seen, missing g seen <= fuel ->
  closedb g (close fuel g seen) = true /\ incl seen (close fuel g seen).
Proof.
  intros Hwf. induction fuel as [|fuel IH]; intros seen Hm.
  - cbn. split; [|apply incl_refl]. apply closedb_true. intros s0 y Hs He.
    destruct (Hwf _ _ He) as [_ Hy]. destruct (mem_str y seen) eqn:E; [now apply mem_str_In|].
    exfalso. unfold missing in Hm. assert (Hin : In y (filter (fun n => negb (mem_str n seen)) (nodes g))).
    { apply filter_In. split; [assumption|]. now rewrite E. }
    destruct (filter _ (nodes g)); [contradiction|cbn in Hm; lia].
  - cbn [close]. destruct (closedb g seen) eqn:Ec.
    + rewrite (expand_closed_id g seen Ec), (close_closed_id g fuel seen Ec). split; [assumption|apply incl_refl].
    + assert (Hnew : exists y, In y (nodes g) /\ In y (expand g seen) /\ ~ In y seen).
      { destruct (forallb (fun s0 => forallb (fun y => mem_str y seen) (succs g s0)) seen) eqn:E; [unfold closedb in Ec; congruence|].
        apply forallb_false_exists in E as [s0 [Hs E]]. apply forallb_false_exists in E as [y [Hy E]].
        apply mem_str_not_In in E. apply succs_In in Hy. exists y. split; [apply (Hwf _ _ Hy)|]. split; [|assumption].
        apply expand_In. right. eauto. }
      destruct Hnew as [y [Hy1 [Hy2 Hy3]]].
      assert (Hlt : missing g (expand g seen) < missing g seen).
      { unfold missing. apply filter_length_lt.
        - intros x Hx. apply negb_true_iff in Hx. apply negb_true_iff. apply mem_str_not_In. apply mem_str_not_In in Hx.
          intros Hin. apply Hx. apply expand_In. now left.
        - exists y. split; [assumption|]. split; [apply negb_true_iff; now apply mem_str_not_In|].
          apply negb_false_iff. now apply mem_str_In. }
      destruct (IH (expand g seen)) as [H1 H2]; [lia|]. split; [assumption|].
      intros x Hx. apply H2. apply expand_In. now left.
Qed.

Lemma closed_gpath g seen : closedb g seen = true -> forall a b, gpath g a b -> In a seen -> In b seen.
Proof.
  intros Hc a b Hp. induction Hp; intros Ha; [assumption|]. apply IHHp.
  eapply (proj1 (closedb_true g seen) Hc); eauto.
Qed.

Lemma missing_le g seen : missing g seen <= length (nodes g).
Proof. unfold missing. apply filter_length_le. Qed.

Theorem descendants_complete g n x : wf_graph g ->
  (exists y, In (n, y) (edges g) /\ gpath g y x) -> x <> n -> In x (descendants g n).
Proof.
  intros Hwf [y [He Hp]] Hne. unfold descendants, reach. apply filter_In. split.
  - destruct (close_is_closed g Hwf (length (nodes g)) (dedup (flat_map (succs g) [n])) (missing_le _ _)) as [Hc Hi].
    eapply (closed_gpath g _ Hc y x Hp). apply Hi. apply dedup_In. cbn. rewrite app_nil_r. now apply succs_In.
  - apply negb_true_iff. apply str_eqb_neq. exact Hne.
Qed.

Lemma gpath_rev' g x y : gpath g x y -> gpath (rev_graph g) y x.
Proof.
  induction 1; [constructor|]. eapply gpath_snoc; [eassumption|]. cbn. apply in_map_iff. exists (x, y). auto.
Qed.

Theorem ancestors_complete g n x : wf_graph g -> gpath g x n -> x <> n -> In x (ancestors g n).
Proof.
  intros Hwf Hp Hne. unfold ancestors. apply descendants_complete; [now apply wf_graph_rev| |assumption].
  (* the last edge of the path *)
  assert (H : exists y, gpath g x y /\ In (y, n) (edges g)).
  { clear Hwf. induction Hp; [congruence|]. destruct (str_eq_dec y z) as [->|Hyz].
    - exists x. split; [constructor|assumption].
    - destruct (IHHp Hyz) as [w [W1 W2]]. exists w. split; [econstructor; eauto|assumption]. }
  destruct H as [y [Hy He]]. exists y. split; [cbn; apply in_map_iff; exists (y, n); auto|]. now apply gpath_rev'.
Qed.

(* ---------- completeness of Kahn layering: a graph with a rank function is layered ---------- *)
Lemma min_rank_exists (r : str -> nat) : forall l : list str, l <> [] ->
  exists m, In m l /\ forall x, In x l -> r m <= r x.
Proof.
  induction l as [|a l IH]; intros Hne; [congruence|]. destruct l as [|b l'].
  - exists a. split; [now left|]. intros x [<-|[]]. lia.
  - destruct IH as [m [Hm Hmin]]; [discriminate|]. destruct (Nat.le_gt_cases (r a) (r m)) as [Hle|Hgt].
    + exists a. split; [now left|]. intros x [<-|Hx]; [lia|]. specialize (Hmin x Hx). lia.
    + exists m. split; [now right|]. intros x [<-|Hx]; [lia|]. now apply Hmin.
Qed.

Lemma filter_true_id {A} (l : list A) : filter (fun _ => true) l = l.
Proof. induction l as [|a l IH]; cbn; [reflexivity|now rewrite IH]. Qed.

Lemma kahn_complete g (r : str -> nat) : forall fuel rem,
  (forall u v, In u rem -> In v rem -> In u (preds g v) -> r u < r v) ->
  length rem <= fuel -> exists ls, kahn fuel g rem = Some ls.
Proof.
  induction fuel as [|fuel IH]; intros rem Hr Hlen.
  - destruct rem; [cbn; eauto|cbn in Hlen; lia].
  - destruct rem as [|r0 rem0]; [cbn; eauto|]. rewrite kahn_cons. set (rem := r0 :: rem0) in *.
    destruct (min_rank_exists r rem) as [m [Hm Hmin]]; [discriminate|].
    assert (Hready : ready g rem m = true).
    { unfold ready. apply forallb_forall. intros u Hu. apply negb_true_iff. apply mem_str_not_In. intros Hin.
      pose proof (Hr u m Hin Hm Hu). specialize (Hmin u Hin). lia. }
    assert (Hml : In m (filter (ready g rem) rem)) by (apply filter_In; auto).
    destruct (filter (ready g rem) rem) as [|a b] eqn:El; [contradiction|]. set (layer := a :: b) in *.
    destruct (IH (diff_str rem layer)) as [ls Hls].
    + intros u v Hu Hv. apply diff_str_In in Hu as [Hu _]. apply diff_str_In in Hv as [Hv _]. now apply Hr.
    + assert (Hlt : length (diff_str rem layer) < length rem).
      { unfold diff_str. rewrite <- (filter_true_id rem) at 2.
        apply filter_length_lt; [intros; reflexivity|]. exists m. split; [assumption|]. split; [reflexivity|].
        apply negb_false_iff. now apply mem_str_In. }
      lia.
    + rewrite Hls. eauto.
Qed.

Theorem topo_generations_complete g (r : str -> nat) :
  (forall u v, In u (nodes g) -> In v (nodes g) -> In (u, v) (edges g) -> r u < r v) ->
  exists ls, topo_generations g = Some ls.
Proof.
  intros H. unfold topo_generations. apply (kahn_complete g r); [|lia]. intros u v Hu Hv Hp. apply H; auto.
  unfold preds in Hp. apply in_map_iff in Hp as [[a b] [E Hp]]. cbn in E. subst a. apply filter_In in Hp as [Hp E].
  cbn in E. apply str_eqb_eq in E. now subst b.
Qed.

(* a node of lower rank comes earlier in the concatenated layers *)
Lemma app_split_notin {A} (a c l1 l2 : list A) v : a ++ c = l1 ++ v :: l2 -> ~ In v a ->
  exists l1', l1 = a ++ l1' /\ c = l1' ++ v :: l2.
Proof.
  revert l1. induction a as [|x a IH]; intros l1 H Hn; [exists l1; auto|]. destruct l1 as [|y l1]; cbn in H.
  - inversion H; subst. exfalso. apply Hn. now left.
  - inversion H; subst. destruct (IH l1 H2) as [l1' [E1 E2]]; [intros Hi; apply Hn; now right|].
    exists l1'. split; [cbn; now rewrite E1|assumption].
Qed.

Lemma rank_lt_before : forall ls u v l1 l2, In u (concat ls) -> rank_of ls u < rank_of ls v ->
  concat ls = l1 ++ v :: l2 -> In u l1.
Proof.
  induction ls as [|a ls IH]; intros u v l1 l2 Hu Hr Hc; [contradiction|]. cbn in Hr, Hc, Hu.
  destruct (mem_str v a) eqn:Ev; [lia|]. apply mem_str_not_In in Ev.
  destruct (app_split_notin a (concat ls) l1 l2 v Hc Ev) as [l1' [-> E2]]. apply in_app_iff.
  destruct (mem_str u a) eqn:Eu; [left; now apply mem_str_In|]. apply mem_str_not_In in Eu. right.
  apply in_app_iff in Hu as [Hu|Hu]; [contradiction|]. eapply IH; eauto. lia.
Qed.
