(* Facts about Base/StrOrd.v and Base/Graph.v: boolean string equality / membership reflect, Kahn layering is
   sound (a successful layering is a strict rank function on the edges). *)
From Verif Require Import Base.Prelude Base.StrOrd Base.Graph.

(* ---------- str_eqb / mem_str ---------- *)
Lemma str_eqb_refl x : str_eqb x x = true.
Proof. induction x as [|c x IH]; cbn; [reflexivity|]. now rewrite Ascii.eqb_refl, IH. Qed.

Lemma str_eqb_eq x y : str_eqb x y = true <-> x = y.
Proof.
  split.
  - revert y. induction x as [|c x IH]; destruct y as [|d y]; cbn; try discriminate; [reflexivity|].
    intros H. apply andb_true_iff in H as [H1 H2]. apply Ascii.eqb_eq in H1. subst. f_equal. now apply IH.
  - intros ->. apply str_eqb_refl.
Qed.

Lemma str_eqb_neq x y : str_eqb x y = false <-> x <> y.
Proof.
  split.
  - intros H E. apply str_eqb_eq in E. congruence.
  - intros H. destruct (str_eqb x y) eqn:E; [|reflexivity]. apply str_eqb_eq in E. contradiction.
Qed.

Lemma str_eqb_sym x y : str_eqb x y = str_eqb y x.
Proof.
  destruct (str_eqb x y) eqn:E.
  - apply str_eqb_eq in E. subst. symmetry. apply str_eqb_refl.
  - symmetry. apply str_eqb_neq. apply str_eqb_neq in E. congruence.
Qed.

Lemma str_eq_dec (x y : str) : {x = y} + {x <> y}.
Proof.
  destruct (str_eqb x y) eqn:E; [left; now apply str_eqb_eq | right; now apply str_eqb_neq].
Qed.

Lemma mem_str_In x l : mem_str x l = true <-> In x l.
Proof.
  induction l as [|y l IH]; cbn; [split; [discriminate | tauto]|].
  rewrite orb_true_iff, IH, str_eqb_eq. split; intros [H|H]; auto.
Qed.

Lemma mem_str_not_In x l : mem_str x l = false <-> ~ In x l.
Proof.
  split.
  - intros H HI. apply mem_str_In in HI. congruence.
  - intros H. destruct (mem_str x l) eqn:E; [|reflexivity]. apply mem_str_In in E. contradiction.
Qed.

Lemma nodup_strb_NoDup l : nodup_strb l = true <-> NoDup l.
Proof.
  induction l as [|x l IH]; cbn.
  - split; [constructor | reflexivity].
  - rewrite andb_true_iff, negb_true_iff, mem_str_not_In, IH. split.
    + intros [H1 H2]. now constructor.
    + intros H. inversion H; subst. auto.
Qed.

Lemma subset_str_incl a b : subset_str a b = true <-> incl a b.
Proof.
  unfold subset_str. rewrite forallb_forall. unfold incl. split; intros H x Hx.
  - apply mem_str_In. auto.
  - apply mem_str_In. auto.
Qed.

Lemma diff_str_In x a b : In x (diff_str a b) <-> In x a /\ ~ In x b.
Proof. unfold diff_str. rewrite filter_In, negb_true_iff, mem_str_not_In. tauto. Qed.

Lemma union_str_In x a b : In x (union_str a b) <-> In x a \/ In x b.
Proof.
  unfold union_str. rewrite in_app_iff, diff_str_In. destruct (in_dec str_eq_dec x a); tauto.
Qed.

Lemma dedup_aux_In x seen l : In x (dedup_aux seen l) <-> In x l /\ ~ In x seen.
Proof.
  revert seen. induction l as [|y l IH]; intros seen; cbn; [tauto|].
  destruct (mem_str y seen) eqn:E.
  - rewrite IH. apply mem_str_In in E. split; [tauto|]. intros [[->|H] H2]; tauto.
  - apply mem_str_not_In in E. cbn. rewrite IH. cbn. split.
    + intros [->|[H1 H2]]; [tauto|]. tauto.
    + intros [[->|H1] H2]; [tauto|]. destruct (str_eq_dec y x); [tauto|]. right. tauto.
Qed.

Lemma dedup_In x l : In x (dedup l) <-> In x l.
Proof. unfold dedup. rewrite dedup_aux_In. cbn. tauto. Qed.

Lemma dedup_aux_NoDup seen l : NoDup (dedup_aux seen l).
Proof.
  revert seen. induction l as [|y l IH]; intros seen; cbn; [constructor|].
  destruct (mem_str y seen); [apply IH|]. constructor; [|apply IH].
  rewrite dedup_aux_In. cbn. tauto.
Qed.

Lemma dedup_NoDup l : NoDup (dedup l).
Proof. apply dedup_aux_NoDup. Qed.

(* ---------- insertion sort is a permutation ---------- *)
From Coq Require Import Permutation.

Lemma insert_perm {A} (ltb : A -> A -> bool) x l : Permutation (insert ltb x l) (x :: l).
Proof.
  induction l as [|y l IH]; cbn; [reflexivity|].
  destruct (ltb x y); [reflexivity|]. rewrite IH. apply perm_swap.
Qed.

Lemma sort_perm {A} (ltb : A -> A -> bool) l : Permutation (sort ltb l) l.
Proof.
  unfold sort. enough (H : forall acc, Permutation (fold_left (fun acc x => insert ltb x acc) l acc) (l ++ acc)).
  { rewrite H. now rewrite app_nil_r. }
  induction l as [|x l IH]; intros acc; cbn; [reflexivity|].
  rewrite IH. rewrite insert_perm. symmetry. apply Permutation_middle.
Qed.

Lemma sort_In {A} (ltb : A -> A -> bool) l x : In x (sort ltb l) <-> In x l.
Proof. split; apply Permutation_in; [apply sort_perm | symmetry; apply sort_perm]. Qed.

(* ---------- Kahn layering ---------- *)
Lemma rank_of_lt_length ls v : (exists l, In l ls /\ In v l) -> rank_of ls v < length ls.
Proof.
  induction ls as [|l ls IH]; intros [l0 [H1 H2]]; [destruct H1|]. cbn.
  destruct (mem_str v l) eqn:E; [lia|]. apply mem_str_not_In in E.
  destruct H1 as [->|H1]; [contradiction|]. apply -> Nat.succ_lt_mono. apply IH. eauto.
Qed.

Lemma kahn_cons fuel g r0 rem0 :
  kahn (S fuel) g (r0 :: rem0) =
  match filter (ready g (r0 :: rem0)) (r0 :: rem0) with
  | [] => None
  | a :: b => match kahn fuel g (diff_str (r0 :: rem0) (a :: b)) with Some ls => Some ((a :: b) :: ls) | None => None end
  end.
Proof. reflexivity. Qed.

(* soundness: every remaining node gets a layer, and predecessors that are still remaining come strictly earlier *)
Lemma kahn_sound g : forall fuel rem ls,
  kahn fuel g rem = Some ls ->
  length ls <= fuel
  /\ (forall v, In v rem -> exists l, In l ls /\ In v l)
  /\ (forall u v, In v rem -> In u rem -> In u (preds g v) -> rank_of ls u < rank_of ls v).
Proof.
  induction fuel as [|fuel IH]; intros rem ls H.
  - destruct rem; cbn in H; [|discriminate]. inversion H; subst. cbn. repeat split; [lia| |]; intros; contradiction.
  - destruct rem as [|r0 rem0]; [cbn in H; inversion H; subst; cbn; repeat split; [lia| |]; intros; contradiction|].
    rewrite kahn_cons in H. set (rem := r0 :: rem0) in *.
    destruct (filter (ready g rem) rem) as [|a b] eqn:El; [discriminate|].
    set (layer := a :: b) in *.
    destruct (kahn fuel g (diff_str rem layer)) as [ls'|] eqn:Ek; [|discriminate].
    inversion H; subst ls. clear H.
    destruct (IH _ _ Ek) as [Hlen [Hcov Hord]].
    assert (Hlay : forall v, In v layer <-> In v rem /\ ready g rem v = true).
    { intros v. subst layer. rewrite <- El. apply filter_In. }
    repeat split.
    + cbn. lia.
    + intros v Hv. destruct (in_dec str_eq_dec v layer) as [Hi|Hn].
      * exists layer. split; [now left|assumption].
      * destruct (Hcov v) as [l [Hl1 Hl2]]; [apply diff_str_In; tauto|]. exists l. split; [now right|assumption].
    + intros u v Hv Hu Hp. cbn [rank_of].
      destruct (mem_str v layer) eqn:Ev.
      * apply mem_str_In in Ev. apply Hlay in Ev as [_ Hr]. unfold ready in Hr.
        rewrite forallb_forall in Hr. specialize (Hr u Hp). apply negb_true_iff in Hr.
        apply mem_str_not_In in Hr. contradiction.
      * apply mem_str_not_In in Ev. destruct (mem_str u layer) eqn:Eu; [lia|].
        apply mem_str_not_In in Eu. apply -> Nat.succ_lt_mono. apply Hord; try (apply diff_str_In; tauto). assumption.
Qed.

Lemma topo_rank g ls :
  topo_generations g = Some ls ->
  (forall v, In v (nodes g) -> rank_of ls v < length (nodes g))
  /\ (forall u v, In v (nodes g) -> In u (nodes g) -> In (u, v) (edges g) -> rank_of ls u < rank_of ls v).
Proof.
  unfold topo_generations. intros H. destruct (kahn_sound _ _ _ _ H) as [Hlen [Hcov Hord]]. split.
  - intros v Hv. specialize (Hcov v Hv). apply rank_of_lt_length in Hcov. lia.
  - intros u v Hv Hu He. apply Hord; try assumption.
    unfold preds. apply in_map_iff. exists (u, v). split; [reflexivity|].
    apply filter_In. split; [assumption|]. cbn. apply str_eqb_refl.
Qed.
