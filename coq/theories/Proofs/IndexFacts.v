From Verif Require Import Base.Prelude Base.Index.

Lemma unravel_cons d t n : unravel (d :: t) n = (n / prod t) mod d :: unravel t n.
Proof. reflexivity. Qed.

Lemma prod_cons d t : prod (d :: t) = d * prod t.
Proof. reflexivity. Qed.

Lemma unravel_periodic t : forall i j, unravel t (i * prod t + j) = unravel t j.
Proof.
  induction t as [|d t IH]; intros i j; [reflexivity|].
  rewrite !unravel_cons, prod_cons. f_equal.
  - destruct (Nat.eq_dec (prod t) 0) as [E|NE].
    + rewrite E, Nat.mul_0_r, Nat.mul_0_r. reflexivity.
    + replace (i * (d * prod t) + j) with (j + (i * d) * prod t) by lia.
      rewrite Nat.div_add by exact NE.
      destruct (Nat.eq_dec d 0) as [Ed|NEd].
      * subst d. rewrite Nat.mul_0_r, Nat.add_0_r. reflexivity.
      * rewrite Nat.mod_add by exact NEd. reflexivity.
  - replace (i * (d * prod t) + j) with ((i * d) * prod t + j) by lia. apply IH.
Qed.

Lemma seq_add_map a n : seq a n = map (fun j => a + j) (seq 0 n).
Proof.
  revert a; induction n as [|n IH]; intros a; [reflexivity|].
  cbn [seq map]. rewrite Nat.add_0_r. f_equal.
  rewrite (IH (S a)), (IH 1), map_map. apply map_ext. intros; lia.
Qed.

Lemma seq_mul d P : seq 0 (d * P) = flat_map (fun i => map (fun j => i * P + j) (seq 0 P)) (seq 0 d).
Proof.
  induction d as [|d IH].
  - reflexivity.
  - rewrite seq_S, flat_map_app. cbn [flat_map]. rewrite app_nil_r, <- IH.
    replace (S d * P) with (d * P + P) by lia. rewrite seq_app. f_equal.
    cbn [Nat.add]. apply seq_add_map.
Qed.

Lemma flat_map_map {A B C} (f : B -> list C) (g : A -> B) l :
  flat_map f (map g l) = flat_map (fun x => f (g x)) l.
Proof. induction l as [|x l IH]; cbn; [reflexivity|]. now rewrite IH. Qed.

Lemma map_flat_map {A B C} (f : B -> C) (g : A -> list B) l :
  map f (flat_map g l) = flat_map (fun x => map f (g x)) l.
Proof. induction l as [|x l IH]; cbn; [reflexivity|]. now rewrite map_app, IH. Qed.

Lemma flat_map_ext_in {A B} (f g : A -> list B) l :
  (forall x, In x l -> f x = g x) -> flat_map f l = flat_map g l.
Proof.
  induction l as [|x l IH]; intros H; cbn; [reflexivity|].
  rewrite H by (left; reflexivity). rewrite IH; [reflexivity|]. intros; apply H; right; assumption.
Qed.

(* Row-major enumeration: the linear order 0..N-1 through _shape_to_key is itertools.product order. *)
Theorem unravel_enumerates sh : map (unravel sh) (seq 0 (prod sh)) = all_indices sh.
Proof.
  induction sh as [|d t IH]; [reflexivity|].
  rewrite prod_cons, seq_mul, map_flat_map. cbn [all_indices].
  apply flat_map_ext_in. intros i Hi. apply in_seq in Hi.
  rewrite map_map, <- IH, map_map. apply map_ext_in. intros j Hj. apply in_seq in Hj.
  rewrite unravel_cons, unravel_periodic. f_equal.
  assert (prod t <> 0) by lia.
  rewrite Nat.add_comm, Nat.div_add by assumption.
  rewrite (Nat.div_small j) by lia. cbn [Nat.add]. apply Nat.mod_small. lia.
Qed.

Lemma all_indices_length sh : length (all_indices sh) = prod sh.
Proof. rewrite <- unravel_enumerates, map_length, seq_length. reflexivity. Qed.

Lemma unravel_length sh n : length (unravel sh n) = length sh.
Proof.
  unfold unravel. rewrite map_length, combine_length.
  assert (length (strides sh) = length sh) as ->; [|lia].
  induction sh as [|d t IH]; cbn; [reflexivity|]. now rewrite IH.
Qed.

Lemma in_bounds_cons d sh k key : in_bounds (d :: sh) (k :: key) = (k <? d) && in_bounds sh key.
Proof. reflexivity. Qed.

Lemma ravel_cons d sh k key : ravel (d :: sh) (k :: key) = k * prod sh + ravel sh key.
Proof. reflexivity. Qed.

Lemma ravel_lt sh : forall key, in_bounds sh key = true -> ravel sh key < prod sh.
Proof.
  induction sh as [|d t IH]; intros [|k key] H; try discriminate; [cbn; lia|].
  rewrite in_bounds_cons in H. apply andb_true_iff in H as [Hk Hr]. apply Nat.ltb_lt in Hk.
  rewrite ravel_cons, prod_cons. specialize (IH _ Hr). nia.
Qed.

Theorem unravel_ravel sh : forall key, in_bounds sh key = true -> unravel sh (ravel sh key) = key.
Proof.
  induction sh as [|d t IH]; intros [|k key] H; try discriminate; [reflexivity|].
  rewrite in_bounds_cons in H. apply andb_true_iff in H as [Hk Hr]. apply Nat.ltb_lt in Hk.
  rewrite unravel_cons, ravel_cons, unravel_periodic, IH by assumption. f_equal.
  pose proof (ravel_lt _ _ Hr) as Hlt. assert (prod t <> 0) by lia.
  rewrite Nat.add_comm, Nat.div_add by assumption.
  rewrite (Nat.div_small _ _ Hlt). cbn [Nat.add]. apply Nat.mod_small. assumption.
Qed.

Lemma unravel_in_bounds sh : forall n, n < prod sh -> in_bounds sh (unravel sh n) = true.
Proof.
  induction sh as [|d t IH]; intros n Hn; [reflexivity|].
  rewrite unravel_cons, in_bounds_cons, prod_cons in *.
  assert (d <> 0) by lia. assert (prod t <> 0) by lia.
  apply andb_true_iff; split.
  - apply Nat.ltb_lt. apply Nat.mod_upper_bound. assumption.
  - rewrite (Nat.div_mod n (prod t)) by assumption.
    rewrite (Nat.mul_comm (prod t)), unravel_periodic. apply IH. apply Nat.mod_upper_bound. assumption.
Qed.

Theorem ravel_unravel sh : forall n, n < prod sh -> ravel sh (unravel sh n) = n.
Proof.
  induction sh as [|d t IH]; intros n Hn; [cbn in *; lia|].
  rewrite unravel_cons, ravel_cons, prod_cons in *.
  assert (d <> 0) by lia. assert (prod t <> 0) as HP by lia.
  pose proof (Nat.div_mod n (prod t) HP) as E.
  pose proof (Nat.mod_upper_bound n (prod t) HP) as Hr.
  assert (n / prod t < d) as Hq by (apply Nat.div_lt_upper_bound; [assumption|nia]).
  rewrite (Nat.mod_small _ _ Hq).
  assert (unravel t n = unravel t (n mod prod t)) as ->.
  { rewrite E at 1. rewrite (Nat.mul_comm (prod t)). apply unravel_periodic. }
  rewrite IH by assumption. nia.
Qed.

Lemma NoDup_map_inj_in {A B} (f : A -> B) l :
  (forall a b, In a l -> In b l -> f a = f b -> a = b) -> NoDup l -> NoDup (map f l).
Proof.
  induction l as [|x l IH]; intros Hinj Hnd; cbn; [constructor|].
  inversion Hnd as [|? ? Hx Hl]; subst. constructor.
  - intros Hin. apply in_map_iff in Hin as [y [Hy Hyin]]. apply Hx.
    rewrite <- (Hinj y x); auto; [right; assumption | left; reflexivity].
  - apply IH; [|assumption]. intros a b Ha Hb. apply Hinj; right; assumption.
Qed.

Lemma all_indices_NoDup sh : NoDup (all_indices sh).
Proof.
  rewrite <- unravel_enumerates.
  apply NoDup_map_inj_in; [|apply seq_NoDup].
  intros a b Ha Hb E. apply in_seq in Ha, Hb.
  rewrite <- (ravel_unravel sh a), <- (ravel_unravel sh b) by lia. now rewrite E.
Qed.

(* select_by_mask and its projections *)
Lemma ext_of_merge {A} (m : list bool) : forall (e i : list A),
  length e = length (filter id m) -> length i = length (filter negb m) ->
  ext_of m (merge m e i) = e /\ int_of m (merge m e i) = i.
Proof.
  induction m as [|[|] m IH]; intros e i He Hi; cbn in *.
  - destruct e, i; try discriminate; auto.
  - destruct e as [|x e]; [discriminate|]. injection He as He. destruct (IH e i He Hi) as [H1 H2].
    cbn. rewrite H1, H2. auto.
  - destruct i as [|x i]; [discriminate|]. injection Hi as Hi. destruct (IH e i He Hi) as [H1 H2].
    cbn. rewrite H1, H2. auto.
Qed.

Lemma merge_ext_int {A} (m : list bool) : forall (l : list A),
  length l = length m -> merge m (ext_of m l) (int_of m l) = l.
Proof.
  induction m as [|[|] m IH]; intros [|x l] H; try discriminate; cbn; try reflexivity;
    injection H as H; now rewrite IH.
Qed.
