(* Order facts about the linear index: ravel is injective on in-bounds keys and strictly monotone for the
   lexicographic order of positions (this is what "row-major" means pointwise). Proofs only. *)
From Coq Require Import List Arith Lia Bool.
From Verif Require Import Base.Prelude Base.Index Proofs.IndexFacts.
Import ListNotations.

Fixpoint lex_lt (a b : list nat) : Prop :=
  match a, b with
  | x :: a', y :: b' => x < y \/ (x = y /\ lex_lt a' b')
  | _, _ => False
  end.

Lemma ravel_inj sh : forall k1 k2,
  in_bounds sh k1 = true -> in_bounds sh k2 = true -> ravel sh k1 = ravel sh k2 -> k1 = k2.
Proof.
  intros k1 k2 H1 H2 E.
  rewrite <- (unravel_ravel sh k1 H1), <- (unravel_ravel sh k2 H2), E. reflexivity.
Qed.

Lemma ravel_lex_mono sh : forall a b,
  in_bounds sh a = true -> in_bounds sh b = true -> lex_lt a b -> ravel sh a < ravel sh b.
Proof.
  induction sh as [|d t IH]; intros [|x a] [|y b] Ha Hb Hl; try discriminate; try (cbn in Hl; contradiction).
  rewrite in_bounds_cons in Ha, Hb.
  apply andb_true_iff in Ha as [_ Ha]. apply andb_true_iff in Hb as [_ Hb].
  rewrite !ravel_cons.
  pose proof (ravel_lt t a Ha) as La. pose proof (ravel_lt t b Hb) as Lb.
  cbn [lex_lt] in Hl. destruct Hl as [Hxy | [Hxy Hr]].
  - nia.
  - subst y. specialize (IH a b Ha Hb Hr). lia.
Qed.

(* the converse: a smaller linear index belongs to a lexicographically smaller position *)
Lemma lex_lt_total : forall a b, length a = length b -> a <> b -> lex_lt a b \/ lex_lt b a.
Proof.
  induction a as [|x a IH]; intros [|y b] Hl Hn; try discriminate; [congruence|].
  cbn [lex_lt]. destruct (Nat.lt_trichotomy x y) as [H | [H | H]]; [left; left; exact H | | right; left; exact H].
  subst y. assert (a <> b) as Hab by congruence. injection Hl as Hl.
  destruct (IH b Hl Hab) as [H | H]; [left | right]; right; split; auto.
Qed.

Lemma in_bounds_length sh : forall k, in_bounds sh k = true -> length k = length sh.
Proof.
  induction sh as [|d t IH]; intros [|x k] H; try discriminate; [reflexivity|].
  rewrite in_bounds_cons in H. apply andb_true_iff in H as [_ H]. cbn [length]. now rewrite (IH k H).
Qed.

Lemma ravel_lt_lex sh a b :
  in_bounds sh a = true -> in_bounds sh b = true -> ravel sh a < ravel sh b -> lex_lt a b.
Proof.
  intros Ha Hb Hr.
  assert (a <> b) as Hn by (intros ->; lia).
  destruct (lex_lt_total a b) as [H | H]; [ | assumption | exact H | ].
  - now rewrite (in_bounds_length sh a Ha), (in_bounds_length sh b Hb).
  - pose proof (ravel_lex_mono sh b a Hb Ha H). lia.
Qed.

(* itertools.product order: all_indices is strictly increasing for the lexicographic order *)
From Coq Require Import Sorted.

Lemma StronglySorted_map_seq {A} (R : A -> A -> Prop) (f : nat -> A) : forall n a,
  (forall i j, a <= i -> i < j -> j < a + n -> R (f i) (f j)) ->
  StronglySorted R (map f (seq a n)).
Proof.
  induction n as [|n IH]; intros a H; cbn [seq map]; constructor.
  - apply IH. intros i j Hi Hij Hj. apply H; lia.
  - apply Forall_forall. intros x Hx. apply in_map_iff in Hx as [j [<- Hj]]. apply in_seq in Hj.
    apply H; lia.
Qed.

Lemma all_indices_lex_sorted sh : StronglySorted lex_lt (all_indices sh).
Proof.
  rewrite <- unravel_enumerates. apply StronglySorted_map_seq.
  intros i j _ Hij Hj. cbn [Nat.add] in Hj.
  apply (ravel_lt_lex sh); try (apply unravel_in_bounds; lia).
  rewrite !ravel_unravel by lia. exact Hij.
Qed.

Lemma unravel_inj sh i j : i < prod sh -> j < prod sh -> unravel sh i = unravel sh j -> i = j.
Proof. intros Hi Hj E. rewrite <- (ravel_unravel sh i Hi), <- (ravel_unravel sh j Hj), E. reflexivity. Qed.

(* all_indices lists exactly the in-range positions *)
Lemma all_indices_iff_in_bounds sh idx : In idx (all_indices sh) <-> in_bounds sh idx = true.
Proof.
  rewrite <- unravel_enumerates. split.
  - intros H. apply in_map_iff in H as [n [<- Hn]]. apply in_seq in Hn. apply unravel_in_bounds. lia.
  - intros H. apply in_map_iff. exists (ravel sh idx). split; [apply unravel_ravel; exact H|].
    apply in_seq. pose proof (ravel_lt sh idx H). lia.
Qed.
