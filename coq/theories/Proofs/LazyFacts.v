(* Facts about Model/Lazy.v. Part 1: structural invariants of the lazy run (no user code runs, the recorded
   task graph is acyclic and has exactly the argument edges). *)
From Verif Require Import Base.Prelude Base.StrOrd Base.Graph Model.Pipe Model.Lazy Proofs.GraphFacts Proofs.PipeFacts.
From Coq Require Import Permutation.

(* ---------- llist ---------- *)
Lemma lget_Some_In l k a : lget l k = Some a -> In (k, a) l.
Proof.
  induction l as [|[k' a'] l IH]; cbn; [discriminate|]. destruct (str_eqb k k') eqn:E.
  - intros H. inversion H; subst. apply str_eqb_eq in E. subst. now left.
  - intros H. right. auto.
Qed.

Lemma lget_lset_same l k v : lget (lset l k v) k = Some v.
Proof.
  induction l as [|[k' v'] l IH]; cbn; [now rewrite str_eqb_refl|].
  destruct (str_eqb k k') eqn:E; cbn; rewrite E; [reflexivity|assumption].
Qed.

Lemma lget_lset_other l k k' v : k <> k' -> lget (lset l k v) k' = lget l k'.
Proof.
  intros Hn. induction l as [|[k0 v0] l IH]; cbn.
  - assert (E : str_eqb k' k = false) by (apply str_eqb_neq; congruence). now rewrite E.
  - destruct (str_eqb k k0) eqn:E; cbn; [|now rewrite IH].
    apply str_eqb_eq in E. subst k0.
    assert (E : str_eqb k' k = false) by (apply str_eqb_neq; congruence). now rewrite E.
Qed.

Lemma lhas_true_iff l k : lhas l k = true <-> exists a, lget l k = Some a.
Proof. unfold lhas. destruct (lget l k); split; intros H; eauto; try discriminate. now destruct H. Qed.
Lemma lhas_false_iff l k : lhas l k = false <-> lget l k = None.
Proof. unfold lhas. destruct (lget l k); split; intros H; auto; discriminate. Qed.

Lemma lset_In l k v k' a : In (k', a) (lset l k v) -> (k' = k /\ a = v) \/ In (k', a) l.
Proof.
  induction l as [|[k0 v0] l IH]; cbn.
  - intros [H|[]]. inversion H; subst. now left.
  - destruct (str_eqb k k0) eqn:E; cbn.
    + apply str_eqb_eq in E. subst k0. intros [H|H]; [inversion H; subst; now left|right; now right].
    + intros [H|H]; [right; now left|]. destruct (IH H) as [H1|H1]; [now left|right; now right].
Qed.

(* ---------- structural invariant ---------- *)
Section Structure.
  Variable p : pipeline.
  Variable kw : alist.
  Variable dagon : bool.

  Record SInv (st : lstate) : Prop := {
    si_memo : forall nd, In nd (lheap st) -> memo nd = None;
    si_res : forall k r, In (k, ARef r) (lres st) -> r < length (lheap st);
    si_refs : forall i nd, nth_error (lheap st) i = Some nd -> forall r, In r (refs_of (nargs nd)) -> r < i;
    si_dag : forall a b, In (a, b) (ldag st) <->
                         dagon = true /\ exists nd, nth_error (lheap st) b = Some nd /\ In a (refs_of (nargs nd));
  }.

  Lemma SInv_init : SInv (linit kw).
  Proof.
    constructor; cbn.
    - intros nd [].
    - intros k r H. apply in_map_iff in H as [[k' v] [H _]]. discriminate.
    - intros i nd H. destruct i; discriminate.
    - intros a b. split; [intros []|]. intros [_ [nd [H _]]]. destruct b; discriminate.
  Qed.

  Lemma SInv_use st k : SInv st -> SInv (ls_use st k).
  Proof. intros [H1 H2 H3 H4]. constructor; cbn; assumption. Qed.

  Lemma SInv_set st k r : SInv st -> r < length (lheap st) -> SInv (ls_set st k (ARef r)).
  Proof.
    intros [H1 H2 H3 H4] Hr. constructor; cbn; try assumption.
    intros k' r' H. apply lset_In in H as [[_ E]|H]; [inversion E; subst; assumption|eauto].
  Qed.

  Lemma SInv_alloc st nd st' id : SInv st -> memo nd = None ->
    (forall r, In r (refs_of (nargs nd)) -> r < length (lheap st)) ->
    alloc dagon st nd = (st', id) ->
    SInv st' /\ id = length (lheap st) /\ lheap st' = lheap st ++ [nd] /\ lres st' = lres st /\ lused st' = lused st.
  Proof.
    intros [H1 H2 H3 H4] Hm Hr Ha. unfold alloc in Ha. inversion Ha; subst st' id. clear Ha. cbn.
    split; [|auto]. constructor; cbn.
    - intros nd' H. apply in_app_iff in H as [H|[<-|[]]]; auto.
    - intros k r H. rewrite app_length. cbn. apply H2 in H. lia.
    - intros i nd' H r Hin. destruct (Nat.lt_ge_cases i (length (lheap st))) as [Hlt|Hge].
      + rewrite nth_error_app1 in H by assumption. eauto.
      + rewrite nth_error_app2 in H by assumption. destruct (i - length (lheap st)) eqn:E; cbn in H; [|destruct n; discriminate].
        inversion H; subst nd'. apply Hr in Hin. lia.
    - intros a b. destruct dagon eqn:Ed.
      + rewrite in_app_iff, H4. split.
        * intros [[_ [nd' [N1 N2]]]|H].
          -- split; [reflexivity|]. exists nd'. split; [|assumption]. rewrite nth_error_app1; [assumption|].
             apply nth_error_Some. congruence.
          -- apply in_map_iff in H as [r [E Hin]]. inversion E; subst a b. split; [reflexivity|]. exists nd.
             split; [|assumption]. rewrite nth_error_app2 by lia. now rewrite Nat.sub_diag.
        * intros [_ [nd' [N1 N2]]]. destruct (Nat.lt_ge_cases b (length (lheap st))) as [Hlt|Hge].
          -- left. split; [reflexivity|]. rewrite nth_error_app1 in N1 by assumption. eauto.
          -- right. rewrite nth_error_app2 in N1 by assumption.
             destruct (b - length (lheap st)) eqn:E; cbn in N1; [|destruct n; discriminate].
             inversion N1; subst nd'. assert (b = length (lheap st)) by lia. subst b.
             apply in_map_iff. eauto.
      + rewrite H4. split; intros [H _]; discriminate.
  Qed.

  Definition RefOK (st : lstate) (a : larg) : Prop := match a with ARef r => r < length (lheap st) | AVal _ => True end.

  Definition SRec (rec : lstate -> str -> lstate * result larg) : Prop :=
    forall st o st' r, SInv st -> rec st o = (st', r) ->
      SInv st' /\ length (lheap st) <= length (lheap st') /\ (forall a, r = Ok a -> RefOK st' a).

  Lemma lresolve_S rec f st cur st' r : SRec rec -> SInv st -> lresolve p kw rec f st cur = (st', r) ->
    SInv st' /\ length (lheap st) <= length (lheap st') /\ (forall a, r = Ok a -> RefOK st' a).
  Proof.
    intros Hrec HI. unfold lresolve.
    assert (Hv : forall v, SInv st /\ length (lheap st) <= length (lheap st) /\ (forall a, Ok (AVal v) = Ok a -> RefOK st a)).
    { intros v. split; [assumption|]. split; [lia|]. intros a E. inversion E. exact I. }
    destruct (aget (bound f) cur); [intros H; inversion H; subst; apply Hv|].
    destruct (aget kw cur); [intros H; inversion H; subst; apply Hv|].
    destruct (is_output p cur); [now apply Hrec|].
    destruct (pdefault p cur); intros H; inversion H; subst; [apply Hv|].
    split; [assumption|]. split; [lia|]. intros a E. discriminate.
  Qed.

  Lemma lget_args_S rec f : SRec rec -> forall ps st acc st' r, SInv st ->
    (forall k r0, In (k, ARef r0) acc -> r0 < length (lheap st)) ->
    lget_args p kw rec f ps st acc = (st', r) ->
    SInv st' /\ length (lheap st) <= length (lheap st')
    /\ (forall args, r = Ok args -> forall k r0, In (k, ARef r0) args -> r0 < length (lheap st')).
  Proof.
    intros Hrec. induction ps as [|[cur orig] t IH]; intros st acc st' r HI Hacc H; cbn in H.
    - inversion H; subst. split; [assumption|]. split; [lia|]. intros args E. inversion E; subst. exact Hacc.
    - destruct (lresolve p kw rec f st cur) as [st1 rv] eqn:Er.
      destruct (lresolve_S rec f st cur st1 rv Hrec HI Er) as [HI1 [Hlen Hok]].
      destruct rv as [a|e].
      + apply IH in H; [| now apply SInv_use |].
        * cbn in H. destruct H as [H1 [H2 H3]]. split; [assumption|]. split; [lia|assumption].
        * cbn. intros k r0 Hin. apply in_app_iff in Hin as [Hin|[Hin|[]]].
          -- apply Hacc in Hin. lia.
          -- inversion Hin; subst. apply (Hok (ARef r0) eq_refl).
      + inversion H; subst. split; [assumption|]. split; [lia|]. intros args E. discriminate.
  Qed.

  Lemma refs_of_In args r : In r (refs_of args) <-> exists k, In (k, ARef r) args.
  Proof.
    unfold refs_of. rewrite in_flat_map. split.
    - intros [[k a] [H1 H2]]. cbn in H2. destruct a; [contradiction|]. destruct H2 as [<-|[]]. eauto.
    - intros [k H]. exists (k, ARef r). split; [assumption|now left].
  Qed.

  Lemma lupdate_S f id : forall st, SInv st -> id < length (lheap st) ->
    SInv (lupdate dagon f id st) /\ length (lheap st) <= length (lheap (lupdate dagon f id st)).
  Proof.
    intros st HI Hid. unfold lupdate. destruct (multi f).
    - revert st HI Hid. induction (outs f) as [|n l IH]; intros st HI Hid; cbn [fold_left]; [auto|].
      destruct (lhas (lres st) n); [now apply IH|].
      destruct (alloc dagon st {| nk := NPick n; nargs := [([], ARef id)]; memo := None |}) as [s1 pid] eqn:Ea.
      assert (Hr : forall r, In r (refs_of (nargs {| nk := NPick n; nargs := [([], ARef id)]; memo := None |})) -> r < length (lheap st)).
      { cbn. intros r [<-|[]]. assumption. }
      destruct (SInv_alloc st {| nk := NPick n; nargs := [([], ARef id)]; memo := None |} s1 pid HI eq_refl Hr Ea)
        as [HI1 [Ep [Eh [Er Eu]]]].
      assert (Hlen : length (lheap s1) = S (length (lheap st))) by (rewrite Eh, app_length; cbn; lia).
      destruct (IH (ls_set s1 n (ARef pid))) as [H1 H2].
      + apply SInv_set; [assumption|]. lia.
      + cbn. lia.
      + split; [assumption|]. change (lheap (ls_set s1 n (ARef pid))) with (lheap s1) in H2. lia.
    - split; [|cbn; lia]. now apply SInv_set.
  Qed.

  Lemma lazy_run_out_S : forall n, SRec (lazy_run_out p kw dagon n).
  Proof.
    induction n as [|n IH]; intros st o st' r HI H; cbn [lazy_run_out] in H.
    - inversion H; subst. split; [assumption|]. split; [lia|]. intros a E; discriminate.
    - destruct (lget (lres st) o) as [a|] eqn:Eg.
      { inversion H; subst. split; [assumption|]. split; [lia|]. intros a' E. inversion E; subst a'.
        apply lget_Some_In in Eg. destruct a; [exact I|]. cbn. eapply si_res; eauto. }
      destruct (producer p o) as [f|]; [|inversion H; subst; split; [assumption|]; split; [lia|]; intros a E; discriminate].
      destruct (lget_args p kw (lazy_run_out p kw dagon n) f (params f) st []) as [st1 ra] eqn:Ega.
      destruct (lget_args_S _ f IH (params f) st [] st1 ra HI (fun k r0 F => match F with end) Ega) as [HI1 [Hlen1 Hargs]].
      destruct ra as [args|e]; [|inversion H; subst; split; [assumption|]; split; [lia|]; intros a E; discriminate].
      destruct (alloc dagon st1 {| nk := NFun f; nargs := args; memo := None |}) as [st2 id] eqn:Ea.
      assert (Hr : forall r0, In r0 (refs_of args) -> r0 < length (lheap st1)).
      { intros r0 Hin. apply refs_of_In in Hin as [k Hin]. eapply Hargs; eauto. }
      destruct (SInv_alloc st1 {| nk := NFun f; nargs := args; memo := None |} st2 id HI1 eq_refl Hr Ea) as [HI2 [Eid [Eh [Er Eu]]]].
      assert (Hid : id < length (lheap st2)) by (rewrite Eh, app_length; cbn; lia).
      destruct (lupdate_S f id st2 HI2 Hid) as [HI3 Hlen3].
      inversion H; subst st' r. clear H. split; [assumption|]. split.
      { rewrite Eh, app_length in Hlen3. cbn in Hlen3. lia. }
      intros a E. destruct (lget (lres (lupdate dagon f id st2)) o) as [a'|] eqn:Eg'; [|discriminate].
      inversion E; subst a'. apply lget_Some_In in Eg'. destruct a; [exact I|]. cbn. eapply si_res; eauto.
  Qed.

  Theorem lazy_run_structure o full r st : lazy_run p o kw full dagon = (r, st) -> SInv st.
  Proof.
    unfold lazy_run. destruct (negb (is_node p o)); [intros H; inversion H; subst; apply SInv_init|].
    destruct (ahas kw o); [intros H; inversion H; subst; apply SInv_init|].
    destruct (lazy_run_out p kw dagon (S (length p)) (linit kw) o) as [st1 r1] eqn:E.
    destruct (lazy_run_out_S _ _ _ _ _ SInv_init E) as [HI _].
    destruct r1; [|intros H; inversion H; subst; assumption].
    destruct (filter _ _); intros H; inversion H; subst; assumption.
  Qed.
End Structure.

Lemma Forall2_impl' {A B} (P Q : A -> B -> Prop) l l' :
  (forall a b, P a b -> Q a b) -> Forall2 P l l' -> Forall2 Q l l'.
Proof. intros H. induction 1; constructor; auto. Qed.

Lemma Forall2_app_r {A B} (P : A -> B -> Prop) l1 l2 a b :
  Forall2 P l1 l2 -> P a b -> Forall2 P (l1 ++ [a]) (l2 ++ [b]).
Proof. intros H Hab. induction H; cbn; constructor; auto. Qed.

Lemma Forall2_In_l {A B} (P : A -> B -> Prop) l l' a : Forall2 P l l' -> In a l -> exists b, In b l' /\ P a b.
Proof.
  induction 1; intros Hin; [contradiction|]. destruct Hin as [<-|Hin]; [exists y; split; [now left|assumption]|].
  destruct (IHForall2 Hin) as [b [H1 H2]]. exists b. split; [now right|assumption].
Qed.

Lemma Forall2_In_r {A B} (P : A -> B -> Prop) l l' b : Forall2 P l l' -> In b l' -> exists a, In a l /\ P a b.
Proof.
  induction 1; intros Hin; [contradiction|]. destruct Hin as [<-|Hin]; [exists x; split; [now left|assumption]|].
  destruct (IHForall2 Hin) as [a [H1 H2]]. exists a. split; [now right|assumption].
Qed.

(* ====================================================================================================
   Part 2: the heap built by a lazy run represents the specification (Pipe.eval / Pipe.needed).
   ==================================================================================================== *)
Section PhaseA.
  Variable p : pipeline.
  Variable kw : alist.
  Variable dagon : bool.
  Variable ls : list (list str).
  Hypothesis Hwf : wf_P p ls.

  Definition is_fnode (h : heap) (i : nat) (f : pfunc) : Prop :=
    exists nd, nth_error h i = Some nd /\ nk nd = NFun f.

  (* node r delivers output `cur` of g: g's own node (single output) or the picker of cur over g's node *)
  Definition points (h : heap) (r : nat) (g : pfunc) (cur : str) : Prop :=
    (multi g = false /\ is_fnode h r g) \/
    (multi g = true /\ exists nd r0, nth_error h r = Some nd /\ nk nd = NPick cur /\ nargs nd = [([], ARef r0)]
                                      /\ r0 < r /\ is_fnode h r0 g).

  Definition argprop (h : heap) (f : pfunc) (cur : str) (a : larg) : Prop :=
    match source_of p kw f cur with
    | SBound v | SKw v | SDefault v => a = AVal v
    | SUp g => exists r, a = ARef r /\ points h r g cur
    | SMissing => False
    end.
  Definition arg_ok (h : heap) (i : nat) (f : pfunc) (po : str * str) (ka : str * larg) : Prop :=
    fst ka = snd po /\ argprop h f (fst po) (snd ka) /\ (forall r, snd ka = ARef r -> r < i).

  Definition node_ok (h : heap) (i : nat) (nd : node) : Prop :=
    match nk nd with
    | NFun f => In f p /\ Forall2 (arg_ok h i f) (params f) (nargs nd)
    | NPick n => exists r0 g, nargs nd = [([], ARef r0)] /\ r0 < i /\ is_fnode h r0 g /\ In n (outs g)
                              /\ multi g = true /\ In g p
    end.
  Definition good (h : heap) : Prop := forall i nd, nth_error h i = Some nd -> node_ok h i nd.

  Lemma is_fnode_app h h' i f : is_fnode h i f -> is_fnode (h ++ h') i f.
  Proof.
    intros [nd [H1 H2]]. exists nd. split; [|assumption]. rewrite nth_error_app1; [assumption|].
    apply nth_error_Some. congruence.
  Qed.

  Lemma is_fnode_lt h i f : is_fnode h i f -> i < length h.
  Proof. intros [nd [H _]]. apply nth_error_Some. congruence. Qed.

  Lemma points_app h h' r g cur : points h r g cur -> points (h ++ h') r g cur.
  Proof.
    intros [[H1 H2]|[H1 [nd [r0 [N1 [N2 [N3 [N4 N5]]]]]]]].
    - left. split; [assumption|now apply is_fnode_app].
    - right. split; [assumption|]. exists nd, r0. repeat split; auto.
      + rewrite nth_error_app1; [assumption|]. apply nth_error_Some. congruence.
      + now apply is_fnode_app.
  Qed.

  Lemma points_lt h r g cur : points h r g cur -> r < length h.
  Proof.
    intros [[_ H]|[_ [nd [r0 [N1 _]]]]]; [now apply is_fnode_lt in H|]. apply nth_error_Some. congruence.
  Qed.

  Lemma argprop_app h h' f cur a : argprop h f cur a -> argprop (h ++ h') f cur a.
  Proof.
    unfold argprop. destruct (source_of p kw f cur); auto. intros [r [H1 H2]]. exists r. split; [assumption|].
    now apply points_app.
  Qed.

  Lemma node_ok_app h h' i nd : node_ok h i nd -> node_ok (h ++ h') i nd.
  Proof.
    unfold node_ok. destruct (nk nd) as [f|n].
    - intros [H1 H2]. split; [assumption|]. eapply Forall2_impl'; [|exact H2].
      intros po ka [A1 [A2 A3]]. repeat split; auto. now apply argprop_app.
    - intros [r0 [g [H1 [H2 [H3 H4]]]]]. exists r0, g. repeat split; try tauto. now apply is_fnode_app.
  Qed.

  Lemma good_snoc h nd : good h -> node_ok (h ++ [nd]) (length h) nd -> good (h ++ [nd]).
  Proof.
    intros Hg Hn i nd' H. destruct (Nat.lt_ge_cases i (length h)) as [Hlt|Hge].
    - rewrite nth_error_app1 in H by assumption. apply node_ok_app. now apply Hg.
    - rewrite nth_error_app2 in H by assumption. destruct (i - length h) eqn:E; cbn in H; [|destruct n; discriminate].
      inversion H; subst nd'. assert (i = length h) by lia. now subst i.
  Qed.

  Lemma good_fnode_in_p h i f : good h -> is_fnode h i f -> In f p.
  Proof. intros Hg [nd [H1 H2]]. specialize (Hg i nd H1). unfold node_ok in Hg. rewrite H2 in Hg. tauto. Qed.

  Record LInv0 (st : lstate) : Prop := {
    li_good : good (lheap st);
    li_kw : forall k v, aget kw k = Some v -> lget (lres st) k = Some (AVal v);
    li_sound : forall k a, aget kw k = None -> lget (lres st) k = Some a ->
               exists g r, producer p k = Some g /\ a = ARef r /\ points (lheap st) r g k;
    li_unique : forall i j f, is_fnode (lheap st) i f -> is_fnode (lheap st) j f -> i = j;
  }.
  Definition complete_for (st : lstate) (f : pfunc) : Prop :=
    forall i o', is_fnode (lheap st) i f -> In o' (outs f) -> lhas (lres st) o' = true.
  Definition LInv (st : lstate) : Prop := LInv0 st /\ forall f, complete_for st f.

  Lemma lget_linit k : lget (map (fun kv : str * str => (fst kv, AVal (snd kv))) kw) k = option_map AVal (aget kw k).
  Proof.
    induction kw as [|[k' v] t IH]; cbn; [reflexivity|]. destruct (str_eqb k k'); [reflexivity|assumption].
  Qed.

  Lemma LInv_init : LInv (linit kw).
  Proof.
    split; [constructor|]; cbn.
    - intros i nd H. destruct i; discriminate.
    - intros k v H. now rewrite lget_linit, H.
    - intros k a H1 H2. rewrite lget_linit, H1 in H2. discriminate.
    - intros i j f [nd [H _]]. destruct i; discriminate.
    - intros f i o' [nd [H _]]. destruct i; discriminate.
  Qed.

  Lemma LInv_use st k : LInv st -> LInv (ls_use st k).
  Proof. intros [[H1 H2 H3 H4] H5]. split; [constructor|]; cbn; assumption. Qed.

  Definition allocated (new : heap) (g : pfunc) : Prop := exists nd, In nd new /\ nk nd = NFun g.

  Record LDelta (st st' : lstate) (new : heap) : Prop := {
    ld_heap : lheap st' = lheap st ++ new;
    ld_used : forall k, In k (lused st') <-> In k (lused st) \/ exists g, allocated new g /\ In k (pnames g);
    ld_res : forall k x, lget (lres st) k = Some x -> lget (lres st') k = Some x;
  }.

  Lemma LDelta_nil st : LDelta st st [].
  Proof.
    constructor; [now rewrite app_nil_r| |auto]. intros k. split; [auto|]. intros [H|[g [[nd [[] _]] _]]]. exact H.
  Qed.

  Definition LPost (n : nat) (st : lstate) (o : str) (st' : lstate) (a : larg) : Prop :=
    LInv st' /\ lget (lres st') o = Some a /\ exists new, LDelta st st' new
      /\ (forall g, allocated new g -> In g (needed n p kw o))
      /\ (forall g, In g (needed n p kw o) -> exists i, is_fnode (lheap st') i g).

  Definition LRecOK (n : nat) : Prop :=
    forall st o st' a, LInv st -> rk p ls o < n -> aget kw o = None ->
      lazy_run_out p kw dagon n st o = (st', Ok a) -> LPost n st o st' a.

  Lemma fnode_closed st : LInv st -> forall i f g, is_fnode (lheap st) i f -> In g (ups p kw f) ->
    exists j, is_fnode (lheap st) j g.
  Proof.
    intros [HI _] i f g [nd [N1 N2]] Hg. pose proof (li_good _ HI i nd N1) as Hn. unfold node_ok in Hn. rewrite N2 in Hn.
    destruct Hn as [Hf HF]. apply (ups_in p kw) in Hg as [cur [Hcur Es]].
    apply in_map_iff in Hcur as [[c o'] [E Hin]]. cbn in E. subst c.
    destruct (Forall2_In_l _ _ _ _ HF Hin) as [ka [_ [_ [Ha _]]]]. cbn in Ha. unfold argprop in Ha. rewrite Es in Ha.
    destruct Ha as [r [_ [[_ Hp]|[_ [nd' [r0 [_ [_ [_ [_ Hp]]]]]]]]]]; eauto.
  Qed.

  Lemma needed_allocated st : LInv st -> forall n o f, producer p o = Some f -> (exists i, is_fnode (lheap st) i f) ->
    forall g, In g (needed n p kw o) -> exists j, is_fnode (lheap st) j g.
  Proof.
    intros HI. induction n as [|n IH]; intros o f Ef Hl g Hg; [contradiction|].
    rewrite (needed_S p kw), Ef in Hg. destruct Hg as [<-|Hg]; [assumption|].
    apply in_flat_map in Hg as [cur [Hcur Hg]]. destruct (source_of p kw f cur) as [| |h| |] eqn:Es; try contradiction.
    destruct Hl as [i Hi].
    assert (Hh : exists j, is_fnode (lheap st) j h). { eapply fnode_closed; eauto. apply (ups_in p kw). eauto. }
    apply (source_SUp p kw) in Es as [_ [_ Eh]]. eapply IH; eauto.
  Qed.

  Lemma argprop_ref_lt h f cur r : argprop h f cur (ARef r) -> r < length h.
  Proof.
    unfold argprop. destruct (source_of p kw f cur); try discriminate; try contradiction.
    intros [r' [E Hp]]. inversion E; subst. eapply points_lt; eauto.
  Qed.

  Lemma lresolve_spec n f st cur st1 a :
    LRecOK n -> In f p -> frank ls f <= n -> In cur (pnames f) -> LInv st ->
    lresolve p kw (lazy_run_out p kw dagon n) f st cur = (st1, Ok a) ->
    LInv st1 /\ argprop (lheap st1) f cur a /\ exists new, LDelta st st1 new
      /\ (forall g, allocated new g -> exists h, source_of p kw f cur = SUp h /\ In g (needed n p kw cur))
      /\ (forall h g, source_of p kw f cur = SUp h -> In g (needed n p kw cur) -> exists i, is_fnode (lheap st1) i g).
  Proof.
    intros Hrec Hf Hn Hcur HI. unfold lresolve.
    assert (Hnoup : forall v, (forall h, source_of p kw f cur <> SUp h) -> argprop (lheap st) f cur (AVal v) ->
              LInv st /\ argprop (lheap st) f cur (AVal v) /\ exists new, LDelta st st new
                /\ (forall g, allocated new g -> exists h, source_of p kw f cur = SUp h /\ In g (needed n p kw cur))
                /\ (forall h g, source_of p kw f cur = SUp h -> In g (needed n p kw cur) -> exists i, is_fnode (lheap st) i g)).
    { intros v Hno Ha. split; [assumption|]. split; [assumption|]. exists []. split; [apply LDelta_nil|]. split.
      - intros g [nd [[] _]].
      - intros h g E. exfalso. eapply Hno; eauto. }
    destruct (aget (bound f) cur) as [b|] eqn:Eb.
    { intros H. inversion H; subst. apply Hnoup.
      - intros h. unfold source_of. rewrite Eb. discriminate.
      - unfold argprop, source_of. now rewrite Eb. }
    destruct (aget kw cur) as [v0|] eqn:Ek.
    { intros H. inversion H; subst. apply Hnoup.
      - intros h. unfold source_of. rewrite Eb, Ek. discriminate.
      - unfold argprop, source_of. now rewrite Eb, Ek. }
    destruct (is_output p cur) eqn:Eo.
    - apply is_output_true in Eo as [h Eh]. intros Hrun.
      assert (Hr : rk p ls cur < n).
      { rewrite (rk_producer p ls _ _ Eh). rewrite <- ahas_false_iff in Eb.
        pose proof (wf_rank_edge _ _ Hwf f h cur Hf Hcur Eb Eh). lia. }
      destruct (Hrec st cur st1 a HI Hr Ek Hrun) as [HI1 [Hget [new [Hd [Hsub Hall]]]]].
      assert (Es : source_of p kw f cur = SUp h) by now apply source_SUp_intro.
      split; [assumption|]. split.
      + unfold argprop. rewrite Es. destruct HI1 as [HI1 _].
        destruct (li_sound _ HI1 cur a Ek Hget) as [g [r [Eg [Ea Hp]]]]. rewrite Eh in Eg. inversion Eg; subst g. eauto.
      + exists new. split; [assumption|]. split; [intros g Hg; eauto|]. intros h' g E Hg. auto.
    - apply is_output_false in Eo. rewrite (pdefault_eq p ls Hwf).
      destruct (default_of p cur) as [d|] eqn:Ed; intros H; inversion H; subst.
      apply Hnoup.
      + intros h. unfold source_of. rewrite Eb, Ek, Eo, Ed. discriminate.
      + unfold argprop, source_of. now rewrite Eb, Ek, Eo, Ed.
  Qed.

  Definition LArgsPost (n : nat) (f : pfunc) (ps : list (str * str)) (st st' : lstate) (l : list (str * larg)) : Prop :=
    LInv st' /\ Forall2 (fun po ka => fst ka = snd po /\ argprop (lheap st') f (fst po) (snd ka)) ps l
    /\ exists new, lheap st' = lheap st ++ new
      /\ (forall k, In k (lused st') <-> In k (lused st) \/ In k (map fst ps) \/ exists g, allocated new g /\ In k (pnames g))
      /\ (forall k x, lget (lres st) k = Some x -> lget (lres st') k = Some x)
      /\ (forall g, allocated new g -> exists cur h, In cur (map fst ps) /\ source_of p kw f cur = SUp h /\ In g (needed n p kw cur))
      /\ (forall cur h g, In cur (map fst ps) -> source_of p kw f cur = SUp h -> In g (needed n p kw cur) ->
                         exists i, is_fnode (lheap st') i g).

  Lemma allocated_app new1 new2 g : allocated (new1 ++ new2) g <-> allocated new1 g \/ allocated new2 g.
  Proof.
    unfold allocated. split.
    - intros [nd [H1 H2]]. apply in_app_iff in H1 as [H1|H1]; eauto.
    - intros [[nd [H1 H2]]|[nd [H1 H2]]]; exists nd; (split; [apply in_app_iff|assumption]); auto.
  Qed.

  Lemma lget_args_spec n f : LRecOK n -> In f p -> frank ls f <= n ->
    forall ps st acc st' args, incl (map fst ps) (pnames f) -> LInv st ->
    lget_args p kw (lazy_run_out p kw dagon n) f ps st acc = (st', Ok args) ->
    exists l, args = acc ++ l /\ LArgsPost n f ps st st' l.
  Proof.
    intros Hrec Hf Hn. induction ps as [|[cur orig] t IH]; intros st acc st' args Hincl HI Hga.
    - cbn in Hga. inversion Hga; subst. exists []. rewrite app_nil_r. split; [reflexivity|].
      split; [assumption|]. split; [constructor|]. exists []. rewrite app_nil_r. split; [reflexivity|]. split.
      { intros k. cbn. split; [auto|]. intros [H|[[]|[g [[nd [[] _]] _]]]]. exact H. }
      split; [auto|]. split; [intros g [nd [[] _]]|]. intros cur h g [].
    - cbn [lget_args] in Hga. destruct (lresolve p kw (lazy_run_out p kw dagon n) f st cur) as [st1 rv] eqn:Er.
      destruct rv as [a|e]; [|discriminate].
      assert (Hcur : In cur (pnames f)) by (apply Hincl; now left).
      destruct (lresolve_spec n f st cur st1 a Hrec Hf Hn Hcur HI Er) as [HI1 [Ha [new1 [Hd1 [Hsub1 Hall1]]]]].
      assert (Hincl' : incl (map fst t) (pnames f)) by (intros x Hx; apply Hincl; now right).
      destruct (IH (ls_use st1 cur) (acc ++ [(orig, a)]) st' args Hincl' (LInv_use _ _ HI1) Hga) as [l [Eargs Hpost]].
      destruct Hpost as [HI2 [HF [new2 [Hh2 [Hu2 [Hr2 [Hsub2 Hall2]]]]]]].
      exists ((orig, a) :: l). split; [now rewrite Eargs, <- app_assoc|].
      cbn [ls_use lheap lused lres] in *.
      split; [assumption|]. split.
      { constructor; [|assumption]. cbn. split; [reflexivity|]. rewrite Hh2. now apply argprop_app. }
      exists (new1 ++ new2). split. { rewrite Hh2, (ld_heap _ _ _ Hd1). now rewrite app_assoc. }
      split.
      { intros k. rewrite Hu2. cbn [In]. rewrite (ld_used _ _ _ Hd1 k). cbn [map fst]. split.
        - intros [[E|[H|[g [G1 G2]]]]|[H|[g [G1 G2]]]].
          + right. left. now left.
          + now left.
          + right. right. exists g. split; [apply allocated_app; now left|assumption].
          + right. left. now right.
          + right. right. exists g. split; [apply allocated_app; now right|assumption].
        - intros [H|[[E|H]|[g [G1 G2]]]].
          + left. right. now left.
          + left. now left.
          + right. now left.
          + apply allocated_app in G1 as [G1|G1].
            * left. right. right. eauto.
            * right. right. eauto. }
      split. { intros k x H. apply Hr2. now apply (ld_res _ _ _ Hd1). }
      split.
      { intros g Hg. apply allocated_app in Hg as [Hg|Hg].
        - destruct (Hsub1 g Hg) as [h [G1 G2]]. exists cur, h. cbn. auto.
        - destruct (Hsub2 g Hg) as [cur' [h [G0 [G1 G2]]]]. exists cur', h. cbn. auto. }
      intros cur' h g [<-|Hc] Es Hg.
      + destruct (Hall1 h g Es Hg) as [i Hi]. exists i. rewrite Hh2. now apply is_fnode_app.
      + eapply Hall2; eauto.
  Qed.

  Lemma is_fnode_app_inv h new i f : is_fnode (h ++ new) i f -> is_fnode h i f \/ allocated new f.
  Proof.
    intros [nd [H1 H2]]. destruct (Nat.lt_ge_cases i (length h)) as [Hlt|Hge].
    - left. rewrite nth_error_app1 in H1 by assumption. exists nd. auto.
    - right. rewrite nth_error_app2 in H1 by assumption. exists nd. split; [eapply nth_error_In; eauto|assumption].
  Qed.

  Lemma lhas_lset l k v k' : lhas l k' = true -> lhas (lset l k v) k' = true.
  Proof.
    intros H. apply lhas_true_iff in H as [a H]. apply lhas_true_iff.
    destruct (str_eq_dec k k') as [<-|Hn]; [rewrite lget_lset_same; eauto|rewrite lget_lset_other by assumption; eauto].
  Qed.

  (* one picker allocation of _update_all_results *)
  Lemma picker_step f id s n :
    In f p -> multi f = true -> In n (outs f) -> LInv0 s -> is_fnode (lheap s) id f -> lhas (lres s) n = false ->
    forall s1 pid, alloc dagon s {| nk := NPick n; nargs := [([], ARef id)]; memo := None |} = (s1, pid) ->
    let s' := ls_set s1 n (ARef pid) in
    LInv0 s' /\ lheap s' = lheap s ++ [{| nk := NPick n; nargs := [([], ARef id)]; memo := None |}]
    /\ lused s' = lused s /\ lres s' = lset (lres s) n (ARef pid).
  Proof.
    intros Hf Hm Hn HI Hid Hhas s1 pid Ha. unfold alloc in Ha. inversion Ha; subst s1 pid. clear Ha. cbn.
    split; [|auto]. set (nd := {| nk := NPick n; nargs := [([], ARef id)]; memo := None |}).
    assert (Hnk : aget kw n = None).
    { destruct (aget kw n) as [v|] eqn:E; [|reflexivity]. apply (li_kw _ HI) in E.
      apply lhas_false_iff in Hhas. congruence. }
    constructor; cbn.
    - apply good_snoc; [apply (li_good _ HI)|]. unfold node_ok. cbn. exists id, f.
      repeat split; auto; [now apply is_fnode_lt in Hid|now apply is_fnode_app].
    - intros k v Hk. rewrite lget_lset_other; [now apply (li_kw _ HI)|]. intros ->. congruence.
    - intros k a Hk Hg. destruct (str_eq_dec n k) as [<-|Hne].
      + rewrite lget_lset_same in Hg. inversion Hg; subst a. exists f, (length (lheap s)).
        split; [apply producer_unique; auto; apply (wf_outs_nd _ _ Hwf)|]. split; [reflexivity|].
        right. split; [assumption|]. exists nd, id. repeat split.
        * rewrite nth_error_app2 by lia. now rewrite Nat.sub_diag.
        * now apply is_fnode_lt in Hid.
        * now apply is_fnode_app.
      + rewrite lget_lset_other in Hg by assumption. destruct (li_sound _ HI k a Hk Hg) as [g [r [G1 [G2 G3]]]].
        exists g, r. repeat split; auto. now apply points_app.
    - intros i j g Hi Hj. apply is_fnode_app_inv in Hi as [Hi|[nd' [[<-|[]] E]]]; [|discriminate].
      apply is_fnode_app_inv in Hj as [Hj|[nd' [[<-|[]] E]]]; [|discriminate]. eapply li_unique; eauto.
  Qed.

  Definition complete_except (s : lstate) (id : nat) : Prop :=
    forall g i o', is_fnode (lheap s) i g -> i <> id -> In o' (outs g) -> lhas (lres s) o' = true.

  Lemma fnode_same h i f g : is_fnode h i f -> is_fnode h i g -> f = g.
  Proof. intros [nd [H1 H2]] [nd' [H1' H2']]. rewrite H1 in H1'. inversion H1'; subst. congruence. Qed.

  Lemma lupdate_spec f id st2 :
    In f p -> LInv0 st2 -> is_fnode (lheap st2) id f -> complete_except st2 id ->
    (multi f = false -> aget kw (fid f) = None /\ lget (lres st2) (fid f) = None) ->
    let st3 := lupdate dagon f id st2 in
    LInv st3 /\ exists pk, lheap st3 = lheap st2 ++ pk /\ (forall nd g, In nd pk -> nk nd <> NFun g)
      /\ lused st3 = lused st2 /\ (forall k x, lget (lres st2) k = Some x -> lget (lres st3) k = Some x).
  Proof.
    intros Hf HI Hid Hcomp Hsingle. unfold lupdate. destruct (multi f) eqn:Em.
    - (* invariant of the loop over the output names *)
      assert (Hloop : forall l s, incl l (outs f) -> LInv0 s -> is_fnode (lheap s) id f -> complete_except s id ->
                let s' := fold_left (fun s n => if lhas (lres s) n then s
                            else let '(s1, pid) := alloc dagon s {| nk := NPick n; nargs := [([], ARef id)]; memo := None |} in
                                 ls_set s1 n (ARef pid)) l s in
                LInv0 s' /\ complete_except s' id /\ (forall n, In n l -> lhas (lres s') n = true)
                /\ exists pk, lheap s' = lheap s ++ pk /\ (forall nd g, In nd pk -> nk nd <> NFun g)
                   /\ lused s' = lused s /\ (forall k x, lget (lres s) k = Some x -> lget (lres s') k = Some x)
                   /\ (forall k, lhas (lres s) k = true -> lhas (lres s') k = true)).
      { induction l as [|n l IH]; intros s Hincl HIs Hids Hcs; cbn [fold_left].
        - split; [assumption|]. split; [assumption|]. split; [intros n []|]. exists []. rewrite app_nil_r.
          split; [reflexivity|]. split; [intros nd g []|]. split; [reflexivity|]. split; auto.
        - assert (Hn : In n (outs f)) by (apply Hincl; now left).
          assert (Hincl' : incl l (outs f)) by (intros x Hx; apply Hincl; now right).
          destruct (lhas (lres s) n) eqn:Eh.
          + destruct (IH s Hincl' HIs Hids Hcs) as [H1 [H2 [H3 [pk [P1 [P2 [P3 [P4 P5]]]]]]]].
            split; [assumption|]. split; [assumption|]. split.
            { intros x [<-|Hx]; [now apply P5|now apply H3]. }
            exists pk. split; [assumption|]. split; [assumption|]. split; [assumption|]. split; assumption.
          + destruct (alloc dagon s {| nk := NPick n; nargs := [([], ARef id)]; memo := None |}) as [s1 pid] eqn:Ea.
            destruct (picker_step f id s n Hf Em Hn HIs Hids Eh s1 pid Ea) as [HI' [Eh' [Eu' Er']]].
            set (s' := ls_set s1 n (ARef pid)) in *.
            assert (Hid' : is_fnode (lheap s') id f) by (rewrite Eh'; now apply is_fnode_app).
            assert (Hcs' : complete_except s' id).
            { intros g i o' Hi Hne Ho'. rewrite Eh' in Hi. apply is_fnode_app_inv in Hi as [Hi|[nd' [[<-|[]] E]]]; [|discriminate].
              rewrite Er'. apply lhas_lset. eapply Hcs; eauto. }
            destruct (IH s' Hincl' HI' Hid' Hcs') as [H1 [H2 [H3 [pk [P1 [P2 [P3 [P4 P5]]]]]]]].
            split; [assumption|]. split; [assumption|]. split.
            { intros x [<-|Hx]; [|now apply H3]. apply P5. rewrite Er'. apply lhas_true_iff. rewrite lget_lset_same. eauto. }
            exists ({| nk := NPick n; nargs := [([], ARef id)]; memo := None |} :: pk). split.
            { rewrite P1, Eh'. now rewrite <- app_assoc. }
            split. { intros nd g [<-|Hin]; [discriminate|eauto]. }
            split; [congruence|]. split.
            * intros k x Hk. apply P4. rewrite Er'. rewrite lget_lset_other; [assumption|].
              intros ->. apply lhas_false_iff in Eh. congruence.
            * intros k Hk. apply P5. rewrite Er'. now apply lhas_lset. }
      destruct (Hloop (outs f) st2 (incl_refl _) HI Hid Hcomp) as [H1 [H2 [H3 [pk [P1 [P2 [P3 [P4 P5]]]]]]]].
      split.
      + split; [assumption|]. intros g i o' Hi Ho'. destruct (Nat.eq_dec i id) as [->|Hne]; [|eapply H2; eauto].
        assert (Hid3 : is_fnode (lheap (fold_left (fun s n => if lhas (lres s) n then s
                            else let '(s1, pid) := alloc dagon s {| nk := NPick n; nargs := [([], ARef id)]; memo := None |} in
                                 ls_set s1 n (ARef pid)) (outs f) st2)) id f) by (rewrite P1; now apply is_fnode_app).
        rewrite (fnode_same _ _ _ _ Hi Hid3) in Ho'. now apply H3.
      + exists pk. split; [assumption|]. split; [assumption|]. split; assumption.
    - destruct (Hsingle eq_refl) as [Hk0 Hg0]. pose proof (wf_funcs _ _ Hwf f Hf) as Hff.
      pose proof (single_outs f Hff Em) as Hso.
      assert (HI3 : LInv0 (ls_set st2 (fid f) (ARef id))).
      { constructor; cbn.
        - apply (li_good _ HI).
        - intros k v Hk. rewrite lget_lset_other; [now apply (li_kw _ HI)|]. intros E. congruence.
        - intros k a Hk Hg. destruct (str_eq_dec (fid f) k) as [<-|Hne].
          + rewrite lget_lset_same in Hg. inversion Hg; subst a. exists f, id.
            split; [apply producer_unique; auto; [apply (wf_outs_nd _ _ Hwf)|rewrite Hso; now left]|].
            split; [reflexivity|]. left. auto.
          + rewrite lget_lset_other in Hg by assumption. apply (li_sound _ HI k a Hk Hg).
        - apply (li_unique _ HI). }
      split.
      + split; [assumption|]. intros g i o' Hi Ho'. cbn in Hi. destruct (Nat.eq_dec i id) as [->|Hne].
        * rewrite (fnode_same _ _ _ _ Hi Hid) in Ho'. rewrite Hso in Ho'. destruct Ho' as [<-|[]]. cbn.
          apply lhas_true_iff. rewrite lget_lset_same. eauto.
        * cbn. apply lhas_lset. eapply Hcomp; eauto.
      + exists []. rewrite app_nil_r. cbn. split; [reflexivity|]. split; [intros nd g []|]. split; [reflexivity|].
        intros k x Hk. rewrite lget_lset_other; [assumption|]. intros E. congruence.
  Qed.

  Lemma is_fnode_snoc_inv h nd i g : is_fnode (h ++ [nd]) i g -> is_fnode h i g \/ (i = length h /\ nk nd = NFun g).
  Proof.
    intros [nd' [H1 H2]]. destruct (Nat.lt_ge_cases i (length h)) as [Hlt|Hge].
    - left. rewrite nth_error_app1 in H1 by assumption. exists nd'. auto.
    - right. rewrite nth_error_app2 in H1 by assumption. destruct (i - length h) eqn:E; cbn in H1; [|destruct n; discriminate].
      inversion H1; subst nd'. split; [lia|assumption].
  Qed.

  Lemma points_fnode h r g cur : points h r g cur -> exists i, is_fnode h i g.
  Proof. intros [[_ H]|[_ [nd [r0 [_ [_ [_ [_ H]]]]]]]]; eauto. Qed.

  Lemma lazy_run_out_spec : forall n, LRecOK n.
  Proof.
    induction n as [|n IH]; intros st o st' a HI Hrk Hkw Hrun; [lia|]. unfold LPost.
    cbn [lazy_run_out] in Hrun.
    destruct (lget (lres st) o) as [a0|] eqn:Eres.
    { inversion Hrun; subst st' a0. clear Hrun. split; [assumption|]. split; [assumption|].
      exists []. split; [apply LDelta_nil|]. split; [intros g [nd [[] _]]|].
      destruct HI as [HI0 HIc]. destruct (li_sound _ HI0 o a Hkw Eres) as [f [r [Ef [_ Hp]]]].
      intros g Hg. eapply (needed_allocated st (conj HI0 HIc)); eauto. eapply points_fnode; eauto. }
    destruct (producer p o) as [f|] eqn:Ef; [|discriminate].
    destruct (lget_args p kw (lazy_run_out p kw dagon n) f (params f) st []) as [st1 ra] eqn:Ega.
    destruct ra as [args|e]; [|discriminate].
    pose proof (producer_Some _ _ _ Ef) as [Hf Ho].
    pose proof (wf_funcs _ _ Hwf f Hf) as Hff.
    assert (Hfn : frank ls f <= n). { rewrite (rk_producer p ls _ _ Ef) in Hrk. lia. }
    destruct (lget_args_spec n f IH Hf Hfn (params f) st [] st1 args (incl_refl _) HI Ega) as [l [El Hpost]].
    cbn in El. subst l. destruct Hpost as [HI1 [HF [new [Hh1 [Hu1 [Hr1 [Hsub1 Hall1]]]]]]].
    (* the function has no node yet *)
    assert (K1 : forall i, ~ is_fnode (lheap st1) i f).
    { intros i Hi. rewrite Hh1 in Hi. apply is_fnode_app_inv in Hi as [Hi|Hi].
      - destruct HI as [_ HIc]. pose proof (HIc f i o Hi Ho) as Hh. apply lhas_true_iff in Hh as [x Hx]. congruence.
      - destruct (Hsub1 f Hi) as [cur [h [G0 [G1 G2]]]]. apply (needed_rank p kw ls Hwf) in G2.
        apply (source_SUp p kw) in G1 as [Eb1 [Ek1 Eh1]]. rewrite (rk_producer p ls _ _ Eh1) in G2.
        rewrite <- ahas_false_iff in Eb1. pose proof (wf_rank_edge _ _ Hwf f h cur Hf G0 Eb1 Eh1). lia. }
    assert (K2 : lget (lres st1) o = None).
    { destruct (lget (lres st1) o) as [x|] eqn:E; [|reflexivity]. destruct HI1 as [HI10 _].
      destruct (li_sound _ HI10 o x Hkw E) as [g [r [Eg [_ Hp]]]]. rewrite Ef in Eg. inversion Eg; subst g.
      destruct (points_fnode _ _ _ _ Hp) as [i Hi]. exfalso. eapply K1; eauto. }
    set (nd := {| nk := NFun f; nargs := args; memo := None |}) in *.
    destruct (alloc dagon st1 nd) as [st2 id] eqn:Ea. unfold alloc in Ea. inversion Ea. clear Ea.
    set (st2' := {| lres := lres st1; lused := lused st1; lheap := lheap st1 ++ [nd];
                    ldag := if dagon then ldag st1 ++ map (fun r => (r, length (lheap st1))) (refs_of args) else ldag st1 |}) in *.
    subst st2 id. destruct HI1 as [HI10 HI1c].
    assert (Hid : is_fnode (lheap st2') (length (lheap st1)) f).
    { exists nd. cbn. split; [|reflexivity]. rewrite nth_error_app2 by lia. now rewrite Nat.sub_diag. }
    assert (HI2 : LInv0 st2').
    { constructor; cbn.
      - apply good_snoc; [apply (li_good _ HI10)|]. unfold node_ok. cbn. split; [assumption|].
        eapply Forall2_impl'; [|exact HF]. intros po ka [A1 A2]. split; [assumption|]. split; [now apply argprop_app|].
        intros r Er. rewrite Er in A2. eapply argprop_ref_lt; eauto.
      - apply (li_kw _ HI10).
      - intros k x Hk Hg. destruct (li_sound _ HI10 k x Hk Hg) as [g [r [G1 [G2 G3]]]]. exists g, r.
        repeat split; auto. now apply points_app.
      - intros i j g Hi Hj. apply is_fnode_snoc_inv in Hi as [Hi|[Ei Eg]]; apply is_fnode_snoc_inv in Hj as [Hj|[Ej Eg']].
        + eapply li_unique; eauto.
        + cbn in Eg'. inversion Eg'; subst g. exfalso. eapply K1; eauto.
        + cbn in Eg. inversion Eg; subst g. exfalso. eapply K1; eauto.
        + congruence. }
    assert (Hce : complete_except st2' (length (lheap st1))).
    { intros g i o' Hi Hne Ho'. cbn in Hi. apply is_fnode_snoc_inv in Hi as [Hi|[Ei _]]; [|contradiction].
      cbn. eapply HI1c; eauto. }
    assert (Hsg : multi f = false -> aget kw (fid f) = None /\ lget (lres st2') (fid f) = None).
    { intros Em. rewrite (single_outs f Hff Em) in Ho. destruct Ho as [Ho|[]]. rewrite Ho. cbn. auto. }
    destruct (lupdate_spec f (length (lheap st1)) st2' Hf HI2 Hid Hce Hsg) as [HI3 [pk [P1 [P2 [P3 P4]]]]].
    set (st3 := lupdate dagon f (length (lheap st1)) st2') in *.
    destruct (lget (lres st3) o) as [a'|] eqn:Eo; [|discriminate].
    assert (Est : st3 = st' /\ a' = a) by (inversion Hrun; auto). destruct Est as [<- ->]. clear Hrun.
    split; [assumption|]. split; [assumption|].
    assert (Hal : forall g, allocated (new ++ nd :: pk) g <-> allocated new g \/ g = f).
    { intros g. rewrite allocated_app. split.
      - intros [H|[nd' [[<-|Hin] E]]]; [now left| |exfalso; eapply P2; eauto]. cbn in E. inversion E. now right.
      - intros [H| ->]; [now left|]. right. exists nd. split; [now left|reflexivity]. }
    exists (new ++ nd :: pk). split.
    { constructor.
      - rewrite P1. cbn. rewrite Hh1. now rewrite <- !app_assoc.
      - intros k. rewrite P3. cbn. rewrite Hu1. split.
        + intros [H|[H|[g [G1 G2]]]]; [now left| |].
          * right. exists f. split; [apply Hal; now right|exact H].
          * right. exists g. split; [apply Hal; now left|assumption].
        + intros [H|[g [G1 G2]]]; [now left|]. apply Hal in G1 as [G1| ->]; [right; right; eauto|right; now left].
      - intros k x Hk. apply P4. cbn. auto. }
    split.
    - intros g Hg. rewrite (needed_S p kw), Ef. apply Hal in Hg as [Hg| ->]; [|now left]. right.
      destruct (Hsub1 g Hg) as [cur [h [G0 [G1 G2]]]]. apply in_flat_map. exists cur. split; [exact G0|]. now rewrite G1.
    - intros g Hg. rewrite (needed_S p kw), Ef in Hg. destruct Hg as [<-|Hg].
      + exists (length (lheap st1)). rewrite P1. now apply is_fnode_app.
      + apply in_flat_map in Hg as [cur [Hcur Hg]]. destruct (source_of p kw f cur) as [| |h| |] eqn:Es; try contradiction.
        destruct (Hall1 cur h g Hcur Es Hg) as [i Hi]. exists i. rewrite P1. cbn. rewrite <- app_assoc. now apply is_fnode_app.
  Qed.
End PhaseA.

(* ====================================================================================================
   Part 3: evaluate on a good heap computes the specification, calling every node at most once.
   ==================================================================================================== *)
Lemma nth_error_set_memo_same h i v nd : nth_error h i = Some nd ->
  nth_error (set_memo h i v) i = Some {| nk := nk nd; nargs := nargs nd; memo := Some v |}.
Proof.
  revert i. induction h as [|x h IH]; intros [|i] H; cbn in *; try discriminate.
  - now inversion H.
  - now apply IH.
Qed.

Lemma nth_error_set_memo_other h i j v : i <> j -> nth_error (set_memo h i v) j = nth_error h j.
Proof.
  revert i j. induction h as [|x h IH]; intros [|i] [|j] H; cbn; try reflexivity; try congruence.
  apply IH. congruence.
Qed.

Definition shape (h : heap) : list (nkind * list (str * larg)) := map (fun nd => (nk nd, nargs nd)) h.

Lemma shape_set_memo h i v : shape (set_memo h i v) = shape h.
Proof. revert i. induction h as [|x h IH]; intros [|i]; cbn; try reflexivity. now rewrite IH. Qed.

Lemma shape_nth h h' i nd : shape h = shape h' -> nth_error h i = Some nd ->
  exists nd', nth_error h' i = Some nd' /\ nk nd' = nk nd /\ nargs nd' = nargs nd.
Proof.
  revert h' i. induction h as [|x h IH]; intros [|x' h'] [|i] Hs H; cbn in *; try discriminate.
  - inversion H; subst. inversion Hs. exists x'. auto.
  - inversion Hs. eapply IH; eauto.
Qed.

Lemma bind_ret {A} (r : result A) : (do x <- r; Ok x) = r.
Proof. now destruct r. Qed.

Section PhaseB.
  Variable body : str -> alist -> result str.
  Variable pick : str -> str -> str.
  Variable p : pipeline.
  Variable kw : alist.
  Variable ls : list (list str).
  Hypothesis Hwf : wf_P p ls.
  Variable h0 : heap.
  Hypothesis Hgood : good p kw h0.

  Let L : nat := length p.
  Definition RAW (f : pfunc) : result str := do args <- eval_args body pick p kw f; body (fname f) args.
  Definition val_spec (k : nkind) : result str :=
    match k with NFun f => RAW f | NPick n => eval_top body pick p kw n end.

  Lemma eval_top_unfold o f : producer p o = Some f ->
    eval_top body pick p kw o = do r <- RAW f; Ok (route pick f o r).
  Proof.
    intros Ef. unfold eval_top, RAW, eval_args. cbn [eval]. rewrite Ef.
    destruct (args_with (eval body pick (length p) p kw) p kw f); [|reflexivity]. cbn.
    now destruct (body (fname f) a).
  Qed.

  (* the value the specification passes for a parameter fed by node r *)
  Lemma points_value f cur g r : In f p -> In cur (pnames f) -> source_of p kw f cur = SUp g -> points h0 r g cur ->
    exists nd, nth_error h0 r = Some nd /\ arg_val (eval body pick (length p) p kw) p kw f cur = val_spec (nk nd).
  Proof.
    intros Hf Hcur Es Hp. apply (source_SUp p kw) in Es as [Eb [Ek Eg]].
    assert (Eo : is_output p cur = true) by (apply is_output_true; eauto).
    unfold arg_val. rewrite Eb, Ek, Eo.
    assert (Hev : eval body pick (length p) p kw cur = eval_top body pick p kw cur).
    { unfold eval_top. apply (eval_fuel body pick p kw ls Hwf); [|apply rk_lt_N; exact Hwf].
      rewrite (rk_producer p ls _ _ Eg). rewrite <- ahas_false_iff in Eb.
      pose proof (wf_rank_edge _ _ Hwf f g cur Hf Hcur Eb Eg). pose proof (wf_rank_lt _ _ Hwf f Hf). lia. }
    rewrite Hev. destruct Hp as [[Hm [nd [N1 N2]]]|[Hm [nd [r0 [N1 [N2 _]]]]]].
    - exists nd. split; [assumption|]. rewrite N2. change (val_spec (NFun g)) with (RAW g).
      rewrite (eval_top_unfold cur g Eg). unfold route. rewrite Hm. apply bind_ret.
    - exists nd. split; [assumption|]. now rewrite N2.
  Qed.

  Record EInv (st : estate) : Prop := {
    ei_shape : shape (eheap st) = shape h0;
    ei_memo : forall i nd v, nth_error (eheap st) i = Some nd -> memo nd = Some v -> val_spec (nk nd) = Ok v;
    ei_logged : forall i nd f, nth_error (eheap st) i = Some nd -> nk nd = NFun f ->
                (memo nd <> None <-> In i (map fst (elog st)));
    ei_nodup : NoDup (map fst (elog st));
    ei_entry : forall i c, In (i, c) (elog st) ->
               exists nd f, nth_error h0 i = Some nd /\ nk nd = NFun f /\ fst c = fname f
                            /\ eval_args body pick p kw f = Ok (snd c);
    ei_closed : forall i nd, nth_error (eheap st) i = Some nd -> memo nd <> None ->
                forall r, In r (refs_of (nargs nd)) -> exists nd', nth_error (eheap st) r = Some nd' /\ memo nd' <> None;
  }.

  Definition memo_at (st : estate) (i : nat) : option str :=
    match nth_error (eheap st) i with Some nd => memo nd | None => None end.

  Record EDelta (st st' : estate) : Prop := {
    ed_log : exists new, elog st' = elog st ++ new;
    ed_memo : forall i, memo_at st i <> None -> memo_at st' i = memo_at st i;
  }.

  Lemma EDelta_refl st : EDelta st st.
  Proof. constructor; [exists []; now rewrite app_nil_r|auto]. Qed.

  Lemma EDelta_trans a b c : EDelta a b -> EDelta b c -> EDelta a c.
  Proof.
    intros [[n1 H1] M1] [[n2 H2] M2]. constructor.
    - exists (n1 ++ n2). now rewrite H2, H1, app_assoc.
    - intros i Hi. rewrite M2; [now apply M1|]. rewrite M1; assumption.
  Qed.

  Definition EPost (st : estate) (i : nat) (st' : estate) (r : result str) : Prop :=
    (exists nd, nth_error h0 i = Some nd /\ r = val_spec (nk nd)) /\
    forall v, r = Ok v -> EInv st' /\ EDelta st st' /\ memo_at st' i = Some v
                          /\ (forall j, i < j -> memo_at st' j = memo_at st j).

  Definition ERecOK (n : nat) : Prop :=
    forall st i st' r, EInv st -> i < n -> i < length h0 -> ev body pick n st i = (st', r) -> EPost st i st' r.

  Definition Fq (f : pfunc) (po : str * str) : result (str * str) :=
    do v <- arg_val (eval body pick (length p) p kw) p kw f (fst po); Ok (snd po, v).

  Lemma argprop_aval f cur v : argprop p kw h0 f cur (AVal v) ->
    arg_val (eval body pick (length p) p kw) p kw f cur = Ok v.
  Proof.
    unfold argprop, source_of, arg_val.
    destruct (aget (bound f) cur); [intros E; now inversion E|].
    destruct (aget kw cur); [intros E; now inversion E|].
    destruct (producer p cur) eqn:Ep.
    - intros [r [E _]]. discriminate.
    - assert (Eo : is_output p cur = false) by now apply is_output_false. rewrite Eo.
      destruct (default_of p cur); [intros E; now inversion E|contradiction].
  Qed.

  Lemma eargs_spec n i f : ERecOK n -> In f p -> i <= n ->
    forall ps la, Forall2 (arg_ok p kw h0 i f) ps la -> incl (map fst ps) (pnames f) ->
    forall st acc st' ra, EInv st ->
    eargs (ev body pick n) la st acc = (st', ra) ->
    ra = (do l <- mapM (Fq f) ps; Ok (acc ++ l)) /\
    forall args, ra = Ok args ->
      EInv st' /\ EDelta st st' /\ (forall r, In r (refs_of la) -> memo_at st' r <> None)
      /\ (forall j, i <= j -> memo_at st' j = memo_at st j).
  Proof.
    intros Hrec Hf Hin. induction 1 as [|[cur orig] [k a] ps la [Hk [Hap Hlt]] HF IH]; intros Hincl st acc st' ra HI He.
    - cbn in He. inversion He; subst. cbn. rewrite app_nil_r. split; [reflexivity|]. intros args _.
      split; [assumption|]. split; [apply EDelta_refl|]. split; [intros r []|auto].
    - cbn in Hk, Hap, Hlt. subst k.
      assert (Hcur : In cur (pnames f)) by (apply Hincl; now left).
      assert (Hincl' : incl (map fst ps) (pnames f)) by (intros x Hx; apply Hincl; now right).
      cbn [mapM]. unfold Fq at 1. cbn [fst snd].
      destruct a as [v|r]; cbn [eargs] in He.
      + rewrite (argprop_aval f cur v Hap). cbn [bind].
        destruct (IH Hincl' st (acc ++ [(orig, v)]) st' ra HI He) as [Hra Hpost]. split.
        { rewrite Hra. destruct (mapM (Fq f) ps); cbn; [|reflexivity]. now rewrite <- app_assoc. }
        intros args Ea. destruct (Hpost args Ea) as [H1 [H2 [H3 H4]]].
        split; [exact H1|]. split; [exact H2|]. split; [exact H3|exact H4].
      + unfold argprop in Hap. destruct (source_of p kw f cur) as [| |g| |] eqn:Es; try discriminate; try contradiction.
        destruct Hap as [r' [Er Hp]]. inversion Er; subst r'. specialize (Hlt r eq_refl).
        destruct (points_value f cur g r Hf Hcur Es Hp) as [ndr [Nr Hval]].
        destruct (ev body pick n st r) as [st1 rv] eqn:Eev.
        assert (Hrl : r < length h0) by (apply nth_error_Some; congruence).
        destruct (Hrec st r st1 rv HI ltac:(lia) Hrl Eev) as [[ndr' [Nr' Hrv]] Hpost1].
        rewrite Nr in Nr'. inversion Nr'; subst ndr'. rewrite Hval, <- Hrv.
        destruct rv as [v|e].
        * cbn [bind]. destruct (Hpost1 v eq_refl) as [HI1 [Hd1 [Hm1 Hf1]]].
          destruct (IH Hincl' st1 (acc ++ [(orig, v)]) st' ra HI1 He) as [Hra Hpost]. split.
          { rewrite Hra. destruct (mapM (Fq f) ps); cbn; [|reflexivity]. now rewrite <- app_assoc. }
          intros args Ea. destruct (Hpost args Ea) as [H1 [H2 [H3 H4]]]. split; [assumption|].
          split; [eapply EDelta_trans; eauto|]. split.
          -- intros r1 Hr1. cbn in Hr1. destruct Hr1 as [<-|Hr1]; [|now apply H3].
             rewrite (ed_memo _ _ H2); rewrite Hm1; discriminate.
          -- intros j Hj. rewrite H4 by assumption. apply Hf1. lia.
        * inversion He; subst. split; [reflexivity|]. intros args Ea. discriminate.
  Qed.

  Lemma memo_at_set_same h i v nd lg : nth_error h i = Some nd ->
    memo_at {| eheap := set_memo h i v; elog := lg |} i = Some v.
  Proof. intros H. unfold memo_at. cbn. now rewrite (nth_error_set_memo_same h i v nd H). Qed.

  Lemma memo_at_set_other h i j v lg lg' : i <> j ->
    memo_at {| eheap := set_memo h i v; elog := lg |} j = memo_at {| eheap := h; elog := lg' |} j.
  Proof. intros H. unfold memo_at. cbn. now rewrite nth_error_set_memo_other. Qed.

  (* memoising node i with its specified value keeps the invariant; `extra` = the log entry added (if any) *)
  Lemma EInv_memoise st1 i nd v (newlog : list (nat * call)) :
    EInv st1 -> nth_error (eheap st1) i = Some nd -> memo nd = None -> val_spec (nk nd) = Ok v ->
    (forall r, In r (refs_of (nargs nd)) -> memo_at st1 r <> None /\ r < i) ->
    (match nk nd with
     | NFun f => exists args, newlog = [(i, (fname f, args))] /\ eval_args body pick p kw f = Ok args
     | NPick _ => newlog = []
     end) ->
    EInv {| eheap := set_memo (eheap st1) i v; elog := elog st1 ++ newlog |}.
  Proof.
    intros HI Hn Hm Hv Hrefs Hlog.
    assert (Hn0 : exists nd0, nth_error h0 i = Some nd0 /\ nk nd0 = nk nd /\ nargs nd0 = nargs nd)
      by (eapply shape_nth; [apply (ei_shape _ HI)|eauto]).
    destruct Hn0 as [nd0 [N0 [N1 N2]]].
    assert (Hnotin : ~ In i (map fst (elog st1))).
    { destruct (nk nd) as [f|n] eqn:Ek.
      - intros Hin. apply (ei_logged _ HI i nd f Hn Ek) in Hin. congruence.
      - intros Hin. apply in_map_iff in Hin as [[i' c] [E Hin]]. cbn in E. subst i'.
        destruct (ei_entry _ HI i c Hin) as [nd' [f [M1 [M2 _]]]]. rewrite N0 in M1. inversion M1; subst nd'. congruence. }
    constructor; cbn [eheap elog].
    - rewrite shape_set_memo. apply (ei_shape _ HI).
    - intros j ndj vj Hj Hmj. destruct (Nat.eq_dec i j) as [<-|Hne].
      + rewrite (nth_error_set_memo_same _ _ _ _ Hn) in Hj. inversion Hj; subst ndj. cbn in *. congruence.
      + rewrite nth_error_set_memo_other in Hj by assumption. eapply ei_memo; eauto.
    - intros j ndj f Hj Hk. rewrite map_app, in_app_iff. destruct (Nat.eq_dec i j) as [<-|Hne].
      + rewrite (nth_error_set_memo_same _ _ _ _ Hn) in Hj. inversion Hj; subst ndj. cbn in Hk |- *.
        rewrite Hk in Hlog. destruct Hlog as [args [-> _]]. cbn. split; [auto|discriminate].
      + rewrite nth_error_set_memo_other in Hj by assumption. rewrite (ei_logged _ HI j ndj f Hj Hk).
        split; [auto|]. intros [H|H]; [assumption|]. exfalso.
        destruct (nk nd); [destruct Hlog as [args [-> _]]; cbn in H; destruct H as [H|[]]; congruence|subst newlog; destruct H].
    - rewrite map_app. apply NoDup_app_intro; [apply (ei_nodup _ HI)| |].
      + destruct (nk nd); [destruct Hlog as [args [-> _]]; cbn; constructor; [intros []|constructor]|subst newlog; constructor].
      + intros x Hx Hx'. destruct (nk nd); [destruct Hlog as [args [-> _]]; cbn in Hx'; destruct Hx' as [<-|[]]; contradiction|subst newlog; destruct Hx'].
    - intros j c Hin. apply in_app_iff in Hin as [Hin|Hin]; [now apply (ei_entry _ HI)|].
      destruct (nk nd) as [f|n] eqn:Ek; [|subst newlog; destruct Hin].
      destruct Hlog as [args [-> Ha]]. destruct Hin as [E|[]]. inversion E; subst j c.
      exists nd0, f. cbn. repeat split; auto; congruence.
    - intros j ndj Hj Hmj r Hr. destruct (Nat.eq_dec i j) as [<-|Hne].
      + rewrite (nth_error_set_memo_same _ _ _ _ Hn) in Hj. inversion Hj; subst ndj. cbn in Hr.
        destruct (Hrefs r Hr) as [Hr1 Hr2]. unfold memo_at in Hr1.
        rewrite nth_error_set_memo_other by lia. destruct (nth_error (eheap st1) r) as [ndr|]; [|congruence]. eauto.
      + rewrite nth_error_set_memo_other in Hj by assumption.
        destruct (ei_closed _ HI j ndj Hj Hmj r Hr) as [ndr [R1 R2]].
        destruct (Nat.eq_dec i r) as [<-|Hne'].
        * rewrite (nth_error_set_memo_same _ _ _ _ Hn). eexists. split; [reflexivity|]. cbn. discriminate.
        * rewrite nth_error_set_memo_other by assumption. eauto.
  Qed.

  Lemma ev_spec : forall n, ERecOK n.
  Proof.
    induction n as [|n IH]; intros st i st' r HI Hin Hil Hev; [lia|]. unfold EPost.
    cbn [ev] in Hev.
    assert (Hlen : length (eheap st) = length h0).
    { pose proof (ei_shape _ HI) as Hs. unfold shape in Hs. apply (f_equal (@length _)) in Hs. now rewrite !map_length in Hs. }
    destruct (nth_error (eheap st) i) as [nd|] eqn:En.
    2: { apply nth_error_None in En. lia. }
    destruct (shape_nth _ _ _ _ (ei_shape _ HI) En) as [nd0 [N0 [N1 N2]]].
    destruct (memo nd) as [v0|] eqn:Em.
    { inversion Hev; subst st' r. clear Hev. pose proof (ei_memo _ HI i nd v0 En Em) as Hv.
      split; [exists nd0; split; [assumption|]; now rewrite N1|].
      intros v Ev. inversion Ev; subst v0. split; [assumption|]. split; [apply EDelta_refl|].
      split; [unfold memo_at; now rewrite En|auto]. }
    pose proof (Hgood i nd0 N0) as Hok. unfold node_ok in Hok.
    destruct (eargs (ev body pick n) (nargs nd) st []) as [st1 ra] eqn:Eea.
    destruct (nk nd) as [f|n0] eqn:Ek; rewrite N1 in Hok.
    - (* a function node *)
      destruct Hok as [Hf HF]. rewrite N2 in HF.
      destruct (eargs_spec n i f IH Hf ltac:(lia) (params f) (nargs nd) HF (incl_refl _) st [] st1 ra HI Eea) as [Hra Hpost].
      assert (Hra' : ra = eval_args body pick p kw f).
      { rewrite Hra. unfold eval_args, args_with. change (fun po : str * str => do v <- arg_val (eval body pick (length p) p kw) p kw f (fst po); Ok (snd po, v)) with (Fq f).
        destruct (mapM (Fq f) (params f)); reflexivity. }
      split.
      { exists nd0. split; [assumption|]. rewrite N1. cbn [val_spec]. unfold RAW. rewrite <- Hra'.
        destruct ra as [args|e]; [|now inversion Hev]. cbn [bind].
        destruct (body (fname f) args) as [r0|e]; now inversion Hev. }
      intros v Ev. subst r. destruct ra as [args|e]; [|inversion Hev].
      destruct (body (fname f) args) as [r0|e] eqn:Eb; [|inversion Hev].
      assert (Est : {| eheap := set_memo (eheap st1) i r0; elog := elog st1 ++ [(i, (fname f, args))] |} = st' /\ r0 = v)
        by (inversion Hev; auto). destruct Est as [<- ->]. clear Hev.
      destruct (Hpost args eq_refl) as [HI1 [Hd1 [Hrefs1 Hfr1]]]. cbn [eheap elog].
      assert (Hmi : memo_at st1 i = None).
      { rewrite Hfr1 by lia. unfold memo_at. now rewrite En, Em. }
      assert (En1 : exists nd1, nth_error (eheap st1) i = Some nd1 /\ nk nd1 = NFun f /\ nargs nd1 = nargs nd /\ memo nd1 = None).
      { assert (Hl1 : length (eheap st1) = length h0).
        { pose proof (ei_shape _ HI1) as Hs. unfold shape in Hs. apply (f_equal (@length _)) in Hs. now rewrite !map_length in Hs. }
        destruct (nth_error (eheap st1) i) as [nd1|] eqn:E1; [|apply nth_error_None in E1; lia].
        destruct (shape_nth _ _ _ _ (ei_shape _ HI1) E1) as [nd0' [M0 [M1 M2]]]. rewrite N0 in M0. inversion M0; subst nd0'.
        exists nd1. repeat split; try congruence. unfold memo_at in Hmi. now rewrite E1 in Hmi. }
      destruct En1 as [nd1 [E1 [K1 [A1 M1]]]].
      assert (HI3 : EInv {| eheap := set_memo (eheap st1) i v; elog := elog st1 ++ [(i, (fname f, args))] |}).
      { apply (EInv_memoise st1 i nd1 v [(i, (fname f, args))] HI1 E1 M1).
        - rewrite K1. cbn [val_spec]. unfold RAW. rewrite <- Hra'. cbn [bind]. exact Eb.
        - intros r Hr. rewrite A1 in Hr. split; [now apply Hrefs1|].
          apply refs_of_In in Hr as [k Hr].
          destruct (Forall2_In_r _ _ _ _ HF Hr) as [po [_ [_ [_ Hlt]]]]. now apply Hlt.
        - rewrite K1. exists args. split; [reflexivity|]. now symmetry. }
      split; [exact HI3|]. split.
      { constructor.
        - destruct (ed_log _ _ Hd1) as [new Hnew]. exists (new ++ [(i, (fname f, args))]). cbn. now rewrite Hnew, app_assoc.
        - intros j Hj. destruct (Nat.eq_dec i j) as [<-|Hne].
          + exfalso. apply Hj. unfold memo_at. now rewrite En, Em.
          + rewrite (memo_at_set_other _ i j v _ (elog st1)) by assumption.
            replace {| eheap := eheap st1; elog := elog st1 |} with st1 by now destruct st1.
            now apply (ed_memo _ _ Hd1). }
      split; [eapply memo_at_set_same; eauto|].
      intros j Hj. rewrite (memo_at_set_other _ i j v _ (elog st1)) by lia.
      replace {| eheap := eheap st1; elog := elog st1 |} with st1 by now destruct st1. apply Hfr1. lia.
    - (* a picker node *)
      destruct Hok as [r0 [g [Ha [Hr0 [Hg0 [Hn0 [Hmg Hgp]]]]]]]. rewrite N2 in Ha. rewrite Ha in Eea. cbn [eargs] in Eea.
      destruct (ev body pick n st r0) as [st0' rv] eqn:Eev.
      assert (Hr0l : r0 < length h0) by now apply is_fnode_lt in Hg0.
      destruct (IH st r0 st0' rv HI ltac:(lia) Hr0l Eev) as [[ndr [Nr Hrv]] Hpost0].
      destruct Hg0 as [ndg [G1 G2]]. rewrite G1 in Nr. inversion Nr; subst ndr. rewrite G2 in Hrv. cbn [val_spec] in Hrv.
      assert (Eg : producer p n0 = Some g) by (apply producer_unique; auto; apply (wf_outs_nd _ _ Hwf)).
      split.
      { exists nd0. split; [assumption|]. rewrite N1. cbn [val_spec]. rewrite (eval_top_unfold n0 g Eg). rewrite <- Hrv.
        destruct rv as [raw|e].
        - inversion Eea; subst st1 ra. cbn in Hev. inversion Hev; subst. cbn. unfold route. now rewrite Hmg.
        - inversion Eea; subst st1 ra. now inversion Hev. }
      intros v Ev. subst r. destruct rv as [raw|e]; [|inversion Eea; subst; inversion Hev].
      inversion Eea; subst st1 ra. cbn in Hev.
      assert (Est : {| eheap := set_memo (eheap st0') i (pick n0 raw); elog := elog st0' |} = st' /\ pick n0 raw = v)
        by (inversion Hev; auto). destruct Est as [<- <-]. clear Hev Eea.
      destruct (Hpost0 raw eq_refl) as [HI1 [Hd1 [Hm1 Hfr1]]].
      assert (Hmi : memo_at st0' i = None).
      { rewrite Hfr1 by lia. unfold memo_at. now rewrite En, Em. }
      assert (En1 : exists nd1, nth_error (eheap st0') i = Some nd1 /\ nk nd1 = NPick n0 /\ nargs nd1 = nargs nd /\ memo nd1 = None).
      { assert (Hl1 : length (eheap st0') = length h0).
        { pose proof (ei_shape _ HI1) as Hs. unfold shape in Hs. apply (f_equal (@length _)) in Hs. now rewrite !map_length in Hs. }
        destruct (nth_error (eheap st0') i) as [nd1|] eqn:E1; [|apply nth_error_None in E1; lia].
        destruct (shape_nth _ _ _ _ (ei_shape _ HI1) E1) as [nd0' [M0 [M1 M2]]]. rewrite N0 in M0. inversion M0; subst nd0'.
        exists nd1. repeat split; try congruence. unfold memo_at in Hmi. now rewrite E1 in Hmi. }
      destruct En1 as [nd1 [E1 [K1 [A1 M1]]]].
      assert (HI3 : EInv {| eheap := set_memo (eheap st0') i (pick n0 raw); elog := elog st0' ++ [] |}).
      { apply (EInv_memoise st0' i nd1 (pick n0 raw) [] HI1 E1 M1).
        - rewrite K1. cbn [val_spec]. rewrite (eval_top_unfold n0 g Eg), <- Hrv. cbn. unfold route. now rewrite Hmg.
        - intros r Hr. rewrite A1, Ha in Hr. cbn in Hr. destruct Hr as [<-|[]]. split; [|assumption]. rewrite Hm1. discriminate.
        - now rewrite K1. }
      rewrite app_nil_r in HI3.
      split; [exact HI3|]. split.
      { constructor.
        - destruct (ed_log _ _ Hd1) as [new Hnew]. exists new. cbn. exact Hnew.
        - intros j Hj. destruct (Nat.eq_dec i j) as [<-|Hne].
          + exfalso. apply Hj. unfold memo_at. now rewrite En, Em.
          + rewrite (memo_at_set_other _ i j _ _ (elog st0')) by assumption.
            replace {| eheap := eheap st0'; elog := elog st0' |} with st0' by now destruct st0'.
            now apply (ed_memo _ _ Hd1). }
      split; [eapply memo_at_set_same; eauto|].
      intros j Hj. rewrite (memo_at_set_other _ i j _ _ (elog st0')) by lia.
      replace {| eheap := eheap st0'; elog := elog st0' |} with st0' by now destruct st0'. apply Hfr1. lia.
  Qed.
End PhaseB.

(* ====================================================================================================
   Part 4: the theorems of C18.
   ==================================================================================================== *)
Theorem nothing_before_evaluate p o kw full dagon r st :
  lazy_run p o kw full dagon = (r, st) -> forall nd, In nd (lheap st) -> memo nd = None.
Proof. intros H. apply (si_memo dagon st). eapply lazy_run_structure; eauto. Qed.

Theorem dag_acyclic p o kw full dagon r st :
  lazy_run p o kw full dagon = (r, st) -> forall a b, In (a, b) (ldag st) -> a < b.
Proof.
  intros H a b Hin. pose proof (lazy_run_structure p kw dagon o full r st H) as HS.
  apply (si_dag dagon st HS) in Hin as [_ [nd [H1 H2]]]. eapply si_refs; eauto.
Qed.

Theorem dag_edges_exact p o kw full r st :
  lazy_run p o kw full true = (r, st) ->
  forall a b, In (a, b) (ldag st) <-> exists nd, nth_error (lheap st) b = Some nd /\ In a (refs_of (nargs nd)).
Proof.
  intros H a b. pose proof (lazy_run_structure p kw true o full r st H) as HS.
  rewrite (si_dag true st HS). split; [intros [_ H1]; exact H1|intros H1; split; [reflexivity|exact H1]].
Qed.

Theorem dag_off p o kw full r st : lazy_run p o kw full false = (r, st) -> ldag st = [].
Proof.
  intros H. pose proof (lazy_run_structure p kw false o full r st H) as HS.
  destruct (ldag st) as [|[a b] t] eqn:E; [reflexivity|]. assert (Hin : In (a, b) (ldag st)) by (rewrite E; now left).
  apply (si_dag false st HS) in Hin as [Hf _]. discriminate.
Qed.

Lemma NoDup_map_key {A B C} (k : A -> B) (g : A -> C) l :
  NoDup (map k l) -> (forall x y, In x l -> In y l -> g x = g y -> k x = k y) -> NoDup (map g l).
Proof.
  induction l as [|x l IH]; intros Hnd Hinj; cbn; [constructor|]. cbn in Hnd. inversion Hnd as [|? ? Hn Hnd']; subst.
  constructor.
  - intros Hin. apply in_map_iff in Hin as [y [E Hy]]. apply Hn. apply in_map_iff. exists y. split; [|assumption].
    apply Hinj; [now right|now left|assumption].
  - apply IH; [assumption|]. intros a b Ha Hb. apply Hinj; now right.
Qed.

Section C18.
  Variable body : str -> alist -> result str.
  Variable pick : str -> str -> str.
  Variable p : pipeline.
  Variable kw : alist.
  Variable o : str.
  Variable dagon : bool.
  Hypothesis Hwfp : wf_pipeline p.
  Variable a : larg.
  Variable st : lstate.
  Hypothesis Hrun : lazy_run p o kw false dagon = (Ok (LValue a), st).

  Let e0 : estate := {| eheap := lheap st; elog := [] |}.

  Lemma lazy_run_inv : exists ls, wf_P p ls /\ aget kw o = None /\
    lazy_run_out p kw dagon (S (length p)) (linit kw) o = (st, Ok a) /\
    filter (fun k => negb (mem_str k (lused st))) (akeys kw) = [].
  Proof.
    destruct (wf_pipeline_elim p Hwfp) as [ls Hw]. exists ls. split; [assumption|].
    unfold lazy_run in Hrun. destruct (negb (is_node p o)); [discriminate|].
    destruct (ahas kw o) eqn:Eh; [discriminate|]. apply ahas_false_iff in Eh. split; [assumption|].
    destruct (lazy_run_out p kw dagon (S (length p)) (linit kw) o) as [st1 r1].
    destruct r1 as [a1|e]; [|discriminate].
    destruct (filter _ (akeys kw)) eqn:Ef; [|discriminate]. inversion Hrun; subst. auto.
  Qed.

  Lemma lazy_facts : exists ls f r, wf_P p ls /\ aget kw o = None /\ producer p o = Some f /\ a = ARef r
    /\ points (lheap st) r f o /\ good p kw (lheap st)
    /\ (forall i j g, is_fnode (lheap st) i g -> is_fnode (lheap st) j g -> i = j)
    /\ (forall g, (exists i, is_fnode (lheap st) i g) <-> In g (needed_top p kw o))
    /\ (forall k, In k (lused st) <-> In k (param_names_needed p kw o)).
  Proof.
    destruct lazy_run_inv as [ls [Hw [Hk [Hro _]]]].
    destruct (lazy_run_out_spec p kw dagon ls Hw (S (length p)) (linit kw) o st a (LInv_init p kw) (rk_lt_N p ls Hw o) Hk Hro)
      as [[HI0 HIc] [Hget [new [Hd [Hsub Hall]]]]].
    destruct (li_sound _ _ _ HI0 o a Hk Hget) as [f [r [Ef [Ea Hp]]]].
    exists ls, f, r. split; [exact Hw|]. split; [exact Hk|]. split; [exact Ef|]. split; [exact Ea|].
    split; [exact Hp|]. split; [apply (li_good _ _ _ HI0)|]. split; [apply (li_unique _ _ _ HI0)|].
    assert (Hh : lheap st = new) by (rewrite (ld_heap _ _ _ Hd); reflexivity).
    split; [|split].
    - intros g. split; [|apply Hall]. intros [i [nd [N1 N2]]]. apply Hsub. rewrite Hh in N1.
      exists nd. split; [eapply nth_error_In; eauto|assumption].
    - intros Hk'. apply (ld_used _ _ _ Hd) in Hk' as [[]|[g [G1 G2]]]. unfold param_names_needed. apply in_flat_map.
      exists g. split; [now apply Hsub|assumption].
    - intros Hk'. unfold param_names_needed in Hk'. apply in_flat_map in Hk' as [g [G1 G2]].
      apply (ld_used _ _ _ Hd). right. exists g. split; [|assumption]. destruct (Hall g G1) as [i [nd [N1 N2]]].
      rewrite Hh in N1. exists nd. split; [eapply nth_error_In; eauto|assumption].
  Qed.

  Lemma EInv_e0 ls : wf_P p ls -> good p kw (lheap st) -> EInv body pick p kw (lheap st) e0.
  Proof.
    intros Hw Hg. assert (Hm : forall i nd, nth_error (lheap st) i = Some nd -> memo nd = None).
    { intros i nd H. eapply nothing_before_evaluate; eauto. eapply nth_error_In; eauto. }
    constructor; cbn.
    - reflexivity.
    - intros i nd v H1 H2. rewrite (Hm i nd H1) in H2. discriminate.
    - intros i nd f H1 _. rewrite (Hm i nd H1). split; [congruence|intros []].
    - constructor.
    - intros i c [].
    - intros i nd H1 H2. rewrite (Hm i nd H1) in H2. congruence.
  Qed.

  (* evaluate() of the deferred object is the eager / specified result (value or raised error) *)
  Theorem lazy_eq_spec : snd (evaluate body pick e0 a) = eval_top body pick p kw o.
  Proof.
    destruct lazy_facts as [ls [f [r [Hw [Hk [Ef [Ea [Hp [Hg _]]]]]]]]]. rewrite Ea. cbn [evaluate eheap e0].
    destruct (ev body pick (S (length (lheap st))) e0 r) as [st1 rv] eqn:Eev.
    pose proof (points_lt _ _ _ _ Hp) as Hlt.
    destruct (ev_spec body pick p kw ls Hw (lheap st) Hg (S (length (lheap st))) e0 r st1 rv (EInv_e0 ls Hw Hg) ltac:(lia) Hlt Eev)
      as [[nd [N1 Hrv]] _].
    cbn [snd]. rewrite Hrv. destruct Hp as [[Hm [nd' [N1' N2]]]|[Hm [nd' [r0 [N1' [N2 _]]]]]]; rewrite N1 in N1'; inversion N1'; subst nd'.
    - rewrite N2. cbn [val_spec]. rewrite (eval_top_unfold body pick p kw o f Ef). unfold route. rewrite Hm.
      symmetry. apply bind_ret.
    - now rewrite N2.
  Qed.

  Theorem lazy_eq_eager : fst (run body pick p o kw false) = lift_value (snd (evaluate body pick e0 a)).
  Proof.
    rewrite lazy_eq_spec. destruct lazy_facts as [ls [f [r [Hw [Hk [Ef [Ea [Hp [Hg [_ [_ Hu]]]]]]]]]]].
    destruct lazy_run_inv as [_ [_ [_ [_ Hfil]]]].
    rewrite run_char_final; auto; [|apply is_output_true; eauto]. unfold lift_value.
    destruct (eval_top body pick p kw o); [|reflexivity].
    assert (E : subset_str (akeys kw) (param_names_needed p kw o) = true).
    { apply subset_str_incl. intros k Hin. apply Hu. destruct (mem_str k (lused st)) eqn:Em; [now apply mem_str_In|].
      assert (Hf : In k (filter (fun k0 => negb (mem_str k0 (lused st))) (akeys kw))).
      { apply filter_In. split; [assumption|]. now rewrite Em. }
      rewrite Hfil in Hf. contradiction. }
    now rewrite E.
  Qed.

  (* once a node is memoised, every function node the requested output needs is memoised *)
  Lemma memo_closure ls st1 : wf_P p ls -> good p kw (lheap st) -> EInv body pick p kw (lheap st) st1 ->
    forall n o' g r, producer p o' = Some g -> points (lheap st) r g o' -> memo_at st1 r <> None ->
    forall g', In g' (needed n p kw o') -> exists i, is_fnode (lheap st) i g' /\ memo_at st1 i <> None.
  Proof.
    intros Hw Hg HE. induction n as [|n IH]; intros o' g r Eg Hp Hm g' Hg'; [contradiction|].
    assert (Hnode : exists ig, is_fnode (lheap st) ig g /\ memo_at st1 ig <> None).
    { destruct Hp as [[_ Hf]|[_ [nd [r0 [N1 [N2 [N3 [N4 N5]]]]]]]]; [eauto|]. exists r0. split; [assumption|].
      unfold memo_at in Hm. destruct (nth_error (eheap st1) r) as [nd1|] eqn:E1; [|congruence].
      destruct (shape_nth _ _ _ _ (ei_shape _ _ _ _ _ _ HE) E1) as [nd0 [M0 [M1 M2]]]. rewrite N1 in M0. inversion M0; subst nd0.
      destruct (ei_closed _ _ _ _ _ _ HE r nd1 E1 Hm r0) as [nd' [R1 R2]].
      { rewrite <- M2, N3. cbn. now left. }
      unfold memo_at. now rewrite R1. }
    rewrite (needed_S p kw), Eg in Hg'. destruct Hg' as [<-|Hg']; [assumption|].
    apply in_flat_map in Hg' as [cur [Hcur Hg']]. destruct (source_of p kw g cur) as [| |h| |] eqn:Es; try contradiction.
    destruct Hnode as [ig [[ndg [G1 G2]] Hmg]].
    pose proof (Hg ig ndg G1) as Hok. unfold node_ok in Hok. rewrite G2 in Hok. destruct Hok as [Hgp HF].
    apply in_map_iff in Hcur as [[c orig] [Ec Hin]]. cbn in Ec. subst c.
    destruct (Forall2_In_l _ _ _ _ HF Hin) as [[k a'] [Hka [_ [Hap _]]]]. cbn in Hap. unfold argprop in Hap. rewrite Es in Hap.
    destruct Hap as [r' [Ea' Hp']]. cbn in Ea'. subst a'.
    unfold memo_at in Hmg. destruct (nth_error (eheap st1) ig) as [nd1|] eqn:E1; [|congruence].
    destruct (shape_nth _ _ _ _ (ei_shape _ _ _ _ _ _ HE) E1) as [nd0 [M0 [M1 M2]]]. rewrite G1 in M0. inversion M0; subst nd0.
    destruct (ei_closed _ _ _ _ _ _ HE ig nd1 E1 Hmg r') as [nd' [R1 R2]].
    { rewrite <- M2. apply refs_of_In. eauto. }
    apply (source_SUp p kw) in Es as [_ [_ Eh]].
    eapply (IH cur h r' Eh Hp'); [|exact Hg']. unfold memo_at. now rewrite R1.
  Qed.

  Theorem evaluate_once st1 v : evaluate body pick e0 a = (st1, Ok v) ->
    NoDup (map fst (elog st1))
    /\ NoDup (map (fun e => fst (snd e)) (elog st1))
    /\ (forall g, In g p -> (In (fname g) (map (fun e => fst (snd e)) (elog st1)) <-> In g (needed_top p kw o)))
    /\ (forall i c, In (i, c) (elog st1) -> exists f, In f p /\ fst c = fname f /\ eval_args body pick p kw f = Ok (snd c))
    /\ evaluate body pick st1 a = (st1, Ok v).
  Proof.
    destruct lazy_facts as [ls [f [r [Hw [Hk [Ef [Ea [Hp [Hg [Huniq [Halloc _]]]]]]]]]]]. rewrite Ea. cbn [evaluate eheap e0].
    intros Hev. pose proof (points_lt _ _ _ _ Hp) as Hlt.
    destruct (ev_spec body pick p kw ls Hw (lheap st) Hg (S (length (lheap st))) e0 r st1 (Ok v) (EInv_e0 ls Hw Hg) ltac:(lia) Hlt Hev)
      as [_ Hpost]. destruct (Hpost v eq_refl) as [HE [_ [Hm _]]].
    assert (Hent : forall i c, In (i, c) (elog st1) ->
              exists g, is_fnode (lheap st) i g /\ In g p /\ fst c = fname g /\ eval_args body pick p kw g = Ok (snd c)).
    { intros i c Hin. destruct (ei_entry _ _ _ _ _ _ HE i c Hin) as [nd [g [N1 [N2 [N3 N4]]]]]. exists g.
      assert (Hfn : is_fnode (lheap st) i g) by (exists nd; auto). repeat split; auto. eapply good_fnode_in_p; eauto. }
    split; [apply (ei_nodup _ _ _ _ _ _ HE)|]. split.
    { apply (NoDup_map_key fst); [apply (ei_nodup _ _ _ _ _ _ HE)|]. intros [i c] [j c'] Hx Hy E. cbn in E |- *.
      destruct (Hent i c Hx) as [g [G1 [G2 [G3 _]]]]. destruct (Hent j c' Hy) as [g' [G1' [G2' [G3' _]]]].
      assert (g = g') by (eapply (fname_inj p ls Hw); eauto; congruence). subst g'. eapply Huniq; eauto. }
    split.
    { intros g Hgp. split.
      - intros Hin. apply in_map_iff in Hin as [[i c] [E Hin]]. cbn in E. destruct (Hent i c Hin) as [g' [G1 [G2 [G3 _]]]].
        assert (g' = g) by (eapply (fname_inj p ls Hw); eauto; congruence). subst g'. apply Halloc. eauto.
      - intros Hn. assert (Hmr : memo_at st1 r <> None) by (rewrite Hm; discriminate).
        destruct (memo_closure ls st1 Hw Hg HE (S (length p)) o f r Ef Hp Hmr g Hn) as [i [[nd [N1 N2]] Hmi]].
        unfold memo_at in Hmi. destruct (nth_error (eheap st1) i) as [nd1|] eqn:E1; [|congruence].
        destruct (shape_nth _ _ _ _ (ei_shape _ _ _ _ _ _ HE) E1) as [nd0 [M0 [M1 M2]]]. rewrite N1 in M0. inversion M0; subst nd0.
        assert (Hk1 : nk nd1 = NFun g) by congruence.
        apply (ei_logged _ _ _ _ _ _ HE i nd1 g E1 Hk1) in Hmi. apply in_map_iff in Hmi as [[i' c] [E Hin]]. cbn in E. subst i'.
        destruct (Hent i c Hin) as [g' [G1 [G2 [G3 _]]]].
        assert (g' = g) by (eapply fnode_same; eauto; exists nd; auto). subst g'.
        apply in_map_iff. exists (i, c). split; [cbn; congruence|assumption]. }
    split.
    { intros i c Hin. destruct (Hent i c Hin) as [g [_ [G2 [G3 G4]]]]. eauto. }
    cbn [ev]. unfold memo_at in Hm. destruct (nth_error (eheap st1) r) as [nd1|] eqn:E1; [|discriminate]. now rewrite Hm.
  Qed.
End C18.

(* the recorded edges are exactly the producer-consumer dependencies of the evaluation (through pickers) *)
Theorem dag_edges_spec p kw o a st : wf_pipeline p -> lazy_run p o kw false true = (Ok (LValue a), st) ->
  (forall x y, In (x, y) (ldag st) ->
     (exists f cur g, is_fnode (lheap st) y f /\ In cur (pnames f) /\ source_of p kw f cur = SUp g
                      /\ points (lheap st) x g cur)
     \/ (exists g n nd, nth_error (lheap st) y = Some nd /\ nk nd = NPick n /\ is_fnode (lheap st) x g
                        /\ In n (outs g) /\ multi g = true))
  /\ (forall y f cur g, is_fnode (lheap st) y f -> In cur (pnames f) -> source_of p kw f cur = SUp g ->
        exists x, points (lheap st) x g cur /\ In (x, y) (ldag st))
  /\ (forall f, In f (needed_top p kw o) -> exists y, is_fnode (lheap st) y f).
Proof.
  intros Hwf Hrun.
  destruct (lazy_facts p kw o true Hwf a st Hrun) as [ls [f0 [r [Hw [Hk [Ef [Ea [Hp [Hg [Huniq [Halloc _]]]]]]]]]]].
  pose proof (dag_edges_exact p o kw false _ st Hrun) as Hex. split; [|split].
  - intros x y Hin. apply Hex in Hin as [nd [N1 N2]]. pose proof (Hg y nd N1) as Hok. unfold node_ok in Hok.
    destruct (nk nd) as [f|n] eqn:Ek.
    + left. destruct Hok as [Hf HF]. apply refs_of_In in N2 as [k N2].
      destruct (Forall2_In_r _ _ _ _ HF N2) as [[cur orig] [Hin [_ [Hap _]]]]. cbn in Hap. unfold argprop in Hap.
      destruct (source_of p kw f cur) as [| |g| |] eqn:Es; try discriminate; try contradiction.
      destruct Hap as [r' [E Hp']]. inversion E; subst r'. exists f, cur, g. repeat split; auto.
      * exists nd. auto.
      * apply in_map_iff. now exists (cur, orig).
    + right. destruct Hok as [r0 [g [Ha [_ [Hfn [Hn [Hm _]]]]]]]. rewrite Ha in N2. cbn in N2. destruct N2 as [<-|[]].
      exists g, n, nd. auto.
  - intros y f cur g [nd [N1 N2]] Hcur Es. pose proof (Hg y nd N1) as Hok. unfold node_ok in Hok. rewrite N2 in Hok.
    destruct Hok as [Hf HF]. apply in_map_iff in Hcur as [[c orig] [Ec Hin]]. cbn in Ec. subst c.
    destruct (Forall2_In_l _ _ _ _ HF Hin) as [[k a'] [Hka [_ [Hap _]]]]. cbn in Hap. unfold argprop in Hap. rewrite Es in Hap.
    destruct Hap as [x [Ea' Hpx]]. cbn in Ea'. subst a'. exists x. split; [assumption|]. apply Hex. exists nd.
    split; [assumption|]. apply refs_of_In. eauto.
  - intros f Hf. now apply Halloc.
Qed.

(* Pipeline.run validates its keywords before anything else (Pipe.run_precheck); when it passes, the call is lazy_run *)
Lemma lazy_run_checked_pass p o kw full dagon :
  run_precheck p o kw = Ok tt -> lazy_run_checked p o kw full dagon = lazy_run p o kw full dagon.
Proof. unfold lazy_run_checked. now intros ->. Qed.
