(* Facts about Model/LazySeq.v: the first request to a lazy pipeline object never hits a cache, so it is exactly
   Lazy.lazy_run (and all theorems of Props/C18.v about lazy_run apply to it). *)
From Verif Require Import Base.Prelude Base.StrOrd Base.Graph Model.Pipe Model.Lazy Model.LazySeq
                          Proofs.GraphFacts Proofs.PipeFacts Proofs.ArgCombFacts Proofs.LazyFacts.

Lemma list_eqb_str_eq a b : list_eqb str_eqb a b = true -> a = b.
Proof.
  revert b. induction a as [|x a IH]; destruct b as [|y b]; cbn; try discriminate; [reflexivity|].
  intros H. apply andb_true_iff in H as [H1 H2]. apply str_eqb_eq in H1. subst. f_equal. now apply IH.
Qed.

Lemma cache_find_Some c k r : cache_find c k = Some r -> exists k', In (k', r) c /\ fst k = fst k'.
Proof.
  induction c as [|[k0 r0] c IH]; cbn; [discriminate|]. destruct (ckey_eqb k k0) eqn:E.
  - intros H. inversion H; subst. exists k0. split; [now left|]. unfold ckey_eqb in E.
    apply andb_true_iff in E as [E _]. now apply list_eqb_str_eq.
  - intros H. destruct (IH H) as [k' [H1 H2]]. exists k'. split; [now right|assumption].
Qed.

Lemma lupdate_heap_grows dagon f id : forall st, exists pk, lheap (lupdate dagon f id st) = lheap st ++ pk.
Proof.
  intros st. unfold lupdate. destruct (multi f).
  - revert st. induction (outs f) as [|n l IH]; intros st; cbn [fold_left]; [exists []; now rewrite app_nil_r|].
    destruct (lhas (lres st) n); [apply IH|].
    destruct (IH (ls_set (fst (alloc dagon st {| nk := NPick n; nargs := [([], ARef id)]; memo := None |})) n
                         (ARef (snd (alloc dagon st {| nk := NPick n; nargs := [([], ARef id)]; memo := None |})))))
      as [pk Hpk].
    unfold alloc in *. cbn [fst snd] in *. rewrite Hpk. cbn [ls_set lheap]. rewrite <- app_assoc. eauto.
  - exists []. cbn. now rewrite app_nil_r.
Qed.

Section Sim.
  Variable p : pipeline.
  Variable dagon : bool.
  Variable kw : alist.
  Variable full : bool.
  Variable ls : list (list str).
  Hypothesis Hwf : wf_P p ls.
  (* root_args never fails on an output (a pipeline-level fact, decidable for a given pipeline) *)
  Hypothesis Hroots : forall o, is_output p o = true -> exists ra, root_args p o = Ok ra.

  (* every cached object belongs to a function that already has its node *)
  Definition CacheOK (h : heap) (c : list (ckey * nat)) : Prop :=
    forall k r, In (k, r) c -> exists g, In g p /\ fst k = outs g /\ exists i, is_fnode h i g.

  Lemma CacheOK_app h h' c : CacheOK h c -> CacheOK (h ++ h') c.
  Proof.
    intros H k r Hin. destruct (H k r Hin) as [g [G1 [G2 [i G3]]]]. exists g. repeat split; auto.
    exists i. now apply is_fnode_app.
  Qed.

  Definition CInv (st : cstate) : Prop :=
    LInv p kw (cl st) /\ CacheOK (lheap (cl st)) (ccache st) /\ cskip st = false.

  Definition SimOK (n : nat) : Prop :=
    forall st o st' r, CInv st -> rk p ls o < n -> aget kw o = None ->
      crun_out p dagon kw full n st o = (st', r) ->
      lazy_run_out p kw dagon n (cl st) o = (cl st', r) /\ cskip st' = false
      /\ (forall a, r = Ok a -> CInv st').

  Lemma cresolve_sim n f st cur st1 rv :
    SimOK n -> In f p -> frank ls f <= n -> In cur (pnames f) -> CInv st ->
    cresolve p kw (crun_out p dagon kw full n) f st cur = (st1, rv) ->
    lresolve p kw (lazy_run_out p kw dagon n) f (cl st) cur = (cl st1, rv) /\ cskip st1 = false
    /\ (forall a, rv = Ok a -> CInv st1).
  Proof.
    intros Hsim Hf Hn Hcur HI. unfold cresolve, lresolve. pose proof HI as [HL [HC HS]].
    assert (Hsame : forall v : larg, (st, @Ok larg v) = (st1, rv) ->
              (cl st, @Ok larg v) = (cl st1, rv) /\ cskip st1 = false /\ (forall a, rv = Ok a -> CInv st1)).
    { intros v E. inversion E; subst. split; [reflexivity|]. split; [exact HS|]. intros a _. exact HI. }
    destruct (aget (bound f) cur) eqn:Eb; [apply Hsame|].
    destruct (aget kw cur) eqn:Ek; [apply Hsame|].
    destruct (is_output p cur) eqn:Eo.
    - apply is_output_true in Eo as [h Eh]. intros E. apply Hsim; auto.
      rewrite (rk_producer p ls _ _ Eh). rewrite <- ahas_false_iff in Eb.
      pose proof (wf_rank_edge _ _ Hwf f h cur Hf Hcur Eb Eh). lia.
    - destruct (pdefault p cur); [apply Hsame|]. intros E. inversion E; subst. split; [reflexivity|].
      split; [exact HS|]. intros a Ea. discriminate.
  Qed.

  Lemma cget_args_sim n f : SimOK n -> In f p -> frank ls f <= n ->
    forall ps st acc st' ra, incl (map fst ps) (pnames f) -> CInv st ->
    cget_args p kw (crun_out p dagon kw full n) f ps st acc = (st', ra) ->
    lget_args p kw (lazy_run_out p kw dagon n) f ps (cl st) acc = (cl st', ra) /\ cskip st' = false
    /\ (forall args, ra = Ok args -> CInv st').
  Proof.
    intros Hsim Hf Hn. induction ps as [|[cur orig] t IH]; intros st acc st' ra Hincl HI H; cbn in H.
    - inversion H; subst. cbn. split; [reflexivity|]. split; [apply HI|]. intros args _. exact HI.
    - destruct (cresolve p kw (crun_out p dagon kw full n) f st cur) as [st1 rv] eqn:Er.
      assert (Hcur : In cur (pnames f)) by (apply Hincl; now left).
      destruct (cresolve_sim n f st cur st1 rv Hsim Hf Hn Hcur HI Er) as [El [Hs1 HI1]].
      cbn [lget_args]. rewrite El. destruct rv as [a|e].
      + destruct (HI1 a eq_refl) as [L1 [C1 S1]].
        assert (HI1' : CInv (with_cl st1 (ls_use (cl st1) cur))).
        { split; [cbn; now apply LInv_use|]. split; [cbn; exact C1|cbn; exact S1]. }
        apply IH in H; [exact H| |exact HI1']. intros x Hx. apply Hincl. now right.
      + inversion H; subst. split; [reflexivity|]. split; [exact Hs1|]. intros args E. discriminate.
  Qed.

  Lemma crun_out_sim : forall n, SimOK n.
  Proof.
    induction n as [|n IH]; intros st o st' r HI Hrk Hkw Hrun; [lia|].
    cbn [crun_out] in Hrun. cbn [lazy_run_out].
    destruct HI as [HL [HC HS]].
    destruct (lget (lres (cl st)) o) as [a|] eqn:Eres.
    { inversion Hrun; subst. split; [reflexivity|]. split; [exact HS|]. intros a0 _. exact (conj HL (conj HC HS)). }
    destruct (producer p o) as [f|] eqn:Ef.
    2: { inversion Hrun; subst. split; [reflexivity|]. split; [exact HS|]. intros a E; discriminate. }
    pose proof (producer_Some _ _ _ Ef) as [Hf Ho].
    destruct (Hroots o (proj2 (is_output_true p o) (ex_intro _ f Ef))) as [ra Era]. rewrite Era in Hrun.
    assert (Hfn : frank ls f <= n). { rewrite (rk_producer p ls _ _ Ef) in Hrk. lia. }
    (* the cache cannot hit: f has no node yet *)
    assert (Hmiss : match (if dagon || cached f && has_cache p then cache_key p kw f ra else None) with
                    | Some k => cache_find (ccache st) k
                    | None => None
                    end = None).
    { destruct (if dagon || cached f && has_cache p then cache_key p kw f ra else None) as [k|] eqn:Ek; [|reflexivity].
      destruct (cache_find (ccache st) k) as [r0|] eqn:Ec; [|reflexivity]. exfalso.
      apply cache_find_Some in Ec as [k' [Hin Hfst]]. destruct (HC k' r0 Hin) as [g [Hg [Hk' [i Hi]]]].
      assert (Hko : fst k = outs f).
      { destruct (dagon || cached f && has_cache p); [|discriminate]. unfold cache_key in Ek.
        destruct (existsb (is_output p) (akeys kw)); [discriminate|].
        destruct (key_items p kw f ra); inversion Ek. reflexivity. }
      assert (g = f).
      { apply (same_output_same_func p ls Hwf g f o Hg Hf); [|assumption]. rewrite <- Hk', <- Hfst, Hko. assumption. }
      subst g. destruct HL as [_ Hcomp]. pose proof (Hcomp f i o Hi Ho) as Hh.
      apply lhas_true_iff in Hh as [x Hx]. congruence. }
    rewrite Hmiss in Hrun.
    destruct (cget_args p kw (crun_out p dagon kw full n) f (params f) st []) as [st1 ra'] eqn:Ega.
    destruct (cget_args_sim n f IH Hf Hfn (params f) st [] st1 ra' (incl_refl _) (conj HL (conj HC HS)) Ega) as [El [Hs1 HI1]].
    rewrite El. destruct ra' as [args|e].
    2: { inversion Hrun; subst. split; [reflexivity|]. split; [exact Hs1|]. intros a E; discriminate. }
    destruct (HI1 args eq_refl) as [L1 [C1 S1]].
    destruct (alloc dagon (cl st1) {| nk := NFun f; nargs := args; memo := None |}) as [l2 id] eqn:Ea.
    inversion Hrun; subst st' r. clear Hrun. cbn [cl cskip ccache]. unfold result_of. cbn [cl].
    split; [reflexivity|]. split; [assumption|].
    intros a Ea'.
    (* the lazy side of this step, with its specification *)
    assert (Hlazy : lazy_run_out p kw dagon (S n) (cl st) o
                    = (lupdate dagon f id l2, match lget (lres (lupdate dagon f id l2)) o with Some a0 => Ok a0 | None => Err KeyError end)).
    { cbn [lazy_run_out]. now rewrite Eres, Ef, El, Ea. }
    rewrite Ea' in Hlazy.
    destruct (lazy_run_out_spec p kw dagon ls Hwf (S n) (cl st) o _ a HL Hrk Hkw Hlazy) as [HL3 [_ [new [Hd [_ Hall]]]]].
    split; [exact HL3|]. split; [|exact S1]. cbn [cl ccache].
    assert (Hold : CacheOK (lheap (lupdate dagon f id l2)) (ccache st1)).
    { (* the heap only grew since st1 *)
      unfold alloc in Ea. inversion Ea; subst l2 id. clear Ea.
      destruct (lupdate_heap_grows dagon f (length (lheap (cl st1)))
                  {| lres := lres (cl st1); lused := lused (cl st1);
                     lheap := lheap (cl st1) ++ [{| nk := NFun f; nargs := args; memo := None |}];
                     ldag := if dagon then ldag (cl st1) ++ map (fun r => (r, length (lheap (cl st1)))) (refs_of args) else ldag (cl st1) |})
        as [pk Hpk].
      rewrite Hpk. cbn [lheap]. rewrite <- app_assoc. now apply CacheOK_app. }
    destruct (if dagon || cached f && has_cache p then cache_key p kw f ra else None) as [k|] eqn:Ek; [|exact Hold].
    intros k0 r0 [E|Hin]; [|exact (Hold k0 r0 Hin)]. inversion E; subst k0 r0. exists f. split; [assumption|]. split.
    - destruct (dagon || cached f && has_cache p); [|discriminate]. unfold cache_key in Ek.
      destruct (existsb (is_output p) (akeys kw)); [discriminate|].
      destruct (key_items p kw f ra); inversion Ek. reflexivity.
    - apply Hall. rewrite (needed_S p kw), Ef. now left.
  Qed.
End Sim.

(* the first request to a fresh lazy pipeline object (fresh task graph) is Lazy.lazy_run *)
Theorem first_request_is_lazy_run p dagon o kw full :
  wf_pipeline p -> forallb (fun o' => is_ok (root_args p o')) (all_outputs p) = true ->
  exists c, crequest p dagon pinit o kw full =
            (fst (lazy_run p o kw full dagon),
             {| pheap := lheap (snd (lazy_run p o kw full dagon)); pdag := ldag (snd (lazy_run p o kw full dagon));
                pcache := c; plog := [] |}).
Proof.
  intros Hwf Hrb. destruct (wf_pipeline_elim p Hwf) as [ls Hw].
  assert (Hroots : forall o', is_output p o' = true -> exists ra, root_args p o' = Ok ra).
  { intros o' Ho'. apply is_output_true in Ho' as [f Ef]. apply producer_Some in Ef as [Hf Hof].
    rewrite forallb_forall in Hrb. assert (Hin : In o' (all_outputs p)) by (apply in_all_outputs; eauto).
    specialize (Hrb o' Hin). destruct (root_args p o'); [eauto|discriminate]. }
  unfold crequest, lazy_run.
  destruct (negb (is_node p o)); [exists []; reflexivity|].
  destruct (ahas kw o) eqn:Eh; [exists []; reflexivity|]. apply ahas_false_iff in Eh.
  set (st0 := {| cl := {| lres := lres (linit kw); lused := []; lheap := pheap pinit; ldag := pdag pinit |};
                 cskip := false; ccache := pcache pinit |}).
  assert (HI0 : CInv p kw st0).
  { split; [apply (LInv_init p kw)|]. split; [intros k r []|reflexivity]. }
  destruct (crun_out p dagon kw full (S (length p)) st0 o) as [st r] eqn:Ec.
  destruct (crun_out_sim p dagon kw full ls Hw Hroots (S (length p)) st0 o st r HI0 (rk_lt_N p ls Hw o) Eh Ec) as [El [Hs _]].
  change (cl st0) with (linit kw) in El. rewrite El. rewrite Hs. exists (ccache st).
  destruct r as [a|e]; [|reflexivity].
  destruct (filter (fun k => negb (mem_str k (lused (cl st)))) (akeys kw)); reflexivity.
Qed.

Lemma crequest_checked_pass p dagon ps o kw full :
  run_precheck p o kw = Ok tt -> crequest_checked p dagon ps o kw full = crequest p dagon ps o kw full.
Proof. unfold crequest_checked. now intros ->. Qed.

(* ---------- Model/LazyXref.v: a keyword value without deferred objects is an ordinary value ---------- *)
From Verif Require Import Model.LazyXref.

Definition plain (v : str) : Prop := ~ In mopen v /\ ~ In mtuple v.

Lemma plain_tail c v : plain (c :: v) -> plain v.
Proof. intros [H1 H2]. split; intros H; [apply H1|apply H2]; now right. Qed.

Lemma subst_plain rec : forall v st acc, plain v -> subst rec v None st acc = (st, Ok (acc ++ v)).
Proof.
  induction v as [|c v IH]; intros st acc Hp; cbn [subst]; [now rewrite app_nil_r|].
  destruct (Ascii.eqb c mopen) eqn:E.
  - apply Ascii.eqb_eq in E. subst c. exfalso. apply (proj1 Hp). now left.
  - destruct (Ascii.eqb c mtuple) eqn:E2.
    + apply Ascii.eqb_eq in E2. subst c. exfalso. apply (proj2 Hp). now left.
    + rewrite IH; [|eapply plain_tail; eauto]. rewrite <- app_assoc. reflexivity.
Qed.

Lemma scan_plain maxd : forall v depth, plain v -> scan v depth None maxd = [].
Proof.
  induction v as [|c v IH]; intros depth Hp; cbn [scan]; [reflexivity|].
  assert (Hv : plain v) by (eapply plain_tail; eauto).
  destruct (Ascii.eqb c mopen) eqn:E.
  - apply Ascii.eqb_eq in E. subst c. exfalso. apply (proj1 Hp). now left.
  - destruct (Ascii.eqb c "["%char); [now apply IH|]. destruct (Ascii.eqb c "]"%char); now apply IH.
Qed.

(* no deferred object inside => evaluation leaves the value alone, and it contributes neither edges nor dependencies *)
Theorem plain_value_is_inert rec v st :
  plain v -> subst rec v None st [] = (st, Ok v) /\ refs_edge v = [] /\ refs_all v = [].
Proof.
  intros Hp. split; [now rewrite subst_plain|]. split; now apply scan_plain.
Qed.

(* since the repair of add_edge the recorded predecessors of a node are exactly the deferred objects that
   evaluating the node evaluates, at every container depth *)
Theorem recorded_edges_are_all_dependencies nd : deps_edge nd = deps_all nd.
Proof. reflexivity. Qed.
