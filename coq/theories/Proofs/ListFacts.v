(* Generic list / result-monad lemmas used by the C01 proofs. *)
From Verif Require Import Base.Prelude Base.Index Base.NdArr Proofs.IndexFacts Proofs.StrFacts.

(* ---------- result monad ---------- *)
Lemma fold_left_bind_err {A B} (F : A -> B -> result A) l e :
  fold_left (fun acc x => do st <- acc; F st x) l (Err e) = Err e.
Proof. induction l as [|x l IH]; cbn [fold_left bind]; [reflexivity|exact IH]. Qed.

Lemma fold_left_bind_ok {A B} (F : A -> B -> result A) (G : A -> B -> A) l :
  (forall x st, In x l -> F st x = Ok (G st x)) ->
  forall st0, fold_left (fun acc x => do st <- acc; F st x) l (Ok st0) = Ok (fold_left G l st0).
Proof.
  induction l as [|x l IH]; intros H st0; cbn [fold_left bind]; [reflexivity|].
  rewrite H by (left; reflexivity). apply IH. intros; apply H; right; assumption.
Qed.

Lemma mapM_ok_map_in {A B} (f : A -> result B) (g : A -> B) l :
  (forall x, In x l -> f x = Ok (g x)) -> mapM f l = Ok (map g l).
Proof.
  induction l as [|x l IH]; intros H; cbn [mapM map]; [reflexivity|].
  rewrite H by (left; reflexivity). cbn [bind]. rewrite IH; [reflexivity|]. intros; apply H; right; assumption.
Qed.

Lemma mapM_ext_in {A B} (f g : A -> result B) l :
  (forall x, In x l -> f x = g x) -> mapM f l = mapM g l.
Proof.
  induction l as [|x l IH]; intros H; cbn [mapM]; [reflexivity|].
  rewrite H by (left; reflexivity). rewrite IH; [reflexivity|]. intros; apply H; right; assumption.
Qed.

Lemma mapM_Forall2 {A B} (f : A -> result B) l : forall r,
  mapM f l = Ok r -> Forall2 (fun x y => f x = Ok y) l r.
Proof.
  induction l as [|x l IH]; intros r H; cbn [mapM] in H.
  - injection H as <-. constructor.
  - destruct (f x) as [y|e] eqn:E; cbn [bind] in H; [|discriminate].
    destruct (mapM f l) as [ys|e] eqn:E'; cbn [bind] in H; [|discriminate].
    injection H as <-. constructor; [exact E|]. apply IH. reflexivity.
Qed.

Lemma Forall2_map_eq {A B} (R : A -> B -> Prop) (g : A -> B) l : forall r,
  Forall2 R l r -> (forall x y, In x l -> R x y -> y = g x) -> r = map g l.
Proof.
  induction l as [|x l IH]; intros r H Hg; inversion H as [|? y ? r' Hxy Hrest]; subst; cbn [map]; [reflexivity|].
  f_equal.
  - apply Hg; [left; reflexivity|assumption].
  - apply IH; [assumption|]. intros x' y' Hin. apply Hg. right; assumption.
Qed.

Lemma mapM_ok_inv_map {A B} (f : A -> result B) (g : A -> B) l r :
  mapM f l = Ok r -> (forall x y, In x l -> f x = Ok y -> y = g x) -> r = map g l.
Proof. intros H Hg. eapply Forall2_map_eq; [apply mapM_Forall2; exact H|exact Hg]. Qed.

Lemma mapM_ok_in {A B} (f : A -> result B) l r x :
  mapM f l = Ok r -> In x l -> exists y, f x = Ok y /\ In y r.
Proof.
  intros H. apply mapM_Forall2 in H. induction H as [|a b l r Hab Hrest IH]; intros Hin; [contradiction|].
  destruct Hin as [->|Hin].
  - exists b. split; [assumption|left; reflexivity].
  - destruct (IH Hin) as [y [Hy Hyin]]. exists y. split; [assumption|right; assumption].
Qed.

(* ---------- folds ---------- *)
Lemma fold_left_map_arg {A B C} (f : A -> C -> A) (h : B -> C) l : forall a,
  fold_left f (map h l) a = fold_left (fun a x => f a (h x)) l a.
Proof. induction l as [|x l IH]; intros a; cbn [map fold_left]; [reflexivity|apply IH]. Qed.

Lemma fold_left_flat_map {A B C} (f : A -> C -> A) (h : B -> list C) l : forall a,
  fold_left f (flat_map h l) a = fold_left (fun a x => fold_left f (h x) a) l a.
Proof.
  induction l as [|x l IH]; intros a; cbn [flat_map fold_left]; [reflexivity|].
  rewrite fold_left_app. apply IH.
Qed.

Lemma fold_left_ext_in {A B} (f g : A -> B -> A) l :
  (forall a x, In x l -> f a x = g a x) -> forall a, fold_left f l a = fold_left g l a.
Proof.
  induction l as [|x l IH]; intros H a; cbn [fold_left]; [reflexivity|].
  rewrite H by (left; reflexivity). apply IH. intros; apply H; right; assumption.
Qed.

Lemma fold_left_cons_front {A B} (h : B -> list A) l : forall init,
  fold_left (fun st x => h x ++ st) l init = flat_map h (rev l) ++ init.
Proof.
  induction l as [|x l IH]; intros init; cbn [fold_left rev flat_map]; [reflexivity|].
  rewrite IH, flat_map_app. cbn [flat_map]. rewrite app_nil_r, <- app_assoc. reflexivity.
Qed.

Lemma fold_left_pair {A B C} (fa : A -> C -> A) (fb : B -> C -> B) l : forall a b,
  fold_left (fun st x => (fa (fst st) x, fb (snd st) x)) l (a, b) = (fold_left fa l a, fold_left fb l b).
Proof. induction l as [|x l IH]; intros a b; cbn [fold_left fst snd]; [reflexivity|apply IH]. Qed.

(* ---------- nth_error ---------- *)
Lemma nth_error_ext_eq {A} (l : list A) : forall l',
  length l = length l' -> (forall q, q < length l -> nth_error l q = nth_error l' q) -> l = l'.
Proof.
  induction l as [|x l IH]; intros [|y l'] Hlen H; cbn in Hlen; try discriminate; [reflexivity|].
  injection Hlen as Hlen. f_equal.
  - specialize (H 0 ltac:(cbn; lia)). cbn in H. congruence.
  - apply IH; [assumption|]. intros q Hq. apply (H (S q)). cbn. lia.
Qed.

Lemma nth_error_seq0 n q : q < n -> nth_error (seq 0 n) q = Some q.
Proof.
  intros H. rewrite (nth_error_nth' _ 0) by (rewrite seq_length; exact H). now rewrite seq_nth.
Qed.

Lemma nth_error_some_nth {A} (l : list A) j d v : nth_error l j = Some v -> nth j l d = v.
Proof. intros H. now apply nth_error_nth. Qed.

(* ---------- upd ---------- *)
Lemma upd_length {A} (l : list A) : forall n x, length (upd l n x) = length l.
Proof. induction l as [|y l IH]; intros [|n] x; cbn [upd length]; auto. Qed.

Lemma nth_error_upd_same {A} (l : list A) : forall n x, n < length l -> nth_error (upd l n x) n = Some x.
Proof.
  induction l as [|y l IH]; intros [|n] x H; cbn [upd length nth_error] in *; try lia; [reflexivity|].
  apply IH. lia.
Qed.

Lemma nth_error_upd_other {A} (l : list A) : forall n m x, n <> m -> nth_error (upd l n x) m = nth_error l m.
Proof.
  induction l as [|y l IH]; intros [|n] [|m] x H; cbn [upd nth_error]; try reflexivity; try lia.
  apply IH. lia.
Qed.

Definition upd_pairs {A} (pairs : list (nat * A)) (init : list A) : list A :=
  fold_left (fun r px => upd r (fst px) (snd px)) pairs init.

Lemma upd_pairs_length {A} (pairs : list (nat * A)) : forall init, length (upd_pairs pairs init) = length init.
Proof.
  unfold upd_pairs. induction pairs as [|[p x] pairs IH]; intros init; cbn [fold_left fst snd]; [reflexivity|].
  rewrite IH. apply upd_length.
Qed.

(* a batch of updates whose values are a function of the position and which covers every position that
   does not already hold its final value *)
Lemma upd_pairs_covers {A} (G : nat -> A) (pairs : list (nat * A)) :
  (forall p x, In (p, x) pairs -> x = G p) ->
  forall init,
  (forall q, q < length init -> In q (map fst pairs) \/ nth_error init q = Some (G q)) ->
  forall q, q < length init -> nth_error (upd_pairs pairs init) q = Some (G q).
Proof.
  unfold upd_pairs. induction pairs as [|[p x] pairs IH]; intros Hcons init Hcov q Hq; cbn [fold_left fst snd].
  - destruct (Hcov q Hq) as [[]|H]. exact H.
  - apply IH.
    + intros p' x' Hin. apply Hcons. right. exact Hin.
    + intros q'. rewrite upd_length. intros Hq'.
      destruct (Nat.eq_dec p q') as [<-|Hne].
      * right. rewrite nth_error_upd_same by exact Hq'. f_equal. apply Hcons. left. reflexivity.
      * destruct (Hcov q' Hq') as [Hin|Hinit].
        -- cbn [map fst] in Hin. destruct Hin as [Hp|Hin]; [congruence|left; exact Hin].
        -- right. rewrite nth_error_upd_other by exact Hne. exact Hinit.
    + rewrite upd_length. exact Hq.
Qed.

(* ---------- columns of a list-valued state ---------- *)
Definition zipw {X V} (step : V -> X -> X) (xs : list X) (vs : list V) : list X :=
  map (fun xv => step (snd xv) (fst xv)) (combine xs vs).

Lemma zipw_length {X V} (step : V -> X -> X) xs vs : length vs = length xs -> length (zipw step xs vs) = length xs.
Proof. intros H. unfold zipw. rewrite map_length, combine_length. lia. Qed.

Lemma zipw_nth {X V} (step : V -> X -> X) xs vs j dx dv :
  length vs = length xs -> j < length xs ->
  nth j (zipw step xs vs) dx = step (nth j vs dv) (nth j xs dx).
Proof.
  intros Hl Hj. unfold zipw.
  rewrite (nth_indep _ dx (step (snd (dx, dv)) (fst (dx, dv)))) by (rewrite map_length, combine_length; lia).
  rewrite (map_nth (fun xv => step (snd xv) (fst xv))). rewrite combine_nth by (symmetry; exact Hl). reflexivity.
Qed.

Lemma list_eq_map_nth {A} (l : list A) d : l = map (fun j => nth j l d) (seq 0 (length l)).
Proof.
  apply nth_error_ext_eq; [now rewrite map_length, seq_length|].
  intros q Hq. rewrite nth_error_map, nth_error_seq0 by exact Hq. cbn [option_map].
  now apply nth_error_nth'.
Qed.

Lemma fold_zipw_columns {X V} (step : nat -> V -> X -> X) (O : nat -> list V) k dx dv l : forall xs0,
  length xs0 = k -> (forall i, In i l -> length (O i) = k) ->
  fold_left (fun xs i => zipw (step i) xs (O i)) l xs0 =
  map (fun j => fold_left (fun x i => step i (nth j (O i) dv) x) l (nth j xs0 dx)) (seq 0 k).
Proof.
  induction l as [|a l IH]; intros xs0 Hk HO; cbn [fold_left].
  - subst k. apply list_eq_map_nth.
  - rewrite IH.
    + apply map_ext_in. intros j Hj. apply in_seq in Hj. f_equal.
      apply zipw_nth; [rewrite HO by (left; reflexivity); now symmetry | lia].
    + rewrite zipw_length; [exact Hk|]. rewrite HO by (left; reflexivity). now symmetry.
    + intros i Hi. apply HO. right. exact Hi.
Qed.
