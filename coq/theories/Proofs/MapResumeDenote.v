(* Link between Model/MapResume.v and the C01 denotation (Model/MapDenote.v):
   a full run (no request) started on ANY sub-store of the denoted store completes, returns the denoted arrays as
   Result.output and ends with the denoted store.  With the empty store this is the link lemma to
   Model/MapRun.map_run (through C01's map_run_denotes). *)
From Verif Require Import Base.Prelude Base.StrUtil Base.Index Base.NdArr Base.PyRange Base.StrSeq
  Model.MapSpec Model.MapSpecSpec Model.MapRun Model.MapDenote
  Proofs.IndexFacts Proofs.StrFacts Proofs.MapSpecFacts Proofs.ListFacts Proofs.PlaceFacts Proofs.SelectFacts
  Proofs.MapRunFacts.
From Verif Require Import Model.MapResume Model.FixedSpec Proofs.MapResumeFacts Proofs.MapValuesFacts.

(* ------------------------------------------------------------------ dictionaries *)
Lemma dget_app {V} (a b : list (str * V)) k :
  dict_get (a ++ b) k = match dict_get a k with Some v => Some v | None => dict_get b k end.
Proof.
  induction a as [|[k' v'] a IH]; cbn; [reflexivity|]. destruct (str_eqb k k'); [reflexivity | exact IH].
Qed.

Lemma dget_notin {V} (d : list (str * V)) k : ~ In k (map fst d) -> dict_get d k = None.
Proof.
  induction d as [|[k' v'] d IH]; cbn; intros H; [reflexivity|].
  destruct (str_eqb k k') eqn:E; [apply str_eqb_eq in E; subst; exfalso; apply H; left; reflexivity|].
  apply IH. intros X. apply H. right. exact X.
Qed.

Lemma combine_fst_incl {A B} (l : list A) (r : list B) x : In x (map fst (combine l r)) -> In x l.
Proof.
  revert r. induction l as [|a l IH]; intros [|b r] H; cbn in *; try contradiction.
  destruct H as [H|H]; [left; exact H | right; eapply IH; eauto].
Qed.

Lemma dget_combine_nth {V} (names : list str) : forall (vals : list V) j o v,
  NoDup names -> nth_error names j = Some o -> nth_error vals j = Some v ->
  dict_get (combine names vals) o = Some v.
Proof.
  induction names as [|n names IH]; intros [|x vals] j o v Hnd Hn Hv; destruct j; cbn in *; try discriminate.
  - injection Hn as ->. injection Hv as ->. now rewrite str_eqb_refl.
  - inversion Hnd as [|? ? Hni Hnd']; subst.
    destruct (str_eqb o n) eqn:E.
    + apply str_eqb_eq in E. subst. exfalso. apply Hni. eapply nth_error_In; eauto.
    + eapply IH; eauto.
Qed.

(* ------------------------------------------------------------------ the denotation, read off its final state *)
Definition indep_fn (g f : mfunc) : Prop := forall o, In o (fouts g) -> ~ In o (fparams f).

Section DenFacts.
  Variable body : mfunc -> env -> result (list val).
  Variable user : shape_dict.

  (* what denote_run established for function f, in terms of a (later) state d *)
  Definition den_fact (d : den_state) (f : mfunc) : Prop :=
    exists kw, func_kwargs f (d_env d) = Ok kw /\
      if is_mapped f then
        exists ms sh mask arrs,
          fspec f = Some ms /\ forallb (fun n => 0 <? n) sh = true
          /\ length mask = length sh /\ length (ext_of mask sh) = length (external_indices ms)
          /\ denote_mapped body f ms kw sh mask = Ok arrs /\ length arrs = length (fouts f)
          /\ forall j o, nth_error (fouts f) j = Some o ->
               dict_get (d_shapes d) o = Some (sh, mask)
               /\ exists a, nth_error arrs j = Some a /\ dict_get (d_env d) o = Some (VA a) /\ dict_get (d_out d) o = Some (VA a)
      else
        exists outs, body f kw = Ok outs /\ length outs = length (fouts f)
          /\ forall j o, nth_error (fouts f) j = Some o ->
               exists v, nth_error outs j = Some v /\ dict_get (d_env d) o = Some v /\ dict_get (d_out d) o = Some v.

  (* the shape of one step of denote_run *)
  Lemma denote_func_inv d f d' :
    func_ok f = true -> denote_func body user d f = Ok d' ->
    exists kw vals shp',
      func_kwargs f (d_env d) = Ok kw /\ length vals = length (fouts f)
      /\ d_env d' = combine (fouts f) vals ++ d_env d
      /\ d_out d' = d_out d ++ combine (fouts f) vals
      /\ d_shapes d' = shp' ++ d_shapes d /\ (forall o, In o (map fst shp') -> In o (fouts f))
      /\ if is_mapped f then
           exists ms sh mask arrs,
             fspec f = Some ms /\ forallb (fun n => 0 <? n) sh = true
             /\ length mask = length sh /\ length (ext_of mask sh) = length (external_indices ms)
             /\ denote_mapped body f ms kw sh mask = Ok arrs /\ vals = map VA arrs
             /\ shp' = map (fun o => (o, (sh, mask))) (fouts f)
         else body f kw = Ok vals.
  Proof.
    intros Hok Hd. unfold denote_func in Hd.
    destruct (func_shape user (d_shapes d) f) as [shm|e] eqn:Hs; cbn [bind] in Hd; [|discriminate].
    destruct (func_kwargs f (d_env d)) as [kw|e] eqn:Hkw; cbn [bind] in Hd; [|discriminate].
    destruct (is_mapped f) eqn:Hm.
    - destruct (fspec f) as [ms|] eqn:Hsp; [|discriminate].
      destruct shm as [[sh mask]|]; [|discriminate].
      destruct (forallb (fun d0 => 0 <? d0) sh) eqn:Hpos; cbn [negb] in Hd; [|discriminate].
      destruct (denote_mapped body f ms kw sh mask) as [arrs|e] eqn:Hden; cbn [bind] in Hd; [|discriminate].
      injection Hd as <-. cbn [d_env d_out d_shapes].
      destruct (func_ok_spec f ms Hok Hsp) as [Hwf _].
      assert (length mask = length sh /\ length (ext_of mask sh) = length (external_indices ms)) as [Hlen Hext].
      { unfold func_shape in Hs. rewrite Hsp in Hs.
        match type of Hs with (do r <- ?S; _) = _ => destruct S as [[sh' mask']|e] eqn:Es end; cbn [bind] in Hs; [|discriminate].
        injection Hs as -> ->. eapply shape_side_conditions; eassumption. }
      assert (Hla : length arrs = length (fouts f)).
      { unfold denote_mapped in Hden. destruct (ret_shape_ok body f ms kw sh mask); cbn [bind] in Hden; [|discriminate].
        apply mapM_length in Hden. now rewrite Hden, seq_length. }
      exists kw, (map VA arrs), (map (fun o => (o, (sh, mask))) (fouts f)).
      split; [reflexivity|]. split; [now rewrite map_length|]. split; [reflexivity|]. split; [reflexivity|].
      split; [reflexivity|]. split; [intros o Ho; rewrite map_map in Ho; cbn in Ho; now rewrite map_id in Ho|].
      exists ms, sh, mask, arrs. repeat split; auto.
    - destruct (body f kw) as [outs|e] eqn:Hb; cbn [bind] in Hd; [|discriminate].
      destruct (length outs =? length (fouts f)) eqn:Hl; cbn [negb] in Hd; [|discriminate].
      match type of Hd with (if ?c then _ else _) = _ => destruct c end; [discriminate|].
      injection Hd as <-. cbn [d_env d_out d_shapes]. apply Nat.eqb_eq in Hl.
      exists kw, outs, (match shm with Some sm => map (fun o => (o, sm)) (fouts f) | None => [] end).
      split; [reflexivity|]. split; [exact Hl|]. split; [reflexivity|]. split; [reflexivity|].
      split; [destruct shm; reflexivity|]. split; [|exact Hb].
      intros o Ho. destruct shm; [|destruct Ho]. rewrite map_map in Ho. cbn in Ho. now rewrite map_id in Ho.
  Qed.

  Lemma func_kwargs_ext f e e' :
    (forall q, In q (fparams f) -> dict_get e q = dict_get e' q) -> func_kwargs f e = func_kwargs f e'.
  Proof.
    intros H. unfold func_kwargs. apply mapM_ext_in. intros q Hq. unfold lookup_arg. now rewrite (H q Hq).
  Qed.

  (* a later step that neither produces a parameter nor an output of g keeps g's fact *)
  Lemma den_fact_preserved d f d' g :
    func_ok f = true -> denote_func body user d f = Ok d' ->
    (forall o, In o (fouts f) -> ~ In o (fparams g) /\ ~ In o (fouts g)) ->
    den_fact d g -> den_fact d' g.
  Proof.
    intros Hok Hd Hdis [kw [Hkw H]].
    destruct (denote_func_inv d f d' Hok Hd) as [kwf [vals [shp' [_ [Hlv [He [Ho [Hs [Hsn _]]]]]]]]].
    assert (Henv : forall q, (~ In q (fouts f)) -> dict_get (d_env d') q = dict_get (d_env d) q).
    { intros q Hq. rewrite He, dget_app, dget_notin; [reflexivity|]. intros X. apply Hq. eapply combine_fst_incl; eauto. }
    assert (Hout : forall q v, dict_get (d_out d) q = Some v -> dict_get (d_out d') q = Some v).
    { intros q v Hq. rewrite Ho, dget_app, Hq. reflexivity. }
    assert (Hshp : forall q, (~ In q (fouts f)) -> dict_get (d_shapes d') q = dict_get (d_shapes d) q).
    { intros q Hq. rewrite Hs, dget_app, dget_notin; [reflexivity|]. intros X. apply Hq. now apply Hsn. }
    exists kw. split.
    - rewrite <- Hkw. apply func_kwargs_ext. intros q Hq. apply Henv. intros X. exact (proj1 (Hdis q X) Hq).
    - destruct (is_mapped g).
      + destruct H as [ms [sh [mask [arrs [A1 [A2 [A3 [A4 [A5 [A6 A7]]]]]]]]]].
        exists ms, sh, mask, arrs. repeat split; auto.
        * destruct (A7 j o H) as [B1 _]. rewrite Hshp; [exact B1|]. intros X. apply (proj2 (Hdis o X)). eapply nth_error_In; eauto.
        * destruct (A7 j o H) as [_ [a [B2 [B3 B4]]]]. exists a. split; [exact B2|]. split; [|now apply Hout].
          rewrite Henv; [exact B3|]. intros X. apply (proj2 (Hdis o X)). eapply nth_error_In; eauto.
      + destruct H as [outs [A1 [A2 A3]]]. exists outs. split; [exact A1|]. split; [exact A2|].
        intros j o Hj. destruct (A3 j o Hj) as [v [B1 [B2 B3]]]. exists v. split; [exact B1|]. split; [|now apply Hout].
        rewrite Henv; [exact B2|]. intros X. apply (proj2 (Hdis o X)). eapply nth_error_In; eauto.
  Qed.

  (* the step of f itself establishes f's fact *)
  Lemma den_fact_new d f d' :
    func_ok f = true -> denote_func body user d f = Ok d' ->
    indep_fn f f -> (forall o, In o (fouts f) -> dict_get (d_out d) o = None) ->
    den_fact d' f.
  Proof.
    intros Hok Hd Hself Hfresh.
    destruct (denote_func_inv d f d' Hok Hd) as [kw [vals [shp' [Hkw [Hlv [He [Ho [Hs [Hsn Hcase]]]]]]]]].
    assert (Hnd : NoDup (fouts f)).
    { unfold func_ok in Hok. apply andb_true_iff in Hok as [Hok _]. apply andb_true_iff in Hok as [Hok _].
      now apply nodup_str_NoDup. }
    assert (Hent : forall j o, nth_error (fouts f) j = Some o ->
              exists v, nth_error vals j = Some v /\ dict_get (d_env d') o = Some v /\ dict_get (d_out d') o = Some v).
    { intros j o Hj. destruct (nth_error vals j) as [v|] eqn:Ev.
      - exists v. split; [reflexivity|]. split.
        + rewrite He, dget_app, (dget_combine_nth (fouts f) vals j o v Hnd Hj Ev). reflexivity.
        + rewrite Ho, dget_app, (Hfresh o (nth_error_In _ _ Hj)). apply (dget_combine_nth (fouts f) vals j o v Hnd Hj Ev).
      - apply nth_error_None in Ev. assert (j < length (fouts f)) by (apply nth_error_Some; congruence). lia. }
    exists kw. split.
    - rewrite <- Hkw. apply func_kwargs_ext. intros q Hq. rewrite He, dget_app, dget_notin; [reflexivity|].
      intros X. apply combine_fst_incl in X. exact (Hself q X Hq).
    - destruct (is_mapped f).
      + destruct Hcase as [ms [sh [mask [arrs [A1 [A2 [A3 [A4 [A5 [A6 A7]]]]]]]]]]. subst vals shp'.
        exists ms, sh, mask, arrs. rewrite map_length in Hlv. repeat split; auto.
        * rewrite Hs, dget_app.
          assert (E : dict_get (map (fun o0 => (o0, (sh, mask))) (fouts f)) o = Some (sh, mask)).
          { clear - H. revert j H. induction (fouts f) as [|x l IH]; intros [|j] H; cbn in *; try discriminate.
            - injection H as ->. now rewrite str_eqb_refl.
            - destruct (str_eqb o x); [reflexivity | eapply IH; eauto]. }
          now rewrite E.
        * destruct (Hent j o H) as [v [B1 [B2 B3]]]. rewrite nth_error_map in B1.
          destruct (nth_error arrs j) as [a|]; cbn in B1; [|discriminate]. injection B1 as <-. exists a. auto.
      + exists vals. split; [exact Hcase|]. split; [exact Hlv | exact Hent].
  Qed.

  (* every function after f in the list neither produces a parameter of f nor one of its outputs *)
  Fixpoint topo_list (p : list mfunc) : Prop :=
    match p with
    | [] => True
    | f :: rest => indep_fn f f /\ (forall g, In g rest -> indep_fn g f /\ (forall o, In o (fouts g) -> ~ In o (fouts f)))
                   /\ topo_list rest
    end.

  Lemma denote_fold_facts p : forall d dfin,
    forallb func_ok p = true -> topo_list p ->
    (forall o, In o (flat_map fouts p) -> dict_get (d_out d) o = None) ->
    NoDup (flat_map fouts p) ->
    fold_left (fun acc f => do s <- acc; denote_func body user s f) p (Ok d) = Ok dfin ->
    (forall f, In f p -> den_fact dfin f)
    /\ (forall g, den_fact d g -> (forall f, In f p -> forall o, In o (fouts f) -> ~ In o (fparams g) /\ ~ In o (fouts g)) ->
                  den_fact dfin g).
  Proof.
    induction p as [|f p IH]; intros d dfin Hok Htopo Hfresh Hnd H; cbn [fold_left bind] in H.
    - injection H as <-. split; [intros f []|]. intros g Hg _. exact Hg.
    - cbn [forallb] in Hok. apply andb_true_iff in Hok as [Hf Hp]. destruct Htopo as [Hself [Hlater Htopo]].
      destruct (denote_func body user d f) as [d1|e] eqn:E1; [|rewrite fold_left_bind_err in H; discriminate].
      cbn [flat_map] in Hnd, Hfresh. destruct (NoDup_app_inv _ _ Hnd) as [Hndf [Hndp Hdisj]].
      destruct (denote_func_inv d f d1 Hf E1) as [_ [vals [_ [_ [Hlv [_ [Ho1 _]]]]]]].
      destruct (IH d1 dfin Hp Htopo) as [I1 I2]; [| exact Hndp | exact H |].
      + intros o Ho. rewrite Ho1, dget_app, (Hfresh o (in_or_app _ _ _ (or_intror Ho))).
        apply dget_notin. intros X. apply combine_fst_incl in X. exact (Hdisj o X Ho).
      + split.
        * intros g [<-|Hg]; [|now apply I1].
          apply I2.
          -- apply (den_fact_new d f d1 Hf E1 Hself). intros o Ho. apply Hfresh. apply in_or_app. left. exact Ho.
          -- intros h Hh o Ho. destruct (Hlater h Hh) as [A B]. split; [exact (A o Ho) | exact (B o Ho)].
        * intros g Hg Hdis. apply I2.
          -- apply (den_fact_preserved d f d1 g Hf E1); [|exact Hg]. intros o Ho. apply (Hdis f (or_introl eq_refl) o Ho).
          -- intros h Hh. apply Hdis. right. exact Hh.
  Qed.
End DenFacts.

(* ------------------------------------------------------------------ placements in any order *)
(* placing every linear index (in any order, possibly repeatedly) fills the array with the target,
   whatever it held before *)
Theorem place_pure_cover sh mask (V : nat -> val) (L : list nat) init :
  length mask = length sh -> length init = prod sh ->
  (forall i, In i L -> i < prod (ext_of mask sh)) ->
  (forall i, i < prod (ext_of mask sh) -> In i L) ->
  fold_left (fun arr i => place_pure sh mask i (V i) arr) L init = target sh mask V.
Proof.
  intros Hlen Hinit Hlt Hcov. unfold place_pure, upd_pairs.
  rewrite <- (fold_left_flat_map (fun r px => upd r (fst px) (snd px)) (fun i => place_pairs sh mask i (V i))).
  fold (upd_pairs (flat_map (fun i => place_pairs sh mask i (V i)) L) init).
  apply nth_error_ext_eq.
  { rewrite upd_pairs_length, Hinit. unfold target. now rewrite map_length, all_indices_length. }
  rewrite upd_pairs_length, Hinit. intros q Hq.
  unfold target. rewrite <- unravel_enumerates, map_map, nth_error_map, nth_error_seq0 by exact Hq. cbn [option_map].
  apply (upd_pairs_covers (fun q => target_elem sh mask V (unravel sh q))).
  - intros p x Hin. apply in_flat_map in Hin as [i [Hi Hin]]. apply Hlt in Hi.
    unfold place_pairs in Hin. apply in_map_iff in Hin as [jj [E Hjj]]. injection E as <- <-.
    destruct (merge_facts sh mask Hlen i jj Hi Hjj) as [Hb [E1 [E2 E3]]].
    rewrite unravel_ravel by exact Hb. unfold target_elem. rewrite E3, E2. reflexivity.
  - intros q' Hq'. rewrite Hinit in Hq'. left.
    pose proof (unravel_in_bounds sh q' Hq') as Hb.
    destruct (split_facts sh mask Hlen _ Hb) as [Hi [Hjj Hm]].
    apply in_map_iff. exists (q', elem (V (ravel (ext_of mask sh) (ext_of mask (unravel sh q')))) (int_of mask (unravel sh q'))).
    split; [reflexivity|]. apply in_flat_map. exists (ravel (ext_of mask sh) (ext_of mask (unravel sh q'))).
    split; [now apply Hcov|]. unfold place_pairs. apply in_map_iff.
    exists (int_of mask (unravel sh q')). split; [|exact Hjj].
    rewrite Hm, ravel_unravel by exact Hq'. reflexivity.
  - rewrite Hinit. exact Hq.
Qed.

Lemma mapM_map_comp {A B C} (f : B -> result C) (h : A -> B) l : mapM f (map h l) = mapM (fun x => f (h x)) l.
Proof. induction l as [|x l IH]; cbn; [reflexivity|]. now rewrite IH. Qed.

Lemma in_combine_seq {A} (st : list A) : forall a i cl,
  In (i, cl) (combine (seq a (length st)) st) -> a <= i /\ nth_error st (i - a) = Some cl.
Proof.
  induction st as [|x st IH]; intros a i cl H; cbn in H; [destruct H|].
  destruct H as [H|H].
  - injection H as <- <-. rewrite Nat.sub_diag. auto.
  - destruct (IH (S a) i cl H) as [Q1 Q2]. split; [lia|].
    replace (i - a) with (S (i - S a)) by lia. exact Q2.
Qed.

Lemma fold_left_combine_fst {A B C} (g : A -> B -> A) (l : list B) : forall (r : list C) a,
  length l <= length r ->
  fold_left (fun a0 (x : B * C) => g a0 (fst x)) (combine l r) a = fold_left g l a.
Proof.
  induction l as [|x l IH]; intros [|y r] a H; cbn in *; try reflexivity; try lia. apply IH. lia.
Qed.

(* ------------------------------------------------------------------ one mapped function against its denotation *)
Section OneFunc.
  Variable body : mfunc -> env -> result (list val).
  Hypothesis Harity : body_arity body.
  Variables (f : mfunc) (ms : mapspec) (kw : env) (sh : list nat) (mask : list bool).
  Hypothesis Hwf : wf_decl ms = true.
  Hypothesis Hnames : NoDup (map aname (ins ms)).
  Hypothesis Hout : NoDup (output_indices ms).
  Hypothesis Hk : 0 < length (fouts f).
  Hypothesis Hlen : length mask = length sh.
  Hypothesis Hext : length (ext_of mask sh) = length (external_indices ms).
  Hypothesis Hpos : forallb (fun d => 0 <? d) sh = true.
  Variable arrs : list (nd str).
  Hypothesis Hden : denote_mapped body f ms kw sh mask = Ok arrs.

  Notation N := (prod (ext_of mask sh)).
  Notation OL := (outs_lin body f ms kw sh mask).
  Notation kk := (length (fouts f)).

  Lemma it_facts i : i < N ->
    exists sel, select_kwargs ms kw (ext_of mask sh) i = Ok sel /\ body f sel = Ok (OL i)
                /\ length (OL i) = kk /\ (forall v, In v (OL i) -> val_ok mask (int_of mask sh) v)
                /\ output_key ms (ext_of mask sh) i = Ok (unravel (ext_of mask sh) i).
  Proof.
    intros Hi. destruct (iteration_facts body Harity f ms kw sh mask Hk Hlen Hext Hpos arrs Hden i Hi) as [sel [A [B [C D]]]].
    exists sel. rewrite (select_kwargs_arg_at ms Hwf Hnames Hout kw _ i Hext (ext_pos sh mask Hpos)).
    repeat split; auto. apply (output_key_ok ms Hwf Hout _ i Hext (ext_pos sh mask Hpos)).
  Qed.

  (* the model's own name for the outputs of element i coincides *)
  Lemma outs_at_lin i : i < N -> MapResumeFacts.outs_at body f ms kw sh mask i = OL i.
  Proof.
    intros Hi. destruct (it_facts i Hi) as [sel [A [B _]]].
    unfold MapResumeFacts.outs_at, sel_at. now rewrite A, B.
  Qed.

  Lemma compute_elem_succeeds st i : i < N -> exists st', compute_elem body f ms kw sh mask st i = ROk st'.
  Proof.
    intros Hi. destruct (it_facts i Hi) as [sel [A [B [C [_ E]]]]].
    unfold compute_elem. rewrite A. cbn [lift rbind]. rewrite B. cbn [lift rbind].
    rewrite C, Nat.eqb_refl. cbn [negb]. rewrite E. cbn [lift rbind]. eexists. reflexivity.
  Qed.

  Lemma step_fold_succeeds L : forall st0, (forall x, In x L -> x < N) ->
    exists st, step_fold body f ms kw sh mask L st0 = ROk st.
  Proof.
    induction L as [|x L IH]; intros st0 HL; [exists st0; reflexivity|].
    destruct (compute_elem_succeeds st0 x (HL x (or_introl eq_refl))) as [st1 H1].
    destruct (IH st1 (fun y Hy => HL y (or_intror Hy))) as [st H2].
    exists st. unfold step_fold in *. cbn [fold_left rbind]. rewrite H1. exact H2.
  Qed.

  (* stores that hold, where present, the denoted values *)
  Definition cells_sub (stores : list estore) : Prop :=
    length stores = kk /\
    forall j, j < kk -> length (nth j stores []) = N /\
      forall i, i < N -> nth i (nth j stores []) None = None
                         \/ nth i (nth j stores []) None = Some (Ok (nth j (OL i) dflt)).
  Definition cells_full (stores : list estore) : Prop :=
    length stores = kk /\
    forall j, j < kk -> length (nth j stores []) = N /\
      forall i, i < N -> nth i (nth j stores []) None = Some (Ok (nth j (OL i) dflt)).

  (* a full run of the function on a sub-store: it completes, and afterwards the store is full *)
  Lemma submit_mapped_den stores tr : cells_sub stores ->
    exists st ex, submit_mapped body f ms kw sh mask None stores tr = ROk (st, ex)
      /\ cells_full (m_stores st)
      /\ ex = filter (fun i => negb (miss_any stores i)) (seq 0 N)
      /\ m_results st = map (fun i => (i, OL i)) (filter (fun i => miss_any stores i) (seq 0 N)).
  Proof.
    intros [Hl Hc]. unfold submit_mapped. cbn [mask_fixed_axes lift rbind]. rewrite classify_eq. cbn [fst snd selb andb].
    set (missing := filter (fun i => miss_any stores i) (seq 0 N)).
    assert (Hml : forall x, In x missing -> x < N) by (intros x Hx; apply filter_In in Hx as [Hx _]; apply in_seq in Hx; lia).
    destruct (step_fold_succeeds missing {| m_stores := stores; m_results := []; m_tr := tr |} Hml) as [st Hst].
    unfold step_fold in Hst. rewrite Hst. cbn [rbind]. exists st, (filter (fun i => negb (miss_any stores i)) (seq 0 N)).
    split; [reflexivity|].
    destruct (step_fold_spec body f ms kw sh mask missing {| m_stores := stores; m_results := []; m_tr := tr |} st [] stores Hml Hl (filled_nil body f ms kw sh mask stores) Hst)
      as [Hfill [Hres _]]. cbn [app m_results] in Hfill, Hres.
    split; [|split; [reflexivity|]].
    - destruct Hfill as [FL FH]. split; [now rewrite FL|]. intros j Hj. destruct (Hc j Hj) as [C1 C2].
      destruct (FH j) as [FA FB]; [now rewrite Hl|]. split; [now rewrite FA|].
      intros i Hi. rewrite FB by (rewrite C1; exact Hi).
      destruct (memb i missing) eqn:Em.
      + now rewrite outs_at_lin.
      + destruct (C2 i Hi) as [Hn|Hs]; [|exact Hs]. exfalso.
        apply Bool.not_true_iff_false in Em. apply Em. apply memb_In. apply filter_In. split; [apply in_seq; lia|].
        unfold miss_any. apply existsb_exists. exists (nth j stores []). split; [apply nth_In; now rewrite Hl|].
        exact (f_equal cell_missing Hn).
    - rewrite Hres. apply map_ext_in. intros i Hi. now rewrite outs_at_lin by (now apply Hml).
  Qed.

  (* reading element i back from a full store gives the denoted outputs *)
  Lemma get_all_full stores i : cells_full stores -> i < N ->
    mapM (fun e : estore => get_from_index e i) stores = Ok (OL i).
  Proof.
    intros [Hl Hc] Hi. destruct (it_facts i Hi) as [_ [_ [_ [Hlo _]]]].
    rewrite (list_eq_map_nth (OL i) dflt), Hlo.
    pose proof (list_eq_map_nth stores ([] : estore)) as Es. rewrite Hl in Es.
    rewrite Es at 1. rewrite mapM_map_comp.
    apply mapM_ok_map_in. intros j Hj. apply in_seq in Hj.
    destruct (Hc j) as [_ C]; [lia|]. unfold get_from_index. now rewrite (C i Hi).
  Qed.

  Definition col (j : nat) (i : nat) : val := nth j (OL i) dflt.

  (* the result arrays: placing the computed and the loaded elements, in this order, gives the denoted arrays *)
  Lemma process_mapped_den st ex :
    cells_full (m_stores st) ->
    (forall i, In i ex -> i < N) ->
    (exists Lm, m_results st = map (fun i => (i, OL i)) Lm /\ (forall i, In i Lm -> i < N)
                /\ forall i, i < N -> In i (Lm ++ ex)) ->
    process_mapped f sh mask st ex = ROk arrs.
  Proof.
    intros Hfull Hex [Lm [Hres [HLm Hcov]]]. unfold process_mapped.
    set (G := fun (xs : list (list str)) (i : nat) => zipw (place_pure sh mask i) xs (OL i)).
    assert (Hput : forall xs i, i < N -> put_elem sh mask xs i (OL i) = Ok (G xs i)).
    { intros xs i Hi. destruct (it_facts i Hi) as [_ [_ [_ [_ [Hv _]]]]]. unfold put_elem, G, zipw.
      apply mapM_ok_map_in. intros [a v] Hin. cbn [fst snd]. apply place_ok; [exact Hlen | exact Hi|].
      apply Hv. eapply in_combine_r. exact Hin. }
    rewrite Hres, fold_left_map_arg. cbn [fst snd].
    rewrite (fold_left_bind_ok _ G) by (intros i xs Hi; apply Hput; now apply HLm). cbn [lift rbind].
    rewrite (fold_left_bind_ok (fun xs i => do outs <- mapM (fun e : estore => get_from_index e i) (m_stores st); put_elem sh mask xs i outs) G).
    2:{ intros i xs Hi. rewrite (get_all_full _ i Hfull (Hex i Hi)). cbn [bind]. apply Hput. now apply Hex. }
    cbn [lift rbind]. f_equal. rewrite <- fold_left_app.
    unfold G. rewrite (fold_zipw_columns (place_pure sh mask) OL kk (repeat none_str (prod sh)) dflt).
    - rewrite map_map, (denote_mapped_arrays body f ms kw sh mask Hlen arrs Hden dflt).
      apply map_ext_in. intros j Hj. apply in_seq in Hj. f_equal. rewrite nth_repeat.
      apply (place_pure_cover sh mask (fun i => nth j (OL i) dflt) (Lm ++ ex)); [exact Hlen | apply repeat_length | | exact Hcov].
      intros i Hi. apply in_app_or in Hi as [Hi|Hi]; [now apply HLm | now apply Hex].
    - apply repeat_length.
    - intros i Hi. assert (i < N) by (apply in_app_or in Hi as [Hi|Hi]; [now apply HLm | now apply Hex]).
      destruct (it_facts i H) as [_ [_ [_ [Hlo _]]]]. exact Hlo.
  Qed.

  (* StorageBase.to_array of a full store is the denoted array *)
  Lemma render_full stores j : cells_full stores -> j < kk ->
    render sh mask (nth j stores []) = Ok {| shp := sh; dat := target sh mask (col j) |}.
  Proof.
    intros [Hl Hc] Hj. destruct (Hc j Hj) as [C1 C2]. unfold render. rewrite C1.
    rewrite (fold_left_bind_ok _ (fun arr (ic : nat * cell) => place_pure sh mask (fst ic) (col j (fst ic)) arr)).
    - cbn [bind]. f_equal. f_equal.
      rewrite (fold_left_combine_fst (fun arr i => place_pure sh mask i (col j i) arr)) by (rewrite seq_length, C1; lia).
      apply place_pure_cover; [exact Hlen | apply repeat_length | intros i Hi; apply in_seq in Hi; lia | intros i Hi; apply in_seq; lia].
    - intros [i cl] arr Hin. cbn [fst snd].
      assert (Hi : i < N) by (apply in_combine_l in Hin; apply in_seq in Hin; lia).
      assert (Hcl : cl = Some (Ok (col j i))).
      { rewrite <- C1 in Hin. destruct (in_combine_seq _ _ _ _ Hin) as [_ Q]. rewrite Nat.sub_0_r in Q.
        unfold col. rewrite <- (C2 i Hi). symmetry. now apply nth_error_nth. }
      subst cl. destruct (it_facts i Hi) as [_ [_ [_ [Hlo [Hv _]]]]]. apply place_ok; [exact Hlen | exact Hi|].
      apply Hv. unfold col. apply nth_In. rewrite Hlo. exact Hj.
  Qed.
End OneFunc.
