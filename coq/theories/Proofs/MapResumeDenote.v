(* Link between Model/MapResume.v and the C01 denotation (Model/MapDenote.v):
   a full run (no request) started on ANY sub-store of the denoted store completes, returns the denoted arrays as
   Result.output and ends with the denoted store.  With the empty store this is the link lemma to
   Model/MapRun.map_run (through C01's map_run_denotes). *)
From Verif Require Import Base.Prelude Base.StrUtil Base.Index Base.NdArr Base.PyRange Base.StrSeq
  Model.MapSpec Model.MapSpecSpec Model.MapRun Model.MapDenote
  Proofs.IndexFacts Proofs.StrFacts Proofs.MapSpecFacts Proofs.ListFacts Proofs.PlaceFacts Proofs.SelectFacts
  Proofs.MapRunFacts.
From Verif Require Import Model.MapResume Model.FixedSpec Proofs.MapResumeFacts Proofs.MapValuesFacts.

(* ------------------------------------------------------------------ dictionaries *)
Lemma dget_app {V} (a b : list (str * V)) k :
  dict_get (a ++ b) k = match dict_get a k with Some v => Some v | None => dict_get b k end.
Proof.
  induction a as [|[k' v'] a IH]; cbn; [reflexivity|]. destruct (str_eqb k k'); [reflexivity | exact IH].
Qed.

Lemma dget_notin {V} (d : list (str * V)) k : ~ In k (map fst d) -> dict_get d k = None.
Proof.
  induction d as [|[k' v'] d IH]; cbn; intros H; [reflexivity|].
  destruct (str_eqb k k') eqn:E; [apply str_eqb_eq in E; subst; exfalso; apply H; left; reflexivity|].
  apply IH. intros X. apply H. right. exact X.
Qed.

Lemma combine_fst_incl {A B} (l : list A) (r : list B) x : In x (map fst (combine l r)) -> In x l.
Proof.
  revert r. induction l as [|a l IH]; intros [|b r] H; cbn in *; try contradiction.
  destruct H as [H|H]; [left; exact H | right; eapply IH; eauto].
Qed.

Lemma dget_combine_nth {V} (names : list str) : forall (vals : list V) j o v,
  NoDup names -> nth_error names j = Some o -> nth_error vals j = Some v ->
  dict_get (combine names vals) o = Some v.
Proof.
  induction names as [|n names IH]; intros [|x vals] j o v Hnd Hn Hv; destruct j; cbn in *; try discriminate.
  - injection Hn as ->. injection Hv as ->. now rewrite str_eqb_refl.
  - inversion Hnd as [|? ? Hni Hnd']; subst.
    destruct (str_eqb o n) eqn:E.
    + apply str_eqb_eq in E. subst. exfalso. apply Hni. eapply nth_error_In; eauto.
    + eapply IH; eauto.
Qed.

(* ------------------------------------------------------------------ the denotation, read off its final state *)
Definition indep_fn (g f : mfunc) : Prop := forall o, In o (fouts g) -> ~ In o (fparams f).

Section DenFacts.
  Variable body : mfunc -> env -> result (list val).
  Variable user : shape_dict.

  (* what denote_run established for function f, in terms of a (later) state d *)
  Definition den_fact (d : den_state) (f : mfunc) : Prop :=
    exists kw, func_kwargs f (d_env d) = Ok kw /\
      if is_mapped f then
        exists ms sh mask arrs,
          fspec f = Some ms /\ forallb (fun n => 0 <? n) sh = true
          /\ length mask = length sh /\ length (ext_of mask sh) = length (external_indices ms)
          /\ denote_mapped body f ms kw sh mask = Ok arrs /\ length arrs = length (fouts f)
          /\ forall j o, nth_error (fouts f) j = Some o ->
               dict_get (d_shapes d) o = Some (sh, mask)
               /\ exists a, nth_error arrs j = Some a /\ dict_get (d_env d) o = Some (VA a) /\ dict_get (d_out d) o = Some (VA a)
      else
        exists outs, body f kw = Ok outs /\ length outs = length (fouts f)
          /\ forall j o, nth_error (fouts f) j = Some o ->
               exists v, nth_error outs j = Some v /\ dict_get (d_env d) o = Some v /\ dict_get (d_out d) o = Some v.

  (* the shape of one step of denote_run *)
  Lemma denote_func_inv d f d' :
    func_ok f = true -> denote_func body user d f = Ok d' ->
    exists kw vals shp',
      func_kwargs f (d_env d) = Ok kw /\ length vals = length (fouts f)
      /\ d_env d' = combine (fouts f) vals ++ d_env d
      /\ d_out d' = d_out d ++ combine (fouts f) vals
      /\ d_shapes d' = shp' ++ d_shapes d /\ (forall o, In o (map fst shp') -> In o (fouts f))
      /\ if is_mapped f then
           exists ms sh mask arrs,
             fspec f = Some ms /\ forallb (fun n => 0 <? n) sh = true
             /\ length mask = length sh /\ length (ext_of mask sh) = length (external_indices ms)
             /\ denote_mapped body f ms kw sh mask = Ok arrs /\ vals = map VA arrs
             /\ shp' = map (fun o => (o, (sh, mask))) (fouts f)
         else body f kw = Ok vals.
  Proof.
    intros Hok Hd. unfold denote_func in Hd.
    destruct (func_shape user (d_shapes d) f) as [shm|e] eqn:Hs; cbn [bind] in Hd; [|discriminate].
    destruct (func_kwargs f (d_env d)) as [kw|e] eqn:Hkw; cbn [bind] in Hd; [|discriminate].
    destruct (is_mapped f) eqn:Hm.
    - destruct (fspec f) as [ms|] eqn:Hsp; [|discriminate].
      destruct shm as [[sh mask]|]; [|discriminate].
      destruct (forallb (fun d0 => 0 <? d0) sh) eqn:Hpos; cbn [negb] in Hd; [|discriminate].
      destruct (denote_mapped body f ms kw sh mask) as [arrs|e] eqn:Hden; cbn [bind] in Hd; [|discriminate].
      injection Hd as <-. cbn [d_env d_out d_shapes].
      destruct (func_ok_spec f ms Hok Hsp) as [Hwf _].
      assert (length mask = length sh /\ length (ext_of mask sh) = length (external_indices ms)) as [Hlen Hext].
      { unfold func_shape in Hs. rewrite Hsp in Hs.
        match type of Hs with (do r <- ?S; _) = _ => destruct S as [[sh' mask']|e] eqn:Es end; cbn [bind] in Hs; [|discriminate].
        injection Hs as -> ->. eapply shape_side_conditions; eassumption. }
      assert (Hla : length arrs = length (fouts f)).
      { unfold denote_mapped in Hden. destruct (ret_shape_ok body f ms kw sh mask); cbn [bind] in Hden; [|discriminate].
        apply mapM_length in Hden. now rewrite Hden, seq_length. }
      exists kw, (map VA arrs), (map (fun o => (o, (sh, mask))) (fouts f)).
      split; [reflexivity|]. split; [now rewrite map_length|]. split; [reflexivity|]. split; [reflexivity|].
      split; [reflexivity|]. split; [intros o Ho; rewrite map_map in Ho; cbn in Ho; now rewrite map_id in Ho|].
      exists ms, sh, mask, arrs. repeat split; auto.
    - destruct (body f kw) as [outs|e] eqn:Hb; cbn [bind] in Hd; [|discriminate].
      destruct (length outs =? length (fouts f)) eqn:Hl; cbn [negb] in Hd; [|discriminate].
      match type of Hd with (if ?c then _ else _) = _ => destruct c end; [discriminate|].
      injection Hd as <-. cbn [d_env d_out d_shapes]. apply Nat.eqb_eq in Hl.
      exists kw, outs, (match shm with Some sm => map (fun o => (o, sm)) (fouts f) | None => [] end).
      split; [reflexivity|]. split; [exact Hl|]. split; [reflexivity|]. split; [reflexivity|].
      split; [destruct shm; reflexivity|]. split; [|exact Hb].
      intros o Ho. destruct shm; [|destruct Ho]. rewrite map_map in Ho. cbn in Ho. now rewrite map_id in Ho.
  Qed.

  Lemma func_kwargs_ext f e e' :
    (forall q, In q (fparams f) -> dict_get e q = dict_get e' q) -> func_kwargs f e = func_kwargs f e'.
  Proof.
    intros H. unfold func_kwargs. apply mapM_ext_in. intros q Hq. unfold lookup_arg. now rewrite (H q Hq).
  Qed.

  (* a later step that neither produces a parameter nor an output of g keeps g's fact *)
  Lemma den_fact_preserved d f d' g :
    func_ok f = true -> denote_func body user d f = Ok d' ->
    (forall o, In o (fouts f) -> ~ In o (fparams g) /\ ~ In o (fouts g)) ->
    den_fact d g -> den_fact d' g.
  Proof.
    intros Hok Hd Hdis [kw [Hkw H]].
    destruct (denote_func_inv d f d' Hok Hd) as [kwf [vals [shp' [_ [Hlv [He [Ho [Hs [Hsn _]]]]]]]]].
    assert (Henv : forall q, (~ In q (fouts f)) -> dict_get (d_env d') q = dict_get (d_env d) q).
    { intros q Hq. rewrite He, dget_app, dget_notin; [reflexivity|]. intros X. apply Hq. eapply combine_fst_incl; eauto. }
    assert (Hout : forall q v, dict_get (d_out d) q = Some v -> dict_get (d_out d') q = Some v).
    { intros q v Hq. rewrite Ho, dget_app, Hq. reflexivity. }
    assert (Hshp : forall q, (~ In q (fouts f)) -> dict_get (d_shapes d') q = dict_get (d_shapes d) q).
    { intros q Hq. rewrite Hs, dget_app, dget_notin; [reflexivity|]. intros X. apply Hq. now apply Hsn. }
    exists kw. split.
    - rewrite <- Hkw. apply func_kwargs_ext. intros q Hq. apply Henv. intros X. exact (proj1 (Hdis q X) Hq).
    - destruct (is_mapped g).
      + destruct H as [ms [sh [mask [arrs [A1 [A2 [A3 [A4 [A5 [A6 A7]]]]]]]]]].
        exists ms, sh, mask, arrs. repeat split; auto.
        * destruct (A7 j o H) as [B1 _]. rewrite Hshp; [exact B1|]. intros X. apply (proj2 (Hdis o X)). eapply nth_error_In; eauto.
        * destruct (A7 j o H) as [_ [a [B2 [B3 B4]]]]. exists a. split; [exact B2|]. split; [|now apply Hout].
          rewrite Henv; [exact B3|]. intros X. apply (proj2 (Hdis o X)). eapply nth_error_In; eauto.
      + destruct H as [outs [A1 [A2 A3]]]. exists outs. split; [exact A1|]. split; [exact A2|].
        intros j o Hj. destruct (A3 j o Hj) as [v [B1 [B2 B3]]]. exists v. split; [exact B1|]. split; [|now apply Hout].
        rewrite Henv; [exact B2|]. intros X. apply (proj2 (Hdis o X)). eapply nth_error_In; eauto.
  Qed.

  (* the step of f itself establishes f's fact *)
  Lemma den_fact_new d f d' :
    func_ok f = true -> denote_func body user d f = Ok d' ->
    indep_fn f f -> (forall o, In o (fouts f) -> dict_get (d_out d) o = None) ->
    den_fact d' f.
  Proof.
    intros Hok Hd Hself Hfresh.
    destruct (denote_func_inv d f d' Hok Hd) as [kw [vals [shp' [Hkw [Hlv [He [Ho [Hs [Hsn Hcase]]]]]]]]].
    assert (Hnd : NoDup (fouts f)).
    { unfold func_ok in Hok. apply andb_true_iff in Hok as [Hok _]. apply andb_true_iff in Hok as [Hok _].
      now apply nodup_str_NoDup. }
    assert (Hent : forall j o, nth_error (fouts f) j = Some o ->
              exists v, nth_error vals j = Some v /\ dict_get (d_env d') o = Some v /\ dict_get (d_out d') o = Some v).
    { intros j o Hj. destruct (nth_error vals j) as [v|] eqn:Ev.
      - exists v. split; [reflexivity|]. split.
        + rewrite He, dget_app, (dget_combine_nth (fouts f) vals j o v Hnd Hj Ev). reflexivity.
        + rewrite Ho, dget_app, (Hfresh o (nth_error_In _ _ Hj)). apply (dget_combine_nth (fouts f) vals j o v Hnd Hj Ev).
      - apply nth_error_None in Ev. assert (j < length (fouts f)) by (apply nth_error_Some; congruence). lia. }
    exists kw. split.
    - rewrite <- Hkw. apply func_kwargs_ext. intros q Hq. rewrite He, dget_app, dget_notin; [reflexivity|].
      intros X. apply combine_fst_incl in X. exact (Hself q X Hq).
    - destruct (is_mapped f).
      + destruct Hcase as [ms [sh [mask [arrs [A1 [A2 [A3 [A4 [A5 [A6 A7]]]]]]]]]]. subst vals shp'.
        exists ms, sh, mask, arrs. rewrite map_length in Hlv. repeat split; auto.
        * rewrite Hs, dget_app.
          assert (E : dict_get (map (fun o0 => (o0, (sh, mask))) (fouts f)) o = Some (sh, mask)).
          { clear - H. revert j H. induction (fouts f) as [|x l IH]; intros [|j] H; cbn in *; try discriminate.
            - injection H as ->. now rewrite str_eqb_refl.
            - destruct (str_eqb o x); [reflexivity | eapply IH; eauto]. }
          now rewrite E.
        * destruct (Hent j o H) as [v [B1 [B2 B3]]]. rewrite nth_error_map in B1.
          destruct (nth_error arrs j) as [a|]; cbn in B1; [|discriminate]. injection B1 as <-. exists a. auto.
      + exists vals. split; [exact Hcase|]. split; [exact Hlv | exact Hent].
  Qed.

  (* every function after f in the list neither produces a parameter of f nor one of its outputs *)
  Fixpoint topo_list (p : list mfunc) : Prop :=
    match p with
    | [] => True
    | f :: rest => indep_fn f f /\ (forall g, In g rest -> indep_fn g f /\ (forall o, In o (fouts g) -> ~ In o (fouts f)))
                   /\ topo_list rest
    end.

  Lemma denote_fold_facts p : forall d dfin,
    forallb func_ok p = true -> topo_list p ->
    (forall o, In o (flat_map fouts p) -> dict_get (d_out d) o = None) ->
    NoDup (flat_map fouts p) ->
    fold_left (fun acc f => do s <- acc; denote_func body user s f) p (Ok d) = Ok dfin ->
    (forall f, In f p -> den_fact dfin f)
    /\ (forall g, den_fact d g -> (forall f, In f p -> forall o, In o (fouts f) -> ~ In o (fparams g) /\ ~ In o (fouts g)) ->
                  den_fact dfin g).
  Proof.
    induction p as [|f p IH]; intros d dfin Hok Htopo Hfresh Hnd H; cbn [fold_left bind] in H.
    - injection H as <-. split; [intros f []|]. intros g Hg _. exact Hg.
    - cbn [forallb] in Hok. apply andb_true_iff in Hok as [Hf Hp]. destruct Htopo as [Hself [Hlater Htopo]].
      destruct (denote_func body user d f) as [d1|e] eqn:E1; [|rewrite fold_left_bind_err in H; discriminate].
      cbn [flat_map] in Hnd, Hfresh. destruct (NoDup_app_inv _ _ Hnd) as [Hndf [Hndp Hdisj]].
      destruct (denote_func_inv d f d1 Hf E1) as [_ [vals [_ [_ [Hlv [_ [Ho1 _]]]]]]].
      destruct (IH d1 dfin Hp Htopo) as [I1 I2]; [| exact Hndp | exact H |].
      + intros o Ho. rewrite Ho1, dget_app, (Hfresh o (in_or_app _ _ _ (or_intror Ho))).
        apply dget_notin. intros X. apply combine_fst_incl in X. exact (Hdisj o X Ho).
      + split.
        * intros g [<-|Hg]; [|now apply I1].
          apply I2.
          -- apply (den_fact_new d f d1 Hf E1 Hself). intros o Ho. apply Hfresh. apply in_or_app. left. exact Ho.
          -- intros h Hh o Ho. destruct (Hlater h Hh) as [A B]. split; [exact (A o Ho) | exact (B o Ho)].
        * intros g Hg Hdis. apply I2.
          -- apply (den_fact_preserved d f d1 g Hf E1); [|exact Hg]. intros o Ho. apply (Hdis f (or_introl eq_refl) o Ho).
          -- intros h Hh. apply Hdis. right. exact Hh.
  Qed.
End DenFacts.

(* ------------------------------------------------------------------ placements in any order *)
(* placing every linear index (in any order, possibly repeatedly) fills the array with the target,
   whatever it held before *)
Theorem place_pure_cover sh mask (V : nat -> val) (L : list nat) init :
  length mask = length sh -> length init = prod sh ->
  (forall i, In i L -> i < prod (ext_of mask sh)) ->
  (forall i, i < prod (ext_of mask sh) -> In i L) ->
  fold_left (fun arr i => place_pure sh mask i (V i) arr) L init = target sh mask V.
Proof.
  intros Hlen Hinit Hlt Hcov. unfold place_pure, upd_pairs.
  rewrite <- (fold_left_flat_map (fun r px => upd r (fst px) (snd px)) (fun i => place_pairs sh mask i (V i))).
  fold (upd_pairs (flat_map (fun i => place_pairs sh mask i (V i)) L) init).
  apply nth_error_ext_eq.
  { rewrite upd_pairs_length, Hinit. unfold target. now rewrite map_length, all_indices_length. }
  rewrite upd_pairs_length, Hinit. intros q Hq.
  unfold target. rewrite <- unravel_enumerates, map_map, nth_error_map, nth_error_seq0 by exact Hq. cbn [option_map].
  apply (upd_pairs_covers (fun q => target_elem sh mask V (unravel sh q))).
  - intros p x Hin. apply in_flat_map in Hin as [i [Hi Hin]]. apply Hlt in Hi.
    unfold place_pairs in Hin. apply in_map_iff in Hin as [jj [E Hjj]]. injection E as <- <-.
    destruct (merge_facts sh mask Hlen i jj Hi Hjj) as [Hb [E1 [E2 E3]]].
    rewrite unravel_ravel by exact Hb. unfold target_elem. rewrite E3, E2. reflexivity.
  - intros q' Hq'. rewrite Hinit in Hq'. left.
    pose proof (unravel_in_bounds sh q' Hq') as Hb.
    destruct (split_facts sh mask Hlen _ Hb) as [Hi [Hjj Hm]].
    apply in_map_iff. exists (q', elem (V (ravel (ext_of mask sh) (ext_of mask (unravel sh q')))) (int_of mask (unravel sh q'))).
    split; [reflexivity|]. apply in_flat_map. exists (ravel (ext_of mask sh) (ext_of mask (unravel sh q'))).
    split; [now apply Hcov|]. unfold place_pairs. apply in_map_iff.
    exists (int_of mask (unravel sh q')). split; [|exact Hjj].
    rewrite Hm, ravel_unravel by exact Hq'. reflexivity.
  - rewrite Hinit. exact Hq.
Qed.

Lemma mapM_map_comp {A B C} (f : B -> result C) (h : A -> B) l : mapM f (map h l) = mapM (fun x => f (h x)) l.
Proof. induction l as [|x l IH]; cbn; [reflexivity|]. now rewrite IH. Qed.

Lemma in_combine_seq {A} (st : list A) : forall a i cl,
  In (i, cl) (combine (seq a (length st)) st) -> a <= i /\ nth_error st (i - a) = Some cl.
Proof.
  induction st as [|x st IH]; intros a i cl H; cbn in H; [destruct H|].
  destruct H as [H|H].
  - injection H as <- <-. rewrite Nat.sub_diag. auto.
  - destruct (IH (S a) i cl H) as [Q1 Q2]. split; [lia|].
    replace (i - a) with (S (i - S a)) by lia. exact Q2.
Qed.

Lemma fold_left_combine_fst {A B C} (g : A -> B -> A) (l : list B) : forall (r : list C) a,
  length l <= length r ->
  fold_left (fun a0 (x : B * C) => g a0 (fst x)) (combine l r) a = fold_left g l a.
Proof.
  induction l as [|x l IH]; intros [|y r] a H; cbn in *; try reflexivity; try lia. apply IH. lia.
Qed.

(* ------------------------------------------------------------------ one mapped function against its denotation *)
Section OneFunc.
  Variable body : mfunc -> env -> result (list val).
  Hypothesis Harity : body_arity body.
  Variables (f : mfunc) (ms : mapspec) (kw : env) (sh : list nat) (mask : list bool).
  Hypothesis Hwf : wf_decl ms = true.
  Hypothesis Hnames : NoDup (map aname (ins ms)).
  Hypothesis Hout : NoDup (output_indices ms).
  Hypothesis Hk : 0 < length (fouts f).
  Hypothesis Hlen : length mask = length sh.
  Hypothesis Hext : length (ext_of mask sh) = length (external_indices ms).
  Hypothesis Hpos : forallb (fun d => 0 <? d) sh = true.
  Variable arrs : list (nd str).
  Hypothesis Hden : denote_mapped body f ms kw sh mask = Ok arrs.

  Notation N := (prod (ext_of mask sh)).
  Notation OL := (outs_lin body f ms kw sh mask).
  Notation kk := (length (fouts f)).

  Lemma it_facts i : i < N ->
    exists sel, select_kwargs ms kw (ext_of mask sh) i = Ok sel /\ body f sel = Ok (OL i)
                /\ length (OL i) = kk /\ (forall v, In v (OL i) -> val_ok mask (int_of mask sh) v)
                /\ output_key ms (ext_of mask sh) i = Ok (unravel (ext_of mask sh) i).
  Proof.
    intros Hi. destruct (iteration_facts body Harity f ms kw sh mask Hk Hlen Hext Hpos arrs Hden i Hi) as [sel [A [B [C D]]]].
    exists sel. rewrite (select_kwargs_arg_at ms Hwf Hnames Hout kw _ i Hext (ext_pos sh mask Hpos)).
    repeat split; auto. apply (output_key_ok ms Hwf Hout _ i Hext (ext_pos sh mask Hpos)).
  Qed.

  (* the model's own name for the outputs of element i coincides *)
  Lemma outs_at_lin i : i < N -> MapResumeFacts.outs_at body f ms kw sh mask i = OL i.
  Proof.
    intros Hi. destruct (it_facts i Hi) as [sel [A [B _]]].
    unfold MapResumeFacts.outs_at, sel_at. now rewrite A, B.
  Qed.

  Lemma compute_elem_succeeds st i : i < N -> exists st', compute_elem body f ms kw sh mask st i = ROk st'.
  Proof.
    intros Hi. destruct (it_facts i Hi) as [sel [A [B [C [_ E]]]]].
    unfold compute_elem. rewrite A. cbn [lift rbind]. rewrite B. cbn [lift rbind].
    rewrite C, Nat.eqb_refl. cbn [negb]. rewrite E. cbn [lift rbind]. eexists. reflexivity.
  Qed.

  Lemma step_fold_succeeds L : forall st0, (forall x, In x L -> x < N) ->
    exists st, step_fold body f ms kw sh mask L st0 = ROk st.
  Proof.
    induction L as [|x L IH]; intros st0 HL; [exists st0; reflexivity|].
    destruct (compute_elem_succeeds st0 x (HL x (or_introl eq_refl))) as [st1 H1].
    destruct (IH st1 (fun y Hy => HL y (or_intror Hy))) as [st H2].
    exists st. unfold step_fold in *. cbn [fold_left rbind]. rewrite H1. exact H2.
  Qed.

  (* stores that hold, where present, the denoted values *)
  Definition cells_sub (stores : list estore) : Prop :=
    length stores = kk /\
    forall j, j < kk -> length (nth j stores []) = N /\
      forall i, i < N -> nth i (nth j stores []) None = None
                         \/ nth i (nth j stores []) None = Some (Ok (nth j (OL i) dflt)).
  Definition cells_full (stores : list estore) : Prop :=
    length stores = kk /\
    forall j, j < kk -> length (nth j stores []) = N /\
      forall i, i < N -> nth i (nth j stores []) None = Some (Ok (nth j (OL i) dflt)).

  (* a full run of the function on a sub-store: it completes, and afterwards the store is full *)
  Lemma submit_mapped_den stores tr : cells_sub stores ->
    exists st ex, submit_mapped body f ms kw sh mask None stores tr = ROk (st, ex)
      /\ cells_full (m_stores st)
      /\ ex = filter (fun i => negb (miss_any stores i)) (seq 0 N)
      /\ m_results st = map (fun i => (i, OL i)) (filter (fun i => miss_any stores i) (seq 0 N)).
  Proof.
    intros [Hl Hc]. unfold submit_mapped. cbn [mask_fixed_axes lift rbind]. rewrite classify_eq. cbn [fst snd selb andb].
    set (missing := filter (fun i => miss_any stores i) (seq 0 N)).
    assert (Hml : forall x, In x missing -> x < N) by (intros x Hx; apply filter_In in Hx as [Hx _]; apply in_seq in Hx; lia).
    destruct (step_fold_succeeds missing {| m_stores := stores; m_results := []; m_tr := tr |} Hml) as [st Hst].
    unfold step_fold in Hst. rewrite Hst. cbn [rbind]. exists st, (filter (fun i => negb (miss_any stores i)) (seq 0 N)).
    split; [reflexivity|].
    destruct (step_fold_spec body f ms kw sh mask missing {| m_stores := stores; m_results := []; m_tr := tr |} st [] stores Hml Hl (filled_nil body f ms kw sh mask stores) Hst)
      as [Hfill [Hres _]]. cbn [app m_results] in Hfill, Hres.
    split; [|split; [reflexivity|]].
    - destruct Hfill as [FL FH]. split; [now rewrite FL|]. intros j Hj. destruct (Hc j Hj) as [C1 C2].
      destruct (FH j) as [FA FB]; [now rewrite Hl|]. split; [now rewrite FA|].
      intros i Hi. rewrite FB by (rewrite C1; exact Hi).
      destruct (memb i missing) eqn:Em.
      + now rewrite outs_at_lin.
      + destruct (C2 i Hi) as [Hn|Hs]; [|exact Hs]. exfalso.
        apply Bool.not_true_iff_false in Em. apply Em. apply memb_In. apply filter_In. split; [apply in_seq; lia|].
        unfold miss_any. apply existsb_exists. exists (nth j stores []). split; [apply nth_In; now rewrite Hl|].
        exact (f_equal cell_missing Hn).
    - rewrite Hres. apply map_ext_in. intros i Hi. now rewrite outs_at_lin by (now apply Hml).
  Qed.

  (* reading element i back from a full store gives the denoted outputs *)
  Lemma get_all_full stores i : cells_full stores -> i < N ->
    mapM (fun e : estore => get_from_index e i) stores = Ok (OL i).
  Proof.
    intros [Hl Hc] Hi. destruct (it_facts i Hi) as [_ [_ [_ [Hlo _]]]].
    rewrite (list_eq_map_nth (OL i) dflt), Hlo.
    pose proof (list_eq_map_nth stores ([] : estore)) as Es. rewrite Hl in Es.
    rewrite Es at 1. rewrite mapM_map_comp.
    apply mapM_ok_map_in. intros j Hj. apply in_seq in Hj.
    destruct (Hc j) as [_ C]; [lia|]. unfold get_from_index. now rewrite (C i Hi).
  Qed.

  Definition col (j : nat) (i : nat) : val := nth j (OL i) dflt.

  (* the result arrays: placing the computed and the loaded elements, in this order, gives the denoted arrays *)
  Lemma process_mapped_den st ex :
    cells_full (m_stores st) ->
    (forall i, In i ex -> i < N) ->
    (exists Lm, m_results st = map (fun i => (i, OL i)) Lm /\ (forall i, In i Lm -> i < N)
                /\ forall i, i < N -> In i (Lm ++ ex)) ->
    process_mapped f sh mask st ex = ROk arrs.
  Proof.
    intros Hfull Hex [Lm [Hres [HLm Hcov]]]. unfold process_mapped.
    set (G := fun (xs : list (list str)) (i : nat) => zipw (place_pure sh mask i) xs (OL i)).
    assert (Hput : forall xs i, i < N -> put_elem sh mask xs i (OL i) = Ok (G xs i)).
    { intros xs i Hi. destruct (it_facts i Hi) as [_ [_ [_ [_ [Hv _]]]]]. unfold put_elem, G, zipw.
      apply mapM_ok_map_in. intros [a v] Hin. cbn [fst snd]. apply place_ok; [exact Hlen | exact Hi|].
      apply Hv. eapply in_combine_r. exact Hin. }
    rewrite Hres, fold_left_map_arg. cbn [fst snd].
    rewrite (fold_left_bind_ok _ G) by (intros i xs Hi; apply Hput; now apply HLm). cbn [lift rbind].
    rewrite (fold_left_bind_ok (fun xs i => do outs <- mapM (fun e : estore => get_from_index e i) (m_stores st); put_elem sh mask xs i outs) G).
    2:{ intros i xs Hi. rewrite (get_all_full _ i Hfull (Hex i Hi)). cbn [bind]. apply Hput. now apply Hex. }
    cbn [lift rbind]. f_equal. rewrite <- fold_left_app.
    unfold G. rewrite (fold_zipw_columns (place_pure sh mask) OL kk (repeat none_str (prod sh)) dflt).
    - rewrite map_map, (denote_mapped_arrays body f ms kw sh mask Hlen arrs Hden dflt).
      apply map_ext_in. intros j Hj. apply in_seq in Hj. f_equal. rewrite nth_repeat.
      apply (place_pure_cover sh mask (fun i => nth j (OL i) dflt) (Lm ++ ex)); [exact Hlen | apply repeat_length | | exact Hcov].
      intros i Hi. apply in_app_or in Hi as [Hi|Hi]; [now apply HLm | now apply Hex].
    - apply repeat_length.
    - intros i Hi. assert (i < N) by (apply in_app_or in Hi as [Hi|Hi]; [now apply HLm | now apply Hex]).
      destruct (it_facts i H) as [_ [_ [_ [Hlo _]]]]. exact Hlo.
  Qed.

  (* StorageBase.to_array of a full store is the denoted array *)
  Lemma render_full stores j : cells_full stores -> j < kk ->
    render sh mask (nth j stores []) = Ok {| shp := sh; dat := target sh mask (col j) |}.
  Proof.
    intros [Hl Hc] Hj. destruct (Hc j Hj) as [C1 C2]. unfold render. rewrite C1.
    rewrite (fold_left_bind_ok _ (fun arr (ic : nat * cell) => place_pure sh mask (fst ic) (col j (fst ic)) arr)).
    - cbn [bind]. f_equal. f_equal.
      rewrite (fold_left_combine_fst (fun arr i => place_pure sh mask i (col j i) arr)) by (rewrite seq_length, C1; lia).
      apply place_pure_cover; [exact Hlen | apply repeat_length | intros i Hi; apply in_seq in Hi; lia | intros i Hi; apply in_seq; lia].
    - intros [i cl] arr Hin. cbn [fst snd].
      assert (Hi : i < N) by (apply in_combine_l in Hin; apply in_seq in Hin; lia).
      assert (Hcl : cl = Some (Ok (col j i))).
      { rewrite <- C1 in Hin. destruct (in_combine_seq _ _ _ _ Hin) as [_ Q]. rewrite Nat.sub_0_r in Q.
        unfold col. rewrite <- (C2 i Hi). symmetry. now apply nth_error_nth. }
      subst cl. destruct (it_facts i Hi) as [_ [_ [_ [Hlo [Hv _]]]]]. apply place_ok; [exact Hlen | exact Hi|].
      apply Hv. unfold col. apply nth_In. rewrite Hlo. exact Hj.
  Qed.
End OneFunc.

(* ------------------------------------------------------------------ whole pipelines against the denotation *)
Section Sim.
  Variable body : mfunc -> env -> result (list val).
  Hypothesis Harity : body_arity body.
  Variable user : shape_dict.
  Variable p : list mfunc.
  Variable inputs : env.
  Variable D : den_state.
  Let c : ctx := {| x_p := p; x_inputs := inputs; x_shapes := d_shapes D |}.

  Hypothesis HD : forall f, In f p -> den_fact body D f.
  Hypothesis Hfok : forall f, In f p -> func_ok f = true.
  Hypothesis Huniq : forall g f o, In g p -> In f p -> In o (fouts g) -> In o (fouts f) -> g = f.
  Hypothesis Hin_disj : forall f o, In f p -> In o (fouts f) -> dict_get inputs o = None.
  Hypothesis Henv : forall q, (forall f, In f p -> ~ In q (fouts f)) -> dict_get (d_env D) q = dict_get inputs q.

  (* the denoted value of an output *)
  Definition dval (o : str) : val := match dict_get (d_out D) o with Some v => v | None => VS [] end.
  Definition den_entries (f : mfunc) : list (str * val) := map (fun o => (o, dval o)) (fouts f).

  (* the store holds, where present, denoted values of f / all of them *)
  Definition fsub (rs : rstore) (f : mfunc) : Prop :=
    if is_mapped f then
      forall kw ms sh mask arrs, func_kwargs f (d_env D) = Ok kw -> fspec f = Some ms -> shape_of c f = Ok (sh, mask) ->
        denote_mapped body f ms kw sh mask = Ok arrs ->
        cells_sub body f ms kw sh mask (stores_of rs f (prod (ext_of mask sh)))
    else forall o, In o (fouts f) -> dict_get (st_val rs) o = None \/ dict_get (st_val rs) o = Some (Ok (dval o)).
  Definition ffull (rs : rstore) (f : mfunc) : Prop :=
    if is_mapped f then
      forall kw ms sh mask arrs, func_kwargs f (d_env D) = Ok kw -> fspec f = Some ms -> shape_of c f = Ok (sh, mask) ->
        denote_mapped body f ms kw sh mask = Ok arrs ->
        cells_full body f ms kw sh mask (stores_of rs f (prod (ext_of mask sh)))
    else forall o, In o (fouts f) -> dict_get (st_val rs) o = Some (Ok (dval o)).

  (* the data of a mapped function *)
  Lemma mapped_data f : In f p -> is_mapped f = true ->
    exists kw ms sh mask arrs,
      func_kwargs f (d_env D) = Ok kw /\ fspec f = Some ms /\ shape_of c f = Ok (sh, mask)
      /\ denote_mapped body f ms kw sh mask = Ok arrs /\ length arrs = length (fouts f)
      /\ forallb (fun n => 0 <? n) sh = true /\ length mask = length sh
      /\ length (ext_of mask sh) = length (external_indices ms)
      /\ wf_decl ms = true /\ NoDup (map aname (ins ms)) /\ NoDup (output_indices ms) /\ 0 < length (fouts f)
      /\ (forall j o, nth_error (fouts f) j = Some o -> exists a, nth_error arrs j = Some a /\ dval o = VA a
                                                                /\ dict_get (d_env D) o = Some (VA a)).
  Proof.
    intros Hin Hm. destruct (HD f Hin) as [kw [Hkw H]]. rewrite Hm in H.
    destruct H as [ms [sh [mask [arrs [A1 [A2 [A3 [A4 [A5 [A6 A7]]]]]]]]]].
    destruct (func_ok_spec f ms (Hfok f Hin) A1) as [W1 [W2 [W3 W4]]].
    exists kw, ms, sh, mask, arrs. repeat split; auto.
    - unfold shape_of. destruct (fouts f) as [|o0 os] eqn:Ef; [cbn in W4; lia|].
      destruct (A7 0 o0 eq_refl) as [B _]. cbn [x_shapes c]. now rewrite B.
    - intros j o Hj. destruct (A7 j o Hj) as [_ [a [B1 [B2 B3]]]]. exists a. unfold dval. rewrite B3. auto.
  Qed.

  Lemma single_data f : In f p -> is_mapped f = false ->
    exists kw outs, func_kwargs f (d_env D) = Ok kw /\ body f kw = Ok outs /\ length outs = length (fouts f)
      /\ outs = map dval (fouts f)
      /\ (forall o, In o (fouts f) -> dict_get (d_env D) o = Some (dval o)).
  Proof.
    intros Hin Hm. destruct (HD f Hin) as [kw [Hkw H]]. rewrite Hm in H. destruct H as [outs [B1 [B2 B3]]].
    exists kw, outs. split; [exact Hkw|]. split; [exact B1|]. split; [exact B2|]. split.
    - apply (@list_eq_nth val dflt); [now rewrite map_length|]. intros j Hj. rewrite B2 in Hj.
      destruct (nth_error (fouts f) j) as [o|] eqn:Eo; [|apply nth_error_None in Eo; lia].
      destruct (B3 j o Eo) as [v [C1 [_ C3]]].
      rewrite (nth_error_some_nth _ _ dflt _ C1).
      rewrite (nth_map_default dval (fouts f) j o dflt) by lia. rewrite (nth_error_some_nth _ _ o _ Eo).
      unfold dval. now rewrite C3.
    - intros o Ho. apply In_nth_error in Ho as [j Hj]. destruct (B3 j o Hj) as [v [_ [C2 C3]]].
      unfold dval. now rewrite C3.
  Qed.

  (* _func_kwargs on a store whose producers are full gives the denotation's arguments *)
  Lemma kwargs_sel_den rs f : In f p ->
    (forall q g, In q (fparams f) -> producer p q = Some g -> ffull rs g) ->
    func_kwargs_sel c rs f = func_kwargs f (d_env D).
  Proof.
    intros Hin Hfull. unfold func_kwargs_sel, func_kwargs. apply mapM_ext_in. intros q Hq.
    unfold lookup_arg_sel, lookup_arg. destruct (dict_get (fbound f) q); [reflexivity|]. cbn [x_inputs c].
    destruct (dict_get inputs q) as [v|] eqn:Ei.
    - rewrite Henv, Ei; [reflexivity|]. intros g Hg X. rewrite (Hin_disj g q Hg X) in Ei. discriminate.
    - cbn [x_p c]. destruct (producer p q) as [g|] eqn:Ep.
      + destruct (producer_Some _ _ _ Ep) as [Hg Hqo]. specialize (Hfull q g Hq Ep). unfold ffull in Hfull.
        destruct (is_mapped g) eqn:Em.
        * destruct (mapped_data g Hg Em) as [kw [ms [sh [mask [arrs [K1 [K2 [K3 [K4 [K5 [P1 [P2 [P3 [W1 [W2 [W3 [W4 Hent]]]]]]]]]]]]]]]]].
          rewrite K3. cbn [bind fst snd].
          apply In_nth_error in Hqo as [j Hj]. destruct (Hent j q Hj) as [a [Ha [_ Hde]]]. rewrite Hde.
          specialize (Hfull kw ms sh mask arrs K1 K2 K3 K4).
          destruct (stores_of_nth rs g (prod (ext_of mask sh)) j q Hj) as [Hn Hjl].
          rewrite <- Hn.
          assert (Hjk : j < length (fouts g)) by (apply nth_error_Some; congruence).
          rewrite (render_full body Harity g ms kw sh mask W1 W2 W3 W4 P2 P3 P1 arrs K4 _ j Hfull Hjk). cbn [bind].
          do 2 f_equal. rewrite (denote_mapped_arrays body g ms kw sh mask P2 arrs K4 dflt) in Ha.
          rewrite nth_error_map in Ha. rewrite nth_error_seq0 in Ha by exact Hjk. cbn [option_map] in Ha. injection Ha as <-. reflexivity.
        * destruct (single_data g Hg Em) as [_ [_ [_ [_ [_ [_ Hde]]]]]].
          rewrite (Hfull q Hqo), (Hde q Hqo). reflexivity.
      + rewrite Henv, Ei; [reflexivity|]. intros g Hg X.
        unfold producer in Ep. pose proof (find_none _ _ Ep g Hg) as Hf. cbn beta in Hf.
        apply mem_str_false in Hf. contradiction.
  Qed.

  Lemma fouts_NoDup f : In f p -> NoDup (fouts f).
  Proof.
    intros Hin. pose proof (Hfok f Hin) as Hok. unfold func_ok in Hok.
    apply andb_true_iff in Hok as [Hok _]. apply andb_true_iff in Hok as [Hok _]. now apply nodup_str_NoDup.
  Qed.

  Lemma full_sub_cells f ms kw sh mask stores :
    cells_full body f ms kw sh mask stores -> cells_sub body f ms kw sh mask stores.
  Proof.
    intros [A B]. split; [exact A|]. intros j Hj. destruct (B j Hj) as [B1 B2]. split; [exact B1|].
    intros i Hi. right. now apply B2.
  Qed.

  (* processing the task of f succeeds from any state and appends the denoted Result.output *)
  Definition single_effect (f : mfunc) (r : rstore) : rstore :=
    fold_left (fun r0 ov => set_val r0 (fst ov) (snd ov)) (combine (fouts f) (map dval (fouts f))) r.
  Definition task_good (t : task) (f : mfunc) : Prop :=
    forall ps0, exists ps1, process_task ps0 t = ROk ps1
      /\ p_out ps1 = p_out ps0 ++ den_entries f
      /\ p_store ps1 = (if is_mapped f then p_store ps0 else single_effect f (p_store ps0)).

  Lemma combine_map_self {A B} (g : A -> B) (l : list A) : combine l (map g l) = map (fun x => (x, g x)) l.
  Proof. induction l as [|x l IH]; cbn; [reflexivity|]. now rewrite IH. Qed.

  Lemma submit_func_sim ps f :
    In f p ->
    (forall g, In g p -> fsub (p_store ps) g) ->
    (forall q g, In q (fparams f) -> producer p q = Some g -> ffull (p_store ps) g) ->
    exists ps' t, submit_func body c None ps f = ROk (ps', t)
      /\ p_out ps' = p_out ps
      /\ (forall o, ~ In o (fouts f) -> dict_get (st_arr (p_store ps')) o = dict_get (st_arr (p_store ps)) o)
      /\ st_val (p_store ps') = st_val (p_store ps)
      /\ (is_mapped f = true -> ffull (p_store ps') f)
      /\ (is_mapped f = false -> p_store ps' = p_store ps)
      /\ task_good t f.
  Proof.
    intros Hin Hsub Hprod. unfold submit_func.
    rewrite (kwargs_sel_den (p_store ps) f Hin Hprod).
    destruct (is_mapped f) eqn:Em.
    - destruct (mapped_data f Hin Em) as [kw [ms [sh [mask [arrs [K1 [K2 [K3 [K4 [K5 [P1 [P2 [P3 [W1 [W2 [W3 [W4 Hent]]]]]]]]]]]]]]]]].
      rewrite K1. cbn [lift rbind]. rewrite K2, K3. cbn [lift rbind fst snd].
      set (N := prod (ext_of mask sh)).
      pose proof (Hsub f Hin) as Hs. unfold fsub in Hs. rewrite Em in Hs. specialize (Hs kw ms sh mask arrs K1 K2 K3 K4). fold N in Hs.
      destruct (submit_mapped_den body Harity f ms kw sh mask W1 W2 W3 W4 P2 P3 P1 arrs K4 _ (p_tr ps) Hs) as [st [ex [E1 [E2 [E3 E4]]]]].
      fold N in E1. rewrite E1. cbn [rbind fst snd].
      assert (Hlen : length (m_stores st) = length (fouts f)) by (destruct E2 as [A _]; exact A).
      eexists _, _. split; [reflexivity|]. cbn [p_out p_store p_tr].
      split; [reflexivity|]. split.
      { intros o Ho. unfold put_stores. now apply put_stores_arr_other. }
      split; [unfold put_stores; apply put_stores_val|]. split.
      { intros _. unfold ffull. rewrite Em. intros kw' ms' sh' mask' arrs' K1' K2' K3' K4'.
        rewrite K1 in K1'. injection K1' as <-. rewrite K2 in K2'. injection K2' as <-.
        rewrite K3 in K3'. injection K3' as <- <-. rewrite K4 in K4'. injection K4' as <-.
        fold N. rewrite (stores_of_put_same (p_store ps) f (m_stores st) N (fouts_NoDup f Hin) Hlen). exact E2. }
      split; [discriminate|].
      intros ps0. cbn [process_task].
      assert (Hpm : process_mapped f sh mask {| m_stores := m_stores st; m_results := m_results st; m_tr := p_tr ps0 |} ex = ROk arrs).
      { apply (process_mapped_den body Harity f ms kw sh mask W1 W2 W3 W4 P2 P3 P1 arrs K4); cbn [m_stores m_results].
        - exact E2.
        - intros i Hi. rewrite E3 in Hi. apply filter_In in Hi as [Hi _]. apply in_seq in Hi. lia.
        - exists (filter (fun i => miss_any (stores_of (p_store ps) f N) i) (seq 0 N)). split; [exact E4|]. split.
          + intros i Hi. apply filter_In in Hi as [Hi _]. apply in_seq in Hi. unfold N in Hi. lia.
          + intros i Hi. apply in_or_app. rewrite E3.
            destruct (miss_any (stores_of (p_store ps) f N) i) eqn:Emi; [left | right];
              apply filter_In; (split; [apply in_seq; cbn; lia | now rewrite Emi]). }
      rewrite Hpm. cbn [rbind]. eexists. split; [reflexivity|]. cbn [p_out p_store]. rewrite Em. split; [|reflexivity].
      f_equal. unfold den_entries. apply (@list_eq_nth (str * val) (s "", dflt)).
      + rewrite combine_length, !map_length. lia.
      + intros j Hj. rewrite combine_length, !map_length in Hj.
        assert (Hjk : j < length (fouts f)) by lia.
        destruct (nth_error (fouts f) j) as [o|] eqn:Eo; [|apply nth_error_None in Eo; lia].
        destruct (Hent j o Eo) as [a [Ha [Hdv _]]].
        rewrite combine_nth by (rewrite !map_length; lia).
        rewrite (nth_map_default (fun o0 => (o0, dval o0)) (fouts f) j (s "") (s "", dflt)) by exact Hjk.
        rewrite (nth_error_some_nth _ _ (s "") _ Eo).
        rewrite (nth_map_default VA arrs j {| shp := []; dat := [] |} dflt) by lia.
        rewrite (nth_error_some_nth _ _ {| shp := []; dat := [] |} _ Ha). now rewrite Hdv.
    - destruct (single_data f Hin Em) as [kw [outs [S1 [S2 [S3 [S4 S5]]]]]].
      rewrite S1. cbn [lift rbind]. unfold execute_single.
      assert (Hnoerr : forall o, In o (fouts f) -> dict_get (st_val (p_store ps)) o = None \/ dict_get (st_val (p_store ps)) o = Some (Ok (dval o))).
      { pose proof (Hsub f Hin) as Hs. unfold fsub in Hs. rewrite Em in Hs. exact Hs. }
      assert (Hload : load_single (p_store ps) f = Ok None \/ load_single (p_store ps) f = Ok (Some outs)).
      { unfold load_single. rewrite S4.
        assert (G : forall l, (forall o, In o l -> dict_get (st_val (p_store ps)) o = None \/ dict_get (st_val (p_store ps)) o = Some (Ok (dval o))) ->
                  exists lo, mapM (fun o => match dict_get (st_val (p_store ps)) o with
                                            | Some (Ok v) => Ok (Some v) | Some (Err e) => Err e | None => Ok None end) l = Ok lo
                             /\ (forallb (fun x => match x with Some _ => true | None => false end) lo = true ->
                                 flat_map (fun x => match x with Some v => [v] | None => [] end) lo = map dval l)).
        { induction l as [|o l IH]; intros Hl; cbn.
          - exists []. split; [reflexivity|]. reflexivity.
          - destruct (IH (fun o' Ho' => Hl o' (or_intror Ho'))) as [lo [E1 E2]]. rewrite E1.
            destruct (Hl o (or_introl eq_refl)) as [Hn|Hs]; rewrite ?Hn, ?Hs; cbn.
            + exists (None :: lo). split; [reflexivity|]. cbn. discriminate.
            + exists (Some (dval o) :: lo). split; [reflexivity|]. cbn. intros Ha. now rewrite (E2 Ha). }
        destruct (G (fouts f) Hnoerr) as [lo [E1 E2]]. rewrite E1. cbn [bind].
        destruct (forallb _ lo) eqn:Ea; [right; now rewrite (E2 eq_refl) | left; reflexivity]. }
      assert (Hgood : task_good (TSingle f outs) f).
      { intros ps0. cbn [process_task]. eexists. split; [reflexivity|]. cbn [p_out p_store dump_single fst snd]. rewrite Em.
        split; [|unfold single_effect; now rewrite S4].
        f_equal. unfold den_entries. rewrite S4. apply combine_map_self. }
      destruct Hload as [Hl|Hl]; rewrite Hl; cbn [lift rbind].
      + rewrite S2. cbn [lift rbind]. rewrite S3, Nat.eqb_refl. cbn [negb rbind fst snd].
        eexists _, _. split; [reflexivity|]. cbn [p_out p_store]. repeat split; auto. discriminate.
      + cbn [rbind fst snd]. eexists _, _. split; [reflexivity|]. cbn [p_out p_store]. repeat split; auto. discriminate.
  Qed.

  (* every dump of a run carries the denoted value of the cell / output it writes *)
  Definition dump_den (a : action) : Prop :=
    match a with
    | ACall _ _ _ => True
    | ADump o i v =>
        exists f j kw ms sh mask arrs,
          In f p /\ is_mapped f = true /\ func_kwargs f (d_env D) = Ok kw /\ fspec f = Some ms
          /\ shape_of c f = Ok (sh, mask) /\ denote_mapped body f ms kw sh mask = Ok arrs
          /\ nth_error (fouts f) j = Some o /\ i < prod (ext_of mask sh)
          /\ v = nth j (outs_lin body f ms kw sh mask i) dflt
    | ADumpSingle o v => v = dval o /\ exists f, In f p /\ is_mapped f = false /\ In o (fouts f)
    end.

  Definition task_trace_ok (t : task) : Prop :=
    forall ps0 ps1, process_task ps0 t = ROk ps1 -> exists trt, p_tr ps1 = p_tr ps0 ++ trt /\ Forall dump_den trt.

  Lemma load_single_some rs f l : load_single rs f = Ok (Some l) ->
    Forall2 (fun o v => dict_get (st_val rs) o = Some (Ok v)) (fouts f) l.
  Proof.
    unfold load_single. destruct (mapM _ (fouts f)) as [lo|] eqn:E; cbn [bind]; [|discriminate].
    destruct (forallb _ lo) eqn:Ea; [|discriminate]. intros H. injection H as <-.
    revert lo E Ea. induction (fouts f) as [|o os IH]; intros lo E Ea; cbn in E.
    - injection E as <-. constructor.
    - destruct (dict_get (st_val rs) o) as [[v|e]|] eqn:Eg; cbn in E; try discriminate.
      + destruct (mapM _ os) as [lo'|] eqn:E2; cbn in E; [|discriminate]. injection E as <-. cbn in Ea |- *.
        constructor; [exact Eg | now apply IH].
      + destruct (mapM _ os) as [lo'|] eqn:E2; cbn in E; [|discriminate]. injection E as <-. cbn in Ea. discriminate.
  Qed.

  Lemma submit_func_trace ps f ps' t :
    In f p -> fsub (p_store ps) f ->
    (forall q g, In q (fparams f) -> producer p q = Some g -> ffull (p_store ps) g) ->
    submit_func body c None ps f = ROk (ps', t) ->
    (exists trf, p_tr ps' = p_tr ps ++ trf /\ Forall dump_den trf) /\ task_trace_ok t.
  Proof.
    intros Hin Hsubf Hprod H. unfold submit_func in H.
    rewrite (kwargs_sel_den (p_store ps) f Hin Hprod) in H.
    destruct (is_mapped f) eqn:Em.
    - destruct (mapped_data f Hin Em) as [kw [ms [sh [mask [arrs [K1 [K2 [K3 [K4 [K5 [P1 [P2 [P3 [W1 [W2 [W3 [W4 Hent]]]]]]]]]]]]]]]]].
      rewrite K1 in H. cbn [lift rbind] in H. rewrite K2, K3 in H. cbn [lift rbind fst snd] in H.
      set (N := prod (ext_of mask sh)) in *.
      destruct (submit_mapped _ _ _ _ _ _ _ _ _) as [[st ex]|] eqn:Esub; cbn [rbind fst snd] in H; [|discriminate].
      injection H as <- <-. cbn [p_tr]. split.
      + apply submit_mapped_exact in Esub as [fm [_ [_ [_ [_ [Htr _]]]]]]; [|unfold stores_of; now rewrite map_length].
        eexists. split; [exact Htr|]. apply Forall_forall. intros a Ha. apply in_flat_map in Ha as [i [Hi Ha]].
        apply filter_In in Hi as [Hi _]. apply in_seq in Hi.
        unfold elem_trace in Ha. destruct Ha as [<-|Ha]; [exact I|].
        apply in_map_iff in Ha as [[o v] [<- Hov]]. cbn [fst snd dump_den].
        apply In_nth_error in Hov as [j Hj].
        assert (Hjo : nth_error (fouts f) j = Some o /\ nth_error (MapResumeFacts.outs_at body f ms kw sh mask i) j = Some v).
        { clear - Hj. revert j Hj. generalize (MapResumeFacts.outs_at body f ms kw sh mask i) as l2. generalize (fouts f) as l1.
          induction l1 as [|a l1 IH]; intros [|b l2] [|j] Hj; cbn in *; try discriminate.
          - injection Hj as <- <-. auto.
          - now apply IH. }
        destruct Hjo as [J1 J2].
        exists f, j, kw, ms, sh, mask, arrs. repeat split; auto; [fold N; lia|].
        rewrite <- (outs_at_lin body Harity f ms kw sh mask W1 W2 W3 W4 P2 P3 P1 arrs K4 i) by (fold N; lia).
        symmetry. now apply nth_error_some_nth.
      + intros ps0 ps1 Hp. cbn [process_task] in Hp.
        destruct (process_mapped f sh mask _ ex) as [ar|]; cbn [rbind] in Hp; [|discriminate]. injection Hp as <-.
        exists []. cbn [p_tr]. rewrite app_nil_r. auto.
    - destruct (single_data f Hin Em) as [kw [outs [S1 [S2 [S3 [S4 S5]]]]]].
      rewrite S1 in H. cbn [lift rbind] in H. unfold execute_single in H.
      assert (Hsingle : forall outs', Forall2 (fun o v => v = dval o) (fouts f) outs' ->
                 task_trace_ok (TSingle f outs')).
      { intros outs' HF ps0 ps1 Hp. cbn [process_task] in Hp. injection Hp as <-. cbn [p_tr dump_single fst snd].
        eexists. split; [reflexivity|]. apply Forall_forall. intros a Ha. apply in_map_iff in Ha as [[o v] [<- Hov]].
        cbn [fst snd dump_den].
        assert (G : In o (fouts f) /\ v = dval o).
        { clear - HF Hov. induction HF as [|a b l l' H1 _ IH]; cbn in Hov; [destruct Hov|].
          destruct Hov as [Hov|Hov]; [injection Hov as <- <-; split; [left; reflexivity | exact H1]|].
          destruct (IH Hov) as [A B]. split; [right; exact A | exact B]. }
        destruct G as [G1 G2]. split; [exact G2|]. exists f. auto. }
      assert (Houts : Forall2 (fun o v => v = dval o) (fouts f) outs).
      { rewrite S4. clear. induction (fouts f); cbn; constructor; auto. }
      destruct (load_single (p_store ps) f) as [[l|]|] eqn:El; cbn [lift rbind] in H; [| |discriminate].
      + cbn [rbind fst snd] in H. injection H as <- <-. cbn [p_tr]. split; [exists []; rewrite app_nil_r; auto|].
        apply Hsingle.
        pose proof (load_single_some _ _ _ El) as HL. unfold fsub in Hsubf. rewrite Em in Hsubf.
        clear - HL Hsubf. induction HL as [|o v os vs H1 _ IH]; constructor.
        * destruct (Hsubf o (or_introl eq_refl)) as [Hn|Hs]; rewrite H1 in *; [discriminate | now injection Hs].
        * apply IH. intros o' Ho'. apply Hsubf. right. exact Ho'.
      + rewrite S2 in H. cbn [lift rbind] in H. rewrite S3, Nat.eqb_refl in H. cbn [negb rbind fst snd] in H.
        injection H as <- <-. cbn [p_tr]. split; [|now apply Hsingle].
        eexists. split; [reflexivity|]. constructor; [exact I | constructor].
  Qed.

  (* fsub / ffull look only at the entries of the function's own outputs *)
  Lemma f_ext r r' g :
    (forall o, In o (fouts g) -> dict_get (st_arr r) o = dict_get (st_arr r') o /\ dict_get (st_val r) o = dict_get (st_val r') o) ->
    (fsub r g -> fsub r' g) /\ (ffull r g -> ffull r' g).
  Proof.
    intros H. unfold fsub, ffull. destruct (is_mapped g).
    - assert (E : forall n, stores_of r g n = stores_of r' g n) by (intros n; apply stores_of_ext; intros o Ho; apply H; exact Ho).
      split; intros X kw ms sh mask arrs A1 A2 A3 A4; rewrite <- E; now apply (X kw ms sh mask arrs).
    - split; intros X o Ho; rewrite <- (proj2 (H o Ho)); now apply X.
  Qed.

  Lemma ffull_fsub r g : In g p -> ffull r g -> fsub r g.
  Proof.
    intros Hg. unfold ffull, fsub. destruct (is_mapped g).
    - intros X kw ms sh mask arrs A1 A2 A3 A4. apply full_sub_cells. now apply (X kw ms sh mask arrs).
    - intros X o Ho. right. now apply X.
  Qed.

  Definition shares (g f : mfunc) : bool := existsb (fun o => mem_str o (fouts f)) (fouts g).
  Lemma shares_eq g f : In g p -> In f p -> shares g f = true -> g = f.
  Proof.
    intros Hg Hf H. apply existsb_exists in H as [o [Ho Hof]]. apply mem_str_In in Hof. eapply Huniq; eauto.
  Qed.
  Lemma shares_false g f o : shares g f = false -> In o (fouts g) -> ~ In o (fouts f).
  Proof.
    intros H Ho X. assert (T : shares g f = true) by (apply existsb_exists; exists o; split; [exact Ho | now apply mem_str_In]).
    rewrite T in H. discriminate.
  Qed.

  (* the store invariants across the submit of f *)
  Lemma submit_effect r r' f :
    In f p ->
    (forall o, ~ In o (fouts f) -> dict_get (st_arr r') o = dict_get (st_arr r) o) ->
    st_val r' = st_val r ->
    (is_mapped f = true -> ffull r' f) -> (is_mapped f = false -> r' = r) ->
    (forall g, In g p -> fsub r g) ->
    (forall g, In g p -> fsub r' g) /\ (forall g, In g p -> ffull r g -> ffull r' g).
  Proof.
    intros Hf Harr Hval Hm Hu Hsub.
    assert (Hoth : forall g, In g p -> shares g f = false ->
               forall o, In o (fouts g) -> dict_get (st_arr r) o = dict_get (st_arr r') o /\ dict_get (st_val r) o = dict_get (st_val r') o).
    { intros g Hg Hs o Ho. split; [symmetry; apply Harr; eapply shares_false; eauto | now rewrite Hval]. }
    split.
    - intros g Hg. destruct (shares g f) eqn:Es.
      + apply (shares_eq g f Hg Hf) in Es. subst g. destruct (is_mapped f) eqn:Em.
        * apply ffull_fsub; [exact Hf | now apply Hm].
        * rewrite (Hu eq_refl). now apply Hsub.
      + apply (proj1 (f_ext r r' g (Hoth g Hg Es))). now apply Hsub.
    - intros g Hg Hfull. destruct (shares g f) eqn:Es.
      + apply (shares_eq g f Hg Hf) in Es. subst g. destruct (is_mapped f) eqn:Em; [now apply Hm | now rewrite (Hu eq_refl)].
      + now apply (proj2 (f_ext r r' g (Hoth g Hg Es))).
  Qed.

  (* ... and across the processing of its task *)
  Lemma process_effect r f :
    In f p -> (forall g, In g p -> fsub r g) ->
    let r' := if is_mapped f then r else single_effect f r in
    (forall g, In g p -> fsub r' g) /\ (forall g, In g p -> ffull r g -> ffull r' g)
    /\ (is_mapped f = false -> ffull r' f).
  Proof.
    intros Hf Hsub. destruct (is_mapped f) eqn:Em; cbn zeta.
    - split; [exact Hsub|]. split; [auto | discriminate].
    - assert (Harr : st_arr (single_effect f r) = st_arr r) by apply set_val_arr.
      assert (Hnew : ffull (single_effect f r) f).
      { unfold ffull. rewrite Em. intros o Ho. apply In_nth_error in Ho as [j Hj].
        pose proof (set_val_fold_get r (fouts f) (map dval (fouts f)) (fouts_NoDup f Hf) (map_length _ _)) as HF.
        fold (single_effect f r) in HF.
        assert (G : forall (l : list str) (vs : list val) (P : str -> val -> Prop), Forall2 P l vs ->
                    forall j o, nth_error l j = Some o -> exists v, nth_error vs j = Some v /\ P o v).
        { induction 1 as [|a b l' vs' H1 _ IH]; intros [|j'] o' Hn; cbn in Hn; try discriminate.
          - injection Hn as <-. exists b. auto.
          - now apply IH. }
        destruct (G _ _ _ HF j o Hj) as [v [Hv Hp]]. rewrite nth_error_map, Hj in Hv. cbn in Hv. injection Hv as <-. exact Hp. }
      assert (Hoth : forall g, In g p -> shares g f = false ->
                 forall o, In o (fouts g) -> dict_get (st_arr r) o = dict_get (st_arr (single_effect f r)) o
                                             /\ dict_get (st_val r) o = dict_get (st_val (single_effect f r)) o).
      { intros g Hg Hs o Ho. split; [now rewrite Harr|]. symmetry. apply set_val_other. eapply shares_false; eauto. }
      split; [|split; [|intros _; exact Hnew]].
      + intros g Hg. destruct (shares g f) eqn:Es.
        * apply (shares_eq g f Hg Hf) in Es. subst g. now apply ffull_fsub.
        * apply (proj1 (f_ext r _ g (Hoth g Hg Es))). now apply Hsub.
      + intros g Hg Hfull. destruct (shares g f) eqn:Es.
        * apply (shares_eq g f Hg Hf) in Es. subst g. exact Hnew.
        * now apply (proj2 (f_ext r _ g (Hoth g Hg Es))).
  Qed.

  Definition tr_ext (tr0 tr1 : list action) : Prop := exists tr, tr1 = tr0 ++ tr /\ Forall dump_den tr.
  Lemma tr_ext_refl tr : tr_ext tr tr.
  Proof. exists []. rewrite app_nil_r. auto. Qed.
  Lemma tr_ext_trans a b c0 : tr_ext a b -> tr_ext b c0 -> tr_ext a c0.
  Proof.
    intros [t1 [-> F1]] [t2 [-> F2]]. exists (t1 ++ t2). split; [now rewrite app_assoc | now apply Forall_app].
  Qed.

  (* all functions of a generation are submitted *)
  Lemma submit_fold_sim gen : forall ps tasks,
    (forall f, In f gen -> In f p) ->
    (forall g, In g p -> fsub (p_store ps) g) ->
    (forall f q g, In f gen -> In q (fparams f) -> producer p q = Some g -> ffull (p_store ps) g) ->
    exists ps' new,
      fold_left (fun acc f => rdo pt <- acc; rdo r <- submit_func body c None (fst pt) f; ROk (fst r, snd pt ++ [snd r]))
                gen (ROk (ps, tasks)) = ROk (ps', tasks ++ new)
      /\ p_out ps' = p_out ps /\ Forall2 task_good new gen
      /\ (forall g, In g p -> fsub (p_store ps') g)
      /\ (forall g, In g p -> ffull (p_store ps) g -> ffull (p_store ps') g)
      /\ (forall f, In f gen -> is_mapped f = true -> ffull (p_store ps') f)
      /\ tr_ext (p_tr ps) (p_tr ps') /\ Forall task_trace_ok new.
  Proof.
    induction gen as [|f gen IH]; intros ps tasks Hgen Hsub Hprod.
    - exists ps, []. rewrite app_nil_r. cbn. repeat split; auto; [intros f [] | apply tr_ext_refl].
    - pose proof (Hgen f (or_introl eq_refl)) as Hf.
      destruct (submit_func_sim ps f Hf Hsub (fun q g Hq Hp => Hprod f q g (or_introl eq_refl) Hq Hp))
        as [ps1 [t [E1 [E2 [E3 [E4 [E5 [E6 E7]]]]]]]].
      destruct (submit_func_trace ps f ps1 t Hf (Hsub f Hf) (fun q g Hq Hp => Hprod f q g (or_introl eq_refl) Hq Hp) E1) as [T1 T2].
      destruct (submit_effect (p_store ps) (p_store ps1) f Hf E3 E4 E5 E6 Hsub) as [S1 S2].
      destruct (IH ps1 (tasks ++ [t])) as [ps' [new [F1 [F2 [F3 [F4 [F5 [F6 [F7 F8]]]]]]]]].
      + intros g Hg. apply Hgen. right. exact Hg.
      + exact S1.
      + intros g q h Hg Hq Hp. destruct (producer_Some _ _ _ Hp) as [Hh _]. apply S2; [exact Hh|]. eapply Hprod; eauto. right. exact Hg.
      + exists ps', (t :: new). cbn [fold_left rbind fst snd]. rewrite E1. cbn [rbind fst snd].
        rewrite <- app_assoc in F1. cbn [app] in F1. split; [exact F1|]. split; [congruence|].
        split; [constructor; assumption|]. split; [exact F4|]. split; [|split; [|split]].
        * intros g Hg Hfull. apply F5; [exact Hg|]. now apply S2.
        * intros g [<-|Hg] Hm; [|now apply F6]. apply F5; [exact Hf|]. now apply E5.
        * eapply tr_ext_trans; [exact T1 | exact F7].
        * constructor; assumption.
  Qed.

  (* ... and their tasks processed *)
  Lemma process_fold_sim tasks : forall gen ps,
    Forall2 task_good tasks gen -> Forall task_trace_ok tasks -> (forall f, In f gen -> In f p) ->
    (forall g, In g p -> fsub (p_store ps) g) ->
    exists ps', fold_left (fun acc t => rdo ps0 <- acc; process_task ps0 t) tasks (ROk ps) = ROk ps'
      /\ p_out ps' = p_out ps ++ flat_map den_entries gen
      /\ (forall g, In g p -> fsub (p_store ps') g)
      /\ (forall g, In g p -> ffull (p_store ps) g -> ffull (p_store ps') g)
      /\ (forall f, In f gen -> is_mapped f = false -> ffull (p_store ps') f)
      /\ tr_ext (p_tr ps) (p_tr ps').
  Proof.
    induction tasks as [|t tasks IH]; intros gen ps HF HT Hgen Hsub; inversion HF as [|? f ? gen' Hg1 Hg2]; subst.
    - exists ps. cbn. rewrite app_nil_r. repeat split; auto; [intros f [] | apply tr_ext_refl].
    - inversion HT as [|? ? Ht1 Ht2]; subst.
      destruct (Hg1 ps) as [ps1 [E1 [E2 E3]]].
      destruct (process_effect (p_store ps) f (Hgen f (or_introl eq_refl)) Hsub) as [S1 [S2 S3]].
      rewrite <- E3 in S1, S2, S3.
      destruct (IH gen' ps1 Hg2 Ht2 (fun g Hg => Hgen g (or_intror Hg)) S1) as [ps' [F1 [F2 [F3 [F4 [F5 F6]]]]]].
      exists ps'. cbn [fold_left rbind]. rewrite E1. split; [exact F1|]. split.
      + rewrite F2, E2. cbn [flat_map]. now rewrite app_assoc.
      + split; [exact F3|]. split; [|split].
        * intros g Hg Hfull. apply F4; [exact Hg|]. now apply S2.
        * intros g [<-|Hg] Hm; [|now apply F5]. apply F4; [apply Hgen; left; reflexivity|]. now apply S3.
        * eapply tr_ext_trans; [exact (Ht1 ps ps1 E1) | exact F6].
  Qed.

  Lemma run_generation_sim ps gen :
    (forall f, In f gen -> In f p) ->
    (forall g, In g p -> fsub (p_store ps) g) ->
    (forall f q g, In f gen -> In q (fparams f) -> producer p q = Some g -> ffull (p_store ps) g) ->
    exists ps', run_generation body c None ps gen = ROk ps'
      /\ p_out ps' = p_out ps ++ flat_map den_entries gen
      /\ (forall g, In g p -> fsub (p_store ps') g)
      /\ (forall g, In g p -> ffull (p_store ps) g -> ffull (p_store ps') g)
      /\ (forall f, In f gen -> ffull (p_store ps') f)
      /\ tr_ext (p_tr ps) (p_tr ps').
  Proof.
    intros Hgen Hsub Hprod. unfold run_generation.
    destruct (submit_fold_sim gen ps [] Hgen Hsub Hprod) as [ps1 [new [F1 [F2 [F3 [F4 [F5 [F6 [F7 F8]]]]]]]]].
    cbn [app] in F1. rewrite F1. cbn [rbind fst snd].
    destruct (process_fold_sim new gen ps1 F3 F8 Hgen F4) as [ps' [G1 [G2 [G3 [G4 [G5 G6]]]]]].
    exists ps'. split; [exact G1|]. split; [now rewrite G2, F2|]. split; [exact G3|]. split; [|split].
    - intros g Hg Hfull. apply G4; [exact Hg|]. now apply F5.
    - intros f Hf. destruct (is_mapped f) eqn:Em; [|now apply G5].
      apply G4; [now apply Hgen|]. now apply F6.
    - eapply tr_ext_trans; eauto.
  Qed.

  (* producers of the parameters of a generation are in earlier generations *)
  Fixpoint producers_before (before : list mfunc) (gens : list (list mfunc)) : Prop :=
    match gens with
    | [] => True
    | gen :: rest => (forall f q g, In f gen -> In q (fparams f) -> producer p q = Some g -> In g before)
                     /\ producers_before (before ++ gen) rest
    end.

  Lemma generations_sim gens : forall before ps,
    (forall gen f, In gen gens -> In f gen -> In f p) ->
    (forall g, In g p -> fsub (p_store ps) g) ->
    (forall g, In g before -> ffull (p_store ps) g) -> (forall g, In g before -> In g p) ->
    producers_before before gens ->
    exists ps', fold_left (fun acc gen => rdo ps0 <- acc; run_generation body c None ps0 gen) gens (ROk ps) = ROk ps'
      /\ p_out ps' = p_out ps ++ flat_map den_entries (concat gens)
      /\ (forall g, In g (before ++ concat gens) -> ffull (p_store ps') g)
      /\ tr_ext (p_tr ps) (p_tr ps').
  Proof.
    induction gens as [|gen rest IH]; intros before ps Hin Hsub Hfull Hbp Hpb.
    - exists ps. cbn. rewrite !app_nil_r. split; [reflexivity|]. split; [reflexivity|]. split; [exact Hfull | apply tr_ext_refl].
    - destruct Hpb as [P1 P2].
      destruct (run_generation_sim ps gen (fun f Hf => Hin gen f (or_introl eq_refl) Hf) Hsub) as [ps1 [E1 [E2 [E3 [E4 [E5 E6]]]]]].
      { intros f q g Hf Hq Hp. apply Hfull. eapply P1; eauto. }
      destruct (IH (before ++ gen) ps1) as [ps' [F1 [F2 [F3 F4]]]].
      + intros g f Hg Hf. apply (Hin g f (or_intror Hg) Hf).
      + exact E3.
      + intros g Hg. apply in_app_or in Hg as [Hg|Hg]; [apply E4; [now apply Hbp | now apply Hfull] | now apply E5].
      + intros g Hg. apply in_app_or in Hg as [Hg|Hg]; [now apply Hbp | apply (Hin gen g (or_introl eq_refl) Hg)].
      + exact P2.
      + exists ps'. cbn [fold_left rbind concat]. rewrite E1. split; [exact F1|]. split; [|split].
        * rewrite F2, E2, flat_map_app, app_assoc. reflexivity.
        * intros g Hg. apply F3. now rewrite <- app_assoc.
        * eapply tr_ext_trans; eauto.
  Qed.
End Sim.

(* ------------------------------------------------------------------ assembling *)
Lemma denote_fold_env body user p : forall d dfin,
  forallb func_ok p = true ->
  fold_left (fun acc f => do s <- acc; denote_func body user s f) p (Ok d) = Ok dfin ->
  (forall q, ~ In q (flat_map fouts p) -> dict_get (d_env dfin) q = dict_get (d_env d) q)
  /\ fold_left (fun acc f => do shapes <- acc; do shm <- func_shape user shapes f;
                             Ok (match shm with Some sm => map (fun o => (o, sm)) (fouts f) ++ shapes | None => shapes end))
               p (Ok (d_shapes d)) = Ok (d_shapes dfin).
Proof.
  induction p as [|f p IH]; intros d dfin Hok H; cbn [fold_left bind] in H |- *.
  - injection H as <-. auto.
  - cbn [forallb] in Hok. apply andb_true_iff in Hok as [Hf Hp].
    destruct (denote_func body user d f) as [d1|e] eqn:E1; [|rewrite fold_left_bind_err in H; discriminate].
    destruct (IH d1 dfin Hp H) as [I1 I2].
    destruct (denote_func_inv body user d f d1 Hf E1) as [kw [vals [shp' [_ [_ [He _]]]]]].
    split.
    + intros q Hq. cbn [flat_map] in Hq. rewrite I1 by (intros X; apply Hq, in_or_app; right; exact X).
      rewrite He, dget_app, dget_notin; [reflexivity|]. intros X. apply combine_fst_incl in X. apply Hq, in_or_app. left. exact X.
    + unfold denote_func in E1.
      destruct (func_shape user (d_shapes d) f) as [shm|e] eqn:Hs; cbn [bind] in E1 |- *; [|discriminate].
      assert (Hsh : d_shapes d1 = match shm with Some sm => map (fun o => (o, sm)) (fouts f) ++ d_shapes d | None => d_shapes d end).
      { destruct (func_kwargs f (d_env d)) as [kw0|]; cbn [bind] in E1; [|discriminate].
        destruct (is_mapped f).
        - destruct (fspec f); [|discriminate]. destruct shm as [[sh mask]|]; [|discriminate].
          destruct (negb _); [discriminate|]. destruct (denote_mapped _ _ _ _ _ _); cbn [bind] in E1; [|discriminate].
          now injection E1 as <-.
        - destruct (body f kw0); cbn [bind] in E1; [|discriminate]. destruct (negb _); [discriminate|].
          match type of E1 with (if ?c then _ else _) = _ => destruct c end; [discriminate|]. now injection E1 as <-. }
      rewrite <- I2. apply f_equal. apply f_equal. symmetry. exact Hsh.
Qed.

Lemma NoDup_flat_uniq (p : list mfunc) : NoDup (flat_map fouts p) ->
  forall g f o, In g p -> In f p -> In o (fouts g) -> In o (fouts f) -> g = f.
Proof.
  induction p as [|h p IH]; intros Hnd g f o Hg Hf Hog Hof; [destruct Hg|]. cbn in Hnd.
  destruct (NoDup_app_inv _ _ Hnd) as [_ [Hndp Hdis]].
  destruct Hg as [<-|Hg], Hf as [<-|Hf]; auto.
  - exfalso. apply (Hdis o Hog). apply in_flat_map. exists f. auto.
  - exfalso. apply (Hdis o Hof). apply in_flat_map. exists g. auto.
  - eapply IH; eauto.
Qed.

Lemma dget_flat_entries (g : mfunc -> list (str * val)) (L : list mfunc) :
  (forall f, map fst (g f) = fouts f) -> NoDup (flat_map fouts L) ->
  forall f o, In f L -> In o (fouts f) -> dict_get (flat_map g L) o = dict_get (g f) o.
Proof.
  intros Hg. induction L as [|h L IH]; intros Hnd f o Hf Ho; [destruct Hf|]. cbn in Hnd |- *.
  destruct (NoDup_app_inv _ _ Hnd) as [_ [HndL Hdis]]. rewrite dget_app.
  destruct Hf as [<-|Hf].
  - destruct (dict_get (g h) o) eqn:E; [reflexivity|].
    apply dget_notin. intros X. rewrite map_flat_map in X.
    apply in_flat_map in X as [f' [Hf' X]]. rewrite Hg in X. apply (Hdis o Ho). apply in_flat_map. eauto.
  - rewrite (dget_notin (g h) o); [now apply IH|]. rewrite Hg. intros X. apply (Hdis o X). apply in_flat_map. eauto.
Qed.

Lemma den_entries_get D (L : list mfunc) f o : In f L -> In o (fouts f) ->
  dict_get (flat_map (den_entries D) L) o = Some (dval D o).
Proof.
  intros Hf Ho.
  assert (G : forall l, (exists v, In (o, v) l) -> (forall v, In (o, v) l -> v = dval D o) -> dict_get l o = Some (dval D o)).
  { induction l as [|[k v] l IH]; intros [v0 Hex] Hall; [destruct Hex|]. cbn.
    destruct (str_eqb o k) eqn:E.
    - apply str_eqb_eq in E. subst k. f_equal. apply Hall. left. reflexivity.
    - apply IH.
      + destruct Hex as [Hex|Hex]; [injection Hex as <- _; now rewrite str_eqb_refl in E | eauto].
      + intros v1 Hv1. apply Hall. right. exact Hv1. }
  apply G.
  - exists (dval D o). apply in_flat_map. exists f. split; [exact Hf|]. unfold den_entries. apply in_map_iff. exists o. auto.
  - intros v Hv. apply in_flat_map in Hv as [g [_ Hv]]. unfold den_entries in Hv. apply in_map_iff in Hv as [o' [E _]].
    now injection E as <- <-.
Qed.

(* MAIN: a full run on any sub-store of the denoted store completes, returns the denoted arrays and ends with the
   denoted store; the hypotheses are C01's (request_ok, defined denotation, body_arity) plus the order conditions
   that pipefunc's topological generations satisfy *)
Theorem run_from_substore_denotes body user p inputs D rs :
  body_arity body ->
  request_ok p inputs = true -> denote_run body p inputs user = Ok D ->
  topo_list p -> producers_before p [] (generations p) ->
  (forall f, In f p -> In f (concat (generations p))) ->
  (forall g, In g p -> fsub body p inputs D rs g) ->
  exists ps, map_run_sel body p inputs user None rs = ROk ps
    /\ (forall f, In f p -> ffull body p inputs D (p_store ps) f)
    /\ (forall f o, In f p -> In o (fouts f) -> dict_get (p_out ps) o = dict_get (d_out D) o)
    /\ Forall (dump_den body p inputs D) (p_tr ps).
Proof.
  intros Harity Hreq Hden Htopo Hpb Hall Hsub.
  unfold request_ok in Hreq. apply andb_true_iff in Hreq as [Hreq _]. apply andb_true_iff in Hreq as [Hok Hnd].
  apply nodup_str_NoDup in Hnd. destruct (NoDup_app_inv _ _ Hnd) as [Hndo [_ Hdisj]].
  unfold denote_run in Hden.
  set (d0 := {| d_env := inputs; d_shapes := init_shapes inputs; d_out := [] |}) in *.
  destruct (denote_fold_facts body user p d0 D Hok Htopo) as [HD _]; [intros; reflexivity | exact Hndo | exact Hden|].
  destruct (denote_fold_env body user p d0 D Hok Hden) as [Henv Hshapes]. cbn [d_env d_shapes d0] in Henv, Hshapes.
  assert (Hfok : forall f, In f p -> func_ok f = true) by (rewrite forallb_forall in Hok; exact Hok).
  assert (Huniq := NoDup_flat_uniq p Hndo).
  assert (Hin_disj : forall f o, In f p -> In o (fouts f) -> dict_get inputs o = None).
  { intros f o Hf Ho. apply dget_notin. apply Hdisj. apply in_flat_map. eauto. }
  assert (Henv' : forall q, (forall f, In f p -> ~ In q (fouts f)) -> dict_get (d_env D) q = dict_get inputs q).
  { intros q Hq. apply Henv. intros X. apply in_flat_map in X as [f [Hf X]]. exact (Hq f Hf X). }
  unfold map_run_sel. cbn [validate_fixed lift rbind]. unfold all_shapes. rewrite Hshapes. cbn [lift rbind].
  destruct (generations_sim body Harity p inputs D HD Hfok Huniq Hin_disj Henv' (generations p) []
              {| p_store := rs; p_out := []; p_tr := [] |}) as [ps [E1 [E2 [E3 [trx [E4 E5]]]]]].
  - intros gen f Hg Hf. eapply generations_In; eauto.
  - exact Hsub.
  - intros g [].
  - intros g [].
  - exact Hpb.
  - exists ps. split; [exact E1|]. cbn [app p_out p_tr] in E2, E3, E4. split; [intros f Hf; apply E3; now apply Hall|].
    split; [|now rewrite E4].
    intros f o Hf Ho. rewrite E2. rewrite (den_entries_get D (concat (generations p)) f o (Hall f Hf) Ho).
    apply In_nth_error in Ho as [j Hj].
    destruct (HD f Hf) as [kw [_ H]]. unfold dval. destruct (is_mapped f).
    + destruct H as [ms [sh [mask [arrs [_ [_ [_ [_ [_ [_ A7]]]]]]]]]]. destruct (A7 j o Hj) as [_ [a [_ [_ B]]]]. now rewrite B.
    + destruct H as [outs [_ [_ A3]]]. destruct (A3 j o Hj) as [v [_ [_ B]]]. now rewrite B.
Qed.

(* the same, with the whole list Result.output (it does not depend on the store the run started from) *)
Theorem run_from_substore_outs body user p inputs D rs :
  body_arity body ->
  request_ok p inputs = true -> denote_run body p inputs user = Ok D ->
  topo_list p -> producers_before p [] (generations p) ->
  (forall f, In f p -> In f (concat (generations p))) ->
  (forall g, In g p -> fsub body p inputs D rs g) ->
  exists ps, map_run_sel body p inputs user None rs = ROk ps
    /\ (forall f, In f p -> ffull body p inputs D (p_store ps) f)
    /\ (forall f o, In f p -> In o (fouts f) -> dict_get (p_out ps) o = dict_get (d_out D) o)
    /\ Forall (dump_den body p inputs D) (p_tr ps)
    /\ p_out ps = flat_map (den_entries D) (concat (generations p)).
Proof.
  intros Harity Hreq Hden Htopo Hpb Hall Hsub.
  unfold request_ok in Hreq. apply andb_true_iff in Hreq as [Hreq _]. apply andb_true_iff in Hreq as [Hok Hnd].
  apply nodup_str_NoDup in Hnd. destruct (NoDup_app_inv _ _ Hnd) as [Hndo [_ Hdisj]].
  unfold denote_run in Hden.
  set (d0 := {| d_env := inputs; d_shapes := init_shapes inputs; d_out := [] |}) in *.
  destruct (denote_fold_facts body user p d0 D Hok Htopo) as [HD _]; [intros; reflexivity | exact Hndo | exact Hden|].
  destruct (denote_fold_env body user p d0 D Hok Hden) as [Henv Hshapes]. cbn [d_env d_shapes d0] in Henv, Hshapes.
  assert (Hfok : forall f, In f p -> func_ok f = true) by (rewrite forallb_forall in Hok; exact Hok).
  assert (Huniq := NoDup_flat_uniq p Hndo).
  assert (Hin_disj : forall f o, In f p -> In o (fouts f) -> dict_get inputs o = None).
  { intros f o Hf Ho. apply dget_notin. apply Hdisj. apply in_flat_map. eauto. }
  assert (Henv' : forall q, (forall f, In f p -> ~ In q (fouts f)) -> dict_get (d_env D) q = dict_get inputs q).
  { intros q Hq. apply Henv. intros X. apply in_flat_map in X as [f [Hf X]]. exact (Hq f Hf X). }
  unfold map_run_sel. cbn [validate_fixed lift rbind]. unfold all_shapes. rewrite Hshapes. cbn [lift rbind].
  destruct (generations_sim body Harity p inputs D HD Hfok Huniq Hin_disj Henv' (generations p) []
              {| p_store := rs; p_out := []; p_tr := [] |}) as [ps [E1 [E2 [E3 [trx [E4 E5]]]]]].
  - intros gen f Hg Hf. eapply generations_In; eauto.
  - exact Hsub.
  - intros g [].
  - intros g [].
  - exact Hpb.
  - exists ps. split; [exact E1|]. cbn [app p_out p_tr] in E2, E3, E4. split; [intros f Hf; apply E3; now apply Hall|].
    split; [|split; [now rewrite E4 | exact E2]].
    intros f o Hf Ho. rewrite E2. rewrite (den_entries_get D (concat (generations p)) f o (Hall f Hf) Ho).
    apply In_nth_error in Ho as [j Hj].
    destruct (HD f Hf) as [kw [_ H]]. unfold dval. destruct (is_mapped f).
    + destruct H as [ms [sh [mask [arrs [_ [_ [_ [_ [_ [_ A7]]]]]]]]]]. destruct (A7 j o Hj) as [_ [a [_ [_ B]]]]. now rewrite B.
    + destruct H as [outs [_ [_ A3]]]. destruct (A3 j o Hj) as [v [_ [_ B]]]. now rewrite B.
Qed.

(* the empty store is a sub-store of anything *)
Lemma fsub_empty body p inputs D g : fsub body p inputs D empty_store g.
Proof.
  unfold fsub. destruct (is_mapped g).
  - intros kw ms sh mask arrs _ _ _ _. unfold cells_sub, stores_of. rewrite map_length. split; [reflexivity|].
    intros j Hj. destruct (nth_error (fouts g) j) as [o|] eqn:Eo; [|apply nth_error_None in Eo; lia].
    destruct (stores_of_nth empty_store g (prod (ext_of mask sh)) j o Eo) as [Hn _].
    unfold stores_of in Hn. rewrite Hn. unfold get_arr. cbn.
    split; [apply repeat_length|]. intros i Hi. left. apply nth_repeat.
  - intros o _. left. reflexivity.
Qed.

(* LINK LEMMA: on the empty store and without a request the model of this file and C01's model of Pipeline.map both
   succeed and return the same Result.output for every output (namely the denoted arrays) *)
Theorem map_run_sel_empty_is_map_run body user p inputs D :
  body_arity body ->
  request_ok p inputs = true -> denote_run body p inputs user = Ok D ->
  topo_list p -> producers_before p [] (generations p) ->
  (forall f, In f p -> In f (concat (generations p))) ->
  exists st ps,
    map_run body p inputs user = Ok st
    /\ map_run_sel body p inputs user None empty_store = ROk ps
    /\ map (fun x => (fst (fst x), snd (fst x))) (r_out st) = d_out D
    /\ map (fun x => (fst (fst x), snd x)) (r_out st) = d_out D
    /\ (forall f o, In f p -> In o (fouts f) -> dict_get (p_out ps) o = dict_get (d_out D) o)
    /\ (forall f, In f p -> ffull body p inputs D (p_store ps) f).
Proof.
  intros Harity Hreq Hden Htopo Hpb Hall.
  destruct (map_run_denotes body Harity user p inputs D Hreq Hden) as [st [R1 [R2 R3]]].
  destruct (run_from_substore_denotes body user p inputs D empty_store Harity Hreq Hden Htopo Hpb Hall
              (fun g _ => fsub_empty body p inputs D g)) as [ps [S1 [S2 [S3 _]]]].
  exists st, ps. auto 10.
Qed.

(* ------------------------------------------------------------------ decidable order conditions *)
Lemma indepb_ok g f : indepb g f = true -> indep_fn g f.
Proof.
  unfold indepb, indep_fn. rewrite forallb_forall. intros H o Ho X. specialize (H o Ho).
  apply Bool.negb_true_iff, mem_str_false in H. contradiction.
Qed.

Lemma topo_listb_ok p : topo_listb p = true -> topo_list p.
Proof.
  induction p as [|f rest IH]; cbn; [auto|]. intros H. apply andb_true_iff in H as [H H3]. apply andb_true_iff in H as [H1 H2].
  split; [now apply indepb_ok|]. split; [|now apply IH].
  rewrite forallb_forall in H2. intros g Hg. specialize (H2 g Hg). apply andb_true_iff in H2 as [A B].
  split; [now apply indepb_ok|]. rewrite forallb_forall in B. intros o Ho X. specialize (B o Ho).
  apply Bool.negb_true_iff, mem_str_false in B. contradiction.
Qed.

(* every parameter that some function produces is produced in an earlier generation (by names) *)
Lemma producers_beforeb_ok p gens : forall before,
  (forall g f o, In g p -> In f p -> In o (fouts g) -> In o (fouts f) -> g = f) ->
  (forall g, In g before -> In g p) -> (forall gen f, In gen gens -> In f gen -> In f p) ->
  producers_beforeb p (flat_map fouts before) gens = true -> producers_before p before gens.
Proof.
  induction gens as [|gen rest IH]; intros before Huniq Hb Hg H; cbn in *; [exact I|].
  apply andb_true_iff in H as [H1 H2]. split.
  - intros f q g Hf Hq Hp. rewrite forallb_forall in H1. specialize (H1 f Hf). rewrite forallb_forall in H1.
    specialize (H1 q Hq). rewrite Hp in H1. apply mem_str_In in H1. apply in_flat_map in H1 as [h [Hh Hqh]].
    destruct (producer_Some _ _ _ Hp) as [Hgp Hqg]. rewrite (Huniq g h q Hgp (Hb h Hh) Hqg Hqh). exact Hh.
  - apply IH; [exact Huniq | | |].
    + intros g Hgg. apply in_app_or in Hgg as [X|X]; [now apply Hb | apply (Hg gen g (or_introl eq_refl) X)].
    + intros g f Hgg Hf. apply (Hg g f (or_intror Hgg) Hf).
    + now rewrite flat_map_app.
Qed.

(* every function is in some generation when its level is in range *)
Lemma levels_okb_ok p : levels_okb p = true -> forall f, In f p -> In f (concat (generations p)).
Proof.
  unfold levels_okb, generations. cbv zeta. rewrite forallb_forall. intros H f Hf. specialize (H f Hf).
  apply andb_true_iff in H as [H1 H2]. apply Nat.leb_le in H1, H2.
  set (lv := levels p) in *. set (top := fold_right Nat.max 0 (map snd lv)) in *.
  apply in_concat. exists (filter (fun f0 => level_of lv f0 =? level_of lv f) p). split.
  - apply filter_In. split.
    + apply in_map_iff. exists (level_of lv f). split; [reflexivity|]. apply in_seq. lia.
    + destruct (filter (fun f0 => level_of lv f0 =? level_of lv f) p) eqn:E; [|reflexivity].
      exfalso. assert (X : In f (filter (fun f0 => level_of lv f0 =? level_of lv f) p))
        by (apply filter_In; split; [exact Hf | apply Nat.eqb_refl]). rewrite E in X. destruct X.
  - apply filter_In. split; [exact Hf | apply Nat.eqb_refl].
Qed.

(* the order conditions in one decidable predicate; pipefunc's topological generations satisfy it *)


(* the main theorems with the decidable order conditions *)
Lemma pipeline_order_ok_spec p :
  NoDup (flat_map fouts p) -> pipeline_order_ok p = true ->
  topo_list p /\ producers_before p [] (generations p) /\ (forall f, In f p -> In f (concat (generations p))).
Proof.
  intros Hnd H. unfold pipeline_order_ok in H. apply andb_true_iff in H as [H H3]. apply andb_true_iff in H as [H1 H2].
  split; [now apply topo_listb_ok|]. split; [|now apply levels_okb_ok].
  apply producers_beforeb_ok; [now apply NoDup_flat_uniq | intros g [] | | exact H2].
  intros gen f Hg Hf. eapply generations_In; eauto.
Qed.

Lemma request_ok_nodup p inputs : request_ok p inputs = true -> NoDup (flat_map fouts p).
Proof.
  unfold request_ok. intros H. apply andb_true_iff in H as [H _]. apply andb_true_iff in H as [_ H].
  apply nodup_str_NoDup in H. now destruct (NoDup_app_inv _ _ H).
Qed.

Theorem full_run_on_substore_denotes body user p inputs D rs :
  body_arity body ->
  request_ok p inputs = true -> denote_run body p inputs user = Ok D -> pipeline_order_ok p = true ->
  (forall g, In g p -> fsub body p inputs D rs g) ->
  exists ps, map_run_sel body p inputs user None rs = ROk ps
    /\ (forall f, In f p -> ffull body p inputs D (p_store ps) f)
    /\ (forall f o, In f p -> In o (fouts f) -> dict_get (p_out ps) o = dict_get (d_out D) o)
    /\ Forall (dump_den body p inputs D) (p_tr ps).
Proof.
  intros Ha Hr Hd Ho Hs.
  destruct (pipeline_order_ok_spec p (request_ok_nodup p inputs Hr) Ho) as [A [B C]].
  exact (run_from_substore_denotes body user p inputs D rs Ha Hr Hd A B C Hs).
Qed.

Theorem full_run_on_substore_outs body user p inputs D rs :
  body_arity body ->
  request_ok p inputs = true -> denote_run body p inputs user = Ok D -> pipeline_order_ok p = true ->
  (forall g, In g p -> fsub body p inputs D rs g) ->
  exists ps, map_run_sel body p inputs user None rs = ROk ps
    /\ (forall f, In f p -> ffull body p inputs D (p_store ps) f)
    /\ (forall f o, In f p -> In o (fouts f) -> dict_get (p_out ps) o = dict_get (d_out D) o)
    /\ Forall (dump_den body p inputs D) (p_tr ps)
    /\ p_out ps = flat_map (den_entries D) (concat (generations p)).
Proof.
  intros Ha Hr Hd Ho Hs.
  destruct (pipeline_order_ok_spec p (request_ok_nodup p inputs Hr) Ho) as [A [B C]].
  exact (run_from_substore_outs body user p inputs D rs Ha Hr Hd A B C Hs).
Qed.

Theorem map_run_sel_is_map_run body user p inputs D :
  body_arity body ->
  request_ok p inputs = true -> denote_run body p inputs user = Ok D -> pipeline_order_ok p = true ->
  exists st ps,
    map_run body p inputs user = Ok st
    /\ map_run_sel body p inputs user None empty_store = ROk ps
    /\ map (fun x => (fst (fst x), snd (fst x))) (r_out st) = d_out D
    /\ map (fun x => (fst (fst x), snd x)) (r_out st) = d_out D
    /\ (forall f o, In f p -> In o (fouts f) -> dict_get (p_out ps) o = dict_get (d_out D) o)
    /\ (forall f, In f p -> ffull body p inputs D (p_store ps) f).
Proof.
  intros Ha Hr Hd Ho.
  destruct (pipeline_order_ok_spec p (request_ok_nodup p inputs Hr) Ho) as [A [B C]].
  exact (map_run_sel_empty_is_map_run body user p inputs D Ha Hr Hd A B C).
Qed.

(* ------------------------------------------------------------------ stores made of denoted dumps are sub-stores *)
Section Replay.
  Variable body : mfunc -> env -> result (list val).
  Variable p : list mfunc.
  Variable inputs : env.
  Variable D : den_state.
  Let c : ctx := {| x_p := p; x_inputs := inputs; x_shapes := d_shapes D |}.
  Hypothesis Huniq : forall g f o, In g p -> In f p -> In o (fouts g) -> In o (fouts f) -> g = f.
  Hypothesis Hnd : forall f, In f p -> NoDup (fouts f).
  Variable size_of : str -> nat.
  (* the size of the external index space of each mapped output *)
  Hypothesis Hsize : forall f sh mask o, In f p -> is_mapped f = true -> shape_of c f = Ok (sh, mask) -> In o (fouts f) ->
    size_of o = prod (ext_of mask sh).

  (* the effect of one dump on a store (what FileArray.dump / _dump_single_output leave behind) *)
  Definition apply_dump (r : rstore) (a : action) : rstore :=
    match a with
    | ACall _ _ _ => r
    | ADump o i v => set_arr r o (upd (get_arr r o (size_of o)) i (Some (Ok v)))
    | ADumpSingle o v => set_val r o v
    end.

  Lemma get_arr_set r o st o' n : get_arr (set_arr r o st) o' n = if str_eqb o' o then st else get_arr r o' n.
  Proof.
    unfold get_arr, set_arr. cbn [st_arr]. destruct (str_eqb o' o) eqn:E.
    - apply str_eqb_eq in E. subst. now rewrite dict_get_set_same.
    - rewrite dict_get_set_other; [reflexivity|]. intros ->. now rewrite str_eqb_refl in E.
  Qed.

  Lemma apply_dump_sub r a : dump_den body p inputs D a ->
    (forall g, In g p -> fsub body p inputs D r g) -> forall g, In g p -> fsub body p inputs D (apply_dump r a) g.
  Proof.
    intros Ha Hsub g Hg. destruct a as [fn i kw0 | o i v | o v]; cbn [apply_dump dump_den] in *; [now apply Hsub | |].
    - destruct Ha as [f [j [kw [ms [sh [mask [arrs [Hf [Hm [K1 [K2 [K3 [K4 [Hj [Hi ->]]]]]]]]]]]]]]].
      pose proof (Hsize f sh mask o Hf Hm K3 (nth_error_In _ _ Hj)) as Hs. rewrite Hs.
      set (N := prod (ext_of mask sh)) in *.
      pose proof (Hsub g Hg) as Hgs. unfold fsub in *. destruct (is_mapped g) eqn:Emg.
      + intros kw' ms' sh' mask' arrs' A1 A2 A3 A4. specialize (Hgs kw' ms' sh' mask' arrs' A1 A2 A3 A4).
        destruct (in_dec (list_eq_dec ascii_dec) o (fouts g)) as [Hog|Hog].
        * assert (g = f) by (eapply Huniq; eauto; eapply nth_error_In; eauto). subst g.
          rewrite K1 in A1. injection A1 as <-. rewrite K2 in A2. injection A2 as <-.
          rewrite K3 in A3. injection A3 as <- <-. fold c in Hgs. fold N in Hgs |- *.
          destruct Hgs as [L C]. split; [unfold stores_of; now rewrite map_length|].
          intros j' Hj'. destruct (nth_error (fouts f) j') as [o'|] eqn:Eo'; [|apply nth_error_None in Eo'; lia].
          destruct (stores_of_nth (set_arr r o (upd (get_arr r o N) i (Some (Ok (nth j (outs_lin body f ms kw sh mask i) dflt))))) f N j' o' Eo') as [Hn _].
          destruct (stores_of_nth r f N j' o' Eo') as [Hn0 _]. destruct (C j' Hj') as [C1 C2].
          rewrite Hn, get_arr_set. destruct (str_eqb o' o) eqn:E.
          -- apply str_eqb_eq in E. subst o'.
             assert (j' = j).
             { apply (proj1 (NoDup_nth_error (fouts f)) (Hnd f Hf)); [apply nth_error_Some; congruence | congruence]. }
             subst j'. rewrite <- Hn0. split; [now rewrite upd_length|].
             intros x Hx. destruct (Nat.eq_dec x i) as [->|Hne].
             ++ right. rewrite nth_upd by (rewrite C1; exact Hx). now rewrite Nat.eqb_refl.
             ++ rewrite nth_upd_other by exact Hne. now apply C2.
          -- rewrite <- Hn0. split; [exact C1 | exact C2].
        * rewrite (stores_of_ext (set_arr r o _) r g); [exact Hgs|]. intros o' Ho'. cbn [set_arr st_arr].
          apply dict_get_set_other. intros ->. contradiction.
      + intros o' Ho'. cbn [set_arr st_val]. now apply Hgs.
    - destruct Ha as [-> [f [Hf [Hm Ho]]]].
      pose proof (Hsub g Hg) as Hgs. unfold fsub in *. destruct (is_mapped g) eqn:Emg.
      + intros kw' ms' sh' mask' arrs' A1 A2 A3 A4. rewrite (stores_of_ext (set_val r o (dval D o)) r g); [now apply (Hgs kw' ms' sh' mask' arrs')|].
        intros o' _. reflexivity.
      + intros o' Ho'. cbn [set_val st_val]. destruct (str_eqb o' o) eqn:E.
        * apply str_eqb_eq in E. subst o'. right. apply dict_get_set_same.
        * rewrite dict_get_set_other; [now apply Hgs|]. intros ->. now rewrite str_eqb_refl in E.
  Qed.

  (* any store obtained from the empty one by dumps that carry denoted values – e.g. any prefix, or any subset, of the
     dumps of an uninterrupted run – is a sub-store of the denoted store *)
  Theorem replay_sub tr : Forall (dump_den body p inputs D) tr ->
    forall g, In g p -> fsub body p inputs D (fold_left apply_dump tr empty_store) g.
  Proof.
    intros H. assert (G : forall r, (forall g, In g p -> fsub body p inputs D r g) ->
                forall g, In g p -> fsub body p inputs D (fold_left apply_dump tr r) g).
    { induction H as [|a tr Ha _ IH]; intros r Hr; cbn [fold_left]; [exact Hr|]. apply IH. now apply apply_dump_sub. }
    apply G. intros g _. apply fsub_empty.
  Qed.
End Replay.
