(* Proofs about Model/MapResume.v (C06): the selection of a fixed_indices request is the product of the
   per-axis selections; partitions of the index space; what one run on an existing store computes. *)
From Verif Require Import Base.Prelude Base.StrUtil Base.Index Base.NdArr Base.PyRange Base.StrSeq
  Model.MapSpec Model.MapSpecSpec Model.MapRun
  Proofs.IndexFacts Proofs.StrFacts Proofs.MapSpecFacts Proofs.PyRangeFacts.
From Verif Require Import Model.MapResume Model.FixedSpec.

(* ------------------------------------------------------------------ lists *)
Lemma upd_length {A} (l : list A) : forall n x, length (upd l n x) = length l.
Proof. induction l as [|y l IH]; intros [|n] x; cbn; try reflexivity. now rewrite IH. Qed.

Lemma nth_upd {A} (l : list A) : forall i j x d, i < length l ->
  nth i (upd l j x) d = if i =? j then x else nth i l d.
Proof.
  induction l as [|y l IH]; intros i j x d Hi; [cbn in Hi; lia|].
  destruct j as [|j], i as [|i]; cbn; try reflexivity.
  cbn in Hi. rewrite IH by lia. reflexivity.
Qed.

Lemma nth_upd_other {A} (l : list A) : forall i j x d, i <> j -> nth i (upd l j x) d = nth i l d.
Proof.
  induction l as [|y l IH]; intros i j x d Hne; [destruct i, j; reflexivity|].
  destruct j as [|j], i as [|i]; cbn; try reflexivity; try lia.
  apply IH. lia.
Qed.

Lemma list_eq_nth {A} (d : A) (l l' : list A) :
  length l = length l' -> (forall i, i < length l -> nth i l d = nth i l' d) -> l = l'.
Proof.
  revert l'. induction l as [|x l IH]; intros [|y l'] Hlen H; cbn in Hlen; try lia; [reflexivity|].
  f_equal.
  - apply (H 0). cbn. lia.
  - apply IH; [lia|]. intros i Hi. apply (H (S i)). cbn. lia.
Qed.

Lemma map_nth_seq {A} (d : A) (l : list A) : l = map (fun i => nth i l d) (seq 0 (length l)).
Proof.
  induction l as [|x l IH]; [reflexivity|].
  cbn [length seq map nth]. f_equal.
  rewrite <- seq_shift, map_map. exact IH.
Qed.

Lemma nth_map_default {A B} (g : A -> B) (l : list A) : forall j d d', j < length l -> nth j (map g l) d' = g (nth j l d).
Proof.
  induction l as [|x l IH]; intros [|j] d d' Hj; cbn in *; try lia; [reflexivity|]. apply IH. lia.
Qed.

Lemma existsb_map_comp {A B} (p : B -> bool) (g : A -> B) l : existsb p (map g l) = existsb (fun x => p (g x)) l.
Proof. induction l as [|x l IH]; cbn; [reflexivity|]. now rewrite IH. Qed.

Lemma existsb_ext_in' {A} (p q : A -> bool) l : (forall x, In x l -> p x = q x) -> existsb p l = existsb q l.
Proof.
  induction l as [|x l IH]; intros H; cbn; [reflexivity|].
  rewrite (H x (or_introl eq_refl)), IH; [reflexivity|]. intros; apply H; right; assumption.
Qed.

Lemma filter_none {A} (p : A -> bool) l : (forall x, In x l -> p x = false) -> filter p l = [].
Proof.
  induction l as [|x l IH]; intros H; cbn; [reflexivity|].
  rewrite (H x (or_introl eq_refl)). apply IH. intros; apply H; right; assumption.
Qed.

Lemma filter_all {A} (p : A -> bool) l : (forall x, In x l -> p x = true) -> filter p l = l.
Proof.
  induction l as [|x l IH]; intros H; cbn; [reflexivity|].
  rewrite (H x (or_introl eq_refl)). f_equal. apply IH. intros; apply H; right; assumption.
Qed.

Lemma NoDup_app_disj {A} (a b : list A) : NoDup a -> NoDup b -> (forall x, In x a -> In x b -> False) -> NoDup (a ++ b).
Proof.
  induction a as [|x a IH]; intros Ha Hb Hd; cbn; [exact Hb|].
  inversion Ha as [|? ? Hni Ha']; subst. constructor.
  - intros Hin. apply in_app_or in Hin as [Hin|Hin]; [contradiction | eapply Hd; [left; reflexivity | exact Hin]].
  - apply IH; [exact Ha' | exact Hb | intros y Hy; apply Hd; right; exact Hy].
Qed.

(* ------------------------------------------------------------------ cartesian products *)
Definition memb (c : nat) (l : list nat) : bool := existsb (Nat.eqb c) l.
Definition memb_all (e : list nat) (ls : list (list nat)) : bool := forallb2 memb e ls.

Lemma memb_In c l : memb c l = true <-> In c l.
Proof.
  unfold memb. rewrite existsb_exists. split.
  - intros [x [Hx Heq]]. apply Nat.eqb_eq in Heq. now subst.
  - intros H. exists c. split; [exact H | apply Nat.eqb_refl].
Qed.

Lemma cart_In ls : forall e, In e (cart ls) <-> memb_all e ls = true.
Proof.
  induction ls as [|l ls IH]; intros e; cbn.
  - destruct e; cbn; split; intros H; try discriminate; auto. destruct H as [H|[]]. discriminate.
  - rewrite in_flat_map. split.
    + intros [i [Hi Hin]]. apply in_map_iff in Hin. destruct Hin as [e' [He Hin]]. subst e.
      unfold memb_all. cbn. apply andb_true_iff. split; [now apply memb_In | now apply IH].
    + intros H. destruct e as [|c e]; [discriminate|]. unfold memb_all in H. cbn in H.
      apply andb_true_iff in H as [H1 H2]. exists c. split; [now apply memb_In|].
      apply in_map. now apply IH.
Qed.

Lemma all_indices_cart sh : all_indices sh = cart (map (seq 0) sh).
Proof. induction sh as [|d t IH]; cbn; [reflexivity|]. now rewrite IH. Qed.

Lemma in_bounds_memb sh : forall e, in_bounds sh e = memb_all e (map (seq 0) sh).
Proof.
  induction sh as [|d t IH]; intros [|c e]; cbn [in_bounds map]; try reflexivity.
  unfold memb_all. cbn [forallb2]. fold (memb_all e (map (seq 0) t)). rewrite IH. f_equal.
  apply Bool.eq_iff_eq_true. rewrite Nat.ltb_lt, memb_In, in_seq. lia.
Qed.

Lemma all_indices_In sh e : In e (all_indices sh) <-> in_bounds sh e = true.
Proof. now rewrite all_indices_cart, cart_In, in_bounds_memb. Qed.

(* every per-axis list stays inside its axis *)
Definition within (ls : list (list nat)) (ext : list nat) : Prop :=
  Forall2 (fun l n => forall x, In x l -> x < n) ls ext.

Lemma memb_all_in_bounds ls ext : within ls ext -> forall e, memb_all e ls = true -> in_bounds ext e = true.
Proof.
  induction 1 as [|l n ls ext Hl _ IH]; intros [|c e] H; cbn in *; try discriminate; try reflexivity.
  unfold memb_all in H. cbn in H. apply andb_true_iff in H as [H1 H2].
  apply andb_true_iff. split; [apply Nat.ltb_lt, Hl; now apply memb_In | now apply IH].
Qed.

(* ------------------------------------------------------------------ NumPy boolean assignment *)
Lemma fold_upd_true ext L : forall acc i, i < length acc ->
  nth i (fold_left (fun a pos => upd a (ravel ext pos) true) L acc) false
  = nth i acc false || existsb (fun pos => ravel ext pos =? i) L.
Proof.
  induction L as [|x L IH]; intros acc i Hi; cbn [fold_left existsb].
  - now rewrite orb_false_r.
  - rewrite IH by (now rewrite upd_length). rewrite nth_upd by exact Hi.
    rewrite (Nat.eqb_sym (ravel ext x) i).
    destruct (i =? ravel ext x); cbn; [now rewrite orb_true_r | reflexivity].
Qed.

Lemma fold_upd_length ext L : forall acc,
  length (fold_left (fun a pos => upd a (ravel ext pos) true) L acc) = length acc.
Proof. induction L as [|x L IH]; intros acc; cbn; [reflexivity|]. now rewrite IH, upd_length. Qed.

Lemma mapM_Forall2 {A B} (f : A -> result B) (P : B -> A -> Prop) :
  (forall a b, f a = Ok b -> P b a) -> forall l r, mapM f l = Ok r -> Forall2 P r l.
Proof.
  intros Hf. induction l as [|a l IH]; intros r H; cbn in H.
  - injection H as <-. constructor.
  - destruct (f a) eqn:E; cbn in H; [|discriminate].
    destruct (mapM f l) eqn:E2; cbn in H; [|discriminate]. injection H as <-.
    constructor; [now apply Hf | now apply IH].
Qed.

Lemma mapM_length {A B} (f : A -> result B) : forall l r, mapM f l = Ok r -> length r = length l.
Proof.
  induction l as [|a l IH]; intros r H; cbn in H.
  - now injection H as <-.
  - destruct (f a); cbn in H; [|discriminate]. destruct (mapM f l) eqn:E; cbn in H; [|discriminate].
    injection H as <-. cbn. f_equal. now apply IH.
Qed.

Lemma selections_within key : forall ext ls, length key = length ext ->
  mapM (fun kn : fsel * nat => fsel_indices (fst kn) (snd kn)) (combine key ext) = Ok ls -> within ls ext.
Proof.
  induction key as [|k key IH]; intros [|n ext] ls Hlen H; cbn in *; try lia.
  - injection H as <-. constructor.
  - destruct (fsel_indices k n) eqn:E; cbn in H; [|discriminate].
    destruct (mapM _ (combine key ext)) eqn:E2; cbn in H; [|discriminate]. injection H as <-.
    constructor; [intros x Hx; eapply fsel_indices_in_range; eauto | apply IH; [lia | exact E2]].
Qed.

(* select[key] = True sets exactly the positions whose coordinates all lie in the per-axis selections *)
Theorem np_assign_true_spec ext key m :
  length key = length ext ->
  np_assign_true ext key = Ok m ->
  exists ls, mapM (fun kn : fsel * nat => fsel_indices (fst kn) (snd kn)) (combine key ext) = Ok ls
             /\ m = map (fun e => memb_all e ls) (all_indices ext).
Proof.
  intros Hlen H. unfold np_assign_true in H.
  rewrite Hlen, Nat.ltb_irrefl, Nat.sub_diag in H. cbn [repeat] in H. rewrite app_nil_r in H.
  destruct (mapM _ (combine key ext)) as [ls|] eqn:E; cbn in H; [|discriminate].
  injection H as H. exists ls. split; [reflexivity|].
  pose proof (selections_within _ _ _ Hlen E) as Hw.
  set (N := prod ext) in *.
  assert (HlenM : length m = N).
  { subst m. rewrite fold_upd_length. apply repeat_length. }
  rewrite (map_nth_seq false m), HlenM.
  rewrite <- unravel_enumerates, map_map. fold N.
  apply map_ext_in. intros i Hi. apply in_seq in Hi.
  subst m. rewrite fold_upd_true by (rewrite repeat_length; lia).
  rewrite nth_repeat. cbn [orb].
  apply Bool.eq_iff_eq_true. rewrite existsb_exists. split.
  - intros [pos [Hin Heq]]. apply Nat.eqb_eq in Heq. apply cart_In in Hin.
    pose proof (memb_all_in_bounds _ _ Hw _ Hin) as Hb.
    rewrite <- Heq, unravel_ravel by exact Hb. exact Hin.
  - intros Hm. exists (unravel ext i). split; [now apply cart_In|].
    apply Nat.eqb_eq. apply ravel_unravel. lia.
Qed.

(* coordinate-wise reading of the per-axis selections of a request *)
Lemma memb_all_in_part d : forall names ext e ls,
  mapM (fun kn : fsel * nat => fsel_indices (fst kn) (snd kn)) (combine (map (key_of d) names) ext) = Ok ls ->
  length names = length ext -> in_bounds ext e = true ->
  memb_all e ls = in_part d names ext e.
Proof.
  induction names as [|a names IH]; intros [|n ext] [|c e] ls H Hlen Hb; cbn in *; try lia; try discriminate.
  - injection H as <-. reflexivity.
  - destruct (fsel_indices (key_of d a) n) as [l|] eqn:E; cbn in H; [|discriminate].
    destruct (mapM _ (combine (map (key_of d) names) ext)) as [ls'|] eqn:E2; cbn in H; [|discriminate].
    injection H as <-. apply andb_true_iff in Hb as [Hc Hb].
    unfold memb_all. cbn [forallb2]. fold (memb_all e ls').
    rewrite (IH ext e ls' E2) by (lia || assumption). f_equal.
    unfold coord_ok, key_of in *. destruct (dict_get d a) as [f|].
    + rewrite E. reflexivity.
    + rewrite full_slice_indices in E. injection E as <-.
      apply memb_In, in_seq. apply Nat.ltb_lt in Hc. lia.
Qed.

(* selected_is_product: the mask of a request is the declarative part_positions *)
Theorem assign_is_part_positions d names ext m :
  length names = length ext ->
  np_assign_true ext (map (key_of d) names) = Ok m ->
  m = part_positions d names ext.
Proof.
  intros Hlen H.
  destruct (np_assign_true_spec ext (map (key_of d) names) m) as [ls [Hls Hm]];
    [now rewrite map_length | exact H |].
  subst m. unfold part_positions. apply map_ext_in. intros e He.
  apply all_indices_In in He. now apply memb_all_in_part.
Qed.

Lemma ext_of_map {A B} (f : A -> B) (mask : list bool) : forall l, ext_of mask (map f l) = map f (ext_of mask l).
Proof.
  induction mask as [|b mask IH]; intros [|x l]; cbn; try reflexivity; destruct b; cbn; try reflexivity.
  - now rewrite IH.
  - apply IH.
Qed.

Lemma ext_of_length2 {A B} (mask : list bool) : forall (l : list A) (l' : list B),
  length l = length l' -> length (ext_of mask l) = length (ext_of mask l').
Proof.
  induction mask as [|b mask IH]; intros [|x l] [|y l'] H; cbn in *; try reflexivity; try lia;
    destruct b; cbn; try reflexivity; try (f_equal; apply IH; lia); apply IH; lia.
Qed.

(* the mask computed by _mask_fixed_axes is the declarative selection over the external index space *)
Theorem mask_fixed_axes_spec d ms sh mask m :
  length sh = length (output_indices ms) ->
  mask_fixed_axes (Some d) ms sh mask = Ok (Some m) ->
  m = part_positions d (ext_of mask (output_indices ms)) (ext_of mask sh).
Proof.
  intros Hlen H. unfold mask_fixed_axes in H.
  destruct (np_assign_true _ _) as [m'|] eqn:E; cbn in H; [|discriminate]. injection H as <-.
  rewrite ext_of_map in E. apply assign_is_part_positions; [|exact E].
  apply ext_of_length2. now rewrite Hlen.
Qed.

(* ------------------------------------------------------------------ partitions of the index space *)
Lemma in_part_nth d : forall names ext e,
  in_part d names ext e = true <->
  (length names = length ext /\ length ext = length e /\
   forall k a n c, nth_error names k = Some a -> nth_error ext k = Some n -> nth_error e k = Some c ->
                   coord_ok d a n c = true).
Proof.
  induction names as [|a names IH]; intros ext e.
  - destruct ext as [|n ext], e as [|c e]; cbn [in_part]; split; intros H; try discriminate.
    + split; [reflexivity|]. split; [reflexivity|]. intros [|k] ? ? ? Hk; cbn in Hk; discriminate.
    + reflexivity.
    + destruct H as [_ [H2 _]]. cbn in H2. lia.
    + destruct H as [H1 _]. cbn in H1. lia.
    + destruct H as [H1 _]. cbn in H1. lia.
  - destruct ext as [|n ext], e as [|c e]; cbn [in_part]; split; intros H; try discriminate.
    + destruct H as [H1 _]. cbn in H1. lia.
    + destruct H as [H1 _]. cbn in H1. lia.
    + destruct H as [_ [H2 _]]. cbn in H2. lia.
    + apply andb_true_iff in H as [Hc Hr]. apply IH in Hr as [L1 [L2 Hr]].
      split; [cbn; lia|]. split; [cbn; lia|].
      intros [|k] a' n' c' Ha Hn He; cbn in Ha, Hn, He.
      * injection Ha as <-. injection Hn as <-. injection He as <-. exact Hc.
      * eapply Hr; eauto.
    + destruct H as [L1 [L2 Hr]]. cbn in L1, L2. apply andb_true_iff. split.
      * apply (Hr 0); reflexivity.
      * apply IH. split; [lia|]. split; [lia|]. intros k a' n' c' Ha Hn He. apply (Hr (S k)); assumption.
Qed.

Lemma filter_length_le {A} (p q : A -> bool) l :
  (forall x, In x l -> p x = true -> q x = true) -> length (filter p l) <= length (filter q l).
Proof.
  induction l as [|x l IH]; intros H; cbn; [lia|].
  assert (IH' : length (filter p l) <= length (filter q l)) by (apply IH; intros; apply H; [right|]; assumption).
  destruct (p x) eqn:Ep.
  - rewrite (H x (or_introl eq_refl) Ep). cbn. lia.
  - destruct (q x); cbn; lia.
Qed.

Lemma filter_length_ext {A} (p q : A -> bool) l :
  (forall x, In x l -> p x = q x) -> length (filter p l) = length (filter q l).
Proof.
  intros H. apply Nat.le_antisymm; apply filter_length_le; intros x Hx Hp.
  - now rewrite <- H.
  - now rewrite H.
Qed.

Lemma pos_of_nth x l k : NoDup l -> nth_error l k = Some x -> pos_of x l = Some k.
Proof.
  revert k. induction l as [|y l IH]; intros [|k] Hnd Hk; cbn in *; try discriminate.
  - injection Hk as ->. now rewrite str_eqb_refl.
  - inversion Hnd as [|? ? Hni Hnd']; subst.
    destruct (str_eqb x y) eqn:E.
    + apply str_eqb_eq in E. subst. exfalso. apply Hni. eapply nth_error_In; eauto.
    + rewrite (IH k Hnd' Hk). reflexivity.
Qed.

Lemma pos_of_Some_nth x l k : pos_of x l = Some k -> nth_error l k = Some x.
Proof.
  revert k. induction l as [|y l IH]; intros k H; cbn in H; [discriminate|].
  destruct (str_eqb x y) eqn:E.
  - injection H as <-. apply str_eqb_eq in E. now subst.
  - destruct (pos_of x l) as [j|]; cbn in H; [|discriminate]. injection H as <-. cbn. now apply IH.
Qed.

Lemma pos_of_None_notin x l : pos_of x l = None -> ~ In x l.
Proof.
  induction l as [|y l IH]; cbn; intros H; [tauto|].
  destruct (str_eqb x y) eqn:E; [discriminate|].
  destruct (pos_of x l); cbn in H; [discriminate|].
  intros [->|Hin]; [now rewrite str_eqb_refl in E | now apply IH].
Qed.

Lemma dict_get_In_fst {V} (d : list (str * V)) k v : dict_get d k = Some v -> In k (map fst d).
Proof.
  induction d as [|[k' v'] d IH]; cbn; intros H; [discriminate|].
  destruct (str_eqb k k') eqn:E; [left; symmetry; now apply str_eqb_eq | right; now apply IH].
Qed.

Section Partition.
  Variable parts : list request.
  Variable axes : list (str * nat).
  Variable names : list str.
  Variable ext : list nat.
  Hypothesis Hax_nd : NoDup (map fst axes).
  Hypothesis Hnames_nd : NoDup names.
  Hypothesis Hpos : forall a n, In (a, n) axes -> 0 < n.
  Hypothesis Hlen : length names = length ext.
  (* an axis of the family that the function carries has the family's size *)
  Hypothesis Hsize : forall k a n, nth_error names k = Some a -> In (a, n) axes -> nth_error ext k = Some n.
  Hypothesis Hdom : forall d a, In d parts -> In a (map fst d) -> In a (map fst axes).

  (* the point of the family's index space below an external position of the function *)
  Definition project (e : list nat) : list nat :=
    map (fun an => match pos_of (fst an) names with Some k => nth k e 0 | None => 0 end) axes.

  Lemma axes_nth j a n : nth_error axes j = Some (a, n) ->
    nth_error (map fst axes) j = Some a /\ nth_error (map snd axes) j = Some n.
  Proof. intros H. split; rewrite nth_error_map, H; reflexivity. Qed.

  Lemma project_in_bounds e : in_bounds ext e = true -> in_bounds (map snd axes) (project e) = true.
  Proof.
    intros Hb. unfold project.
    assert (G : forall l, (forall a n, In (a, n) l -> In (a, n) axes) ->
                in_bounds (map snd l)
                  (map (fun an => match pos_of (fst an) names with Some k => nth k e 0 | None => 0 end) l) = true).
    { induction l as [|[a n] l IH]; intros Hsub; cbn [map in_bounds fst snd]; [reflexivity|].
      apply andb_true_iff. split; [|apply IH; intros; apply Hsub; right; assumption].
      apply Nat.ltb_lt. assert (Hin : In (a, n) axes) by (apply Hsub; left; reflexivity).
      destruct (pos_of a names) as [k|] eqn:Ek; [|now apply (Hpos a)].
      apply pos_of_Some_nth in Ek. pose proof (Hsize k a n Ek Hin) as Hn.
      clear - Hb Hn. revert ext Hb k Hn. induction e as [|c e' IHe]; intros [|m ext'] Hb k Hn; cbn in *;
        try discriminate; try (destruct k; discriminate).
      apply andb_true_iff in Hb as [Hc Hb]. destruct k as [|k]; cbn in *.
      - injection Hn as <-. now apply Nat.ltb_lt.
      - eapply IHe; eauto. }
    apply G. auto.
  Qed.

  Lemma in_bounds_length sh : forall e, in_bounds sh e = true -> length sh = length e.
  Proof.
    induction sh as [|d t IH]; intros [|c e] H; cbn in *; try discriminate; [reflexivity|].
    apply andb_true_iff in H as [_ H]. f_equal. now apply IH.
  Qed.

  (* a part that contains the projected point contains the position *)
  Lemma part_of_project d e : In d parts -> in_bounds ext e = true ->
    in_part d (map fst axes) (map snd axes) (project e) = true -> in_part d names ext e = true.
  Proof.
    intros Hd Hb H. apply in_part_nth in H as [_ [_ H]]. apply in_part_nth.
    split; [exact Hlen|]. split; [now apply in_bounds_length|].
    intros k a n c Ha Hn Hc. unfold coord_ok. destruct (dict_get d a) as [f|] eqn:Ef; [|reflexivity].
    assert (Hin : In a (map fst axes)) by (eapply Hdom; eauto; eapply dict_get_In_fst; eauto).
    apply In_nth_error in Hin as [j Hj].
    rewrite nth_error_map in Hj. destruct (nth_error axes j) as [[a' n']|] eqn:Ej; cbn in Hj; [|discriminate].
    injection Hj as ->.
    assert (Hn' : n' = n).
    { pose proof (Hsize k a n' Ha (nth_error_In _ _ Ej)) as Hx. rewrite Hn in Hx. now injection Hx. }
    subst n'. destruct (axes_nth _ _ _ Ej) as [J1 J2].
    specialize (H j a n c J1 J2). unfold coord_ok in H. rewrite Ef in H. apply H.
    unfold project. rewrite nth_error_map, Ej. cbn [option_map fst].
    rewrite (pos_of_nth a names k Hnames_nd Ha). f_equal.
    apply nth_error_nth. exact Hc.
  Qed.

  (* conversely, when the function carries every axis of the family *)
  Lemma project_of_part d e : (forall a, In a (map fst axes) -> In a names) -> in_bounds ext e = true ->
    in_part d names ext e = true -> in_part d (map fst axes) (map snd axes) (project e) = true.
  Proof.
    intros Hall Hb H. apply in_part_nth in H as [_ [L2 H]]. apply in_part_nth.
    split; [now rewrite !map_length|]. split; [unfold project; now rewrite !map_length|].
    intros j a n c J1 J2 J3.
    rewrite nth_error_map in J1, J2. destruct (nth_error axes j) as [[a' n']|] eqn:Ej; cbn in J1, J2; [|discriminate].
    injection J1 as ->. injection J2 as ->.
    assert (Hin : In a names) by (apply Hall; apply in_map_iff; exists (a, n); split; [reflexivity | eapply nth_error_In; eauto]).
    apply In_nth_error in Hin as [k Hk].
    pose proof (Hsize k a n Hk (nth_error_In _ _ Ej)) as Hn.
    unfold project in J3. rewrite nth_error_map, Ej in J3. cbn [option_map fst] in J3.
    rewrite (pos_of_nth a names k Hnames_nd Hk) in J3. injection J3 as <-.
    apply (H k a n (nth k e 0) Hk Hn).
    apply nth_error_nth'. rewrite <- L2. apply nth_error_Some. now rewrite Hn.
  Qed.

  Definition containing (e : list nat) : nat := length (filter (fun d => in_part d names ext e) parts).

  (* parts_cover_disjoint *)
  Theorem parts_cover_disjoint e :
    family_partitions parts axes = true -> in_bounds ext e = true ->
    1 <= containing e /\ ((forall a, In a (map fst axes) -> In a names) -> containing e = 1).
  Proof.
    intros Hfam Hb. unfold family_partitions in Hfam. apply andb_true_iff in Hfam as [_ Hfam].
    rewrite forallb_forall in Hfam.
    pose proof (project_in_bounds e Hb) as Hpb. apply all_indices_In in Hpb.
    specialize (Hfam _ Hpb). apply Nat.eqb_eq in Hfam. unfold n_containing in Hfam.
    split.
    - unfold containing. rewrite <- Hfam. apply filter_length_le. intros d Hd. now apply part_of_project.
    - intros Hall. unfold containing. rewrite <- Hfam. apply filter_length_ext. intros d Hd.
      apply Bool.eq_iff_eq_true. split; [now apply project_of_part | now apply part_of_project].
  Qed.
End Partition.

(* ------------------------------------------------------------------ one mapped function on an existing store *)
Lemma calls_of_app a b : calls_of (a ++ b) = calls_of a ++ calls_of b.
Proof. unfold calls_of. apply flat_map_app. Qed.

Lemma calls_of_dumps {A} (g : A -> action) l : (forall x, match g x with ACall _ _ _ => False | _ => True end) ->
  calls_of (map g l) = [].
Proof.
  intros H. induction l as [|x l IH]; cbn; [reflexivity|].
  specialize (H x). destruct (g x); [contradiction | exact IH | exact IH].
Qed.

Lemma output_key_unravel ms ext i key : output_key ms ext i = Ok key -> key = unravel ext i.
Proof.
  unfold output_key, unravel_checked. intros H.
  destruct (negb (length ext =? n_input_indices ms)); [discriminate|].
  destruct (existsb (Nat.eqb 0) ext); [discriminate|]. now injection H as <-.
Qed.

Section Func.
  Variable body : mfunc -> env -> result (list val).
  Variables (f : mfunc) (ms : mapspec) (kw : env) (sh : list nat) (mask : list bool).
  Notation ext := (ext_of mask sh).
  Notation N := (prod (ext_of mask sh)).

  (* what element i yields (meaningful when the element can be computed) *)
  Definition sel_at (i : nat) : env :=
    match select_kwargs ms kw ext i with Ok sel => sel | Err _ => [] end.
  Definition outs_at (i : nat) : list val :=
    match body f (sel_at i) with Ok outs => outs | Err _ => [] end.

  Definition put_all (stores : list estore) (i : nat) (outs : list val) : list estore :=
    map (fun sv : estore * val => upd (fst sv) i (Some (Ok (snd sv)))) (combine stores outs).

  Definition elem_trace (i : nat) : list action :=
    ACall (fname f) (Some i) (sel_at i) :: map (fun ov : str * val => ADump (fst ov) i (snd ov)) (combine (fouts f) (outs_at i)).

  Lemma compute_elem_inv st i st' : i < N ->
    compute_elem body f ms kw sh mask st i = ROk st' ->
    length (outs_at i) = length (fouts f) /\
    st' = {| m_stores := put_all (m_stores st) i (outs_at i);
             m_results := m_results st ++ [(i, outs_at i)];
             m_tr := m_tr st ++ elem_trace i |}.
  Proof.
    intros Hi H. unfold compute_elem in H. unfold elem_trace, outs_at, sel_at.
    destruct (select_kwargs ms kw ext i) as [sel|] eqn:Es; cbn [lift rbind] in H; [|discriminate].
    destruct (body f sel) as [outs|] eqn:Eb; cbn [lift rbind] in H; [|discriminate].
    destruct (length outs =? length (fouts f)) eqn:El; cbn [negb] in H; [|discriminate].
    destruct (output_key ms ext i) as [key|] eqn:Ek; cbn [lift rbind] in H; [|discriminate].
    apply output_key_unravel in Ek. subst key. rewrite ravel_unravel in H by exact Hi.
    injection H as <-. apply Nat.eqb_eq in El. split; [exact El|].
    unfold put_all. cbn [app]. rewrite <- app_assoc. reflexivity.
  Qed.

  Definition step_fold (L : list nat) (st0 : mstate) : res mstate :=
    fold_left (fun acc i => rdo st <- acc; compute_elem body f ms kw sh mask st i) L (ROk st0).

  Lemma fold_err L e tr :
    fold_left (fun acc i => rdo st <- acc; compute_elem body f ms kw sh mask st i) L (RErr e tr) = RErr e tr.
  Proof. induction L as [|x L IH]; cbn; [reflexivity | exact IH]. Qed.

  Lemma step_fold_cons x L st0 st :
    step_fold (x :: L) st0 = ROk st ->
    exists st1, compute_elem body f ms kw sh mask st0 x = ROk st1 /\ step_fold L st1 = ROk st.
  Proof.
    unfold step_fold. cbn [fold_left rbind]. intros H.
    destruct (compute_elem body f ms kw sh mask st0 x) as [st1|e tr] eqn:E.
    - exists st1. split; [reflexivity | exact H].
    - rewrite fold_err in H. discriminate.
  Qed.

  (* the stores after the elements of L were computed and dumped: cell x of output j *)
  Definition dflt : val := VS [].
  Definition filled (L : list nat) (stores stores' : list estore) : Prop :=
    length stores' = length stores /\
    forall j, j < length stores ->
      length (nth j stores' []) = length (nth j stores []) /\
      forall x, x < length (nth j stores []) ->
        nth x (nth j stores' []) None
        = if memb x L then Some (Ok (nth j (outs_at x) dflt)) else nth x (nth j stores []) None.

  Lemma filled_unique L stores s1 s2 : filled L stores s1 -> filled L stores s2 -> s1 = s2.
  Proof.
    intros [L1 H1] [L2 H2]. apply (@list_eq_nth estore []); [exact (eq_trans L1 (eq_sym L2))|].
    intros j Hj. rewrite L1 in Hj. destruct (H1 j Hj) as [A1 B1], (H2 j Hj) as [A2 B2].
    apply (@list_eq_nth cell None); [exact (eq_trans A1 (eq_sym A2))|]. intros x Hx. rewrite A1 in Hx.
    rewrite B1, B2 by exact Hx. reflexivity.
  Qed.

  Lemma filled_ext L L' stores s' : (forall x, memb x L = memb x L') -> filled L stores s' -> filled L' stores s'.
  Proof.
    intros He [L1 H1]. split; [exact L1|]. intros j Hj. destruct (H1 j Hj) as [A B]. split; [exact A|].
    intros x Hx. rewrite B by exact Hx. now rewrite He.
  Qed.

  Lemma filled_nil stores : filled [] stores stores.
  Proof. split; [reflexivity|]. intros j Hj. split; [reflexivity|]. intros x Hx. reflexivity. Qed.

  Lemma put_all_length stores i outs : length outs = length stores -> length (put_all stores i outs) = length stores.
  Proof. intros H. unfold put_all. rewrite map_length, combine_length. lia. Qed.

  Lemma put_all_nth stores i outs j : length outs = length stores -> j < length stores ->
    nth j (put_all stores i outs) [] = upd (nth j stores []) i (Some (Ok (nth j outs dflt))).
  Proof.
    intros Hl Hj. unfold put_all.
    etransitivity.
    { apply (nth_map_default _ _ j (([] : estore), dflt)). rewrite combine_length. lia. }
    cbn beta. rewrite combine_nth by (symmetry; exact Hl). reflexivity.
  Qed.

  Lemma filled_step L stores s1 x :
    length (outs_at x) = length stores -> filled L stores s1 ->
    filled (L ++ [x]) stores (put_all s1 x (outs_at x)).
  Proof.
    intros Ho [L1 H1]. split; [rewrite put_all_length; congruence|].
    intros j Hj. destruct (H1 j Hj) as [A B].
    rewrite put_all_nth by congruence. split; [now rewrite upd_length|].
    intros y Hy. unfold memb. rewrite existsb_app. cbn [existsb]. rewrite orb_false_r. fold (memb y L).
    destruct (y =? x) eqn:E.
    - apply Nat.eqb_eq in E. subst y. rewrite nth_upd by congruence. rewrite Nat.eqb_refl, orb_true_r. reflexivity.
    - rewrite orb_false_r. rewrite nth_upd_other by (apply Nat.eqb_neq; exact E). now apply B.
  Qed.

  (* computing the elements of L in order *)
  Lemma step_fold_spec L : forall st0 st L0 stores,
    (forall x, In x L -> x < N) ->
    length stores = length (fouts f) ->
    filled L0 stores (m_stores st0) ->
    step_fold L st0 = ROk st ->
    filled (L0 ++ L) stores (m_stores st)
    /\ m_results st = m_results st0 ++ map (fun i => (i, outs_at i)) L
    /\ m_tr st = m_tr st0 ++ flat_map elem_trace L.
  Proof.
    induction L as [|x L IH]; intros st0 st L0 stores Hlt Hk Hf H.
    - cbn in H. injection H as <-. rewrite !app_nil_r. auto.
    - apply step_fold_cons in H as [st1 [Hc Hr]].
      apply compute_elem_inv in Hc as [Ho ->]; [|apply Hlt; left; reflexivity].
      assert (Hf' : filled (L0 ++ [x]) stores (put_all (m_stores st0) x (outs_at x))).
      { apply filled_step; [exact (eq_trans Ho (eq_sym Hk)) | exact Hf]. }
      match type of Hr with step_fold _ ?s = _ =>
        destruct (IH s st (L0 ++ [x]) stores (fun y Hy => Hlt y (or_intror Hy)) Hk Hf' Hr) as [I1 [I2 I3]] end.
      cbn [m_stores m_results m_tr] in I1, I2, I3.
      rewrite <- app_assoc in I1. cbn [app] in I1.
      split; [exact I1|]. split.
      + rewrite I2, <- app_assoc. reflexivity.
      + rewrite I3, <- app_assoc. reflexivity.
  Qed.

  Lemma calls_of_elem_trace i : calls_of (elem_trace i) = [(fname f, Some i)].
  Proof.
    unfold elem_trace. cbn [calls_of flat_map]. cbn [app]. f_equal.
    change (flat_map _ ?l) with (calls_of l). apply calls_of_dumps. intros; exact I.
  Qed.

  Lemma calls_of_flat L : calls_of (flat_map elem_trace L) = map (fun i => (fname f, Some i)) L.
  Proof.
    induction L as [|x L IH]; [reflexivity|]. cbn [flat_map map].
    rewrite calls_of_app, calls_of_elem_trace, IH. reflexivity.
  Qed.

  (* ---- classification ---- *)
  Definition miss_any (stores : list estore) (i : nat) : bool :=
    existsb (fun st => cell_missing (nth i st None)) stores.
  Definition selb (fm : option (list bool)) (i : nat) : bool :=
    match fm with None => true | Some m => nth i m false end.

  Lemma classify_eq stores fm n :
    classify stores fm n = (filter (fun i => selb fm i && negb (miss_any stores i)) (seq 0 n),
                            filter (fun i => selb fm i && miss_any stores i) (seq 0 n)).
  Proof. reflexivity. Qed.

  (* part_computes_exactly (one function): a run with request fx computes exactly the selected elements
     that miss some output, dumps them, and touches nothing else.  Stated relative to an earlier store
     stores0 from which the current one was obtained by computing the elements L0. *)
  Theorem submit_mapped_exact_gen fx stores0 L0 stores tr st existing :
    length stores0 = length (fouts f) ->
    filled L0 stores0 stores ->
    submit_mapped body f ms kw sh mask fx stores tr = ROk (st, existing) ->
    exists fm, mask_fixed_axes fx ms sh mask = Ok fm /\
      let missing := filter (fun i => selb fm i && miss_any stores i) (seq 0 N) in
      existing = filter (fun i => selb fm i && negb (miss_any stores i)) (seq 0 N)
      /\ filled (L0 ++ missing) stores0 (m_stores st)
      /\ m_results st = map (fun i => (i, outs_at i)) missing
      /\ m_tr st = tr ++ flat_map elem_trace missing
      /\ calls_of (m_tr st) = calls_of tr ++ map (fun i => (fname f, Some i)) missing.
  Proof.
    intros Hk Hf0 H. unfold submit_mapped in H.
    destruct (mask_fixed_axes fx ms sh mask) as [fm|] eqn:Em; cbn [lift rbind] in H; [|discriminate].
    exists fm. split; [reflexivity|]. rewrite classify_eq in H. cbn [fst snd] in H.
    set (missing := filter (fun i => selb fm i && miss_any stores i) (seq 0 N)) in *.
    fold (step_fold missing {| m_stores := stores; m_results := []; m_tr := tr |}) in H.
    destruct (step_fold missing _) as [st'|] eqn:Ef; cbn [rbind] in H; [|discriminate].
    injection H as <- <-.
    apply (step_fold_spec missing _ _ L0 stores0) in Ef.
    - cbn [m_stores m_results m_tr app] in Ef. destruct Ef as [F1 [F2 F3]].
      split; [reflexivity|]. split; [exact F1|]. split; [exact F2|]. split; [exact F3|].
      rewrite F3, calls_of_app, calls_of_flat. reflexivity.
    - intros x Hx. apply filter_In in Hx as [Hx _]. apply in_seq in Hx. lia.
    - exact Hk.
    - exact Hf0.
  Qed.

  Theorem submit_mapped_exact fx stores tr st existing :
    length stores = length (fouts f) ->
    submit_mapped body f ms kw sh mask fx stores tr = ROk (st, existing) ->
    exists fm, mask_fixed_axes fx ms sh mask = Ok fm /\
      let missing := filter (fun i => selb fm i && miss_any stores i) (seq 0 N) in
      existing = filter (fun i => selb fm i && negb (miss_any stores i)) (seq 0 N)
      /\ filled missing stores (m_stores st)
      /\ m_results st = map (fun i => (i, outs_at i)) missing
      /\ m_tr st = tr ++ flat_map elem_trace missing
      /\ calls_of (m_tr st) = calls_of tr ++ map (fun i => (fname f, Some i)) missing.
  Proof. intros Hk H. exact (submit_mapped_exact_gen fx stores [] stores tr st existing Hk (filled_nil stores) H). Qed.

  (* ---- presence after a run ---- *)
  Definition all_len (stores : list estore) : Prop := forall j, j < length stores -> length (nth j stores []) = N.

  Lemma existsb_nth {A} (p : A -> bool) (d : A) l : existsb p l = existsb (fun j => p (nth j l d)) (seq 0 (length l)).
  Proof.
    rewrite (map_nth_seq d l) at 1. rewrite existsb_map_comp. reflexivity.
  Qed.

  Lemma miss_any_filled L stores0 stores x : all_len stores0 -> x < N -> filled L stores0 stores ->
    miss_any stores x = negb (memb x L) && miss_any stores0 x.
  Proof.
    intros Hal Hx [L1 H1]. unfold miss_any.
    rewrite (existsb_nth _ ([] : estore) stores), (existsb_nth _ ([] : estore) stores0), L1.
    destruct (memb x L) eqn:Em; cbn [negb andb].
    - apply Bool.not_true_is_false. intros Hex. apply existsb_exists in Hex as [j [Hj Hc]].
      apply in_seq in Hj. destruct (H1 j) as [_ B]; [lia|]. rewrite B, Em in Hc by (rewrite Hal; lia). discriminate.
    - apply existsb_ext_in'. intros j Hj. apply in_seq in Hj. destruct (H1 j) as [_ B]; [lia|].
      rewrite B, Em by (rewrite Hal; lia). reflexivity.
  Qed.

  Lemma all_len_filled L stores0 stores : all_len stores0 -> filled L stores0 stores -> all_len stores.
  Proof.
    intros Hal [L1 H1] j Hj. rewrite L1 in Hj. destruct (H1 j Hj) as [A _].
    exact (eq_trans A (Hal j Hj)).
  Qed.

  (* final_run_computes_nothing (one function): nothing missing => no call, stores untouched *)
  Theorem submit_mapped_complete stores tr st existing :
    length stores = length (fouts f) ->
    (forall x, x < N -> miss_any stores x = false) ->
    submit_mapped body f ms kw sh mask None stores tr = ROk (st, existing) ->
    m_stores st = stores /\ m_tr st = tr /\ existing = seq 0 N.
  Proof.
    intros Hk Hc H. apply submit_mapped_exact in H as [fm [Hm [He [Hf [_ [Ht _]]]]]]; [|exact Hk].
    cbn in Hm. injection Hm as <-. cbn [selb andb] in *.
    assert (Hnil : filter (fun i => miss_any stores i) (seq 0 N) = []).
    { apply filter_none. intros x Hx. apply in_seq in Hx. apply Hc. lia. }
    rewrite Hnil in *. cbn [flat_map] in Ht. rewrite app_nil_r in Ht.
    split; [eapply filled_unique; [exact Hf | apply filled_nil]|]. split; [exact Ht|].
    rewrite He. apply filter_all. intros x Hx. apply in_seq in Hx. rewrite Hc by lia. reflexivity.
  Qed.

  (* ---- a family of requests, run one after the other on the same stores ---- *)
  Fixpoint run_reqs (reqs : list (option fixed)) (stores : list estore) (tr : list action)
    : res (list estore * list action) :=
    match reqs with
    | [] => ROk (stores, tr)
    | fx :: rest =>
        rdo r <- submit_mapped body f ms kw sh mask fx stores tr;
        run_reqs rest (m_stores (fst r)) (m_tr (fst r))
    end.

  (* x is selected by one of the requests *)
  Definition covered (reqs : list (option fixed)) (x : nat) : Prop :=
    exists fx fm, In fx reqs /\ mask_fixed_axes fx ms sh mask = Ok fm /\ selb fm x = true.

  Lemma run_reqs_spec reqs : forall stores0 L0 stores tr storesM trM,
    length stores0 = length (fouts f) -> all_len stores0 ->
    filled L0 stores0 stores -> NoDup L0 ->
    run_reqs reqs stores tr = ROk (storesM, trM) ->
    exists L, filled (L0 ++ L) stores0 storesM /\ NoDup (L0 ++ L)
              /\ calls_of trM = calls_of tr ++ map (fun i => (fname f, Some i)) L
              /\ (forall x, In x L <-> (x < N /\ ~ In x L0 /\ miss_any stores0 x = true /\ covered reqs x)).
  Proof.
    induction reqs as [|fx reqs IH]; intros stores0 L0 stores tr storesM trM Hk Hal Hf Hnd H.
    - cbn in H. injection H as <- <-. exists []. rewrite !app_nil_r. split; [exact Hf|]. split; [exact Hnd|].
      split; [reflexivity|]. intros x. split; [intros []|]. intros [_ [_ [_ [fx [fm [[] _]]]]]].
    - cbn [run_reqs] in H.
      destruct (submit_mapped body f ms kw sh mask fx stores tr) as [[st ex]|] eqn:Es; cbn [rbind fst] in H; [|discriminate].
      apply (submit_mapped_exact_gen fx stores0 L0) in Es as [fm [Hm [_ [Hf1 [_ [_ Hc1]]]]]]; [|exact Hk|exact Hf].
      set (M := filter (fun i => selb fm i && miss_any stores i) (seq 0 N)) in *.
      assert (HM : forall x, In x M <-> (x < N /\ selb fm x = true /\ ~ In x L0 /\ miss_any stores0 x = true)).
      { intros x. unfold M. rewrite filter_In, in_seq, andb_true_iff. split.
        - intros [Hx [Hs Hmi]]. rewrite (miss_any_filled L0 stores0 stores x Hal) in Hmi by (lia || exact Hf).
          apply andb_true_iff in Hmi as [Hn Hmi]. split; [lia|]. split; [exact Hs|]. split; [|exact Hmi].
          intros Hin. apply memb_In in Hin. rewrite Hin in Hn. discriminate.
        - intros [Hx [Hs [Hn Hmi]]]. split; [lia|]. split; [exact Hs|].
          rewrite (miss_any_filled L0 stores0 stores x Hal) by (lia || exact Hf). rewrite Hmi, andb_true_r.
          destruct (memb x L0) eqn:E; [apply memb_In in E; contradiction | reflexivity]. }
      assert (Hnd1 : NoDup (L0 ++ M)).
      { apply NoDup_app_disj; [exact Hnd | apply NoDup_filter, seq_NoDup |].
        intros x Hx HxM. apply HM in HxM. tauto. }
      destruct (IH stores0 (L0 ++ M) (m_stores st) (m_tr st) storesM trM Hk Hal Hf1 Hnd1 H) as [L [G1 [G2 [G3 G4]]]].
      exists (M ++ L). rewrite app_assoc. split; [exact G1|]. split; [exact G2|]. split.
      + rewrite G3, Hc1, map_app, app_assoc. reflexivity.
      + intros x. rewrite in_app_iff, HM, G4. split.
        * intros [[Hx [Hs [Hn Hmi]]] | [Hx [Hn [Hmi [fx' [fm' [Hin [Hm' Hs']]]]]]]].
          -- split; [exact Hx|]. split; [exact Hn|]. split; [exact Hmi|]. exists fx, fm. split; [left; reflexivity|]. tauto.
          -- split; [exact Hx|]. split; [intros Hc; apply Hn, in_or_app; tauto|]. split; [exact Hmi|].
             exists fx', fm'. split; [right; exact Hin|]. tauto.
        * intros [Hx [Hn [Hmi [fx' [fm' [[<-|Hin] [Hm' Hs']]]]]]].
          -- left. rewrite Hm in Hm'. injection Hm' as <-. tauto.
          -- destruct (in_dec Nat.eq_dec x M) as [HxM|HxM]; [left; apply HM; exact HxM|].
             right. split; [exact Hx|]. split; [intros Hc; apply in_app_or in Hc; tauto|]. split; [exact Hmi|].
             exists fx', fm'. tauto.
  Qed.

  (* pieces_eq_whole (one function, fixed arguments): requests that together select every missing element,
     run in any order on the same stores, leave exactly the stores of one full run; no element is computed
     twice and the calls are those of the full run *)
  Theorem pieces_eq_whole_func reqs stores0 tr0 storesM trM stF exF trF :
    length stores0 = length (fouts f) -> all_len stores0 ->
    run_reqs reqs stores0 tr0 = ROk (storesM, trM) ->
    submit_mapped body f ms kw sh mask None stores0 trF = ROk (stF, exF) ->
    (forall x, x < N -> miss_any stores0 x = true -> covered reqs x) ->
    storesM = m_stores stF
    /\ exists L LF, calls_of trM = calls_of tr0 ++ map (fun i => (fname f, Some i)) L
                    /\ calls_of (m_tr stF) = calls_of trF ++ map (fun i => (fname f, Some i)) LF
                    /\ NoDup L /\ NoDup LF /\ (forall x, In x L <-> In x LF).
  Proof.
    intros Hk Hal Hr HF Hcov.
    apply (run_reqs_spec reqs stores0 [] stores0) in Hr as [L [G1 [G2 [G3 G4]]]];
      [|exact Hk|exact Hal|apply filled_nil|constructor].
    cbn [app] in G1, G2.
    apply submit_mapped_exact in HF as [fm [Hm [_ [HfF [_ [_ HcF]]]]]]; [|exact Hk].
    cbn in Hm. injection Hm as <-. cbn [selb andb] in *.
    set (LF := filter (fun i => miss_any stores0 i) (seq 0 N)) in *.
    assert (Hmem : forall x, In x L <-> In x LF).
    { intros x. rewrite G4. unfold LF. rewrite filter_In, in_seq. split.
      - intros [Hx [_ [Hmi _]]]. split; [lia | exact Hmi].
      - intros [Hx Hmi]. split; [lia|]. split; [intros []|]. split; [exact Hmi|]. apply Hcov; [lia | exact Hmi]. }
    split.
    - eapply filled_unique; [exact G1|]. eapply filled_ext; [|exact HfF].
      intros x. apply Bool.eq_iff_eq_true. rewrite !memb_In. symmetry. apply Hmem.
    - exists L, LF. split; [exact G3|]. split; [exact HcF|]. split; [exact G2|]. split; [apply NoDup_filter, seq_NoDup | exact Hmem].
  Qed.
End Func.

(* ------------------------------------------------------------------ whole runs *)
Lemma rfold_err {S X} (F : S -> X -> res S) (l : list X) e tr :
  fold_left (fun acc x => rdo st <- acc; F st x) l (RErr e tr) = RErr e tr.
Proof. induction l as [|x l IH]; cbn; [reflexivity | exact IH]. Qed.

(* invariant reasoning over a successful fold in the res monad *)
Lemma rfold_inv {S X} (F : S -> X -> res S) (P : S -> Prop) (l : list X) : forall s0 s,
  fold_left (fun acc x => rdo st <- acc; F st x) l (ROk s0) = ROk s ->
  P s0 -> (forall st x st', In x l -> P st -> F st x = ROk st' -> P st') -> P s.
Proof.
  induction l as [|x l IH]; intros s0 s H H0 Hstep; cbn in H.
  - now injection H as <-.
  - destruct (F s0 x) as [s1|e tr] eqn:E; cbn [rbind] in H.
    + apply (IH s1 s H).
      * apply (Hstep s0 x s1); [left; reflexivity | exact H0 | exact E].
      * intros st y st' Hy. apply Hstep. right. exact Hy.
    + rewrite rfold_err in H. discriminate.
Qed.

Lemma dict_set_same {V} (d : list (str * V)) k v : dict_get d k = Some v -> dict_set d k v = d.
Proof.
  induction d as [|[k' v'] d IH]; cbn; intros H; [discriminate|].
  destruct (str_eqb k k') eqn:E.
  - now injection H as ->.
  - now rewrite IH.
Qed.

Lemma calls_of_single_dumps (l : list (str * val)) : calls_of (map (fun ov => ADumpSingle (fst ov) (snd ov)) l) = [].
Proof. apply calls_of_dumps. intros; exact I. Qed.

Lemma generations_In p gen f : In gen (generations p) -> In f gen -> In f p.
Proof.
  unfold generations. intros Hg Hf. apply filter_In in Hg as [Hg _].
  apply in_map_iff in Hg as [l [<- _]]. apply filter_In in Hf as [Hf _]. exact Hf.
Qed.

Section Whole.
  Variable body : mfunc -> env -> result (list val).

  (* every element of every output is stored *)
  Definition complete (c : ctx) (rs : rstore) : Prop :=
    forall f, In f (x_p c) ->
      (is_mapped f = true -> forall sm, shape_of c f = Ok sm -> forall o, In o (fouts f) ->
         exists st, dict_get (st_arr rs) o = Some st
                    /\ length st = prod (ext_of (snd sm) (fst sm))
                    /\ forall x, x < length st -> cell_missing (nth x st None) = false)
      /\ (is_mapped f = false -> forall o, In o (fouts f) -> exists r, dict_get (st_val rs) o = Some r).

  Lemma put_stores_same rs outs : forall sts,
    Forall2 (fun o st => dict_get (st_arr rs) o = Some st) outs sts ->
    fold_left (fun r os => set_arr r (fst os) (snd os)) (combine outs sts) rs = rs.
  Proof.
    induction outs as [|o outs IH]; intros sts H; inversion H as [|? st ? sts' H1 H2]; subst; cbn; [reflexivity|].
    assert (E : set_arr rs o st = rs).
    { unfold set_arr. rewrite dict_set_same by exact H1. destruct rs; reflexivity. }
    rewrite E. now apply IH.
  Qed.

  (* what a task of a complete store looks like: the stored values *)
  Definition task_stored (rs : rstore) (t : task) : Prop :=
    match t with
    | TMapped _ _ _ _ _ => True
    | TSingle f outs => Forall2 (fun o v => dict_get (st_val rs) o = Some (Ok v)) (fouts f) outs
    end.

  Lemma load_single_complete rs f : (forall o, In o (fouts f) -> exists r, dict_get (st_val rs) o = Some r) ->
    forall ld, load_single rs f = Ok ld ->
    exists outs, ld = Some outs /\ Forall2 (fun o v => dict_get (st_val rs) o = Some (Ok v)) (fouts f) outs.
  Proof.
    unfold load_single. intros Hex ld H.
    destruct (mapM _ (fouts f)) as [l|] eqn:E; cbn in H; [|discriminate]. injection H as <-.
    assert (G : forall outs l, (forall o, In o outs -> exists r, dict_get (st_val rs) o = Some r) ->
                mapM (fun o => match dict_get (st_val rs) o with
                               | Some (Ok v) => Ok (Some v) | Some (Err e) => Err e | None => Ok None end) outs = Ok l ->
                forallb (fun x => match x with Some _ => true | None => false end) l = true
                /\ Forall2 (fun o v => dict_get (st_val rs) o = Some (Ok v)) outs
                           (flat_map (fun x => match x with Some v => [v] | None => [] end) l)).
    { induction outs as [|o outs IH]; intros l0 Hex0 H0; cbn in H0.
      - injection H0 as <-. split; [reflexivity | constructor].
      - destruct (Hex0 o (or_introl eq_refl)) as [r Hr]. rewrite Hr in H0.
        destruct r as [v|e]; cbn in H0; [|discriminate].
        destruct (mapM _ outs) as [l1|] eqn:E1; cbn in H0; [|discriminate]. injection H0 as <-.
        destruct (IH l1 (fun o' Ho' => Hex0 o' (or_intror Ho')) eq_refl) as [I1 I2].
        split; [exact I1|]. cbn. constructor; assumption. }
    destruct (G _ _ Hex E) as [G1 G2]. rewrite G1. eexists. split; [reflexivity | exact G2].
  Qed.

  Lemma stores_of_complete c rs f sm : complete c rs -> In f (x_p c) -> is_mapped f = true -> shape_of c f = Ok sm ->
    let N := prod (ext_of (snd sm) (fst sm)) in
    Forall2 (fun o st => dict_get (st_arr rs) o = Some st) (fouts f) (stores_of rs f N)
    /\ forall x, x < N -> miss_any (stores_of rs f N) x = false.
  Proof.
    intros Hc Hin Hm Hs N. destruct (Hc f Hin) as [Hmapped _]. specialize (Hmapped Hm sm Hs).
    unfold stores_of. split.
    - induction (fouts f) as [|o outs IH]; cbn; constructor.
      + destruct (Hmapped o (or_introl eq_refl)) as [st [Hg _]]. unfold get_arr. now rewrite Hg.
      + apply IH. intros o' Ho'. apply Hmapped. right. exact Ho'.
    - intros x Hx. unfold miss_any. rewrite existsb_map_comp.
      apply Bool.not_true_is_false. intros Hex. apply existsb_exists in Hex as [o [Ho Hmiss]].
      destruct (Hmapped o Ho) as [st [Hg [Hl Hp]]]. unfold get_arr in Hmiss. rewrite Hg in Hmiss.
      rewrite Hp in Hmiss by (fold N in Hl; lia). discriminate.
  Qed.

  Lemma submit_func_complete c rs po tr f ps' t :
    complete c rs -> In f (x_p c) ->
    submit_func body c None {| p_store := rs; p_out := po; p_tr := tr |} f = ROk (ps', t) ->
    p_store ps' = rs /\ p_tr ps' = tr /\ task_stored rs t.
  Proof.
    intros Hc Hin H. unfold submit_func in H. cbn [p_store p_out p_tr] in H.
    destruct (func_kwargs_sel c rs f) as [kw|] eqn:Ekw; cbn [lift rbind] in H; [|discriminate].
    destruct (is_mapped f) eqn:Em.
    - destruct (fspec f) as [ms|]; [|discriminate].
      destruct (shape_of c f) as [sm|] eqn:Es; cbn [lift rbind] in H; [|discriminate].
      destruct (submit_mapped _ _ _ _ _ _ _ _ _) as [[st ex]|] eqn:Esub; cbn [rbind fst snd] in H; [|discriminate].
      injection H as <- <-. cbn [p_store p_tr task_stored].
      destruct (stores_of_complete c rs f sm Hc Hin Em Es) as [HF Hmiss].
      apply submit_mapped_complete in Esub as [E1 [E2 _]]; [| unfold stores_of; now rewrite map_length | exact Hmiss].
      rewrite E1, E2. split; [|auto]. unfold put_stores. now apply put_stores_same.
    - unfold execute_single in H.
      destruct (load_single rs f) as [ld|] eqn:El; cbn [lift rbind] in H; [|discriminate].
      destruct (Hc f Hin) as [_ Hun]. apply (load_single_complete rs f (Hun Em)) in El as [outs [-> HF]].
      cbn [rbind fst snd] in H. injection H as <- <-. cbn. auto.
  Qed.

  Lemma dump_single_same rs outs_names : forall outs (tr : list action),
    Forall2 (fun o v => dict_get (st_val rs) o = Some (Ok v)) outs_names outs ->
    fold_left (fun r ov => set_val r (fst ov) (snd ov)) (combine outs_names outs) rs = rs.
  Proof.
    induction outs_names as [|o os IH]; intros outs tr H; inversion H as [|? v ? outs' H1 H2]; subst; cbn; [reflexivity|].
    assert (E : set_val rs o v = rs).
    { unfold set_val. rewrite dict_set_same by exact H1. destruct rs; reflexivity. }
    rewrite E. now apply (IH outs' tr).
  Qed.

  Lemma process_task_complete rs po tr t ps' :
    task_stored rs t ->
    process_task {| p_store := rs; p_out := po; p_tr := tr |} t = ROk ps' ->
    p_store ps' = rs /\ calls_of (p_tr ps') = calls_of tr.
  Proof.
    intros Ht H. destruct t as [f sh mask st ex | f outs]; cbn [process_task p_store p_out p_tr] in H.
    - destruct (process_mapped f sh mask _ ex) as [arrs|]; cbn [rbind] in H; [|discriminate].
      injection H as <-. auto.
    - injection H as <-. cbn [p_store p_tr dump_single fst snd]. split.
      + apply (dump_single_same rs (fouts f) outs tr Ht).
      + rewrite calls_of_app, calls_of_single_dumps. apply app_nil_r.
  Qed.

  Lemma run_generation_complete c rs ps gen ps' :
    complete c rs -> (forall f, In f gen -> In f (x_p c)) ->
    p_store ps = rs ->
    run_generation body c None ps gen = ROk ps' ->
    p_store ps' = rs /\ calls_of (p_tr ps') = calls_of (p_tr ps).
  Proof.
    intros Hc Hsub Hst H. unfold run_generation in H.
    destruct (fold_left _ gen (ROk (ps, []))) as [[ps1 tasks]|] eqn:E1; cbn [rbind fst snd] in H; [|discriminate].
    assert (G1 : p_store ps1 = rs /\ p_tr ps1 = p_tr ps /\ Forall (task_stored rs) tasks).
    { refine (rfold_inv (fun (pt : pstate * list task) f => rdo r <- submit_func body c None (fst pt) f; ROk (fst r, snd pt ++ [snd r]))
                        (fun pt => p_store (fst pt) = rs /\ p_tr (fst pt) = p_tr ps /\ Forall (task_stored rs) (snd pt))
                        gen (ps, []) (ps1, tasks) E1 _ _).
      - cbn. auto.
      - intros [psa ta] f [psb tb] Hf [I1 [I2 I3]] Hstep. cbn [fst snd] in *.
        destruct (submit_func body c None psa f) as [[psc t]|] eqn:Es; cbn [rbind fst snd] in Hstep; [|discriminate].
        injection Hstep as <- <-. destruct psa as [sa oa tra]. cbn [p_store p_tr] in I1, I2. subst sa tra.
        apply submit_func_complete in Es as [J1 [J2 J3]]; [|exact Hc|apply Hsub; exact Hf].
        split; [exact J1|]. split; [exact J2|]. apply Forall_app. split; [exact I3 | constructor; [exact J3 | constructor]]. }
    destruct G1 as [A1 [A2 A3]].
    refine (rfold_inv (fun ps0 t => process_task ps0 t) (fun ps0 => p_store ps0 = rs /\ calls_of (p_tr ps0) = calls_of (p_tr ps))
                      tasks ps1 ps' H _ _).
    - rewrite A2. auto.
    - intros psa t psb Ht [I1 I2] Hstep. destruct psa as [sa oa tra]. cbn [p_store p_tr] in I1, I2. subst sa.
      apply process_task_complete in Hstep as [J1 J2]; [| rewrite Forall_forall in A3; apply A3; exact Ht].
      split; [exact J1 | now rewrite J2].
  Qed.

  (* final_run_computes_nothing: a full run on a complete store calls no user function and leaves the store as it is *)
  Theorem full_run_on_complete p inputs user rs ps :
    (forall shapes, all_shapes user inputs p = Ok shapes ->
                    complete {| x_p := p; x_inputs := inputs; x_shapes := shapes |} rs) ->
    map_run_sel body p inputs user None rs = ROk ps ->
    p_store ps = rs /\ calls_of (p_tr ps) = [].
  Proof.
    intros Hc H. unfold map_run_sel in H. cbn [validate_fixed lift rbind] in H.
    destruct (all_shapes user inputs p) as [shapes|] eqn:Es; cbn [lift rbind] in H; [|discriminate].
    specialize (Hc shapes eq_refl). set (c := {| x_p := p; x_inputs := inputs; x_shapes := shapes |}) in *.
    refine (rfold_inv (fun ps0 gen => run_generation body c None ps0 gen)
                      (fun ps0 => p_store ps0 = rs /\ calls_of (p_tr ps0) = [])
                      (generations p) _ ps H _ _).
    - auto.
    - intros psa gen psb Hg [I1 I2] Hstep.
      apply (run_generation_complete c rs psa gen psb Hc) in Hstep as [J1 J2].
      + split; [exact J1 | now rewrite J2].
      + intros f Hf. cbn. eapply generations_In; eauto.
      + exact I1.
  Qed.
End Whole.

(* ------------------------------------------------------------------ one run with a request, whole pipeline *)
Lemma put_stores_arr_other rs outs : forall sts o,
  ~ In o outs ->
  dict_get (st_arr (fold_left (fun r os => set_arr r (fst os) (snd os)) (combine outs sts) rs)) o = dict_get (st_arr rs) o.
Proof.
  revert rs. induction outs as [|o' outs IH]; intros rs [|st sts] o Hni; cbn; try reflexivity.
  rewrite IH by (intros H; apply Hni; right; exact H). cbn.
  apply dict_get_set_other. intros ->. apply Hni. left. reflexivity.
Qed.

Lemma put_stores_val rs outs : forall sts,
  st_val (fold_left (fun r os => set_arr r (fst os) (snd os)) (combine outs sts) rs) = st_val rs.
Proof.
  revert rs. induction outs as [|o' outs IH]; intros rs [|st sts]; cbn; try reflexivity. now rewrite IH.
Qed.

Lemma put_stores_arr_nth rs outs : forall sts j o,
  NoDup outs -> length sts = length outs -> nth_error outs j = Some o ->
  dict_get (st_arr (fold_left (fun r os => set_arr r (fst os) (snd os)) (combine outs sts) rs)) o = Some (nth j sts []).
Proof.
  revert rs. induction outs as [|o' outs IH]; intros rs [|st sts] j o Hnd Hl Hj; cbn in Hl; try lia;
    [destruct j; discriminate|].
  inversion Hnd as [|? ? Hni Hnd']; subst. destruct j as [|j]; cbn in Hj.
  - injection Hj as ->. cbn. rewrite put_stores_arr_other by exact Hni. cbn. apply dict_get_set_same.
  - cbn. apply IH; [exact Hnd' | lia | exact Hj].
Qed.

Lemma set_val_arr rs outs : forall vs,
  st_arr (fold_left (fun r ov => set_val r (fst ov) (snd ov)) (combine outs vs) rs) = st_arr rs.
Proof. revert rs. induction outs as [|o outs IH]; intros rs [|v vs]; cbn; try reflexivity. now rewrite IH. Qed.

Lemma set_val_other rs outs : forall vs o, ~ In o outs ->
  dict_get (st_val (fold_left (fun r ov => set_val r (fst ov) (snd ov)) (combine outs vs) rs)) o = dict_get (st_val rs) o.
Proof.
  revert rs. induction outs as [|o' outs IH]; intros rs [|v vs] o Hni; cbn; try reflexivity.
  rewrite IH by (intros H; apply Hni; right; exact H). cbn.
  apply dict_get_set_other. intros ->. apply Hni. left. reflexivity.
Qed.

Lemma stores_of_nth r f n j o : nth_error (fouts f) j = Some o ->
  nth j (stores_of r f n) [] = get_arr r o n /\ j < length (stores_of r f n).
Proof.
  intros Hj. assert (Hl : j < length (fouts f)) by (apply nth_error_Some; now rewrite Hj).
  unfold stores_of. rewrite map_length. split; [|exact Hl].
  rewrite (nth_map_default _ _ j o) by exact Hl. f_equal.
  revert j Hj Hl. induction (fouts f) as [|y l IH]; intros [|j] Hj Hl; cbn in *; try discriminate; try lia.
  - now injection Hj.
  - apply IH; [exact Hj | lia].
Qed.

Section Parts.
  Variable body : mfunc -> env -> result (list val).
  Variable c : ctx.
  Variable fx : option fixed.
  Variable rs : rstore.                 (* the store the run starts from *)

  (* stored arrays have the size of their external index space *)
  Definition sized (r : rstore) : Prop :=
    forall f sm o st, In f (x_p c) -> is_mapped f = true -> shape_of c f = Ok sm -> In o (fouts f) ->
      dict_get (st_arr r) o = Some st -> length st = prod (ext_of (snd sm) (fst sm)).

  Definition task_func (t : task) : mfunc := match t with TMapped f _ _ _ _ => f | TSingle f _ => f end.

  (* the calls function f makes in a run with request fx on the store rs *)
  Definition calls_for (f : mfunc) : list (str * option nat) :=
    if is_mapped f then
      match fspec f, shape_of c f with
      | Some ms, Ok sm =>
          let N := prod (ext_of (snd sm) (fst sm)) in
          match mask_fixed_axes fx ms (fst sm) (snd sm) with
          | Ok fm => map (fun i => (fname f, Some i))
                         (filter (fun i => selb fm i && miss_any (stores_of rs f N) i) (seq 0 N))
          | Err _ => []
          end
      | _, _ => []
      end
    else match load_single rs f with Ok (Some _) => [] | _ => [(fname f, None)] end.

  (* the presence of the elements of a mapped function after the run *)
  Definition masks_after (r : rstore) (f : mfunc) : Prop :=
    forall ms sm, fspec f = Some ms -> shape_of c f = Ok sm ->
      let N := prod (ext_of (snd sm) (fst sm)) in
      exists fm, mask_fixed_axes fx ms (fst sm) (snd sm) = Ok fm /\
        forall o x, In o (fouts f) -> x < N ->
          cell_missing (nth x (get_arr r o N) None)
          = cell_missing (nth x (get_arr rs o N) None) && negb (selb fm x && miss_any (stores_of rs f N) x).

  Definition untouched (r : rstore) (o : str) : Prop :=
    dict_get (st_arr r) o = dict_get (st_arr rs) o /\ dict_get (st_val r) o = dict_get (st_val rs) o.

  Record inv (done : list mfunc) (ps : pstate) : Prop := {
    i_calls : calls_of (p_tr ps) = calls_of [] ++ flat_map calls_for done;
    i_frame : forall o, ~ In o (flat_map fouts done) -> untouched (p_store ps) o;
    i_masks : forall f, In f done -> is_mapped f = true -> masks_after (p_store ps) f;
    i_sized : sized (p_store ps)
  }.

  Hypothesis Hsized : sized rs.
  (* output names identify their function *)
  Hypothesis Huniq : forall g f o, In g (x_p c) -> In f (x_p c) -> In o (fouts g) -> In o (fouts f) -> g = f.

  Lemma get_arr_length r f sm o : sized r -> In f (x_p c) -> is_mapped f = true -> shape_of c f = Ok sm -> In o (fouts f) ->
    length (get_arr r o (prod (ext_of (snd sm) (fst sm)))) = prod (ext_of (snd sm) (fst sm)).
  Proof.
    intros Hs Hin Hm Hsh Ho. unfold get_arr. destruct (dict_get (st_arr r) o) as [st|] eqn:E.
    - eapply Hs; eauto.
    - apply repeat_length.
  Qed.

  Lemma stores_of_frame r f n : (forall o, In o (fouts f) -> dict_get (st_arr r) o = dict_get (st_arr rs) o) ->
    stores_of r f n = stores_of rs f n.
  Proof. intros H. unfold stores_of. apply map_ext_in. intros o Ho. unfold get_arr. now rewrite H. Qed.

  Lemma load_single_frame r f : (forall o, In o (fouts f) -> dict_get (st_val r) o = dict_get (st_val rs) o) ->
    load_single r f = load_single rs f.
  Proof.
    intros H. unfold load_single. replace (mapM _ (fouts f)) with
      (mapM (fun o => match dict_get (st_val rs) o with
                      | Some (Ok v) => Ok (Some v) | Some (Err e) => Err e | None => Ok None end) (fouts f)); [reflexivity|].
    induction (fouts f) as [|o l IH]; cbn; [reflexivity|].
    rewrite (H o (or_introl eq_refl)), IH; [reflexivity|]. intros o' Ho'. apply H. right. exact Ho'.
  Qed.

  Lemma nth_error_nth_default {A} (l : list A) j d x : nth_error l j = Some x -> nth j l d = x.
  Proof. revert j. induction l as [|y l IH]; intros [|j] H; cbn in *; try discriminate; [now injection H | now apply IH]. Qed.

  (* submitting one function *)
  Lemma submit_func_inv done ps f ps' t :
    inv done ps -> In f (x_p c) -> NoDup (fouts f) ->
    (forall o, In o (fouts f) -> ~ In o (flat_map fouts done)) ->
    submit_func body c fx ps f = ROk (ps', t) ->
    inv (done ++ [f]) ps' /\ task_func t = f.
  Proof.
    intros [I1 I2 I3 I4] Hin Hnd Hdis H. unfold submit_func in H.
    destruct (func_kwargs_sel c (p_store ps) f) as [kw|] eqn:Ekw; cbn [lift rbind] in H; [|discriminate].
    destruct (is_mapped f) eqn:Em.
    - destruct (fspec f) as [ms|] eqn:Esp; [|discriminate].
      destruct (shape_of c f) as [sm|] eqn:Es; cbn [lift rbind] in H; [|discriminate].
      set (N := prod (ext_of (snd sm) (fst sm))) in *.
      destruct (submit_mapped _ _ _ _ _ _ _ _ _) as [[st ex]|] eqn:Esub; cbn [rbind fst snd] in H; [|discriminate].
      injection H as <- <-. split; [|reflexivity].
      assert (Hfr : stores_of (p_store ps) f N = stores_of rs f N).
      { apply stores_of_frame. intros o Ho. apply I2. now apply Hdis. }
      rewrite Hfr in Esub.
      apply submit_mapped_exact in Esub as [fm [Hfm [_ [Hfill [_ [_ Hcalls]]]]]];
        [| unfold stores_of; now rewrite map_length].
      destruct Hfill as [FL FH].
      assert (Hlen : length (m_stores st) = length (fouts f)) by (rewrite FL; unfold stores_of; now rewrite map_length).
      constructor; cbn [p_store p_tr].
      + rewrite Hcalls, I1, flat_map_app. cbn [flat_map]. rewrite app_nil_r, <- app_assoc. do 2 f_equal.
        unfold calls_for. rewrite Em, Esp, Es. fold N. rewrite Hfm. reflexivity.
      + intros o Ho. rewrite flat_map_app in Ho. cbn [flat_map] in Ho. rewrite app_nil_r in Ho.
        assert (Ho1 : ~ In o (flat_map fouts done)) by (intros X; apply Ho, in_or_app; left; exact X).
        assert (Ho2 : ~ In o (fouts f)) by (intros X; apply Ho, in_or_app; right; exact X).
        destruct (I2 o Ho1) as [A B]. unfold untouched, put_stores.
        rewrite put_stores_arr_other by exact Ho2. rewrite put_stores_val. split; assumption.
      + intros g Hg Hgm. apply in_app_or in Hg as [Hg|[<-|[]]].
        * intros ms' sm' Hms' Hsm'. destruct (I3 g Hg Hgm ms' sm' Hms' Hsm') as [fm' [Hfm' Hrel]].
          exists fm'. split; [exact Hfm'|]. intros o x Ho Hx.
          assert (Hof : ~ In o (fouts f)).
          { intros X. apply (Hdis o X). apply in_flat_map. exists g. split; assumption. }
          unfold get_arr at 1. unfold put_stores. rewrite put_stores_arr_other by exact Hof.
          apply Hrel; assumption.
        * intros ms' sm' Hms' Hsm'. rewrite Esp in Hms'. injection Hms' as <-. rewrite Es in Hsm'. injection Hsm' as <-.
          exists fm. split; [exact Hfm|]. fold N. intros o x Ho Hx.
          apply In_nth_error in Ho as [j Hj].
          destruct (stores_of_nth rs f N j o Hj) as [Hnj Hjl].
          unfold get_arr at 1. unfold put_stores.
          rewrite (put_stores_arr_nth _ _ _ j o Hnd Hlen Hj).
          destruct (FH j Hjl) as [_ FB].
          pose proof (get_arr_length rs f sm o Hsized Hin Em Es (nth_error_In _ _ Hj)) as GL. fold N in GL.
          rewrite FB by (rewrite Hnj, GL; exact Hx).
          rewrite Hnj. destruct (memb x _) eqn:Emem.
          -- apply memb_In, filter_In in Emem as [_ Emem]. rewrite Emem. cbn.
             apply andb_true_iff in Emem as [_ Emiss].
             now rewrite andb_false_r.
          -- assert (Hf : selb fm x && miss_any (stores_of rs f N) x = false).
             { apply Bool.not_true_is_false. intros X. apply Bool.not_true_iff_false in Emem. apply Emem.
               apply memb_In, filter_In. split; [apply in_seq; lia | exact X]. }
             rewrite Hf. cbn. now rewrite andb_true_r.
      + intros g smg o st0 Hg Hgm Hsg Ho Hget.
        destruct (in_dec (list_eq_dec ascii_dec) o (fouts f)) as [Hof|Hof].
        * assert (g = f) by (eapply Huniq; eauto). subst g. rewrite Es in Hsg. injection Hsg as <-.
          apply In_nth_error in Hof as [j Hj]. unfold put_stores in Hget.
          rewrite (put_stores_arr_nth _ _ _ j o Hnd Hlen Hj) in Hget. injection Hget as <-.
          destruct (stores_of_nth rs f N j o Hj) as [Hnj Hjl].
          destruct (FH j Hjl) as [FA _]. rewrite FA, Hnj.
          exact (get_arr_length rs f sm o Hsized Hin Em Es Ho).
        * unfold put_stores in Hget. rewrite put_stores_arr_other in Hget by exact Hof. eapply I4; eauto.
    - (* unmapped *)
      unfold execute_single in H.
      assert (Hld : load_single (p_store ps) f = load_single rs f).
      { apply load_single_frame. intros o Ho. apply I2. now apply Hdis. }
      rewrite Hld in H.
      destruct (load_single rs f) as [ld|] eqn:El; cbn [lift rbind] in H; [|discriminate].
      destruct ld as [outs|].
      + cbn [rbind fst snd] in H. injection H as <- <-. split; [|reflexivity].
        constructor; cbn [p_store p_tr].
        * assert (Ecf : calls_for f = []) by (unfold calls_for; rewrite Em, El; reflexivity).
          rewrite I1, flat_map_app. cbn [flat_map]. rewrite Ecf. now rewrite !app_nil_r.
        * intros o Ho. apply I2. intros X. apply Ho. rewrite flat_map_app. apply in_or_app. left. exact X.
        * intros g Hg Hgm. apply in_app_or in Hg as [Hg|[<-|[]]]; [now apply I3 | congruence].
        * exact I4.
      + destruct (body f kw) as [outs|] eqn:Eb; cbn [lift rbind] in H; [|discriminate].
        destruct (negb (length outs =? length (fouts f))); [discriminate|].
        cbn [rbind fst snd] in H. injection H as <- <-. split; [|reflexivity].
        constructor; cbn [p_store p_tr].
        * assert (Ecf : calls_for f = [(fname f, None)]) by (unfold calls_for; rewrite Em, El; reflexivity).
          rewrite calls_of_app, I1, flat_map_app. cbn [flat_map]. rewrite Ecf.
          cbn. rewrite ?app_nil_r. reflexivity.
        * intros o Ho. apply I2. intros X. apply Ho. rewrite flat_map_app. apply in_or_app. left. exact X.
        * intros g Hg Hgm. apply in_app_or in Hg as [Hg|[<-|[]]]; [now apply I3 | congruence].
        * exact I4.
  Qed.

  Lemma process_task_inv done ps t ps' :
    inv done ps -> In (task_func t) done ->
    process_task ps t = ROk ps' -> inv done ps'.
  Proof.
    intros [I1 I2 I3 I4] Hin H. destruct t as [f sh mask st ex | f outs]; cbn [process_task task_func] in *.
    - destruct (process_mapped f sh mask _ ex) as [arrs|]; cbn [rbind] in H; [|discriminate].
      injection H as <-. constructor; cbn [p_store p_tr]; assumption.
    - injection H as <-. cbn [dump_single fst snd].
      assert (Harr : st_arr (fold_left (fun r ov => set_val r (fst ov) (snd ov)) (combine (fouts f) outs) (p_store ps))
                     = st_arr (p_store ps)) by apply set_val_arr.
      constructor; cbn [p_store p_tr].
      + rewrite calls_of_app, calls_of_single_dumps, app_nil_r. exact I1.
      + intros o Ho. destruct (I2 o Ho) as [A B]. split.
        * rewrite Harr. exact A.
        * rewrite set_val_other; [exact B|]. intros X. apply Ho. apply in_flat_map. exists f. split; assumption.
      + intros g Hg Hgm ms sm Hms Hsm. destruct (I3 g Hg Hgm ms sm Hms Hsm) as [fm [Hfm Hrel]].
        exists fm. split; [exact Hfm|]. intros o x Ho Hx. unfold get_arr at 1. rewrite Harr. now apply Hrel.
      + intros g sm o st0 Hg Hgm Hsg Ho Hget. rewrite Harr in Hget. eapply I4; eauto.
  Qed.

  Lemma NoDup_app_inv {A} (a b : list A) : NoDup (a ++ b) -> NoDup a /\ NoDup b /\ forall x, In x a -> ~ In x b.
  Proof.
    induction a as [|y a IH]; cbn; intros H.
    - split; [constructor|]. split; [exact H|]. intros x [].
    - inversion H as [|? ? Hni Hnd]; subst. destruct (IH Hnd) as [A1 [A2 A3]].
      split; [constructor; [intros X; apply Hni, in_or_app; left; exact X | exact A1]|]. split; [exact A2|].
      intros x [<-|Hx]; [intros X; apply Hni, in_or_app; right; exact X | now apply A3].
  Qed.

  Lemma submit_fold_inv gen : forall done ps tasks ps' tasks',
    inv done ps -> Forall (fun t => In (task_func t) done) tasks ->
    (forall f, In f gen -> In f (x_p c)) ->
    NoDup (flat_map fouts (done ++ gen)) ->
    fold_left (fun acc f => rdo pt <- acc; rdo r <- submit_func body c fx (fst pt) f; ROk (fst r, snd pt ++ [snd r]))
              gen (ROk (ps, tasks)) = ROk (ps', tasks') ->
    inv (done ++ gen) ps' /\ Forall (fun t => In (task_func t) (done ++ gen)) tasks'.
  Proof.
    induction gen as [|f gen IH]; intros done ps tasks ps' tasks' Hinv Ht Hsub Hnd H.
    - cbn in H. injection H as <- <-. rewrite app_nil_r. auto.
    - cbn [fold_left rbind fst snd] in H.
      destruct (submit_func body c fx ps f) as [[ps1 t]|e tr] eqn:Es; cbn [rbind fst snd] in H;
        [|rewrite rfold_err in H; discriminate].
      rewrite flat_map_app in Hnd. cbn [flat_map] in Hnd.
      destruct (NoDup_app_inv _ _ Hnd) as [_ [Hnd2 Hdis]].
      destruct (NoDup_app_inv _ _ Hnd2) as [Hndf _].
      apply (submit_func_inv done) in Es as [Hinv1 Htf];
        [ | exact Hinv | apply Hsub; left; reflexivity | exact Hndf
          | intros o Ho X; apply (Hdis o X); apply in_or_app; left; exact Ho ].
      replace (done ++ f :: gen) with ((done ++ [f]) ++ gen) by (rewrite <- app_assoc; reflexivity).
      apply (IH (done ++ [f]) ps1 (tasks ++ [t])).
      + exact Hinv1.
      + apply Forall_app. split.
        * eapply Forall_impl; [|exact Ht]. intros t0 Ht0. apply in_or_app. left. exact Ht0.
        * constructor; [|constructor]. rewrite Htf. apply in_or_app. right. left. reflexivity.
      + intros g Hg. apply Hsub. right. exact Hg.
      + rewrite <- app_assoc. cbn [app]. rewrite flat_map_app. cbn [flat_map]. exact Hnd.
      + exact H.
  Qed.

  Lemma process_fold_inv tasks : forall done ps ps',
    inv done ps -> Forall (fun t => In (task_func t) done) tasks ->
    fold_left (fun acc t => rdo ps0 <- acc; process_task ps0 t) tasks (ROk ps) = ROk ps' -> inv done ps'.
  Proof.
    induction tasks as [|t tasks IH]; intros done ps ps' Hinv Ht H.
    - cbn in H. now injection H as <-.
    - cbn [fold_left rbind] in H. inversion Ht as [|? ? Ht1 Ht2]; subst.
      destruct (process_task ps t) as [ps1|e tr] eqn:Ep; [|rewrite rfold_err in H; discriminate].
      apply (IH done ps1 ps'); [eapply process_task_inv; eauto | exact Ht2 | exact H].
  Qed.

  Lemma run_generation_inv done ps gen ps' :
    inv done ps -> (forall f, In f gen -> In f (x_p c)) -> NoDup (flat_map fouts (done ++ gen)) ->
    run_generation body c fx ps gen = ROk ps' -> inv (done ++ gen) ps'.
  Proof.
    intros Hinv Hsub Hnd H. unfold run_generation in H.
    destruct (fold_left _ gen (ROk (ps, []))) as [[ps1 tasks]|] eqn:E1; cbn [rbind fst snd] in H; [|discriminate].
    apply (submit_fold_inv gen done) in E1 as [J1 J2]; [|exact Hinv|constructor|exact Hsub|exact Hnd].
    eapply process_fold_inv; eauto.
  Qed.

  Lemma generations_fold_inv gens : forall done ps ps',
    inv done ps -> (forall gen f, In gen gens -> In f gen -> In f (x_p c)) ->
    NoDup (flat_map fouts (done ++ concat gens)) ->
    fold_left (fun acc gen => rdo ps0 <- acc; run_generation body c fx ps0 gen) gens (ROk ps) = ROk ps' ->
    inv (done ++ concat gens) ps'.
  Proof.
    induction gens as [|gen gens IH]; intros done ps ps' Hinv Hsub Hnd H.
    - cbn in H. injection H as <-. cbn. now rewrite app_nil_r.
    - cbn [fold_left rbind] in H. cbn [concat] in *.
      destruct (run_generation body c fx ps gen) as [ps1|e tr] eqn:Eg; [|rewrite rfold_err in H; discriminate].
      rewrite app_assoc in Hnd |- *.
      apply (run_generation_inv done) in Eg;
        [ | exact Hinv | intros f Hf; eapply Hsub; [left; reflexivity | exact Hf]
          | rewrite flat_map_app in Hnd; apply NoDup_app_inv in Hnd as [Hnd _]; exact Hnd ].
      apply (IH (done ++ gen) ps1 ps' Eg); [intros g f Hg Hf; eapply Hsub; [right; exact Hg | exact Hf] | exact Hnd | exact H].
  Qed.

  (* part_computes_exactly, whole pipeline: a successful run with request fx on the store rs makes exactly the
     calls of the selected missing elements (function by function, in execution order), leaves the stores of
     every mapped function with exactly those elements added, and touches nothing else *)
  Theorem part_run_exact user ps :
    all_shapes user (x_inputs c) (x_p c) = Ok (x_shapes c) ->
    NoDup (flat_map fouts (concat (generations (x_p c)))) ->
    map_run_sel body (x_p c) (x_inputs c) user fx rs = ROk ps ->
    inv (concat (generations (x_p c))) ps.
  Proof.
    intros Hsh Hnd H. unfold map_run_sel in H.
    destruct (validate_fixed fx (x_inputs c) (x_p c)); cbn [lift rbind] in H; [|discriminate].
    rewrite Hsh in H. cbn [lift rbind] in H.
    assert (Ec : {| x_p := x_p c; x_inputs := x_inputs c; x_shapes := x_shapes c |} = c) by (destruct c; reflexivity).
    rewrite Ec in H.
    apply (generations_fold_inv (generations (x_p c)) [] _ ps) in H; [exact H | | | exact Hnd].
    - constructor; cbn [p_store p_tr].
      + reflexivity.
      + intros o _. split; reflexivity.
      + intros f [].
      + exact Hsized.
    - intros gen f Hg Hf. eapply generations_In; eauto.
  Qed.
End Parts.

(* ------------------------------------------------------------------ rejected requests *)
Theorem rejected_before_any_call body p inputs user fx rs e :
  validate_fixed fx inputs p = Err e -> map_run_sel body p inputs user fx rs = RErr e [].
Proof. intros H. unfold map_run_sel. rewrite H. reflexivity. Qed.

Lemma mapM_err_in {A B} (f : A -> result B) l x e : In x l -> f x = Err e -> exists e', mapM f l = Err e'.
Proof.
  induction l as [|y l IH]; intros Hin Hf; [destruct Hin|]. cbn.
  destruct Hin as [->|Hin].
  - rewrite Hf. eexists. reflexivity.
  - destruct (f y); cbn; [|eexists; reflexivity].
    destruct (IH Hin Hf) as [e' ->]. cbn. eexists. reflexivity.
Qed.

Lemma merge_axes_In a : forall old new, In (Some a) (merge_axes old new) -> In (Some a) old \/ In (Some a) new.
Proof.
  induction old as [|o old IH]; intros [|n new] H; cbn in H; auto.
  destruct H as [H|H].
  - destruct n as [x|]; [right; left; exact H | left; left; exact H].
  - destruct (IH new H) as [H'|H']; [left; right; exact H' | right; right; exact H'].
Qed.

Lemma trim_none_In a l : In (Some a) (trim_none l) -> In (Some a) l.
Proof.
  induction l as [|x l IH]; cbn; [auto|]. destruct x as [y|].
  - intros [H|H]; [left; exact H | right; apply IH; exact H].
  - destruct (trim_none l) eqn:E; [intros [] |]. intros [H|H]; [discriminate | right; apply IH; exact H].
Qed.

Lemma dict_get_In {V} (d : list (str * V)) k v : dict_get d k = Some v -> In (k, v) d.
Proof.
  induction d as [|[k' v'] d IH]; cbn; intros H; [discriminate|].
  destruct (str_eqb k k') eqn:E; [injection H as ->; apply str_eqb_eq in E; subst; left; reflexivity | right; now apply IH].
Qed.

Lemma dict_set_In {V} (d : list (str * V)) k v k' v' : In (k', v') (dict_set d k v) -> (k' = k /\ v' = v) \/ In (k', v') d.
Proof.
  induction d as [|[k2 v2] d IH]; cbn; intros H.
  - destruct H as [H|[]]. injection H as <- <-. auto.
  - destruct (str_eqb k k2) eqn:E; cbn in H.
    + destruct H as [H|H]; [injection H as <- <-; left; apply str_eqb_eq in E; auto | right; right; exact H].
    + destruct H as [H|H]; [right; left; exact H | destruct (IH H); auto].
Qed.

(* every axis name reported by mapspec_axes is written in some array spec *)
Lemma mapspec_axes_names specs name axs a :
  In (name, axs) (mapspec_axes specs) -> In (Some a) axs ->
  exists sp, In sp (flat_map (fun m => ins m ++ outs m) specs) /\ In (Some a) (axes sp).
Proof.
  unfold mapspec_axes. intros Hin Ha. apply in_map_iff in Hin as [[n0 ax0] [Heq Hin]].
  injection Heq as <- <-. apply trim_none_In in Ha. cbn [snd] in Ha.
  set (arrs := flat_map (fun m => ins m ++ outs m) specs) in *.
  assert (G : forall l d0, (forall n x b, In (n, x) d0 -> In (Some b) x -> exists sp, In sp arrs /\ In (Some b) (axes sp)) ->
              (forall sp, In sp l -> In sp arrs) ->
              forall n x b, In (n, x) (fold_left (fun d a0 =>
                        if existsb (fun x0 => negb (is_none x0)) (axes a0) then
                          match dict_get d (aname a0) with
                          | Some old => dict_set d (aname a0) (merge_axes old (axes a0))
                          | None => d ++ [(aname a0, axes a0)]
                          end
                        else d) l d0) -> In (Some b) x -> exists sp, In sp arrs /\ In (Some b) (axes sp)).
  { induction l as [|sp l IH]; intros d0 Hd0 Hl n x b Hx Hb; cbn in Hx; [eapply Hd0; eauto|].
    eapply IH; [| intros sp' Hsp'; apply Hl; right; exact Hsp' | exact Hx | exact Hb].
    intros n' x' b' Hin' Hb'.
    destruct (existsb _ (axes sp)); [|eapply Hd0; eauto].
    destruct (dict_get d0 (aname sp)) as [old|] eqn:Eg.
    - apply dict_set_In in Hin' as [[-> ->]|Hin']; [|eapply Hd0; eauto].
      apply merge_axes_In in Hb' as [Hb'|Hb'].
      + eapply Hd0; [apply dict_get_In; exact Eg | exact Hb'].
      + exists sp. split; [apply Hl; left; reflexivity | exact Hb'].
    - apply in_app_or in Hin' as [Hin'|[Hin'|[]]]; [eapply Hd0; eauto|].
      injection Hin' as <- <-. exists sp. split; [apply Hl; left; reflexivity | exact Hb']. }
  eapply (G arrs []); [intros ? ? ? [] | auto | exact Hin | exact Ha].
Qed.

Lemma arrayspecs_specs p : arrayspecs p = flat_map (fun m => ins m ++ outs m) (specs_of p).
Proof.
  unfold arrayspecs, specs_of. induction p as [|f p IH]; cbn; [reflexivity|].
  rewrite flat_map_app, IH. destruct (fspec f); cbn; [now rewrite app_nil_r | reflexivity].
Qed.

Lemma combine_seq_nth {A} (l : list A) : forall base k x, nth_error l k = Some x -> In (base + k, x) (combine (seq base (length l)) l).
Proof.
  induction l as [|y l IH]; intros base [|k] x H; cbn in *; try discriminate.
  - injection H as ->. left. now rewrite Nat.add_0_r.
  - right. replace (base + S k) with (S base + k) by lia. now apply IH.
Qed.

(* bad_request_rejected, unknown axis *)
Theorem unknown_axis_rejected d inputs p a :
  In a (map fst d) -> axis_known p a = false ->
  exists e, validate_fixed (Some d) inputs p = Err e.
Proof.
  intros Hin Hunk. unfold validate_fixed.
  destruct (mapM _ (mapspec_axes (specs_of p))) as [u|e]; cbn; [|eexists; reflexivity].
  assert (Hnk : mem_str a (flat_map (fun na => somes (snd na)) (mapspec_axes (specs_of p))) = false).
  { apply mem_str_false. intros Hk. apply in_flat_map in Hk as [[name axs] [Hent Hs]]. cbn [snd] in Hs.
    apply somes_In in Hs. destruct (mapspec_axes_names _ _ _ _ Hent Hs) as [sp [Hsp Ha]].
    rewrite <- arrayspecs_specs in Hsp.
    unfold axis_known in Hunk. apply Bool.negb_false_iff, Nat.eqb_eq in Hunk.
    apply In_nth_error in Ha as [k Hk].
    assert (Hcar : In (aname sp, k) (carriers_of p a)).
    { unfold carriers_of. apply in_flat_map. exists sp. split; [exact Hsp|].
      apply in_flat_map. exists (k, Some a). split.
      - apply (combine_seq_nth _ 0 k). exact Hk.
      - cbn. rewrite str_eqb_refl. left. reflexivity. }
    rewrite (proj1 (length_zero_iff_nil _) Hunk) in Hcar. exact Hcar. }
  assert (Hex : existsb (fun a0 => negb (mem_str a0 (flat_map (fun na => somes (snd na)) (mapspec_axes (specs_of p))))) (map fst d) = true).
  { apply existsb_exists. exists a. split; [exact Hin | now rewrite Hnk]. }
  rewrite Hex. eexists. reflexivity.
Qed.

(* bad_request_rejected, reduced axis (as _reduced_axes computes it) *)
Theorem reduced_axis_rejected d inputs p a :
  In a (map fst d) -> In a (reduced_axes p) ->
  exists e, validate_fixed (Some d) inputs p = Err e.
Proof.
  intros Hin Hred. unfold validate_fixed.
  destruct (mapM _ (mapspec_axes (specs_of p))) as [u|e]; cbn; [|eexists; reflexivity].
  destruct (existsb _ (map fst d)); [eexists; reflexivity|].
  assert (Hex : existsb (fun a0 => mem_str a0 (reduced_axes p)) (map fst d) = true).
  { apply existsb_exists. exists a. split; [exact Hin | now apply mem_str_In]. }
  rewrite Hex. eexists. reflexivity.
Qed.

(* bad_request_rejected, index out of range on an axis of a supplied input (as mapspec_axes names it) *)
Theorem out_of_range_rejected d inputs p name axs k a sel arr n e :
  In (name, axs) (mapspec_axes (specs_of p)) -> nth_error axs k = Some (Some a) ->
  dict_get d a = Some sel -> dict_get inputs name = Some (VA arr) -> nth_error (shp arr) k = Some n ->
  fsel_indices sel n = Err e ->
  exists e', validate_fixed (Some d) inputs p = Err e'.
Proof.
  intros Hent Hk Hd Hinp Hn Herr. unfold validate_fixed.
  match goal with |- context [mapM ?F (mapspec_axes (specs_of p))] => set (F0 := F) end.
  assert (HF : exists e0, F0 (name, axs) = Err e0).
  { unfold F0. cbn [fst snd]. rewrite Hinp.
    destruct (length (shp arr) <? length (map _ axs)); [eexists; reflexivity|].
    match goal with |- context [mapM ?G (combine ?key (shp arr))] =>
      destruct (mapM_err_in G (combine key (shp arr)) (sel, n) e) as [e2 He2] end.
    - clear - Hk Hn Hd. revert k axs Hk Hn. generalize (shp arr) as sh.
      intros sh k. revert sh. induction k as [|k IH]; intros [|m sh] [|x axs] Hk Hn; cbn in *; try discriminate.
      + injection Hk as ->. injection Hn as ->. left. unfold key_of. now rewrite Hd.
      + right. eapply IH; eauto.
    - exact Herr.
    - rewrite He2. cbn. eexists. reflexivity. }
  destruct HF as [e0 He0].
  destruct (mapM_err_in F0 _ (name, axs) e0 Hent He0) as [e' He']. rewrite He'. cbn. eexists. reflexivity.
Qed.

(* ------------------------------------------------------------------ learners (one function, fixed arguments) *)
Section Learn.
  Variable body : mfunc -> env -> result (list val).
  Variables (f : mfunc) (ms : mapspec) (kw : env) (sh : list nat) (mask : list bool).
  Notation N := (prod (ext_of mask sh)).

  (* one point of a SequenceLearner: skip when every output has the index, else compute and dump *)
  Definition learner_elem (st : mstate) (i : nat) : res mstate :=
    if forallb (fun s => has_index s i) (m_stores st) then ROk st
    else compute_elem body f ms kw sh mask st i.

  Definition learner_fold (L : list nat) (st0 : mstate) : res mstate :=
    fold_left (fun acc i => rdo st <- acc; learner_elem st i) L (ROk st0).

  Lemma has_index_miss stores i : forallb (fun s => has_index s i) stores = negb (miss_any stores i).
  Proof.
    unfold miss_any, has_index. induction stores as [|s l IH]; cbn; [reflexivity|].
    rewrite IH, negb_orb. reflexivity.
  Qed.

  Lemma learner_fold_spec L : forall st0 st Lacc stores0,
    (forall x, In x L -> x < N) -> NoDup L -> (forall x, In x L -> ~ In x Lacc) ->
    length stores0 = length (fouts f) -> all_len sh mask stores0 ->
    filled body f ms kw sh mask Lacc stores0 (m_stores st0) ->
    learner_fold L st0 = ROk st ->
    filled body f ms kw sh mask (Lacc ++ filter (miss_any stores0) L) stores0 (m_stores st)
    /\ calls_of (m_tr st) = calls_of (m_tr st0) ++ map (fun i => (fname f, Some i)) (filter (miss_any stores0) L).
  Proof.
    induction L as [|x L IH]; intros st0 st Lacc stores0 Hlt Hnd Hdis Hk Hal Hf H.
    - cbn in H. injection H as <-. cbn. rewrite !app_nil_r. auto.
    - unfold learner_fold in H. cbn [fold_left rbind] in H.
      inversion Hnd as [|? ? Hni Hnd']; subst.
      assert (Hx : x < N) by (apply Hlt; left; reflexivity).
      assert (Hmiss : miss_any (m_stores st0) x = miss_any stores0 x).
      { rewrite (miss_any_filled body f ms kw sh mask Lacc stores0 (m_stores st0) x Hal Hx Hf).
        destruct (memb x Lacc) eqn:E; [apply memb_In in E; exfalso; eapply Hdis; [left; reflexivity | exact E] | reflexivity]. }
      unfold learner_elem in H at 2. rewrite has_index_miss, Hmiss in H. cbn [filter].
      destruct (miss_any stores0 x) eqn:Em; cbn [negb] in H.
      + destruct (compute_elem body f ms kw sh mask st0 x) as [st1|e tr] eqn:Ec; [|rewrite rfold_err in H; discriminate].
        apply compute_elem_inv in Ec as [Ho ->]; [|exact Hx].
        assert (Hf' : filled body f ms kw sh mask (Lacc ++ [x]) stores0 (put_all (m_stores st0) x (outs_at body f ms kw sh mask x))).
        { apply filled_step; [exact (eq_trans Ho (eq_sym Hk)) | exact Hf]. }
        match type of H with fold_left _ _ (ROk ?s) = _ =>
          destruct (IH s st (Lacc ++ [x]) stores0 (fun y Hy => Hlt y (or_intror Hy)) Hnd') as [I1 I2] end.
        * intros y Hy Hin. apply in_app_or in Hin as [Hin|[<-|[]]]; [eapply Hdis; [right; exact Hy | exact Hin] | contradiction].
        * exact Hk.
        * exact Hal.
        * exact Hf'.
        * exact H.
        * cbn [m_stores m_tr] in I1, I2. rewrite <- app_assoc in I1. cbn [app] in I1. split; [exact I1|].
          rewrite I2, calls_of_app, calls_of_elem_trace, <- app_assoc. reflexivity.
      + apply (IH st0 st Lacc stores0 (fun y Hy => Hlt y (or_intror Hy)) Hnd'); try assumption.
        intros y Hy. apply Hdis. right. exact Hy.
  Qed.

  (* learners_eq_map (one function): running the points of the learner's sequence in any order gives the
     stores of the corresponding map run, and calls the same elements once each *)
  Theorem learner_eq_submit fx L stores tr stL stM exM fm :
    length stores = length (fouts f) -> all_len sh mask stores ->
    mask_fixed_axes fx ms sh mask = Ok fm ->
    NoDup L -> (forall x, In x L <-> (x < N /\ selb fm x = true)) ->
    learner_fold L {| m_stores := stores; m_results := []; m_tr := tr |} = ROk stL ->
    submit_mapped body f ms kw sh mask fx stores tr = ROk (stM, exM) ->
    m_stores stL = m_stores stM
    /\ exists CL CM, calls_of (m_tr stL) = calls_of tr ++ map (fun i => (fname f, Some i)) CL
                     /\ calls_of (m_tr stM) = calls_of tr ++ map (fun i => (fname f, Some i)) CM
                     /\ NoDup CL /\ NoDup CM /\ (forall x, In x CL <-> In x CM).
  Proof.
    intros Hk Hal Hfm Hnd HL HLf HM.
    apply (learner_fold_spec L _ _ [] stores) in HLf as [A1 A2];
      [ | intros x Hx; apply HL in Hx; tauto | exact Hnd | intros x _ [] | exact Hk | exact Hal | apply filled_nil ].
    cbn [app m_tr] in A1, A2.
    apply submit_mapped_exact in HM as [fm' [Hfm' [_ [B1 [_ [_ B2]]]]]]; [|exact Hk].
    rewrite Hfm in Hfm'. injection Hfm' as <-.
    assert (Hmem : forall x, In x (filter (miss_any stores) L)
                             <-> In x (filter (fun i => selb fm i && miss_any stores i) (seq 0 N))).
    { intros x. rewrite !filter_In, in_seq, HL, andb_true_iff. split; [intros [[? ?] ?] | intros [? [? ?]]]; repeat split; auto; lia. }
    split.
    - eapply filled_unique; [exact A1|]. eapply filled_ext; [|exact B1].
      intros x. apply Bool.eq_iff_eq_true. rewrite !memb_In. symmetry. apply Hmem.
    - eexists _, _. split; [exact A2|]. split; [exact B2|].
      split; [apply NoDup_filter; exact Hnd|]. split; [apply NoDup_filter, seq_NoDup | exact Hmem].
  Qed.
End Learn.

(* ------------------------------------------------------------------ values: what a full run leaves in the store *)
Lemma render_ext sh mask st : render sh mask st = render sh mask st.
Proof. reflexivity. Qed.

(* _func_kwargs looks only at the entries of the function's own parameters *)
Lemma lookup_arg_sel_frame c r r' f q :
  dict_get (st_arr r) q = dict_get (st_arr r') q -> dict_get (st_val r) q = dict_get (st_val r') q ->
  lookup_arg_sel c r f q = lookup_arg_sel c r' f q.
Proof.
  intros Ha Hv. unfold lookup_arg_sel, get_arr. rewrite Ha, Hv. reflexivity.
Qed.

Lemma mapM_ext_in {A B} (f g : A -> result B) l : (forall x, In x l -> f x = g x) -> mapM f l = mapM g l.
Proof.
  induction l as [|x l IH]; intros H; cbn; [reflexivity|].
  rewrite (H x (or_introl eq_refl)), IH; [reflexivity|]. intros; apply H; right; assumption.
Qed.

Lemma func_kwargs_sel_frame c r r' f :
  (forall q, In q (fparams f) -> dict_get (st_arr r) q = dict_get (st_arr r') q
                                 /\ dict_get (st_val r) q = dict_get (st_val r') q) ->
  func_kwargs_sel c r f = func_kwargs_sel c r' f.
Proof.
  intros H. unfold func_kwargs_sel. apply mapM_ext_in. intros q Hq. destruct (H q Hq) as [Ha Hv].
  now rewrite (lookup_arg_sel_frame c r r' f q Ha Hv).
Qed.

Lemma stores_of_ext r r' f n : (forall o, In o (fouts f) -> dict_get (st_arr r) o = dict_get (st_arr r') o) ->
  stores_of r f n = stores_of r' f n.
Proof. intros H. unfold stores_of. apply map_ext_in. intros o Ho. unfold get_arr. now rewrite H. Qed.
