(* Proofs about Model/MapResume.v (C06): the selection of a fixed_indices request is the product of the
   per-axis selections; partitions of the index space; what one run on an existing store computes. *)
From Verif Require Import Base.Prelude Base.StrUtil Base.Index Base.NdArr Base.PyRange Base.StrOrd
  Model.MapSpec Model.MapSpecSpec Model.MapRun
  Proofs.IndexFacts Proofs.StrFacts Proofs.MapSpecFacts Proofs.PyRangeFacts.
From Verif Require Import Model.MapResume Model.FixedSpec.

(* ------------------------------------------------------------------ lists *)
Lemma upd_length {A} (l : list A) : forall n x, length (upd l n x) = length l.
Proof. induction l as [|y l IH]; intros [|n] x; cbn; try reflexivity. now rewrite IH. Qed.

Lemma nth_upd {A} (l : list A) : forall i j x d, i < length l ->
  nth i (upd l j x) d = if i =? j then x else nth i l d.
Proof.
  induction l as [|y l IH]; intros i j x d Hi; [cbn in Hi; lia|].
  destruct j as [|j], i as [|i]; cbn; try reflexivity.
  cbn in Hi. rewrite IH by lia. reflexivity.
Qed.

Lemma nth_upd_other {A} (l : list A) : forall i j x d, i <> j -> nth i (upd l j x) d = nth i l d.
Proof.
  induction l as [|y l IH]; intros i j x d Hne; [destruct i, j; reflexivity|].
  destruct j as [|j], i as [|i]; cbn; try reflexivity; try lia.
  apply IH. lia.
Qed.

Lemma list_eq_nth {A} (d : A) (l l' : list A) :
  length l = length l' -> (forall i, i < length l -> nth i l d = nth i l' d) -> l = l'.
Proof.
  revert l'. induction l as [|x l IH]; intros [|y l'] Hlen H; cbn in Hlen; try lia; [reflexivity|].
  f_equal.
  - apply (H 0). cbn. lia.
  - apply IH; [lia|]. intros i Hi. apply (H (S i)). cbn. lia.
Qed.

Lemma map_nth_seq {A} (d : A) (l : list A) : l = map (fun i => nth i l d) (seq 0 (length l)).
Proof.
  induction l as [|x l IH]; [reflexivity|].
  cbn [length seq map nth]. f_equal.
  rewrite <- seq_shift, map_map. exact IH.
Qed.

Lemma nth_map_default {A B} (g : A -> B) (l : list A) : forall j d d', j < length l -> nth j (map g l) d' = g (nth j l d).
Proof.
  induction l as [|x l IH]; intros [|j] d d' Hj; cbn in *; try lia; [reflexivity|]. apply IH. lia.
Qed.

Lemma existsb_map_comp {A B} (p : B -> bool) (g : A -> B) l : existsb p (map g l) = existsb (fun x => p (g x)) l.
Proof. induction l as [|x l IH]; cbn; [reflexivity|]. now rewrite IH. Qed.

Lemma existsb_ext_in' {A} (p q : A -> bool) l : (forall x, In x l -> p x = q x) -> existsb p l = existsb q l.
Proof.
  induction l as [|x l IH]; intros H; cbn; [reflexivity|].
  rewrite (H x (or_introl eq_refl)), IH; [reflexivity|]. intros; apply H; right; assumption.
Qed.

Lemma filter_none {A} (p : A -> bool) l : (forall x, In x l -> p x = false) -> filter p l = [].
Proof.
  induction l as [|x l IH]; intros H; cbn; [reflexivity|].
  rewrite (H x (or_introl eq_refl)). apply IH. intros; apply H; right; assumption.
Qed.

Lemma filter_all {A} (p : A -> bool) l : (forall x, In x l -> p x = true) -> filter p l = l.
Proof.
  induction l as [|x l IH]; intros H; cbn; [reflexivity|].
  rewrite (H x (or_introl eq_refl)). f_equal. apply IH. intros; apply H; right; assumption.
Qed.

Lemma NoDup_app_disj {A} (a b : list A) : NoDup a -> NoDup b -> (forall x, In x a -> In x b -> False) -> NoDup (a ++ b).
Proof.
  induction a as [|x a IH]; intros Ha Hb Hd; cbn; [exact Hb|].
  inversion Ha as [|? ? Hni Ha']; subst. constructor.
  - intros Hin. apply in_app_or in Hin as [Hin|Hin]; [contradiction | eapply Hd; [left; reflexivity | exact Hin]].
  - apply IH; [exact Ha' | exact Hb | intros y Hy; apply Hd; right; exact Hy].
Qed.

(* ------------------------------------------------------------------ cartesian products *)
Definition memb (c : nat) (l : list nat) : bool := existsb (Nat.eqb c) l.
Definition memb_all (e : list nat) (ls : list (list nat)) : bool := forallb2 memb e ls.

Lemma memb_In c l : memb c l = true <-> In c l.
Proof.
  unfold memb. rewrite existsb_exists. split.
  - intros [x [Hx Heq]]. apply Nat.eqb_eq in Heq. now subst.
  - intros H. exists c. split; [exact H | apply Nat.eqb_refl].
Qed.

Lemma cart_In ls : forall e, In e (cart ls) <-> memb_all e ls = true.
Proof.
  induction ls as [|l ls IH]; intros e; cbn.
  - destruct e; cbn; split; intros H; try discriminate; auto. destruct H as [H|[]]. discriminate.
  - rewrite in_flat_map. split.
    + intros [i [Hi Hin]]. apply in_map_iff in Hin. destruct Hin as [e' [He Hin]]. subst e.
      unfold memb_all. cbn. apply andb_true_iff. split; [now apply memb_In | now apply IH].
    + intros H. destruct e as [|c e]; [discriminate|]. unfold memb_all in H. cbn in H.
      apply andb_true_iff in H as [H1 H2]. exists c. split; [now apply memb_In|].
      apply in_map. now apply IH.
Qed.

Lemma all_indices_cart sh : all_indices sh = cart (map (seq 0) sh).
Proof. induction sh as [|d t IH]; cbn; [reflexivity|]. now rewrite IH. Qed.

Lemma in_bounds_memb sh : forall e, in_bounds sh e = memb_all e (map (seq 0) sh).
Proof.
  induction sh as [|d t IH]; intros [|c e]; cbn [in_bounds map]; try reflexivity.
  unfold memb_all. cbn [forallb2]. fold (memb_all e (map (seq 0) t)). rewrite IH. f_equal.
  apply Bool.eq_iff_eq_true. rewrite Nat.ltb_lt, memb_In, in_seq. lia.
Qed.

Lemma all_indices_In sh e : In e (all_indices sh) <-> in_bounds sh e = true.
Proof. now rewrite all_indices_cart, cart_In, in_bounds_memb. Qed.

(* every per-axis list stays inside its axis *)
Definition within (ls : list (list nat)) (ext : list nat) : Prop :=
  Forall2 (fun l n => forall x, In x l -> x < n) ls ext.

Lemma memb_all_in_bounds ls ext : within ls ext -> forall e, memb_all e ls = true -> in_bounds ext e = true.
Proof.
  induction 1 as [|l n ls ext Hl _ IH]; intros [|c e] H; cbn in *; try discriminate; try reflexivity.
  unfold memb_all in H. cbn in H. apply andb_true_iff in H as [H1 H2].
  apply andb_true_iff. split; [apply Nat.ltb_lt, Hl; now apply memb_In | now apply IH].
Qed.

(* ------------------------------------------------------------------ NumPy boolean assignment *)
Lemma fold_upd_true ext L : forall acc i, i < length acc ->
  nth i (fold_left (fun a pos => upd a (ravel ext pos) true) L acc) false
  = nth i acc false || existsb (fun pos => ravel ext pos =? i) L.
Proof.
  induction L as [|x L IH]; intros acc i Hi; cbn [fold_left existsb].
  - now rewrite orb_false_r.
  - rewrite IH by (now rewrite upd_length). rewrite nth_upd by exact Hi.
    rewrite (Nat.eqb_sym (ravel ext x) i).
    destruct (i =? ravel ext x); cbn; [now rewrite orb_true_r | reflexivity].
Qed.

Lemma fold_upd_length ext L : forall acc,
  length (fold_left (fun a pos => upd a (ravel ext pos) true) L acc) = length acc.
Proof. induction L as [|x L IH]; intros acc; cbn; [reflexivity|]. now rewrite IH, upd_length. Qed.

Lemma mapM_Forall2 {A B} (f : A -> result B) (P : B -> A -> Prop) :
  (forall a b, f a = Ok b -> P b a) -> forall l r, mapM f l = Ok r -> Forall2 P r l.
Proof.
  intros Hf. induction l as [|a l IH]; intros r H; cbn in H.
  - injection H as <-. constructor.
  - destruct (f a) eqn:E; cbn in H; [|discriminate].
    destruct (mapM f l) eqn:E2; cbn in H; [|discriminate]. injection H as <-.
    constructor; [now apply Hf | now apply IH].
Qed.

Lemma mapM_length {A B} (f : A -> result B) : forall l r, mapM f l = Ok r -> length r = length l.
Proof.
  induction l as [|a l IH]; intros r H; cbn in H.
  - now injection H as <-.
  - destruct (f a); cbn in H; [|discriminate]. destruct (mapM f l) eqn:E; cbn in H; [|discriminate].
    injection H as <-. cbn. f_equal. now apply IH.
Qed.

Lemma selections_within key : forall ext ls, length key = length ext ->
  mapM (fun kn : fsel * nat => fsel_indices (fst kn) (snd kn)) (combine key ext) = Ok ls -> within ls ext.
Proof.
  induction key as [|k key IH]; intros [|n ext] ls Hlen H; cbn in *; try lia.
  - injection H as <-. constructor.
  - destruct (fsel_indices k n) eqn:E; cbn in H; [|discriminate].
    destruct (mapM _ (combine key ext)) eqn:E2; cbn in H; [|discriminate]. injection H as <-.
    constructor; [intros x Hx; eapply fsel_indices_in_range; eauto | apply IH; [lia | exact E2]].
Qed.

(* select[key] = True sets exactly the positions whose coordinates all lie in the per-axis selections *)
Theorem np_assign_true_spec ext key m :
  length key = length ext ->
  np_assign_true ext key = Ok m ->
  exists ls, mapM (fun kn : fsel * nat => fsel_indices (fst kn) (snd kn)) (combine key ext) = Ok ls
             /\ m = map (fun e => memb_all e ls) (all_indices ext).
Proof.
  intros Hlen H. unfold np_assign_true in H.
  rewrite Hlen, Nat.ltb_irrefl, Nat.sub_diag in H. cbn [repeat] in H. rewrite app_nil_r in H.
  destruct (mapM _ (combine key ext)) as [ls|] eqn:E; cbn in H; [|discriminate].
  injection H as H. exists ls. split; [reflexivity|].
  pose proof (selections_within _ _ _ Hlen E) as Hw.
  set (N := prod ext) in *.
  assert (HlenM : length m = N).
  { subst m. rewrite fold_upd_length. apply repeat_length. }
  rewrite (map_nth_seq false m), HlenM.
  rewrite <- unravel_enumerates, map_map. fold N.
  apply map_ext_in. intros i Hi. apply in_seq in Hi.
  subst m. rewrite fold_upd_true by (rewrite repeat_length; lia).
  rewrite nth_repeat. cbn [orb].
  apply Bool.eq_iff_eq_true. rewrite existsb_exists. split.
  - intros [pos [Hin Heq]]. apply Nat.eqb_eq in Heq. apply cart_In in Hin.
    pose proof (memb_all_in_bounds _ _ Hw _ Hin) as Hb.
    rewrite <- Heq, unravel_ravel by exact Hb. exact Hin.
  - intros Hm. exists (unravel ext i). split; [now apply cart_In|].
    apply Nat.eqb_eq. apply ravel_unravel. lia.
Qed.

(* coordinate-wise reading of the per-axis selections of a request *)
Lemma memb_all_in_part d : forall names ext e ls,
  mapM (fun kn : fsel * nat => fsel_indices (fst kn) (snd kn)) (combine (map (key_of d) names) ext) = Ok ls ->
  length names = length ext -> in_bounds ext e = true ->
  memb_all e ls = in_part d names ext e.
Proof.
  induction names as [|a names IH]; intros [|n ext] [|c e] ls H Hlen Hb; cbn in *; try lia; try discriminate.
  - injection H as <-. reflexivity.
  - destruct (fsel_indices (key_of d a) n) as [l|] eqn:E; cbn in H; [|discriminate].
    destruct (mapM _ (combine (map (key_of d) names) ext)) as [ls'|] eqn:E2; cbn in H; [|discriminate].
    injection H as <-. apply andb_true_iff in Hb as [Hc Hb].
    unfold memb_all. cbn [forallb2]. fold (memb_all e ls').
    rewrite (IH ext e ls' E2) by (lia || assumption). f_equal.
    unfold coord_ok, key_of in *. destruct (dict_get d a) as [f|].
    + rewrite E. reflexivity.
    + rewrite full_slice_indices in E. injection E as <-.
      apply memb_In, in_seq. apply Nat.ltb_lt in Hc. lia.
Qed.

(* selected_is_product: the mask of a request is the declarative part_positions *)
Theorem assign_is_part_positions d names ext m :
  length names = length ext ->
  np_assign_true ext (map (key_of d) names) = Ok m ->
  m = part_positions d names ext.
Proof.
  intros Hlen H.
  destruct (np_assign_true_spec ext (map (key_of d) names) m) as [ls [Hls Hm]];
    [now rewrite map_length | exact H |].
  subst m. unfold part_positions. apply map_ext_in. intros e He.
  apply all_indices_In in He. now apply memb_all_in_part.
Qed.

Lemma ext_of_map {A B} (f : A -> B) (mask : list bool) : forall l, ext_of mask (map f l) = map f (ext_of mask l).
Proof.
  induction mask as [|b mask IH]; intros [|x l]; cbn; try reflexivity; destruct b; cbn; try reflexivity.
  - now rewrite IH.
  - apply IH.
Qed.

Lemma ext_of_length2 {A B} (mask : list bool) : forall (l : list A) (l' : list B),
  length l = length l' -> length (ext_of mask l) = length (ext_of mask l').
Proof.
  induction mask as [|b mask IH]; intros [|x l] [|y l'] H; cbn in *; try reflexivity; try lia;
    destruct b; cbn; try reflexivity; try (f_equal; apply IH; lia); apply IH; lia.
Qed.

(* the mask computed by _mask_fixed_axes is the declarative selection over the external index space *)
Theorem mask_fixed_axes_spec d ms sh mask m :
  length sh = length (output_indices ms) ->
  mask_fixed_axes (Some d) ms sh mask = Ok (Some m) ->
  m = part_positions d (ext_of mask (output_indices ms)) (ext_of mask sh).
Proof.
  intros Hlen H. unfold mask_fixed_axes in H.
  destruct (np_assign_true _ _) as [m'|] eqn:E; cbn in H; [|discriminate]. injection H as <-.
  rewrite ext_of_map in E. apply assign_is_part_positions; [|exact E].
  apply ext_of_length2. now rewrite Hlen.
Qed.

(* ------------------------------------------------------------------ partitions of the index space *)
Lemma in_part_nth d : forall names ext e,
  in_part d names ext e = true <->
  (length names = length ext /\ length ext = length e /\
   forall k a n c, nth_error names k = Some a -> nth_error ext k = Some n -> nth_error e k = Some c ->
                   coord_ok d a n c = true).
Proof.
  induction names as [|a names IH]; intros ext e.
  - destruct ext as [|n ext], e as [|c e]; cbn [in_part]; split; intros H; try discriminate.
    + split; [reflexivity|]. split; [reflexivity|]. intros [|k] ? ? ? Hk; cbn in Hk; discriminate.
    + reflexivity.
    + destruct H as [_ [H2 _]]. cbn in H2. lia.
    + destruct H as [H1 _]. cbn in H1. lia.
    + destruct H as [H1 _]. cbn in H1. lia.
  - destruct ext as [|n ext], e as [|c e]; cbn [in_part]; split; intros H; try discriminate.
    + destruct H as [H1 _]. cbn in H1. lia.
    + destruct H as [H1 _]. cbn in H1. lia.
    + destruct H as [_ [H2 _]]. cbn in H2. lia.
    + apply andb_true_iff in H as [Hc Hr]. apply IH in Hr as [L1 [L2 Hr]].
      split; [cbn; lia|]. split; [cbn; lia|].
      intros [|k] a' n' c' Ha Hn He; cbn in Ha, Hn, He.
      * injection Ha as <-. injection Hn as <-. injection He as <-. exact Hc.
      * eapply Hr; eauto.
    + destruct H as [L1 [L2 Hr]]. cbn in L1, L2. apply andb_true_iff. split.
      * apply (Hr 0); reflexivity.
      * apply IH. split; [lia|]. split; [lia|]. intros k a' n' c' Ha Hn He. apply (Hr (S k)); assumption.
Qed.

Lemma filter_length_le {A} (p q : A -> bool) l :
  (forall x, In x l -> p x = true -> q x = true) -> length (filter p l) <= length (filter q l).
Proof.
  induction l as [|x l IH]; intros H; cbn; [lia|].
  assert (IH' : length (filter p l) <= length (filter q l)) by (apply IH; intros; apply H; [right|]; assumption).
  destruct (p x) eqn:Ep.
  - rewrite (H x (or_introl eq_refl) Ep). cbn. lia.
  - destruct (q x); cbn; lia.
Qed.

Lemma filter_length_ext {A} (p q : A -> bool) l :
  (forall x, In x l -> p x = q x) -> length (filter p l) = length (filter q l).
Proof.
  intros H. apply Nat.le_antisymm; apply filter_length_le; intros x Hx Hp.
  - now rewrite <- H.
  - now rewrite H.
Qed.

Lemma pos_of_nth x l k : NoDup l -> nth_error l k = Some x -> pos_of x l = Some k.
Proof.
  revert k. induction l as [|y l IH]; intros [|k] Hnd Hk; cbn in *; try discriminate.
  - injection Hk as ->. now rewrite str_eqb_refl.
  - inversion Hnd as [|? ? Hni Hnd']; subst.
    destruct (str_eqb x y) eqn:E.
    + apply str_eqb_eq in E. subst. exfalso. apply Hni. eapply nth_error_In; eauto.
    + rewrite (IH k Hnd' Hk). reflexivity.
Qed.

Lemma pos_of_Some_nth x l k : pos_of x l = Some k -> nth_error l k = Some x.
Proof.
  revert k. induction l as [|y l IH]; intros k H; cbn in H; [discriminate|].
  destruct (str_eqb x y) eqn:E.
  - injection H as <-. apply str_eqb_eq in E. now subst.
  - destruct (pos_of x l) as [j|]; cbn in H; [|discriminate]. injection H as <-. cbn. now apply IH.
Qed.

Lemma pos_of_None_notin x l : pos_of x l = None -> ~ In x l.
Proof.
  induction l as [|y l IH]; cbn; intros H; [tauto|].
  destruct (str_eqb x y) eqn:E; [discriminate|].
  destruct (pos_of x l); cbn in H; [discriminate|].
  intros [->|Hin]; [now rewrite str_eqb_refl in E | now apply IH].
Qed.

Lemma dict_get_In_fst {V} (d : list (str * V)) k v : dict_get d k = Some v -> In k (map fst d).
Proof.
  induction d as [|[k' v'] d IH]; cbn; intros H; [discriminate|].
  destruct (str_eqb k k') eqn:E; [left; symmetry; now apply str_eqb_eq | right; now apply IH].
Qed.

Section Partition.
  Variable parts : list request.
  Variable axes : list (str * nat).
  Variable names : list str.
  Variable ext : list nat.
  Hypothesis Hax_nd : NoDup (map fst axes).
  Hypothesis Hnames_nd : NoDup names.
  Hypothesis Hpos : forall a n, In (a, n) axes -> 0 < n.
  Hypothesis Hlen : length names = length ext.
  (* an axis of the family that the function carries has the family's size *)
  Hypothesis Hsize : forall k a n, nth_error names k = Some a -> In (a, n) axes -> nth_error ext k = Some n.
  Hypothesis Hdom : forall d a, In d parts -> In a (map fst d) -> In a (map fst axes).

  (* the point of the family's index space below an external position of the function *)
  Definition project (e : list nat) : list nat :=
    map (fun an => match pos_of (fst an) names with Some k => nth k e 0 | None => 0 end) axes.

  Lemma axes_nth j a n : nth_error axes j = Some (a, n) ->
    nth_error (map fst axes) j = Some a /\ nth_error (map snd axes) j = Some n.
  Proof. intros H. split; rewrite nth_error_map, H; reflexivity. Qed.

  Lemma project_in_bounds e : in_bounds ext e = true -> in_bounds (map snd axes) (project e) = true.
  Proof.
    intros Hb. unfold project.
    assert (G : forall l, (forall a n, In (a, n) l -> In (a, n) axes) ->
                in_bounds (map snd l)
                  (map (fun an => match pos_of (fst an) names with Some k => nth k e 0 | None => 0 end) l) = true).
    { induction l as [|[a n] l IH]; intros Hsub; cbn [map in_bounds fst snd]; [reflexivity|].
      apply andb_true_iff. split; [|apply IH; intros; apply Hsub; right; assumption].
      apply Nat.ltb_lt. assert (Hin : In (a, n) axes) by (apply Hsub; left; reflexivity).
      destruct (pos_of a names) as [k|] eqn:Ek; [|now apply (Hpos a)].
      apply pos_of_Some_nth in Ek. pose proof (Hsize k a n Ek Hin) as Hn.
      clear - Hb Hn. revert ext Hb k Hn. induction e as [|c e' IHe]; intros [|m ext'] Hb k Hn; cbn in *;
        try discriminate; try (destruct k; discriminate).
      apply andb_true_iff in Hb as [Hc Hb]. destruct k as [|k]; cbn in *.
      - injection Hn as <-. now apply Nat.ltb_lt.
      - eapply IHe; eauto. }
    apply G. auto.
  Qed.

  Lemma in_bounds_length sh : forall e, in_bounds sh e = true -> length sh = length e.
  Proof.
    induction sh as [|d t IH]; intros [|c e] H; cbn in *; try discriminate; [reflexivity|].
    apply andb_true_iff in H as [_ H]. f_equal. now apply IH.
  Qed.

  (* a part that contains the projected point contains the position *)
  Lemma part_of_project d e : In d parts -> in_bounds ext e = true ->
    in_part d (map fst axes) (map snd axes) (project e) = true -> in_part d names ext e = true.
  Proof.
    intros Hd Hb H. apply in_part_nth in H as [_ [_ H]]. apply in_part_nth.
    split; [exact Hlen|]. split; [now apply in_bounds_length|].
    intros k a n c Ha Hn Hc. unfold coord_ok. destruct (dict_get d a) as [f|] eqn:Ef; [|reflexivity].
    assert (Hin : In a (map fst axes)) by (eapply Hdom; eauto; eapply dict_get_In_fst; eauto).
    apply In_nth_error in Hin as [j Hj].
    rewrite nth_error_map in Hj. destruct (nth_error axes j) as [[a' n']|] eqn:Ej; cbn in Hj; [|discriminate].
    injection Hj as ->.
    assert (Hn' : n' = n).
    { pose proof (Hsize k a n' Ha (nth_error_In _ _ Ej)) as Hx. rewrite Hn in Hx. now injection Hx. }
    subst n'. destruct (axes_nth _ _ _ Ej) as [J1 J2].
    specialize (H j a n c J1 J2). unfold coord_ok in H. rewrite Ef in H. apply H.
    unfold project. rewrite nth_error_map, Ej. cbn [option_map fst].
    rewrite (pos_of_nth a names k Hnames_nd Ha). f_equal.
    apply nth_error_nth. exact Hc.
  Qed.

  (* conversely, when the function carries every axis of the family *)
  Lemma project_of_part d e : (forall a, In a (map fst axes) -> In a names) -> in_bounds ext e = true ->
    in_part d names ext e = true -> in_part d (map fst axes) (map snd axes) (project e) = true.
  Proof.
    intros Hall Hb H. apply in_part_nth in H as [_ [L2 H]]. apply in_part_nth.
    split; [now rewrite !map_length|]. split; [unfold project; now rewrite !map_length|].
    intros j a n c J1 J2 J3.
    rewrite nth_error_map in J1, J2. destruct (nth_error axes j) as [[a' n']|] eqn:Ej; cbn in J1, J2; [|discriminate].
    injection J1 as ->. injection J2 as ->.
    assert (Hin : In a names) by (apply Hall; apply in_map_iff; exists (a, n); split; [reflexivity | eapply nth_error_In; eauto]).
    apply In_nth_error in Hin as [k Hk].
    pose proof (Hsize k a n Hk (nth_error_In _ _ Ej)) as Hn.
    unfold project in J3. rewrite nth_error_map, Ej in J3. cbn [option_map fst] in J3.
    rewrite (pos_of_nth a names k Hnames_nd Hk) in J3. injection J3 as <-.
    apply (H k a n (nth k e 0) Hk Hn).
    apply nth_error_nth'. rewrite <- L2. apply nth_error_Some. now rewrite Hn.
  Qed.

  Definition containing (e : list nat) : nat := length (filter (fun d => in_part d names ext e) parts).

  (* parts_cover_disjoint *)
  Theorem parts_cover_disjoint e :
    family_partitions parts axes = true -> in_bounds ext e = true ->
    1 <= containing e /\ ((forall a, In a (map fst axes) -> In a names) -> containing e = 1).
  Proof.
    intros Hfam Hb. unfold family_partitions in Hfam. apply andb_true_iff in Hfam as [_ Hfam].
    rewrite forallb_forall in Hfam.
    pose proof (project_in_bounds e Hb) as Hpb. apply all_indices_In in Hpb.
    specialize (Hfam _ Hpb). apply Nat.eqb_eq in Hfam. unfold n_containing in Hfam.
    split.
    - unfold containing. rewrite <- Hfam. apply filter_length_le. intros d Hd. now apply part_of_project.
    - intros Hall. unfold containing. rewrite <- Hfam. apply filter_length_ext. intros d Hd.
      apply Bool.eq_iff_eq_true. split; [now apply project_of_part | now apply part_of_project].
  Qed.
End Partition.

(* ------------------------------------------------------------------ one mapped function on an existing store *)
Lemma calls_of_app a b : calls_of (a ++ b) = calls_of a ++ calls_of b.
Proof. unfold calls_of. apply flat_map_app. Qed.

Lemma calls_of_dumps {A} (g : A -> action) l : (forall x, match g x with ACall _ _ _ => False | _ => True end) ->
  calls_of (map g l) = [].
Proof.
  intros H. induction l as [|x l IH]; cbn; [reflexivity|].
  specialize (H x). destruct (g x); [contradiction | exact IH | exact IH].
Qed.

Lemma output_key_unravel ms ext i key : output_key ms ext i = Ok key -> key = unravel ext i.
Proof.
  unfold output_key, unravel_checked. intros H.
  destruct (negb (length ext =? n_input_indices ms)); [discriminate|].
  destruct (existsb (Nat.eqb 0) ext); [discriminate|]. now injection H as <-.
Qed.

Section Func.
  Variable body : mfunc -> env -> result (list val).
  Variables (f : mfunc) (ms : mapspec) (kw : env) (sh : list nat) (mask : list bool).
  Notation ext := (ext_of mask sh).
  Notation N := (prod (ext_of mask sh)).

  (* what element i yields (meaningful when the element can be computed) *)
  Definition sel_at (i : nat) : env :=
    match select_kwargs ms kw ext i with Ok sel => sel | Err _ => [] end.
  Definition outs_at (i : nat) : list val :=
    match body f (sel_at i) with Ok outs => outs | Err _ => [] end.

  Definition put_all (stores : list estore) (i : nat) (outs : list val) : list estore :=
    map (fun sv : estore * val => upd (fst sv) i (Some (Ok (snd sv)))) (combine stores outs).

  Definition elem_trace (i : nat) : list action :=
    ACall (fname f) (Some i) (sel_at i) :: map (fun ov : str * val => ADump (fst ov) i (snd ov)) (combine (fouts f) (outs_at i)).

  Lemma compute_elem_inv st i st' : i < N ->
    compute_elem body f ms kw sh mask st i = ROk st' ->
    length (outs_at i) = length (fouts f) /\
    st' = {| m_stores := put_all (m_stores st) i (outs_at i);
             m_results := m_results st ++ [(i, outs_at i)];
             m_tr := m_tr st ++ elem_trace i |}.
  Proof.
    intros Hi H. unfold compute_elem in H. unfold elem_trace, outs_at, sel_at.
    destruct (select_kwargs ms kw ext i) as [sel|] eqn:Es; cbn [lift rbind] in H; [|discriminate].
    destruct (body f sel) as [outs|] eqn:Eb; cbn [lift rbind] in H; [|discriminate].
    destruct (length outs =? length (fouts f)) eqn:El; cbn [negb] in H; [|discriminate].
    destruct (output_key ms ext i) as [key|] eqn:Ek; cbn [lift rbind] in H; [|discriminate].
    apply output_key_unravel in Ek. subst key. rewrite ravel_unravel in H by exact Hi.
    injection H as <-. apply Nat.eqb_eq in El. split; [exact El|].
    unfold put_all. cbn [app]. rewrite <- app_assoc. reflexivity.
  Qed.

  Definition step_fold (L : list nat) (st0 : mstate) : res mstate :=
    fold_left (fun acc i => rdo st <- acc; compute_elem body f ms kw sh mask st i) L (ROk st0).

  Lemma fold_err L e tr :
    fold_left (fun acc i => rdo st <- acc; compute_elem body f ms kw sh mask st i) L (RErr e tr) = RErr e tr.
  Proof. induction L as [|x L IH]; cbn; [reflexivity | exact IH]. Qed.

  Lemma step_fold_cons x L st0 st :
    step_fold (x :: L) st0 = ROk st ->
    exists st1, compute_elem body f ms kw sh mask st0 x = ROk st1 /\ step_fold L st1 = ROk st.
  Proof.
    unfold step_fold. cbn [fold_left rbind]. intros H.
    destruct (compute_elem body f ms kw sh mask st0 x) as [st1|e tr] eqn:E.
    - exists st1. split; [reflexivity | exact H].
    - rewrite fold_err in H. discriminate.
  Qed.

  (* the stores after the elements of L were computed and dumped: cell x of output j *)
  Definition dflt : val := VS [].
  Definition filled (L : list nat) (stores stores' : list estore) : Prop :=
    length stores' = length stores /\
    forall j, j < length stores ->
      length (nth j stores' []) = length (nth j stores []) /\
      forall x, x < length (nth j stores []) ->
        nth x (nth j stores' []) None
        = if memb x L then Some (Ok (nth j (outs_at x) dflt)) else nth x (nth j stores []) None.

  Lemma filled_unique L stores s1 s2 : filled L stores s1 -> filled L stores s2 -> s1 = s2.
  Proof.
    intros [L1 H1] [L2 H2]. apply (@list_eq_nth estore []); [exact (eq_trans L1 (eq_sym L2))|].
    intros j Hj. rewrite L1 in Hj. destruct (H1 j Hj) as [A1 B1], (H2 j Hj) as [A2 B2].
    apply (@list_eq_nth cell None); [exact (eq_trans A1 (eq_sym A2))|]. intros x Hx. rewrite A1 in Hx.
    rewrite B1, B2 by exact Hx. reflexivity.
  Qed.

  Lemma filled_ext L L' stores s' : (forall x, memb x L = memb x L') -> filled L stores s' -> filled L' stores s'.
  Proof.
    intros He [L1 H1]. split; [exact L1|]. intros j Hj. destruct (H1 j Hj) as [A B]. split; [exact A|].
    intros x Hx. rewrite B by exact Hx. now rewrite He.
  Qed.

  Lemma filled_nil stores : filled [] stores stores.
  Proof. split; [reflexivity|]. intros j Hj. split; [reflexivity|]. intros x Hx. reflexivity. Qed.

  Lemma put_all_length stores i outs : length outs = length stores -> length (put_all stores i outs) = length stores.
  Proof. intros H. unfold put_all. rewrite map_length, combine_length. lia. Qed.

  Lemma put_all_nth stores i outs j : length outs = length stores -> j < length stores ->
    nth j (put_all stores i outs) [] = upd (nth j stores []) i (Some (Ok (nth j outs dflt))).
  Proof.
    intros Hl Hj. unfold put_all.
    etransitivity.
    { apply (nth_map_default _ _ j (([] : estore), dflt)). rewrite combine_length. lia. }
    cbn beta. rewrite combine_nth by (symmetry; exact Hl). reflexivity.
  Qed.

  Lemma filled_step L stores s1 x :
    length (outs_at x) = length stores -> filled L stores s1 ->
    filled (L ++ [x]) stores (put_all s1 x (outs_at x)).
  Proof.
    intros Ho [L1 H1]. split; [rewrite put_all_length; congruence|].
    intros j Hj. destruct (H1 j Hj) as [A B].
    rewrite put_all_nth by congruence. split; [now rewrite upd_length|].
    intros y Hy. unfold memb. rewrite existsb_app. cbn [existsb]. rewrite orb_false_r. fold (memb y L).
    destruct (y =? x) eqn:E.
    - apply Nat.eqb_eq in E. subst y. rewrite nth_upd by congruence. rewrite Nat.eqb_refl, orb_true_r. reflexivity.
    - rewrite orb_false_r. rewrite nth_upd_other by (apply Nat.eqb_neq; exact E). now apply B.
  Qed.

  (* computing the elements of L in order *)
  Lemma step_fold_spec L : forall st0 st L0 stores,
    (forall x, In x L -> x < N) ->
    length stores = length (fouts f) ->
    filled L0 stores (m_stores st0) ->
    step_fold L st0 = ROk st ->
    filled (L0 ++ L) stores (m_stores st)
    /\ m_results st = m_results st0 ++ map (fun i => (i, outs_at i)) L
    /\ m_tr st = m_tr st0 ++ flat_map elem_trace L.
  Proof.
    induction L as [|x L IH]; intros st0 st L0 stores Hlt Hk Hf H.
    - cbn in H. injection H as <-. rewrite !app_nil_r. auto.
    - apply step_fold_cons in H as [st1 [Hc Hr]].
      apply compute_elem_inv in Hc as [Ho ->]; [|apply Hlt; left; reflexivity].
      assert (Hf' : filled (L0 ++ [x]) stores (put_all (m_stores st0) x (outs_at x))).
      { apply filled_step; [exact (eq_trans Ho (eq_sym Hk)) | exact Hf]. }
      match type of Hr with step_fold _ ?s = _ =>
        destruct (IH s st (L0 ++ [x]) stores (fun y Hy => Hlt y (or_intror Hy)) Hk Hf' Hr) as [I1 [I2 I3]] end.
      cbn [m_stores m_results m_tr] in I1, I2, I3.
      rewrite <- app_assoc in I1. cbn [app] in I1.
      split; [exact I1|]. split.
      + rewrite I2, <- app_assoc. reflexivity.
      + rewrite I3, <- app_assoc. reflexivity.
  Qed.

  Lemma calls_of_elem_trace i : calls_of (elem_trace i) = [(fname f, Some i)].
  Proof.
    unfold elem_trace. cbn [calls_of flat_map]. cbn [app]. f_equal.
    change (flat_map _ ?l) with (calls_of l). apply calls_of_dumps. intros; exact I.
  Qed.

  Lemma calls_of_flat L : calls_of (flat_map elem_trace L) = map (fun i => (fname f, Some i)) L.
  Proof.
    induction L as [|x L IH]; [reflexivity|]. cbn [flat_map map].
    rewrite calls_of_app, calls_of_elem_trace, IH. reflexivity.
  Qed.

  (* ---- classification ---- *)
  Definition miss_any (stores : list estore) (i : nat) : bool :=
    existsb (fun st => cell_missing (nth i st None)) stores.
  Definition selb (fm : option (list bool)) (i : nat) : bool :=
    match fm with None => true | Some m => nth i m false end.

  Lemma classify_eq stores fm n :
    classify stores fm n = (filter (fun i => selb fm i && negb (miss_any stores i)) (seq 0 n),
                            filter (fun i => selb fm i && miss_any stores i) (seq 0 n)).
  Proof. reflexivity. Qed.

  (* part_computes_exactly (one function): a run with request fx computes exactly the selected elements
     that miss some output, dumps them, and touches nothing else.  Stated relative to an earlier store
     stores0 from which the current one was obtained by computing the elements L0. *)
  Theorem submit_mapped_exact_gen fx stores0 L0 stores tr st existing :
    length stores0 = length (fouts f) ->
    filled L0 stores0 stores ->
    submit_mapped body f ms kw sh mask fx stores tr = ROk (st, existing) ->
    exists fm, mask_fixed_axes fx ms sh mask = Ok fm /\
      let missing := filter (fun i => selb fm i && miss_any stores i) (seq 0 N) in
      existing = filter (fun i => selb fm i && negb (miss_any stores i)) (seq 0 N)
      /\ filled (L0 ++ missing) stores0 (m_stores st)
      /\ m_results st = map (fun i => (i, outs_at i)) missing
      /\ m_tr st = tr ++ flat_map elem_trace missing
      /\ calls_of (m_tr st) = calls_of tr ++ map (fun i => (fname f, Some i)) missing.
  Proof.
    intros Hk Hf0 H. unfold submit_mapped in H.
    destruct (mask_fixed_axes fx ms sh mask) as [fm|] eqn:Em; cbn [lift rbind] in H; [|discriminate].
    exists fm. split; [reflexivity|]. rewrite classify_eq in H. cbn [fst snd] in H.
    set (missing := filter (fun i => selb fm i && miss_any stores i) (seq 0 N)) in *.
    fold (step_fold missing {| m_stores := stores; m_results := []; m_tr := tr |}) in H.
    destruct (step_fold missing _) as [st'|] eqn:Ef; cbn [rbind] in H; [|discriminate].
    injection H as <- <-.
    apply (step_fold_spec missing _ _ L0 stores0) in Ef.
    - cbn [m_stores m_results m_tr app] in Ef. destruct Ef as [F1 [F2 F3]].
      split; [reflexivity|]. split; [exact F1|]. split; [exact F2|]. split; [exact F3|].
      rewrite F3, calls_of_app, calls_of_flat. reflexivity.
    - intros x Hx. apply filter_In in Hx as [Hx _]. apply in_seq in Hx. lia.
    - exact Hk.
    - exact Hf0.
  Qed.

  Theorem submit_mapped_exact fx stores tr st existing :
    length stores = length (fouts f) ->
    submit_mapped body f ms kw sh mask fx stores tr = ROk (st, existing) ->
    exists fm, mask_fixed_axes fx ms sh mask = Ok fm /\
      let missing := filter (fun i => selb fm i && miss_any stores i) (seq 0 N) in
      existing = filter (fun i => selb fm i && negb (miss_any stores i)) (seq 0 N)
      /\ filled missing stores (m_stores st)
      /\ m_results st = map (fun i => (i, outs_at i)) missing
      /\ m_tr st = tr ++ flat_map elem_trace missing
      /\ calls_of (m_tr st) = calls_of tr ++ map (fun i => (fname f, Some i)) missing.
  Proof. intros Hk H. exact (submit_mapped_exact_gen fx stores [] stores tr st existing Hk (filled_nil stores) H). Qed.

  (* ---- presence after a run ---- *)
  Definition all_len (stores : list estore) : Prop := forall j, j < length stores -> length (nth j stores []) = N.

  Lemma existsb_nth {A} (p : A -> bool) (d : A) l : existsb p l = existsb (fun j => p (nth j l d)) (seq 0 (length l)).
  Proof.
    rewrite (map_nth_seq d l) at 1. rewrite existsb_map_comp. reflexivity.
  Qed.

  Lemma miss_any_filled L stores0 stores x : all_len stores0 -> x < N -> filled L stores0 stores ->
    miss_any stores x = negb (memb x L) && miss_any stores0 x.
  Proof.
    intros Hal Hx [L1 H1]. unfold miss_any.
    rewrite (existsb_nth _ ([] : estore) stores), (existsb_nth _ ([] : estore) stores0), L1.
    destruct (memb x L) eqn:Em; cbn [negb andb].
    - apply Bool.not_true_is_false. intros Hex. apply existsb_exists in Hex as [j [Hj Hc]].
      apply in_seq in Hj. destruct (H1 j) as [_ B]; [lia|]. rewrite B, Em in Hc by (rewrite Hal; lia). discriminate.
    - apply existsb_ext_in'. intros j Hj. apply in_seq in Hj. destruct (H1 j) as [_ B]; [lia|].
      rewrite B, Em by (rewrite Hal; lia). reflexivity.
  Qed.

  Lemma all_len_filled L stores0 stores : all_len stores0 -> filled L stores0 stores -> all_len stores.
  Proof.
    intros Hal [L1 H1] j Hj. rewrite L1 in Hj. destruct (H1 j Hj) as [A _].
    exact (eq_trans A (Hal j Hj)).
  Qed.

  (* final_run_computes_nothing (one function): nothing missing => no call, stores untouched *)
  Theorem submit_mapped_complete stores tr st existing :
    length stores = length (fouts f) ->
    (forall x, x < N -> miss_any stores x = false) ->
    submit_mapped body f ms kw sh mask None stores tr = ROk (st, existing) ->
    m_stores st = stores /\ m_tr st = tr /\ existing = seq 0 N.
  Proof.
    intros Hk Hc H. apply submit_mapped_exact in H as [fm [Hm [He [Hf [_ [Ht _]]]]]]; [|exact Hk].
    cbn in Hm. injection Hm as <-. cbn [selb andb] in *.
    assert (Hnil : filter (fun i => miss_any stores i) (seq 0 N) = []).
    { apply filter_none. intros x Hx. apply in_seq in Hx. apply Hc. lia. }
    rewrite Hnil in *. cbn [flat_map] in Ht. rewrite app_nil_r in Ht.
    split; [eapply filled_unique; [exact Hf | apply filled_nil]|]. split; [exact Ht|].
    rewrite He. apply filter_all. intros x Hx. apply in_seq in Hx. rewrite Hc by lia. reflexivity.
  Qed.

  (* ---- a family of requests, run one after the other on the same stores ---- *)
  Fixpoint run_reqs (reqs : list (option fixed)) (stores : list estore) (tr : list action)
    : res (list estore * list action) :=
    match reqs with
    | [] => ROk (stores, tr)
    | fx :: rest =>
        rdo r <- submit_mapped body f ms kw sh mask fx stores tr;
        run_reqs rest (m_stores (fst r)) (m_tr (fst r))
    end.

  (* x is selected by one of the requests *)
  Definition covered (reqs : list (option fixed)) (x : nat) : Prop :=
    exists fx fm, In fx reqs /\ mask_fixed_axes fx ms sh mask = Ok fm /\ selb fm x = true.

  Lemma run_reqs_spec reqs : forall stores0 L0 stores tr storesM trM,
    length stores0 = length (fouts f) -> all_len stores0 ->
    filled L0 stores0 stores -> NoDup L0 ->
    run_reqs reqs stores tr = ROk (storesM, trM) ->
    exists L, filled (L0 ++ L) stores0 storesM /\ NoDup (L0 ++ L)
              /\ calls_of trM = calls_of tr ++ map (fun i => (fname f, Some i)) L
              /\ (forall x, In x L <-> (x < N /\ ~ In x L0 /\ miss_any stores0 x = true /\ covered reqs x)).
  Proof.
    induction reqs as [|fx reqs IH]; intros stores0 L0 stores tr storesM trM Hk Hal Hf Hnd H.
    - cbn in H. injection H as <- <-. exists []. rewrite !app_nil_r. split; [exact Hf|]. split; [exact Hnd|].
      split; [reflexivity|]. intros x. split; [intros []|]. intros [_ [_ [_ [fx [fm [[] _]]]]]].
    - cbn [run_reqs] in H.
      destruct (submit_mapped body f ms kw sh mask fx stores tr) as [[st ex]|] eqn:Es; cbn [rbind fst] in H; [|discriminate].
      apply (submit_mapped_exact_gen fx stores0 L0) in Es as [fm [Hm [_ [Hf1 [_ [_ Hc1]]]]]]; [|exact Hk|exact Hf].
      set (M := filter (fun i => selb fm i && miss_any stores i) (seq 0 N)) in *.
      assert (HM : forall x, In x M <-> (x < N /\ selb fm x = true /\ ~ In x L0 /\ miss_any stores0 x = true)).
      { intros x. unfold M. rewrite filter_In, in_seq, andb_true_iff. split.
        - intros [Hx [Hs Hmi]]. rewrite (miss_any_filled L0 stores0 stores x Hal) in Hmi by (lia || exact Hf).
          apply andb_true_iff in Hmi as [Hn Hmi]. split; [lia|]. split; [exact Hs|]. split; [|exact Hmi].
          intros Hin. apply memb_In in Hin. rewrite Hin in Hn. discriminate.
        - intros [Hx [Hs [Hn Hmi]]]. split; [lia|]. split; [exact Hs|].
          rewrite (miss_any_filled L0 stores0 stores x Hal) by (lia || exact Hf). rewrite Hmi, andb_true_r.
          destruct (memb x L0) eqn:E; [apply memb_In in E; contradiction | reflexivity]. }
      assert (Hnd1 : NoDup (L0 ++ M)).
      { apply NoDup_app_disj; [exact Hnd | apply NoDup_filter, seq_NoDup |].
        intros x Hx HxM. apply HM in HxM. tauto. }
      destruct (IH stores0 (L0 ++ M) (m_stores st) (m_tr st) storesM trM Hk Hal Hf1 Hnd1 H) as [L [G1 [G2 [G3 G4]]]].
      exists (M ++ L). rewrite app_assoc. split; [exact G1|]. split; [exact G2|]. split.
      + rewrite G3, Hc1, map_app, app_assoc. reflexivity.
      + intros x. rewrite in_app_iff, HM, G4. split.
        * intros [[Hx [Hs [Hn Hmi]]] | [Hx [Hn [Hmi [fx' [fm' [Hin [Hm' Hs']]]]]]]].
          -- split; [exact Hx|]. split; [exact Hn|]. split; [exact Hmi|]. exists fx, fm. split; [left; reflexivity|]. tauto.
          -- split; [exact Hx|]. split; [intros Hc; apply Hn, in_or_app; tauto|]. split; [exact Hmi|].
             exists fx', fm'. split; [right; exact Hin|]. tauto.
        * intros [Hx [Hn [Hmi [fx' [fm' [[<-|Hin] [Hm' Hs']]]]]]].
          -- left. rewrite Hm in Hm'. injection Hm' as <-. tauto.
          -- destruct (in_dec Nat.eq_dec x M) as [HxM|HxM]; [left; apply HM; exact HxM|].
             right. split; [exact Hx|]. split; [intros Hc; apply in_app_or in Hc; tauto|]. split; [exact Hmi|].
             exists fx', fm'. tauto.
  Qed.

  (* pieces_eq_whole (one function, fixed arguments): requests that together select every missing element,
     run in any order on the same stores, leave exactly the stores of one full run; no element is computed
     twice and the calls are those of the full run *)
  Theorem pieces_eq_whole_func reqs stores0 tr0 storesM trM stF exF trF :
    length stores0 = length (fouts f) -> all_len stores0 ->
    run_reqs reqs stores0 tr0 = ROk (storesM, trM) ->
    submit_mapped body f ms kw sh mask None stores0 trF = ROk (stF, exF) ->
    (forall x, x < N -> miss_any stores0 x = true -> covered reqs x) ->
    storesM = m_stores stF
    /\ exists L LF, calls_of trM = calls_of tr0 ++ map (fun i => (fname f, Some i)) L
                    /\ calls_of (m_tr stF) = calls_of trF ++ map (fun i => (fname f, Some i)) LF
                    /\ NoDup L /\ NoDup LF /\ (forall x, In x L <-> In x LF).
  Proof.
    intros Hk Hal Hr HF Hcov.
    apply (run_reqs_spec reqs stores0 [] stores0) in Hr as [L [G1 [G2 [G3 G4]]]];
      [|exact Hk|exact Hal|apply filled_nil|constructor].
    cbn [app] in G1, G2.
    apply submit_mapped_exact in HF as [fm [Hm [_ [HfF [_ [_ HcF]]]]]]; [|exact Hk].
    cbn in Hm. injection Hm as <-. cbn [selb andb] in *.
    set (LF := filter (fun i => miss_any stores0 i) (seq 0 N)) in *.
    assert (Hmem : forall x, In x L <-> In x LF).
    { intros x. rewrite G4. unfold LF. rewrite filter_In, in_seq. split.
      - intros [Hx [_ [Hmi _]]]. split; [lia | exact Hmi].
      - intros [Hx Hmi]. split; [lia|]. split; [intros []|]. split; [exact Hmi|]. apply Hcov; [lia | exact Hmi]. }
    split.
    - eapply filled_unique; [exact G1|]. eapply filled_ext; [|exact HfF].
      intros x. apply Bool.eq_iff_eq_true. rewrite !memb_In. symmetry. apply Hmem.
    - exists L, LF. split; [exact G3|]. split; [exact HcF|]. split; [exact G2|]. split; [apply NoDup_filter, seq_NoDup | exact Hmem].
  Qed.
End Func.
