(* The map run with a cache (Model/MapRunCache.v) returns exactly what the map run without cache (Model/MapRun.v)
   returns - for every lawful cache, from every cache state whose entries are results of the pipeline's functions -
   and executes the user functions at most as often.  Induction over the loops from the per-invocation lemma. *)
From Verif Require Import Base.Prelude Base.StrUtil Base.Index Base.NdArr Model.MapSpec Model.MapRun Model.MapRunCache.

Section Facts.
  Variable body : mfunc -> env -> result (list val).
  Context {C : Type}.
  Variable P : kvcache mkey mval C.
  Variable good : C -> Prop.
  Hypothesis LAW : kv_lawful P good.
  Variable p : list mfunc.
  (* output names identify the functions of a pipeline (validate_unique_output_names) *)
  Hypothesis DIST : forall f g, In f p -> In g p -> fouts f = fouts g -> f = g.

  (* every entry that can be read is the result of the function with that output name on those keyword arguments *)
  Definition kinv (c : C) : Prop :=
    good c /\ forall k v, fst (kget P c k) = Some v -> exists f, In f p /\ fouts f = fst k /\ body f (snd k) = Ok v.

  Lemma gos_ok f kw c r c' x : In f p -> kinv c -> gos body P f kw c = (r, c', x) ->
    r = body f kw /\ kinv c' /\ x <= 1.
  Proof.
    intros Hf [Hg He] H. unfold gos in H. destruct (kget P c (fouts f, kw)) as [ov c1] eqn:Eg.
    assert (Hc1 : kinv c1).
    { pose proof (KL_good_get P good LAW c (fouts f, kw) Hg) as G1. rewrite Eg in G1. split; [exact G1|].
      intros k v Hk. apply He. pose proof (KL_get P good LAW c (fouts f, kw) k v Hg) as G2. rewrite Eg in G2. now apply G2. }
    destruct ov as [v|].
    - injection H as <- <- <-. split; [|split; [exact Hc1 | lia]].
      destruct (He (fouts f, kw) v) as [g [Hgp [Ho Hb]]]; [now rewrite Eg|]. cbn in Ho, Hb.
      rewrite (DIST g f Hgp Hf Ho) in Hb. now rewrite Hb.
    - destruct (body f kw) as [v|e] eqn:Eb; injection H as <- <- <-.
      + split; [reflexivity|]. split; [|lia]. destruct Hc1 as [G1 E1]. split; [now apply (KL_good_put P good LAW)|].
        intros k v' Hk. destruct (KL_put P good LAW c1 (fouts f, kw) v k v' G1 Hk) as [[-> ->]|Hold]; [|now apply E1].
        exists f. cbn. auto.
      + split; [reflexivity|]. split; [exact Hc1 | lia].
  Qed.

  (* the loop body of MapRun.run_mapped *)
  Definition pure_step (f : mfunc) (ms : mapspec) (kw : env) (sh : list nat) (mask : list bool)
             (acc : result (list (list str) * list sto)) (i : nat) : result (list (list str) * list sto) :=
    do st <- acc;
    do sel <- select_kwargs ms kw (ext_of mask sh) i;
    do outs <- body f sel;
    if negb (length outs =? length (fouts f)) then Err ValueError else
    do key <- output_key ms (ext_of mask sh) i;
    do arrs <- mapM (fun av => place sh mask i (snd av) (fst av)) (combine (fst st) outs);
    do stos <- mapM (fun sv => sto_dump sh mask key (snd sv) (fst sv)) (combine (snd st) outs);
    Ok (arrs, stos).

  Lemma run_mapped_unfold f ms kw sh mask :
    run_mapped body f ms kw sh mask =
    do fin <- fold_left (pure_step f ms kw sh mask) (seq 0 (prod (ext_of mask sh)))
                        (Ok (repeat (repeat none_str (prod sh)) (length (fouts f)), repeat ([] : sto) (length (fouts f))));
    Ok (map (fun d => {| shp := sh; dat := d |}) (fst fin), map (sto_array sh) (snd fin), prod (ext_of mask sh)).
  Proof. reflexivity. Qed.

  Lemma mapped_step_ok f ms kw sh mask a c n i a' c' n' : In f p -> kinv c ->
    mapped_step body P f ms kw sh mask (a, c, n) i = (a', c', n') ->
    a' = pure_step f ms kw sh mask a i /\ kinv c' /\ n' <= n + 1.
  Proof.
    intros Hf Hc H. unfold mapped_step in H. unfold pure_step. destruct a as [st|e]; cbn [bind].
    - destruct (select_kwargs ms kw (ext_of mask sh) i) as [sel|e]; cbn [bind].
      + destruct (gos body P f sel c) as [[r c1] x] eqn:Eg. injection H as <- <- <-.
        destruct (gos_ok f sel c r c1 x Hf Hc Eg) as [-> [Hc1 Hx]]. split; [reflexivity|]. split; [exact Hc1 | lia].
      + injection H as <- <- <-. split; [reflexivity|]. split; [exact Hc | lia].
    - injection H as <- <- <-. split; [reflexivity|]. split; [exact Hc | lia].
  Qed.

  Lemma mapped_fold_ok f ms kw sh mask : In f p -> forall l a c n a' c' n', kinv c ->
    fold_left (mapped_step body P f ms kw sh mask) l (a, c, n) = (a', c', n') ->
    a' = fold_left (pure_step f ms kw sh mask) l a /\ kinv c' /\ n' <= n + length l.
  Proof.
    intros Hf. induction l as [|i l IH]; intros a c n a' c' n' Hc H.
    - cbn in H. injection H as <- <- <-. split; [reflexivity|]. split; [exact Hc | cbn; lia].
    - cbn [fold_left] in H |- *.
      destruct (mapped_step body P f ms kw sh mask (a, c, n) i) as [[a1 c1] n1] eqn:Es.
      destruct (mapped_step_ok f ms kw sh mask a c n i a1 c1 n1 Hf Hc Es) as [-> [Hc1 Hn1]].
      destruct (IH _ c1 n1 a' c' n' Hc1 H) as [E [Hc' Hn']]. split; [exact E|]. split; [exact Hc' | cbn; lia].
  Qed.

  Lemma run_mapped_c_ok f ms kw sh mask c r c' x : In f p -> kinv c ->
    run_mapped_c body P f ms kw sh mask c = (r, c', x) ->
    r = run_mapped body f ms kw sh mask /\ kinv c' /\ x <= prod (ext_of mask sh).
  Proof.
    intros Hf Hc H. unfold run_mapped_c in H. rewrite run_mapped_unfold.
    destruct (fold_left _ _ _) as [[fin c1] x1] eqn:Ef in H. injection H as <- <- <-.
    destruct (mapped_fold_ok f ms kw sh mask Hf _ _ c 0 fin c1 x1 Hc Ef) as [-> [Hc1 Hx]].
    rewrite seq_length in Hx. split; [reflexivity|]. split; [exact Hc1 | lia].
  Qed.

  (* one function: the same state transition; at most as many executions as the uncached run counts calls *)
  Lemma run_func_c_ok user st f c r c' x : In f p -> kinv c ->
    run_func_c body P user st f c = (r, c', x) ->
    r = run_func body user st f /\ kinv c' /\ (forall st', r = Ok st' -> x <= r_calls st' - r_calls st).
  Proof.
    intros Hf Hc H. unfold run_func_c in H. unfold run_func.
    destruct (func_shape user (r_shapes st) f) as [shm|e]; cbn [bind];
      [|injection H as <- <- <-; split; [reflexivity|split; [exact Hc|intros st' E; discriminate]]].
    destruct (func_kwargs f (r_env st)) as [kw|e]; cbn [bind];
      [|injection H as <- <- <-; split; [reflexivity|split; [exact Hc|intros st' E; discriminate]]].
    destruct (is_mapped f).
    - destruct (fspec f) as [ms|]; [|injection H as <- <- <-; split; [reflexivity|split; [exact Hc|intros st' E; discriminate]]].
      destruct shm as [[sh mask]|]; [|injection H as <- <- <-; split; [reflexivity|split; [exact Hc|intros st' E; discriminate]]].
      destruct (run_mapped_c body P f ms kw sh mask c) as [[r1 c1] x1] eqn:Em. injection H as <- <- <-.
      destruct (run_mapped_c_ok f ms kw sh mask c r1 c1 x1 Hf Hc Em) as [-> [Hc1 Hx]].
      split; [reflexivity|]. split; [exact Hc1|]. intros st' E.
      rewrite run_mapped_unfold in E.
      destruct (fold_left (pure_step f ms kw sh mask) _ _) as [fin|e]; cbn [bind] in E; [|discriminate].
      injection E as <-. cbn. lia.
    - destruct (gos body P f kw c) as [[r1 c1] x1] eqn:Eg. injection H as <- <- <-.
      destruct (gos_ok f kw c r1 c1 x1 Hf Hc Eg) as [-> [Hc1 Hx]].
      split; [reflexivity|]. split; [exact Hc1|]. intros st' E.
      destruct (body f kw) as [outs|e]; cbn [bind] in E; [|discriminate].
      destruct (negb (length outs =? length (fouts f))); [discriminate|]. injection E as <-. cbn. lia.
  Qed.

  Lemma run_func_calls_mono user st f st' : run_func body user st f = Ok st' -> r_calls st <= r_calls st'.
  Proof.
    unfold run_func. destruct (func_shape user (r_shapes st) f) as [shm|e]; cbn [bind]; [|discriminate].
    destruct (func_kwargs f (r_env st)) as [kw|e]; cbn [bind]; [|discriminate].
    destruct (is_mapped f).
    - destruct (fspec f) as [ms|]; [|discriminate]. destruct shm as [[sh mask]|]; [|discriminate].
      destruct (run_mapped body f ms kw sh mask) as [[[arrs stored] n]|e]; cbn [bind]; [|discriminate].
      intros H. injection H as <-. cbn. lia.
    - destruct (body f kw) as [outs|e]; cbn [bind]; [|discriminate].
      destruct (negb (length outs =? length (fouts f))); [discriminate|]. intros H. injection H as <-. cbn. lia.
  Qed.

  Theorem map_run_c_ok : forall (q : list mfunc) inputs user c r c' x,
    (forall f, In f q -> In f p) -> kinv c ->
    map_run_c body P q inputs user c = (r, c', x) ->
    r = map_run body q inputs user /\ kinv c' /\ (forall st', r = Ok st' -> x <= r_calls st').
  Proof.
    intros q inputs user c r c' x Hq Hc H. unfold map_run_c in H. unfold map_run.
    set (st0 := {| r_env := inputs; r_shapes := init_shapes inputs; r_out := []; r_calls := 0 |}) in *.
    assert (G : forall l a c0 n a' c1 n', (forall f, In f l -> In f p) -> kinv c0 ->
              (forall st, a = Ok st -> n <= r_calls st) ->
              fold_left (fun acc f => let '(a, c0, n) := acc in
                                      match a with
                                      | Err e => (Err e, c0, n)
                                      | Ok st => let '(r, c1, x) := run_func_c body P user st f c0 in (r, c1, n + x)
                                      end) l (a, c0, n) = (a', c1, n') ->
              a' = fold_left (fun acc f => do st <- acc; run_func body user st f) l a /\ kinv c1
              /\ (forall st', a' = Ok st' -> n' <= r_calls st')).
    { induction l as [|f l IH]; intros a c0 n a' c1 n' Hl Hc0 Hn Hf.
      - cbn in Hf. injection Hf as <- <- <-. auto.
      - cbn [fold_left] in Hf |- *. destruct a as [st|e]; cbn [bind].
        + destruct (run_func_c body P user st f c0) as [[r1 c2] x1] eqn:Er.
          destruct (run_func_c_ok user st f c0 r1 c2 x1 (Hl f (or_introl eq_refl)) Hc0 Er) as [-> [Hc2 Hx]].
          apply (IH _ c2 (n + x1) a' c1 n' (fun g Hg => Hl g (or_intror Hg)) Hc2); [|exact Hf].
          intros st1 E. specialize (Hx st1 E). specialize (Hn st eq_refl).
          pose proof (run_func_calls_mono user st f st1 E). lia.
        + apply (IH _ c0 n a' c1 n' (fun g Hg => Hl g (or_intror Hg)) Hc0); [|exact Hf]. intros st E. discriminate. }
    apply (G q (Ok st0) c 0 r c' x Hq Hc); [|exact H]. intros st E. lia.
  Qed.
End Facts.

(* ---------- the dict instance is lawful ---------- *)
Lemma list_eqb_refl_iff {A} (eqb : A -> A -> bool) :
  (forall a b, eqb a b = true <-> a = b) -> forall l l', list_eqb eqb l l' = true <-> l = l'.
Proof.
  intros Heq. induction l as [|x l IH]; intros [|y l']; cbn; split; intros H; try discriminate; try reflexivity.
  - apply andb_true_iff in H as [H1 H2]. apply Heq in H1. apply IH in H2. now subst.
  - injection H as -> ->. apply andb_true_iff; split; [now apply Heq | now apply IH].
Qed.

Lemma str_eqb_iff a b : str_eqb a b = true <-> a = b.
Proof.
  revert b. induction a as [|x a IH]; intros [|y b]; cbn; split; intros H; try discriminate; try reflexivity.
  - apply andb_true_iff in H as [H1 H2]. apply Ascii.eqb_eq in H1. apply IH in H2. now subst.
  - injection H as -> ->. apply andb_true_iff; split; [apply Ascii.eqb_refl | now apply IH].
Qed.

Lemma val_eqb_iff a b : val_eqb a b = true <-> a = b.
Proof.
  destruct a as [x|[s1 d1]], b as [y|[s2 d2]]; cbn; try (split; [discriminate | intros H; discriminate H]).
  - rewrite str_eqb_iff. split; [now intros -> | intros H; now injection H].
  - unfold nd_eqb. cbn. rewrite andb_true_iff, (list_eqb_refl_iff Nat.eqb Nat.eqb_eq), (list_eqb_refl_iff str_eqb str_eqb_iff).
    split; [intros [-> ->]; reflexivity | intros H; injection H as -> ->; auto].
Qed.

Lemma mkey_eqb_iff a b : mkey_eqb a b = true <-> a = b.
Proof.
  destruct a as [o1 e1], b as [o2 e2]. unfold mkey_eqb, env_eqb. cbn.
  rewrite andb_true_iff, (list_eqb_refl_iff str_eqb str_eqb_iff).
  rewrite (list_eqb_refl_iff (fun x y => str_eqb (fst x) (fst y) && val_eqb (snd x) (snd y))).
  - split; [intros [-> ->]; reflexivity | intros H; injection H as -> ->; auto].
  - intros [k1 v1] [k2 v2]. cbn. rewrite andb_true_iff, str_eqb_iff, val_eqb_iff.
    split; [intros [-> ->]; reflexivity | intros H; injection H as -> ->; auto].
Qed.

Lemma kv_find_set {K V} (keqb : K -> K -> bool) (Heq : forall a b, keqb a b = true <-> a = b) c k v k' v' :
  kv_find keqb (kv_set keqb c k (v : V)) k' = Some v' -> (k' = k /\ v' = v) \/ kv_find keqb c k' = Some v'.
Proof.
  induction c as [|[k1 v1] c IH]; cbn.
  - destruct (keqb k' k) eqn:E; [|discriminate]. intros H. injection H as <-. apply Heq in E. auto.
  - destruct (keqb k k1) eqn:E1; cbn.
    + apply Heq in E1. subst k1. destruct (keqb k' k) eqn:E2; [|auto]. intros H. injection H as <-. apply Heq in E2. auto.
    + destruct (keqb k' k1); auto.
Qed.

Lemma map_simple_lawful : kv_lawful map_simple (fun _ => True).
Proof.
  constructor; try (intros; exact I).
  - intros c k k' v _ H. exact H.
  - intros c k v k' v' _ H. cbn in *. now apply (kv_find_set mkey_eqb mkey_eqb_iff).
Qed.
