(* C01, part 3: the sequential map loop (`run_mapped`) computes the denotation (`denote_mapped`) of a mapped function,
   and the whole run (`map_run`) computes the denotation of the request (`denote_run`), for an arbitrary user-function
   oracle `body`. *)
From Verif Require Import Base.Prelude Base.StrUtil Base.Index Base.NdArr Model.MapSpec Model.MapSpecSpec
  Model.MapRun Model.MapDenote Model.SymBody
  Proofs.IndexFacts Proofs.StrFacts Proofs.MapSpecFacts Proofs.ListFacts Proofs.PlaceFacts Proofs.SelectFacts.

(* `body` models `_pick_output(func, func( **kw))`, which builds a tuple with exactly one entry per output name by
   construction: the arity is a property of the oracle, not of user code.  (denote_mapped does not re-check it,
   run_mapped does.) *)
Definition body_arity (body : mfunc -> env -> result (list val)) : Prop :=
  forall f kw outs, body f kw = Ok outs -> length outs = length (fouts f).

Lemma sym_body_arity : body_arity sym_body.
Proof.
  intros f kw outs H. unfold sym_body in H.
  destruct (fouts f) as [|o [|o' os]]; injection H as <-; cbn [length map]; rewrite ?map_length; reflexivity.
Qed.

Lemma forallb_pos_proj (mask : list bool) : forall sh,
  forallb (fun d => 0 <? d) sh = true ->
  forallb (fun d => 0 <? d) (ext_of mask sh) = true /\ forallb (fun d => 0 <? d) (int_of mask sh) = true.
Proof.
  induction mask as [|b m IH]; intros [|d sh] H;
    [split; reflexivity | split; reflexivity | destruct b; split; reflexivity | ].
  cbn [forallb] in H. apply andb_true_iff in H as [Hd H]. destruct (IH sh H) as [H1 H2].
  destruct b; cbn [ext_of int_of forallb]; rewrite ?Hd; cbn [andb]; split; assumption.
Qed.

Lemma prod_pos sh : forallb (fun d => 0 <? d) sh = true -> 0 < prod sh.
Proof.
  induction sh as [|d sh IH]; intros H; [cbn; lia|]. cbn [forallb] in H. apply andb_true_iff in H as [Hd H].
  apply Nat.ltb_lt in Hd. specialize (IH H). rewrite prod_cons. nia.
Qed.

Section Mapped.
  Variable body : mfunc -> env -> result (list val).
  Hypothesis Harity : body_arity body.

  Variables (f : mfunc) (ms : mapspec) (kw : env) (sh : list nat) (mask : list bool).
  Hypothesis Hwf : wf_decl ms = true.
  Hypothesis Hnames : NoDup (map aname (ins ms)).
  Hypothesis Hout : NoDup (output_indices ms).
  Hypothesis Hk : 0 < length (fouts f).
  Hypothesis Hlen : length mask = length sh.
  Hypothesis Hext : length (ext_of mask sh) = length (external_indices ms).
  Hypothesis Hpos : forallb (fun d => 0 <? d) sh = true.

  Let ext := ext_of mask sh.
  Let int := int_of mask sh.
  Let k := length (fouts f).

  (* the values the oracle returns at external position e / linear index i *)
  Definition outs_at (e : list nat) : list val :=
    match mapM (arg_at ms e) kw with
    | Ok sel => match body f sel with Ok o => o | Err _ => [] end
    | Err _ => []
    end.
  Definition outs_lin (i : nat) : list val := outs_at (unravel ext i).

  Lemma denote_elem_inv j idx y :
    denote_elem body f ms kw mask j idx = Ok y ->
    exists sel outs v,
      mapM (arg_at ms (ext_of mask idx)) kw = Ok sel /\ body f sel = Ok outs /\ nth_error outs j = Some v
      /\ ((forallb id mask = true /\ v = VS y)
          \/ (forallb id mask = false /\ exists a, v = VA a /\ nd_get a (int_of mask idx) = Some y)).
  Proof.
    unfold denote_elem. intros H.
    destruct (mapM (arg_at ms (ext_of mask idx)) kw) as [sel|e] eqn:Es; cbn [bind] in H; [|discriminate].
    destruct (body f sel) as [outs|e] eqn:Eb; cbn [bind] in H; [|discriminate].
    destruct (nth_error outs j) as [[x|a]|] eqn:En; [| |discriminate].
    - destruct (forallb id mask) eqn:Em; [|discriminate]. injection H as <-.
      exists sel, outs, (VS x). repeat split; auto.
    - destruct (forallb id mask) eqn:Em; [discriminate|].
      destruct (nd_get a (int_of mask idx)) as [x|] eqn:Eg; [|discriminate]. injection H as <-.
      exists sel, outs, (VA a). repeat split; eauto.
  Qed.

  Variable arrs : list (nd str).
  Hypothesis Hden : denote_mapped body f ms kw sh mask = Ok arrs.

  Lemma den_shape_ok : ret_shape_ok body f ms kw sh mask = Ok tt.
  Proof.
    unfold denote_mapped in Hden. destruct (ret_shape_ok body f ms kw sh mask) as [[]|e]; [reflexivity|discriminate].
  Qed.

  Lemma den_elem_defined j idx :
    j < k -> in_bounds sh idx = true -> exists y, denote_elem body f ms kw mask j idx = Ok y.
  Proof.
    intros Hj Hidx. unfold denote_mapped in Hden. rewrite den_shape_ok in Hden. cbn [bind] in Hden.
    destruct (mapM_ok_in _ _ _ j Hden) as [a [Ha _]]; [apply in_seq; subst k; lia|].
    destruct (mapM (denote_elem body f ms kw mask j) (all_indices sh)) as [d|e] eqn:Ed; cbn [bind] in Ha; [|discriminate].
    apply in_all_indices_iff in Hidx. destruct (mapM_ok_in _ _ _ idx Ed Hidx) as [y [Hy _]]. eauto.
  Qed.

  Lemma int_pos : 0 < prod int.
  Proof. apply prod_pos. now apply forallb_pos_proj. Qed.

  Lemma ext_pos : forallb (fun d => 0 <? d) ext = true.
  Proof. now apply forallb_pos_proj. Qed.

  (* F1: what one iteration sees *)
  Lemma iteration_facts i :
    i < prod ext ->
    exists sel, mapM (arg_at ms (unravel ext i)) kw = Ok sel /\ body f sel = Ok (outs_lin i)
                /\ length (outs_lin i) = k /\ (forall v, In v (outs_lin i) -> val_ok mask int v).
  Proof.
    intros Hi.
    assert (In (unravel int 0) (all_indices int)) as Hjj.
    { apply in_all_indices_iff. apply unravel_in_bounds. exact int_pos. }
    destruct (merge_facts sh mask Hlen i _ Hi Hjj) as [Hb [E1 _]].
    fold ext in E1, Hb. fold int in E1, Hb.
    set (idx := merge mask (unravel ext i) (unravel int 0)) in *.
    destruct (den_elem_defined 0 idx Hk Hb) as [y0 Hy0].
    destruct (denote_elem_inv _ _ _ Hy0) as [sel [outs [v0 [Hs [Hbody _]]]]].
    rewrite E1 in Hs. exists sel.
    assert (outs_lin i = outs) as Eo by (unfold outs_lin, outs_at; now rewrite Hs, Hbody).
    rewrite Eo. split; [exact Hs|]. split; [exact Hbody|]. split; [exact (Harity _ _ _ Hbody)|].
    intros v Hv. unfold val_ok. destruct (forallb id mask) eqn:Em.
    - apply In_nth_error in Hv as [j Hj].
      assert (j < k) as Hjk.
      { unfold k. rewrite <- (Harity _ _ _ Hbody). apply nth_error_Some. congruence. }
      destruct (den_elem_defined j idx Hjk Hb) as [y Hy].
      destruct (denote_elem_inv _ _ _ Hy) as [sel' [outs' [v' [Hs' [Hbody' [Hn' Hcase]]]]]].
      rewrite E1 in Hs'. rewrite Hs in Hs'. injection Hs' as <-. rewrite Hbody in Hbody'. injection Hbody' as <-.
      rewrite Hj in Hn'. injection Hn' as <-.
      destruct Hcase as [[_ ->]|[Hm _]]; [eauto|congruence].
    - pose proof den_shape_ok as Hr. unfold ret_shape_ok in Hr. rewrite Em in Hr.
      match type of Hr with (do _ <- ?M; _) = _ => destruct M as [us|e] eqn:EM end; cbn [bind] in Hr; [|discriminate].
      assert (In (unravel ext i) (all_indices ext)) as Hin.
      { apply in_all_indices_iff. now apply unravel_in_bounds. }
      destruct (mapM_ok_in _ _ _ _ EM Hin) as [u [Hu _]].
      rewrite Hs in Hu. cbn [bind] in Hu. rewrite Hbody in Hu. cbn [bind] in Hu.
      match type of Hu with (if ?c then _ else _) = _ => destruct c eqn:Ec end; [|discriminate].
      rewrite forallb_forall in Ec. specialize (Ec v Hv). destruct v as [x|a]; [discriminate|].
      apply andb_true_iff in Ec as [Ec1 Ec2]. apply (list_eqb_eq Nat.eqb Nat.eqb_eq) in Ec1.
      exists a. repeat split; assumption.
  Qed.

  (* F2: each denoted element is the target element of the column j *)
  Lemma denote_elem_target j idx y dv :
    in_bounds sh idx = true -> denote_elem body f ms kw mask j idx = Ok y ->
    y = target_elem sh mask (fun i => nth j (outs_lin i) dv) idx.
  Proof.
    intros Hb Hy. destruct (denote_elem_inv _ _ _ Hy) as [sel [outs [v [Hs [Hbody [Hn Hcase]]]]]].
    unfold target_elem. fold ext.
    destruct (in_bounds_proj mask sh idx Hlen Hb) as [He _]. fold ext in He.
    unfold outs_lin. rewrite unravel_ravel by exact He. unfold outs_at. rewrite Hs, Hbody.
    rewrite (nth_error_some_nth _ _ dv _ Hn).
    destruct Hcase as [[_ ->]|[_ [a [-> Hg]]]]; cbn [elem]; [reflexivity|now rewrite Hg].
  Qed.

  Lemma denote_mapped_arrays dv :
    arrs = map (fun j => {| shp := sh; dat := target sh mask (fun i => nth j (outs_lin i) dv) |}) (seq 0 k).
  Proof.
    unfold denote_mapped in Hden. rewrite den_shape_ok in Hden. cbn [bind] in Hden.
    apply (mapM_ok_inv_map _ _ _ _ Hden). intros j a _ Ha.
    destruct (mapM (denote_elem body f ms kw mask j) (all_indices sh)) as [d|e] eqn:Ed; cbn [bind] in Ha; [|discriminate].
    injection Ha as <-. f_equal. unfold target. apply (mapM_ok_inv_map _ _ _ _ Ed).
    intros idx y Hidx Hy. apply in_all_indices_iff in Hidx. now apply denote_elem_target.
  Qed.

  (* the pure loop body *)
  Definition pure_step (st : list (list str) * list sto) (i : nat) : list (list str) * list sto :=
    (zipw (place_pure sh mask i) (fst st) (outs_lin i), zipw (dump_pure sh mask i) (snd st) (outs_lin i)).

  Lemma loop_step_ok i st :
    i < prod ext ->
    (do sel <- select_kwargs ms kw ext i;
     do outs <- body f sel;
     if negb (length outs =? k) then Err ValueError else
     do key <- output_key ms ext i;
     do arrs <- mapM (fun av => place sh mask i (snd av) (fst av)) (combine (fst st) outs);
     do stos <- mapM (fun sv => sto_dump sh mask key (snd sv) (fst sv)) (combine (snd st) outs);
     Ok (arrs, stos)) = Ok (pure_step st i).
  Proof.
    intros Hi. destruct (iteration_facts i Hi) as [sel [Hs [Hbody [Hl Hv]]]].
    rewrite (select_kwargs_arg_at ms Hwf Hnames Hout kw ext i Hext ext_pos), Hs. cbn [bind].
    rewrite Hbody. cbn [bind]. rewrite Hl, Nat.eqb_refl. cbn [negb].
    rewrite (output_key_ok ms Hwf Hout ext i Hext ext_pos). cbn [bind].
    rewrite (mapM_ok_map_in _ (fun av => place_pure sh mask i (snd av) (fst av))).
    2:{ intros [a v] Hin. cbn [fst snd]. apply place_ok; [exact Hlen|exact Hi|].
        apply Hv. eapply in_combine_r. exact Hin. }
    cbn [bind].
    rewrite (mapM_ok_map_in _ (fun sv => dump_pure sh mask i (snd sv) (fst sv))).
    2:{ intros [a v] Hin. cbn [fst snd]. unfold dump_pure. apply sto_dump_ok; [exact Hlen|].
        apply Hv. eapply in_combine_r. exact Hin. }
    reflexivity.
  Qed.

  (* Goal 4 *)
  Theorem run_mapped_denotes :
    run_mapped body f ms kw sh mask = Ok (arrs, arrs, prod (ext_of mask sh)).
  Proof.
    unfold run_mapped. cbv zeta. fold ext. fold k.
    rewrite (fold_left_bind_ok _ pure_step).
    2:{ intros i st Hi. apply in_seq in Hi. apply loop_step_ok. lia. }
    cbn [bind].
    match goal with |- context [fold_left pure_step ?l (?a, ?b)] =>
      rewrite (fold_left_pair (fun xs i => zipw (place_pure sh mask i) xs (outs_lin i))
                              (fun ss i => zipw (dump_pure sh mask i) ss (outs_lin i)) l a b
               : fold_left pure_step l (a, b) = _)
    end.
    cbn [fst snd].
    assert (forall i, In i (seq 0 (prod ext)) -> length (outs_lin i) = k) as HO.
    { intros i Hi. apply in_seq in Hi. destruct (iteration_facts i ltac:(lia)) as [_ [_ [_ [Hl _]]]]. exact Hl. }
    rewrite (fold_zipw_columns (place_pure sh mask) outs_lin k (repeat none_str (prod sh)) (VS []))
      by (try apply repeat_length; exact HO).
    rewrite (fold_zipw_columns (dump_pure sh mask) outs_lin k [] (VS [])) by (try apply repeat_length; exact HO).
    rewrite !map_map, (denote_mapped_arrays (VS [])).
    f_equal. f_equal. f_equal.
    - apply map_ext_in. intros j Hj. apply in_seq in Hj. f_equal.
      rewrite nth_repeat. apply (place_pure_all sh mask (fun i => nth j (outs_lin i) (VS [])) Hlen).
    - apply map_ext_in. intros j Hj. apply in_seq in Hj.
      rewrite nth_repeat. apply (sto_pure_all sh mask (fun i => nth j (outs_lin i) (VS [])) Hlen).
  Qed.
End Mapped.

(* ---------- the whole run ---------- *)
Lemma combine_same_snd {A B C} (g : B -> C) (l : list A) : forall (a : list B),
  map (fun x => (fst x, g (snd (snd x)))) (combine l (combine a a)) = combine l (map g a).
Proof.
  induction l as [|x l IH]; intros [|y a]; cbn [combine map fst snd]; try reflexivity. now rewrite IH.
Qed.

Lemma combine_same_fst {A B C} (g : B -> C) (l : list A) : forall (a : list B),
  map (fun x => (fst x, g (fst (snd x)))) (combine l (combine a a)) = combine l (map g a).
Proof.
  induction l as [|x l IH]; intros [|y a]; cbn [combine map fst snd]; try reflexivity. now rewrite IH.
Qed.

Lemma func_ok_spec f ms :
  func_ok f = true -> fspec f = Some ms ->
  wf_decl ms = true /\ NoDup (map aname (ins ms)) /\ NoDup (output_indices ms) /\ 0 < length (fouts f).
Proof.
  unfold func_ok. intros H Hs. rewrite Hs in H. apply andb_true_iff in H as [_ H].
  apply andb_true_iff in H as [H Hax]. apply andb_true_iff in H as [H Ho]. apply andb_true_iff in H as [H Hn].
  apply andb_true_iff in H as [H _]. apply andb_true_iff in H as [Hwf Heq].
  split; [exact Hwf|]. split; [now apply nodup_str_NoDup|]. split; [now apply nodup_str_NoDup|].
  apply (list_eqb_eq str_eqb str_eqb_eq) in Heq. rewrite <- Heq, map_length.
  unfold wf_decl in Hwf. apply andb_true_iff in Hwf as [_ Hwf]. destruct (outs ms); [discriminate|cbn; lia].
Qed.

Section Run.
  Variable body : mfunc -> env -> result (list val).
  Hypothesis Harity : body_arity body.
  Variable user : shape_dict.

  (* the run state and the denotation state agree: same environment and shape table; returned AND stored arrays
     are the denoted ones *)
  Definition agree (st : run_state) (d : den_state) : Prop :=
    r_env st = d_env d /\ r_shapes st = d_shapes d
    /\ map (fun x => (fst (fst x), snd (fst x))) (r_out st) = d_out d
    /\ map (fun x => (fst (fst x), snd x)) (r_out st) = d_out d.

  Lemma run_func_denotes st d f d' :
    func_ok f = true -> agree st d -> denote_func body user d f = Ok d' ->
    exists st', run_func body user st f = Ok st' /\ agree st' d'.
  Proof.
    intros Hok [Henv [Hshp [Ho1 Ho2]]] Hd. unfold denote_func in Hd. unfold run_func.
    rewrite Henv, Hshp.
    destruct (func_shape user (d_shapes d) f) as [shm|e] eqn:Hs; cbn [bind] in Hd |- *; [|discriminate].
    destruct (func_kwargs f (d_env d)) as [kw|e] eqn:Hkw; cbn [bind] in Hd |- *; [|discriminate].
    destruct (is_mapped f) eqn:Hm.
    - destruct (fspec f) as [ms|] eqn:Hsp; [|discriminate].
      destruct shm as [[sh mask]|]; [|discriminate].
      destruct (forallb (fun d0 => 0 <? d0) sh) eqn:Hpos; cbn [negb] in Hd; [|discriminate].
      destruct (denote_mapped body f ms kw sh mask) as [arrs|e] eqn:Hden; cbn [bind] in Hd; [|discriminate].
      injection Hd as <-.
      destruct (func_ok_spec f ms Hok Hsp) as [Hwf [Hnames [Hout Hk]]].
      assert (length mask = length sh /\ length (ext_of mask sh) = length (external_indices ms)) as [Hlen Hext].
      { unfold func_shape in Hs. rewrite Hsp in Hs.
        match type of Hs with (do r <- ?S; _) = _ => destruct S as [[sh' mask']|e] eqn:Es end; cbn [bind] in Hs; [|discriminate].
        injection Hs as -> ->. eapply shape_side_conditions; eassumption. }
      rewrite (run_mapped_denotes body Harity f ms kw sh mask Hwf Hnames Hout Hk Hlen Hext Hpos arrs Hden).
      cbn [bind]. eexists. split; [reflexivity|].
      unfold agree. cbn [r_env r_shapes r_out d_env d_shapes d_out].
      split; [|split; [reflexivity|split]].
      + now rewrite (combine_same_snd VA).
      + rewrite map_app, map_map, Ho1. cbn [fst snd]. now rewrite (combine_same_fst VA).
      + rewrite map_app, map_map, Ho2. cbn [fst snd]. now rewrite (combine_same_snd VA).
    - destruct (body f kw) as [outs|e] eqn:Hb; cbn [bind] in Hd |- *; [|discriminate].
      destruct (negb (length outs =? length (fouts f))); [discriminate|].
      match type of Hd with (if ?c then _ else _) = _ => destruct c end; [discriminate|].
      injection Hd as <-. eexists. split; [reflexivity|].
      unfold agree. cbn [r_env r_shapes r_out d_env d_shapes d_out].
      split; [reflexivity|split; [reflexivity|]].
      rewrite !map_app, !map_map, Ho1, Ho2. cbn [fst snd].
      assert (map (fun x : str * val => (fst x, snd x)) (combine (fouts f) outs) = combine (fouts f) outs) as ->.
      { rewrite <- (map_id (combine (fouts f) outs)) at 2. apply map_ext. now intros []. }
      split; reflexivity.
  Qed.

  Lemma fold_run_denotes p : forall st d dfin,
    forallb func_ok p = true -> agree st d ->
    fold_left (fun acc f => do s <- acc; denote_func body user s f) p (Ok d) = Ok dfin ->
    exists stfin, fold_left (fun acc f => do s <- acc; run_func body user s f) p (Ok st) = Ok stfin
                  /\ agree stfin dfin.
  Proof.
    induction p as [|f p IH]; intros st d dfin Hok Hag Hd; cbn [fold_left bind] in *.
    - injection Hd as <-. exists st. split; [reflexivity|exact Hag].
    - cbn [forallb] in Hok. apply andb_true_iff in Hok as [Hf Hp].
      destruct (denote_func body user d f) as [d1|e] eqn:E1.
      + destruct (run_func_denotes st d f d1 Hf Hag E1) as [st1 [Hr Hag1]]. rewrite Hr.
        eapply IH; eassumption.
      + rewrite fold_left_bind_err in Hd. discriminate.
  Qed.

  (* Goal 5 *)
  Theorem map_run_denotes p inputs d :
    request_ok p inputs = true -> denote_run body p inputs user = Ok d ->
    exists st, map_run body p inputs user = Ok st
               /\ map (fun x => (fst (fst x), snd (fst x))) (r_out st) = d_out d
               /\ map (fun x => (fst (fst x), snd x)) (r_out st) = d_out d.
  Proof.
    intros Hreq Hd. unfold request_ok in Hreq. apply andb_true_iff in Hreq as [Hreq _].
    apply andb_true_iff in Hreq as [Hok _]. unfold denote_run in Hd. unfold map_run.
    destruct (fold_run_denotes p {| r_env := inputs; r_shapes := init_shapes inputs; r_out := []; r_calls := 0 |}
                {| d_env := inputs; d_shapes := init_shapes inputs; d_out := [] |} d)
      as [st [Hr [_ [_ [H1 H2]]]]]; [exact Hok| |exact Hd|].
    - unfold agree. cbn [r_env r_shapes r_out d_env d_shapes d_out]. repeat split; reflexivity.
    - exists st. repeat split; assumption.
  Qed.

  Corollary map_run_never_refuses p inputs d :
    request_ok p inputs = true -> denote_run body p inputs user = Ok d ->
    forall e, map_run body p inputs user <> Err e.
  Proof.
    intros Hreq Hd e. destruct (map_run_denotes p inputs d Hreq Hd) as [st [Hr _]]. rewrite Hr. discriminate.
  Qed.
End Run.
