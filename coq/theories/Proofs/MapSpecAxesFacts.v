(* validate_consistent_axes / mapspec_axes / mapspec_dimensions (Model/MapSpecAxes.v = the models of C12 and C19)
   against the declarative `XrLabelSpec.consistent`. *)
From Verif Require Import Base.Prelude Base.StrUtil Model.MapSpec Model.MapSpecSpec Model.MapSpecAxes Model.XrLabelSpec.
From Verif Require Base.StrOrd Model.Validate Model.ValidateSpec Model.XrLabel.
From Verif Require Import Proofs.StrFacts Proofs.MapSpecFacts.
From Verif Require Proofs.ListFacts Proofs.GraphFacts Proofs.ValidateFacts Proofs.XrLabelFacts.

Lemma all_aspecs_validate specs : Validate.all_aspecs specs = all_aspecs specs.
Proof. reflexivity. Qed.
Lemma all_aspecs_xr specs : XrLabel.all_aspecs specs = all_aspecs specs.
Proof. reflexivity. Qed.

(* ------------------------------------------------------------------ validate passes -> consistent *)
Lemma agree_consistent_pair a b : ValidateSpec.axes_agree a b -> consistent_pair a b = true.
Proof.
  intros [Hr Hk]. unfold consistent_pair. apply orb_true_iff. right. unfold rank in Hr.
  rewrite Hr, Nat.eqb_refl. cbn [andb]. apply forallb_forall. intros [[x|] [y|]] Hin; cbn [fst snd]; try reflexivity.
  apply In_nth_error in Hin as [k Hk']. rewrite XrLabelFacts.nth_error_combine in Hk'.
  destruct (nth_error (axes a) k) as [oa|] eqn:Ea; [|discriminate].
  destruct (nth_error (axes b) k) as [ob|] eqn:Eb; [|discriminate]. injection Hk' as -> ->.
  apply str_eqb_eq. exact (Hk k x y Ea Eb).
Qed.

Theorem validate_ok_consistent specs :
  validate_consistent_axes specs = Ok tt -> consistent (all_aspecs specs) = true.
Proof.
  unfold validate_consistent_axes, Validate.validate_consistent_axes. rewrite all_aspecs_validate.
  set (all := all_aspecs specs).
  destruct (mapM _ (StrOrd.dedup (map aname all))) as [r|e] eqn:M; cbn [bind]; [|discriminate]. intros _.
  unfold consistent. apply forallb_forall. intros a Ha. apply forallb_forall. intros b Hb.
  destruct (str_eqb (aname a) (aname b)) eqn:E.
  2:{ unfold consistent_pair. now rewrite E. }
  apply str_eqb_eq in E.
  assert (Hin : In (aname a) (StrOrd.dedup (map aname all))) by (apply GraphFacts.dedup_In; now apply in_map).
  destruct (ListFacts.mapM_ok_in _ _ _ _ M Hin) as [[] [Hc _]].
  apply agree_consistent_pair.
  apply (ValidateFacts.check_name_axes_sound _ a b Hc); unfold Validate.specs_named; apply filter_In; split;
    try assumption; [apply str_eqb_refl|rewrite <- E; apply str_eqb_refl].
Qed.

(* ------------------------------------------------------------------ consistent -> validate passes *)
Definition pos_agree (c ax : list (option str)) : Prop :=
  forall k x y, nth_error c k = Some (Some x) -> nth_error ax k = Some (Some y) -> x = y.

Lemma merge_pos_ok cur : forall ax,
  length cur = length ax -> pos_agree cur ax ->
  exists r, Validate.merge_pos cur ax = Ok r /\ length r = length cur
            /\ forall k z, nth_error r k = Some (Some z) ->
                           nth_error cur k = Some (Some z) \/ nth_error ax k = Some (Some z).
Proof.
  induction cur as [|c cs IH]; intros [|a as_] Hl Hag; try discriminate.
  - exists []. cbn. repeat split. intros k z H. destruct k; discriminate.
  - injection Hl as Hl.
    assert (pos_agree cs as_) as Hag' by (intros k x y Hx Hy; exact (Hag (S k) x y Hx Hy)).
    destruct (IH as_ Hl Hag') as [r [Hr [Lr Pr]]].
    assert (G : forall h, (h = c \/ h = a) ->
              length (h :: r) = length (c :: cs)
              /\ forall k z, nth_error (h :: r) k = Some (Some z) ->
                             nth_error (c :: cs) k = Some (Some z) \/ nth_error (a :: as_) k = Some (Some z)).
    { intros h Hh. split; [cbn; now rewrite Lr|]. intros [|k] z Hz; cbn in *; [|now apply Pr].
      injection Hz as ->. destruct Hh as [<-|<-]; auto. }
    cbn [Validate.merge_pos]. destruct c as [x|], a as [y|].
    + pose proof (Hag 0 x y eq_refl eq_refl) as <-. rewrite str_eqb_refl, Hr. cbn [bind].
      exists (Some x :: r). split; [reflexivity|]. apply G. now left.
    + rewrite Hr. cbn [bind]. exists (Some x :: r). split; [reflexivity|]. apply G. now left.
    + rewrite Hr. cbn [bind]. exists (Some y :: r). split; [reflexivity|]. apply G. now right.
    + rewrite Hr. cbn [bind]. exists (None :: r). split; [reflexivity|]. apply G. now left.
Qed.

Lemma merge_fold_ok (l all : list aspec) (r0 : nat) :
  (forall b, In b l -> In b all) ->
  (forall b, In b all -> length (axes b) = r0) ->
  (forall b b', In b all -> In b' all -> pos_agree (axes b) (axes b')) ->
  forall cur, length cur = r0 ->
    (forall k z, nth_error cur k = Some (Some z) -> exists b, In b all /\ nth_error (axes b) k = Some (Some z)) ->
    exists final, fold_left (fun acc b => do c <- acc; Validate.merge_pos c (axes b)) l (Ok cur) = Ok final.
Proof.
  intros Hsub Hrank Hag. induction l as [|b l IH]; intros cur Hl Hfrom; [exists cur; reflexivity|].
  cbn [fold_left bind].
  assert (In b all) as Hb by (apply Hsub; now left).
  destruct (merge_pos_ok cur (axes b)) as [r [Hr [Lr Pr]]].
  - now rewrite Hl, (Hrank b Hb).
  - intros k x y Hx Hy. destruct (Hfrom k x Hx) as [b' [Hb' Hx']]. exact (Hag b' b Hb' Hb k x y Hx' Hy).
  - rewrite Hr. apply IH.
    + intros b' Hb'. apply Hsub. now right.
    + congruence.
    + intros k z Hz. destruct (Pr k z Hz) as [H|H]; [now apply Hfrom|]. now exists b.
Qed.

Theorem consistent_validate_ok specs :
  consistent (all_aspecs specs) = true -> validate_consistent_axes specs = Ok tt.
Proof.
  intros Hc. unfold validate_consistent_axes, Validate.validate_consistent_axes. rewrite all_aspecs_validate.
  set (all := all_aspecs specs).
  rewrite (ListFacts.mapM_ok_map_in _ (fun _ => tt)); [reflexivity|].
  intros n Hn. apply GraphFacts.dedup_In in Hn. set (l := Validate.specs_named n all).
  assert (Hl : forall b, In b l <-> In b all /\ aname b = n).
  { intros b. unfold l, Validate.specs_named. now rewrite filter_In, str_eqb_eq. }
  assert (Hpair : forall a b, In a l -> In b l ->
            length (axes a) = length (axes b) /\ pos_agree (axes a) (axes b)).
  { intros a b Ha Hb. apply Hl in Ha as [Ha Na], Hb as [Hb Nb].
    pose proof (XrLabelFacts.consistent_spec _ _ _ Hc Ha Hb) as P.
    apply XrLabelFacts.consistent_pair_spec in P; [|congruence]. exact P. }
  unfold Validate.check_name_axes. destruct l as [|a t] eqn:El; [reflexivity|].
  assert (forallb (fun b => rank b =? rank a) t = true) as ->.
  { apply forallb_forall. intros b Hb. apply Nat.eqb_eq. unfold rank.
    apply (Hpair b a); [now right|now left]. }
  cbn [negb].
  destruct (merge_fold_ok (a :: t) (a :: t) (rank a)) with (cur := repeat (@None str) (rank a)) as [final ->].
  - auto.
  - intros b Hb. apply (Hpair b a); [assumption|now left].
  - intros b b' Hb Hb'. now apply Hpair.
  - apply repeat_length.
  - intros k z Hz. exfalso. clear - Hz. revert k Hz. induction (rank a) as [|r IH]; intros [|k] Hz; cbn in Hz; try discriminate.
    now apply (IH k).
  - reflexivity.
Qed.

Corollary validate_iff_consistent specs :
  validate_consistent_axes specs = Ok tt <-> consistent (all_aspecs specs) = true.
Proof. split; [apply validate_ok_consistent|apply consistent_validate_ok]. Qed.

Corollary inconsistent_rejected specs :
  consistent (all_aspecs specs) = false -> exists e, validate_consistent_axes specs = Err e.
Proof.
  intros H. destruct (validate_consistent_axes specs) as [[]|e] eqn:V; [|eauto].
  apply validate_ok_consistent in V. congruence.
Qed.

(* ------------------------------------------------------------------ mapspec_axes / mapspec_dimensions *)
Lemma dict_get_map_self {V} (f : str -> V) l k :
  In k l -> dict_get (map (fun n => (n, f n)) l) k = Some (f k).
Proof.
  induction l as [|n l IH]; intros H; [destruct H|]. cbn [map dict_get].
  destruct (str_eqb k n) eqn:E; [apply str_eqb_eq in E; now subst|].
  apply IH. destruct H as [<-|H]; [|exact H]. now rewrite str_eqb_refl in E.
Qed.

Lemma mapspec_axes_get specs n :
  In n (map aname (all_aspecs specs)) -> dict_get (mapspec_axes specs) n = Some (XrLabel.axes_of specs n).
Proof.
  intros H. unfold mapspec_axes, XrLabel.mapspec_axes. apply dict_get_map_self.
  unfold XrLabel.array_names. now apply XrLabelFacts.dedup_first_In.
Qed.

Lemma axis_at_from occ i x : forall acc,
  fold_left (fun acc a => match nth_error (axes a) i with Some (Some y) => Some y | _ => acc end) occ acc = Some x ->
  acc = Some x \/ exists b, In b occ /\ nth_error (axes b) i = Some (Some x).
Proof.
  induction occ as [|b occ IH]; intros acc H; cbn [fold_left] in H; [now left|].
  apply IH in H as [H|[b' [Hb' Hx]]]; [|right; exists b'; split; [now right|exact Hx]].
  destruct (nth_error (axes b) i) as [[y|]|] eqn:E; try (now left).
  right. exists b. split; [now left|]. now rewrite E, H.
Qed.

Lemma dims_fold k r : forall (l : list aspec) (d : list (str * nat)),
  (forall b, In b l -> aname b = k -> rank b = r) ->
  ((exists b, In b l /\ aname b = k) \/ dict_get d k = Some r) ->
  dict_get (fold_left (fun d a => dict_set d (aname a) (rank a)) l d) k = Some r.
Proof.
  induction l as [|b l IH]; intros d Hr Hex; cbn [fold_left].
  - destruct Hex as [[b [[] _]]|H]; exact H.
  - apply IH; [intros b' Hb'; apply Hr; now right|].
    destruct (list_eq_dec Ascii.ascii_dec (aname b) k) as [E|NE].
    + right. rewrite E, (Hr b (or_introl eq_refl) E). apply dict_get_set_same.
    + destruct Hex as [[b' [[<-|Hb'] Nb']]|H]; [contradiction|left; now exists b'|].
      right. rewrite dict_get_set_other by exact NE. exact H.
Qed.

(* after validate_consistent_axes passes, mapspec_axes has, for every array occurring in any MapSpec, one entry per
   dimension; the entry agrees with EVERY occurrence on every position that occurrence names; an entry is a name only
   if some occurrence of the array writes that name at that position (so a ':'-only dimension is None); and
   mapspec_dimensions gives the rank *)
Theorem consistent_axes_sound specs :
  validate_consistent_axes specs = Ok tt ->
  forall a, In a (all_aspecs specs) ->
    exists ax, dict_get (mapspec_axes specs) (aname a) = Some ax
      /\ length ax = rank a
      /\ (forall i x, nth_error (axes a) i = Some (Some x) -> nth_error ax i = Some (Some x))
      /\ (forall i x, nth_error ax i = Some (Some x) ->
            exists b, In b (all_aspecs specs) /\ aname b = aname a /\ nth_error (axes b) i = Some (Some x))
      /\ dict_get (mapspec_dimensions specs) (aname a) = Some (rank a).
Proof.
  intros V a Ha. apply validate_ok_consistent in V. rename V into Hc.
  exists (XrLabel.axes_of specs (aname a)).
  assert (Hocc : In a (XrLabel.occs specs (aname a))) by (apply XrLabelFacts.occs_In; auto).
  assert (Hsame : forall b, In b (all_aspecs specs) -> aname b = aname a ->
            length (axes b) = length (axes a)
            /\ forall i x y, nth_error (axes b) i = Some (Some x) -> nth_error (axes a) i = Some (Some y) -> x = y).
  { intros b Hb Nb. pose proof (XrLabelFacts.consistent_spec _ _ _ Hc Hb Ha) as P.
    now apply XrLabelFacts.consistent_pair_spec in P. }
  assert (Hrank : XrLabel.rank_of (XrLabel.occs specs (aname a)) = length (axes a)).
  { unfold XrLabel.rank_of. apply XrLabelFacts.rank_of_fold.
    - intros b Hb. apply XrLabelFacts.occs_In in Hb as [Hb E]. unfold rank. now apply Hsame.
    - lia.
    - intros E. rewrite E in Hocc. destruct Hocc. }
  split; [apply mapspec_axes_get; now apply in_map|].
  unfold XrLabel.axes_of. rewrite Hrank. split; [now rewrite map_length, seq_length|]. split; [|split].
  - intros i x Hx. rewrite nth_error_map, XrLabelFacts.nth_error_seq. cbn [Nat.add].
    assert (i < length (axes a)) as Hi by (apply nth_error_Some; congruence).
    apply Nat.ltb_lt in Hi. rewrite Hi. cbn [option_map]. f_equal. unfold XrLabel.axis_at.
    apply XrLabelFacts.axis_at_fold; [now left| |right; now exists a].
    intros b y Hb Hy. apply XrLabelFacts.occs_In in Hb as [Hb Eb]. exact (proj2 (Hsame b Hb Eb) i y x Hy Hx).
  - intros i x Hx. rewrite nth_error_map, XrLabelFacts.nth_error_seq in Hx. cbn [Nat.add] in Hx.
    destruct (i <? length (axes a)); cbn [option_map] in Hx; [|discriminate]. injection Hx as Hx.
    unfold XrLabel.axis_at in Hx. apply axis_at_from in Hx as [Hx|[b [Hb Hbx]]]; [discriminate|].
    apply XrLabelFacts.occs_In in Hb as [Hb Eb]. now exists b.
  - unfold mapspec_dimensions. apply dims_fold; [|left; now exists a].
    intros b Hb Eb. unfold rank. now apply Hsame.
Qed.
