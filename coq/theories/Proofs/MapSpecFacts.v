From Verif Require Import Base.Prelude Base.StrUtil Base.Index Model.MapSpec Model.MapSpecSpec Proofs.IndexFacts.

Lemma mapM_ok_map {A B} (f : A -> result B) (g : A -> B) l :
  (forall x, In x l -> f x = Ok (g x)) -> mapM f l = Ok (map g l).
Proof.
  induction l as [|x l IH]; intros H; cbn; [reflexivity|].
  rewrite H by (left; reflexivity). cbn. rewrite IH; [reflexivity|]. intros; apply H; right; assumption.
Qed.

Lemma existsb_zero_false sh : forallb (fun d => 0 <? d) sh = true -> existsb (Nat.eqb 0) sh = false.
Proof.
  induction sh as [|d t IH]; cbn [forallb existsb]; [reflexivity|]. intros H.
  apply andb_true_iff in H as [Hd Ht]. apply Nat.ltb_lt in Hd.
  destruct d; [lia|]. cbn [Nat.eqb orb]. auto.
Qed.

(* output_key visits every output position exactly once, in row-major order *)
Lemma output_key_rowmajor m sh :
  length sh = n_input_indices m -> forallb (fun d => 0 <? d) sh = true ->
  mapM (output_key m sh) (seq 0 (prod sh)) = Ok (all_indices sh).
Proof.
  intros Hl Hpos. rewrite <- unravel_enumerates. apply mapM_ok_map. intros n _.
  unfold output_key. rewrite Hl, Nat.eqb_refl. cbn [negb].
  unfold unravel_checked. now rewrite existsb_zero_false.
Qed.
