From Verif Require Import Base.Prelude Base.StrUtil Base.Index Model.MapSpec Model.MapSpecSpec Proofs.IndexFacts Proofs.StrFacts.

Lemma mapM_ok_map {A B} (f : A -> result B) (g : A -> B) l :
  (forall x, In x l -> f x = Ok (g x)) -> mapM f l = Ok (map g l).
Proof.
  induction l as [|x l IH]; intros H; cbn; [reflexivity|].
  rewrite H by (left; reflexivity). cbn. rewrite IH; [reflexivity|]. intros; apply H; right; assumption.
Qed.

Lemma existsb_zero_false sh : forallb (fun d => 0 <? d) sh = true -> existsb (Nat.eqb 0) sh = false.
Proof.
  induction sh as [|d t IH]; cbn [forallb existsb]; [reflexivity|]. intros H.
  apply andb_true_iff in H as [Hd Ht]. apply Nat.ltb_lt in Hd.
  destruct d; [lia|]. cbn [Nat.eqb orb]. auto.
Qed.

(* output_key visits every output position exactly once, in row-major order *)
Lemma output_key_rowmajor m sh :
  length sh = n_input_indices m -> forallb (fun d => 0 <? d) sh = true ->
  mapM (output_key m sh) (seq 0 (prod sh)) = Ok (all_indices sh).
Proof.
  intros Hl Hpos. rewrite <- unravel_enumerates. apply mapM_ok_map. intros n _.
  unfold output_key. rewrite Hl, Nat.eqb_refl. cbn [negb].
  unfold unravel_checked. now rewrite existsb_zero_false.
Qed.

(* ---------- constructor accepts exactly the declaratively well-formed specs ---------- *)
Lemma mapM_mk_aspec l :
  mapM (fun na => mk_aspec (fst na) (snd na)) l =
  if forallb wf_aspec (raw_of l) then Ok (raw_of l) else Err ValueError.
Proof.
  induction l as [|[n ax] l IH]; [reflexivity|].
  cbn [mapM raw_of map forallb fst snd]. unfold mk_aspec at 1. unfold wf_aspec at 1. cbn [aname axes].
  destruct (valid_name n && forallb valid_axis ax); cbn [bind andb]; [|reflexivity].
  rewrite IH. fold (raw_of l). destruct (forallb wf_aspec (raw_of l)); reflexivity.
Qed.

Lemma forallb_flat_map {A B} (p : B -> bool) (f : A -> list B) l :
  forallb p (flat_map f l) = forallb (fun a => forallb p (f a)) l.
Proof. induction l as [|x l IH]; cbn; [reflexivity|]. now rewrite forallb_app, IH. Qed.

Lemma existsb_negb_forallb {A} (p : A -> bool) l : existsb p l = negb (forallb (fun x => negb (p x)) l).
Proof. induction l as [|x l IH]; cbn; [reflexivity|]. rewrite IH. destruct (p x); reflexivity. Qed.

Lemma mk_mapspec_wf i o :
  forallb wf_aspec i = true -> forallb wf_aspec o = true ->
  mk_mapspec i o = if wf_decl {| ins := i; outs := o |} then Ok {| ins := i; outs := o |}
                   else match o with [] => Err IndexError | _ => Err ValueError end.
Proof.
  intros Hi Ho. unfold wf_decl, mk_mapspec. cbn [ins outs]. rewrite Hi, Ho. cbn [andb].
  destruct o as [|o0 rest]; [reflexivity|].
  rewrite existsb_negb_forallb. fold no_colon.
  change (fun x : aspec => negb (existsb is_none (axes x))) with no_colon.
  destruct (forallb no_colon (o0 :: rest)); cbn [negb andb]; [|reflexivity].
  destruct (forallb (fun x => list_eqb str_eqb (indices x) (indices o0)) rest); cbn [negb andb]; [|reflexivity].
  rewrite forallb_flat_map.
  destruct (forallb (fun a => forallb (fun ix => mem_str ix (indices o0)) (indices a)) i); reflexivity.
Qed.

Theorem build_accepts_iff_wf i o m :
  build i o = Ok m <-> (wf_decl {| ins := raw_of i; outs := raw_of o |} = true
                        /\ m = {| ins := raw_of i; outs := raw_of o |}).
Proof.
  unfold build. rewrite !mapM_mk_aspec.
  destruct (forallb wf_aspec (raw_of i)) eqn:Hi; cbn [bind].
  - destruct (forallb wf_aspec (raw_of o)) eqn:Ho; cbn [bind].
    + rewrite mk_mapspec_wf by assumption.
      destruct (wf_decl _) eqn:W.
      * split; [intros H; injection H as <-; auto | intros [_ ->]; reflexivity].
      * split; [destruct (raw_of o); discriminate | intros [H _]; discriminate].
    + split; [discriminate|]. intros [H _]. unfold wf_decl in H. cbn [ins outs] in H.
      rewrite Hi, Ho in H. discriminate.
  - split; [discriminate|]. intros [H _]. unfold wf_decl in H. cbn [ins outs] in H.
    rewrite Hi in H. discriminate.
Qed.

Corollary build_rejects_malformed i o :
  wf_decl {| ins := raw_of i; outs := raw_of o |} = false -> exists e, build i o = Err e.
Proof.
  intros W. destruct (build i o) as [m|e] eqn:B; [|eauto].
  apply build_accepts_iff_wf in B as [W' _]. congruence.
Qed.

(* ---------- input_keys selects, for each input, the coordinates named by its axes ---------- *)
Lemma nodup_str_NoDup l : nodup_str l = true <-> NoDup l.
Proof.
  induction l as [|x l IH]; cbn; [split; [constructor|reflexivity]|].
  rewrite andb_true_iff, negb_true_iff, mem_str_false, IH. split.
  - intros [H1 H2]. now constructor.
  - intros H. inversion H; auto.
Qed.

Lemma pos_of_Some x l : In x l -> exists p, pos_of x l = Some p /\ p < length l.
Proof.
  induction l as [|y l IH]; cbn; [tauto|]. intros H.
  destruct (str_eqb x y) eqn:E; [exists 0; split; [reflexivity|lia]|].
  apply str_eqb_neq in E. destruct H as [->|H]; [congruence|].
  destruct (IH H) as [p [Hp Hl]]. exists (S p). rewrite Hp. split; [reflexivity|lia].
Qed.

Lemma zip_lookup_notin names : forall key x, ~ In x names -> zip_lookup names key x = None.
Proof.
  induction names as [|a names IH]; intros [|k key] x Hx; cbn; try reflexivity.
  rewrite IH by (intros H; apply Hx; now right).
  destruct (str_eqb a x) eqn:E; [|reflexivity]. apply str_eqb_eq in E. exfalso. apply Hx. now left.
Qed.

Lemma zip_lookup_pos names : forall key x p,
  NoDup names -> length key = length names -> pos_of x names = Some p ->
  zip_lookup names key x = nth_error key p.
Proof.
  induction names as [|n names IH]; intros [|k key] x p Hnd Hlen Hp; cbn in *; try discriminate.
  inversion Hnd as [|? ? Hn Hnd']; subst. injection Hlen as Hlen.
  rewrite (str_eqb_sym n x). destruct (str_eqb x n) eqn:E.
  - injection Hp as <-. apply str_eqb_eq in E. subst x.
    now rewrite zip_lookup_notin.
  - destruct (pos_of x names) as [q|] eqn:Q; [|discriminate]. injection Hp as <-.
    rewrite (IH key x q Hnd' Hlen Q). cbn.
    destruct (nth_error key q) eqn:N; [reflexivity|].
    (* q < length names = length key, contradiction *)
    exfalso. apply nth_error_None in N.
    assert (q < length names). { clear - Q. revert q Q. induction names as [|a names IH]; intros q Q; cbn in Q; [discriminate|].
      destruct (str_eqb x a); [injection Q as <-; cbn; lia|]. destruct (pos_of x names) eqn:P; [|discriminate].
      injection Q as <-. cbn. specialize (IH _ eq_refl). lia. }
    lia.
Qed.

Lemma filter_NoDup {A} (p : A -> bool) l : NoDup l -> NoDup (filter p l).
Proof.
  induction 1 as [|x l Hx Hnd IH]; cbn; [constructor|].
  destruct (p x); [|assumption]. constructor; [|assumption]. intros H. apply filter_In in H as [H _]. contradiction.
Qed.

Lemma somes_In {A} (x : A) l : In x (somes l) <-> In (Some x) l.
Proof.
  induction l as [|[y|] l IH]; cbn; [tauto| |].
  - rewrite IH. split; intros [H|H]; auto; [left; congruence | left; congruence].
  - rewrite IH. split; [auto|]. intros [H|H]; [discriminate|assumption].
Qed.

Section InputKeys.
  Variable m : mapspec.
  Hypothesis Hwf : wf_decl m = true.
  Hypothesis Hnames : NoDup (map aname (ins m)).
  Hypothesis Hout : NoDup (output_indices m).

  Lemma ext_NoDup : NoDup (external_indices m).
  Proof. unfold external_indices. now apply filter_NoDup. Qed.

  Lemma input_axis_in_ext a x : In a (ins m) -> In (Some x) (axes a) -> In x (external_indices m).
  Proof.
    intros Ha Hx. unfold external_indices. apply filter_In. split.
    - unfold wf_decl in Hwf. apply andb_true_iff in Hwf as [_ H]. unfold output_indices.
      destruct (outs m) as [|o0 rest]; [discriminate|].
      apply andb_true_iff in H as [_ H]. rewrite forallb_forall in H. specialize (H a Ha).
      rewrite forallb_forall in H. apply mem_str_In. apply H. unfold indices. now apply somes_In.
    - apply mem_str_In. unfold input_indices_list. apply in_flat_map. exists a. split; [assumption|].
      unfold indices. now apply somes_In.
  Qed.

  Variable pos : list nat.
  Hypothesis Hpos : length pos = length (external_indices m).

  Definition key_of (a : aspec) : list kitem :=
    map (fun ax => match ax with
                   | None => KAll
                   | Some x => KInt (match zip_lookup (external_indices m) pos x with Some k => k | None => 0 end)
                   end) (axes a).

  Lemma input_key_of_ok a : In a (ins m) ->
    input_key_of (zip_lookup (external_indices m) pos) a = Ok (key_of a)
    /\ input_key_ok (external_indices m) pos a (key_of a) = true.
  Proof.
    intros Ha. unfold input_key_of, key_of, input_key_ok.
    assert (forall ax, In ax (axes a) -> match ax with Some x => In x (external_indices m) | None => True end) as Hax.
    { intros [x|] Hx; [|exact I]. eapply input_axis_in_ext; eassumption. }
    induction (axes a) as [|ax l IH]; [split; reflexivity|].
    assert (forall ax, In ax l -> match ax with Some x => In x (external_indices m) | None => True end) as Hl
      by (intros; apply Hax; now right).
    destruct (IH Hl) as [IH1 IH2]. cbn [mapM map forallb2].
    destruct ax as [x|].
    - specialize (Hax (Some x) (or_introl eq_refl)). cbn in Hax.
      destruct (pos_of_Some _ _ Hax) as [p [Hp Hlt]].
      rewrite (zip_lookup_pos _ pos x p ext_NoDup Hpos Hp) in *.
      destruct (nth_error pos p) as [c|] eqn:N; [|apply nth_error_None in N; lia].
      cbn [bind]. rewrite IH1. cbn [bind]. split; [reflexivity|].
      rewrite Hp, N, Nat.eqb_refl. exact IH2.
    - cbn [bind]. rewrite IH1. cbn [bind]. split; [reflexivity|exact IH2].
  Qed.

  Lemma dict_get_set_same {V} (d : list (str * V)) k v : dict_get (dict_set d k v) k = Some v.
  Proof.
    induction d as [|[k' v'] d IH]; cbn; [now rewrite str_eqb_refl|].
    destruct (str_eqb k k') eqn:E; cbn; rewrite E; [reflexivity|assumption].
  Qed.

  Lemma dict_get_set_other {V} (d : list (str * V)) k k' v : k <> k' -> dict_get (dict_set d k v) k' = dict_get d k'.
  Proof.
    intros Hne. induction d as [|[k2 v2] d IH]; cbn.
    - destruct (str_eqb k' k) eqn:E; [apply str_eqb_eq in E; congruence|reflexivity].
    - destruct (str_eqb k k2) eqn:E; cbn.
      + apply str_eqb_eq in E. subst k2. destruct (str_eqb k' k) eqn:E'; [apply str_eqb_eq in E'; congruence|reflexivity].
      + destruct (str_eqb k' k2); [reflexivity|assumption].
  Qed.

  Lemma dict_set_length_new {V} (d : list (str * V)) k v :
    dict_get d k = None -> length (dict_set d k v) = S (length d).
  Proof.
    induction d as [|[k' v'] d IH]; cbn; [reflexivity|]. destruct (str_eqb k k') eqn:E; [discriminate|].
    intros H. cbn. now rewrite IH.
  Qed.

  Lemma input_keys_fold l d0 :
    (forall a, In a l -> In a (ins m)) -> NoDup (map aname l) ->
    (forall a, In a l -> dict_get d0 (aname a) = None) ->
    exists d,
      fold_left (fun acc a => do d <- acc; do k <- input_key_of (zip_lookup (external_indices m) pos) a; Ok (dict_set d (aname a) k))
                l (Ok d0) = Ok d
      /\ length d = length d0 + length l
      /\ (forall a, In a l -> dict_get d (aname a) = Some (key_of a))
      /\ (forall k, ~ In k (map aname l) -> dict_get d k = dict_get d0 k).
  Proof.
    revert d0. induction l as [|a l IH]; intros d0 Hin Hnd Hfresh.
    - exists d0. cbn. repeat split; auto; lia.
    - cbn [fold_left bind]. destruct (input_key_of_ok a (Hin a (or_introl eq_refl))) as [E _]. rewrite E. cbn [bind].
      inversion Hnd as [|? ? Ha Hnd']; subst.
      destruct (IH (dict_set d0 (aname a) (key_of a))) as [d [Hd [Hlen [Hget Hother]]]].
      + intros; apply Hin; now right.
      + assumption.
      + intros b Hb. rewrite dict_get_set_other; [apply Hfresh; now right|].
        intros Eab. apply Ha. rewrite Eab. now apply in_map.
      + exists d. split; [exact Hd|]. split.
        * rewrite Hlen, dict_set_length_new by (apply Hfresh; now left). cbn. lia.
        * split.
          -- intros b [<-|Hb]; [|now apply Hget]. rewrite Hother by assumption. apply dict_get_set_same.
          -- intros k Hk. rewrite Hother by (intros H; apply Hk; now right).
             apply dict_get_set_other. intros E'. apply Hk. left. assumption.
  Qed.
End InputKeys.

Theorem input_keys_select m sh n :
  wf_decl m = true -> NoDup (map aname (ins m)) -> NoDup (output_indices m) ->
  length sh = length (external_indices m) -> forallb (fun d => 0 <? d) sh = true ->
  exists d, input_keys m sh n = Ok d /\ input_keys_ok m (unravel sh n) d = true.
Proof.
  intros Hwf Hnames Hout Hlen Hpos. unfold input_keys.
  rewrite Hlen, Nat.eqb_refl. cbn [negb]. unfold unravel_checked. rewrite existsb_zero_false by assumption.
  cbn [bind].
  assert (length (unravel sh n) = length (external_indices m)) as Hp by (now rewrite unravel_length).
  edestruct (input_keys_fold m) with (pos := unravel sh n) (l := ins m) (d0 := @nil (str * list kitem))
    as [d [Hd [Hl [Hget _]]]]; eauto.
  exists d. split; [exact Hd|]. unfold input_keys_ok. cbn in Hl. rewrite Hl, Nat.eqb_refl. cbn [andb].
  apply forallb_forall. intros a Ha. rewrite (Hget a Ha).
  eapply input_key_of_ok; eauto.
Qed.

(* ---------- rename / add_axes map well-formed specs to well-formed specs of the expected structure ---------- *)
Definition renamed (ren : list (str * str)) (a : aspec) : aspec :=
  {| aname := match dict_get ren (aname a) with Some n => n | None => aname a end; axes := axes a |}.
Definition rename_struct (m : mapspec) ren : mapspec :=
  {| ins := map (renamed ren) (ins m); outs := map (renamed ren) (outs m) |}.

Lemma mapM_rn ren l :
  mapM (fun a => mk_aspec (match dict_get ren (aname a) with Some n => n | None => aname a end) (axes a)) l =
  if forallb wf_aspec (map (renamed ren) l) then Ok (map (renamed ren) l) else Err ValueError.
Proof.
  induction l as [|a l IH]; [reflexivity|]. cbn [mapM map forallb].
  unfold mk_aspec at 1. unfold wf_aspec at 1. change (axes (renamed ren a)) with (axes a).
  change (aname (renamed ren a)) with (match dict_get ren (aname a) with Some n => n | None => aname a end).
  destruct (valid_name _ && forallb valid_axis (axes a)); cbn [bind andb]; [|reflexivity].
  rewrite IH. destruct (forallb wf_aspec (map (renamed ren) l)); reflexivity.
Qed.

Lemma renamed_id ren l :
  existsb (fun n => is_ok (match dict_get ren n with Some v => Ok v | None => Err KeyError end)) (map aname l) = false ->
  map (renamed ren) l = l.
Proof.
  induction l as [|a l IH]; [reflexivity|]. cbn [map existsb]. intros H. apply orb_false_iff in H as [H1 H2].
  rewrite IH by assumption. f_equal. unfold renamed. destruct (dict_get ren (aname a)); [discriminate|]. now destruct a.
Qed.

Theorem rename_wf m ren :
  wf_decl m = true ->
  (wf_decl (rename_struct m ren) = true -> rename m ren = Ok (rename_struct m ren))
  /\ (forall r, rename m ren = Ok r -> r = rename_struct m ren /\ wf_decl r = true).
Proof.
  intros Hwf. unfold rename.
  destruct (existsb _ (map aname (ins m) ++ map aname (outs m))) eqn:E; cbn [negb].
  - rewrite !mapM_rn. unfold rename_struct.
    destruct (forallb wf_aspec (map (renamed ren) (ins m))) eqn:Hi; cbn [bind].
    + destruct (forallb wf_aspec (map (renamed ren) (outs m))) eqn:Ho; cbn [bind].
      * rewrite mk_mapspec_wf by assumption.
        destruct (wf_decl {| ins := map (renamed ren) (ins m); outs := map (renamed ren) (outs m) |}) eqn:W.
        -- split; [reflexivity|]. intros r H. injection H as <-. auto.
        -- split; [discriminate|]. intros r H. destruct (map (renamed ren) (outs m)); discriminate.
      * split; [|discriminate]. intros W. unfold wf_decl in W. cbn [ins outs] in W. rewrite Hi, Ho in W. discriminate.
    + split; [|discriminate]. intros W. unfold wf_decl in W. cbn [ins outs] in W. rewrite Hi in W. discriminate.
  - rewrite existsb_app in E. apply orb_false_iff in E as [E1 E2].
    unfold rename_struct. rewrite (renamed_id ren (ins m) E1), (renamed_id ren (outs m) E2).
    assert ({| ins := ins m; outs := outs m |} = m) as -> by now destruct m.
    split; [reflexivity|]. intros r H. injection H as <-. auto.
Qed.

Definition extended (ax : list (option str)) (a : aspec) : aspec := {| aname := aname a; axes := axes a ++ ax |}.
Definition add_axes_struct (m : mapspec) ax : mapspec :=
  {| ins := map (extended ax) (ins m); outs := map (extended ax) (outs m) |}.
Definition fresh_axes (ax : list (option str)) (a : aspec) : bool :=
  negb (existsb (fun x => match x with Some _ => existsb (axis_eqb x) (axes a) | None => false end) ax).

Lemma mapM_add ax l :
  mapM (fun a => aspec_add_axes a ax) l =
  if forallb (fresh_axes ax) l && forallb wf_aspec (map (extended ax) l) then Ok (map (extended ax) l)
  else Err ValueError.
Proof.
  induction l as [|a l IH]; [reflexivity|]. cbn [mapM map forallb].
  unfold aspec_add_axes at 1. unfold fresh_axes at 1.
  destruct (existsb _ ax); cbn [negb andb bind]; [reflexivity|].
  unfold mk_aspec. unfold wf_aspec at 1. change (axes (extended ax a)) with (axes a ++ ax).
  change (aname (extended ax a)) with (aname a).
  destruct (valid_name (aname a) && forallb valid_axis (axes a ++ ax)); cbn [bind andb].
  - rewrite IH. destruct (forallb (fresh_axes ax) l && forallb wf_aspec (map (extended ax) l)); reflexivity.
  - now rewrite andb_false_r.
Qed.

Theorem add_axes_wf m ax :
  (forallb (fresh_axes ax) (ins m ++ outs m) = true -> wf_decl (add_axes_struct m ax) = true ->
   add_axes m ax = Ok (add_axes_struct m ax))
  /\ (forall r, add_axes m ax = Ok r ->
        r = add_axes_struct m ax /\ wf_decl r = true /\ forallb (fresh_axes ax) (ins m ++ outs m) = true).
Proof.
  unfold add_axes. rewrite !mapM_add, forallb_app. unfold add_axes_struct.
  destruct (forallb (fresh_axes ax) (ins m)); cbn [andb bind].
  2:{ split; [discriminate|discriminate]. }
  destruct (forallb wf_aspec (map (extended ax) (ins m))) eqn:Hi; cbn [bind].
  2:{ split; [|discriminate]. intros _ W. unfold wf_decl in W. cbn [ins outs] in W. rewrite Hi in W. discriminate. }
  destruct (forallb (fresh_axes ax) (outs m)); cbn [andb bind].
  2:{ split; discriminate. }
  destruct (forallb wf_aspec (map (extended ax) (outs m))) eqn:Ho; cbn [bind].
  2:{ split; [|discriminate]. intros _ W. unfold wf_decl in W. cbn [ins outs] in W. rewrite Hi, Ho in W. discriminate. }
  rewrite mk_mapspec_wf by assumption.
  destruct (wf_decl {| ins := map (extended ax) (ins m); outs := map (extended ax) (outs m) |}) eqn:W.
  - split; [reflexivity|]. intros r H. injection H as <-. auto.
  - split; [discriminate|]. intros r H. destruct (map (extended ax) (outs m)); discriminate.
Qed.
