(* print / parse round trip for MapSpec:  parse (print m) = Ok m  for every well-formed, printable m. *)
From Verif Require Import Base.Prelude Base.StrUtil Base.Index Model.MapSpec Model.MapSpecSpec
  Proofs.StrFacts Proofs.MapSpecFacts.

(* ------------------------------------------------------------------------------------------ *)
(* characters *)

Definition nonword (c : ascii) : bool := negb (is_word c).
Definition nospace (c : ascii) : bool := negb (is_space c).
Definition nodash (c : ascii) : bool := negb (Ascii.eqb c "-"%char).
(* what `.+?` may consume before the closing bracket *)
Definition body_char (d : ascii) : bool := not_nl d && negb (Ascii.eqb d "]"%char).
Definition nocomma (c : ascii) : bool := negb (Ascii.eqb ","%char c).

Lemma word_neq c d : is_word c = true -> is_word d = false -> c <> d.
Proof. intros Hc Hd E. subst. congruence. Qed.

Lemma word_eqb_l c d : is_word c = true -> is_word d = false -> Ascii.eqb c d = false.
Proof. intros Hc Hd. apply Ascii.eqb_neq. now apply word_neq. Qed.

Lemma word_eqb_r c d : is_word c = true -> is_word d = false -> Ascii.eqb d c = false.
Proof. intros Hc Hd. rewrite Ascii.eqb_sym. now apply word_eqb_l. Qed.

Lemma word_nospace c : is_word c = true -> is_space c = false.
Proof.
  destruct c as [[] [] [] [] [] [] [] []]; vm_compute; intros H; try reflexivity; discriminate H.
Qed.

Lemma alpha_word c : is_alpha_ c = true -> is_word c = true.
Proof. intros H. unfold is_word. now rewrite H. Qed.

Lemma word_nodash c : is_word c = true -> nodash c = true.
Proof. intros H. unfold nodash. now rewrite (word_eqb_l c "-"%char H eq_refl). Qed.

Lemma word_body_char c : is_word c = true -> body_char c = true.
Proof.
  intros H. unfold body_char, not_nl.
  now rewrite (word_eqb_l c "010"%char H eq_refl), (word_eqb_l c "]"%char H eq_refl).
Qed.

Lemma word_nocomma c : is_word c = true -> nocomma c = true.
Proof. intros H. unfold nocomma. now rewrite (word_eqb_r c ","%char H eq_refl). Qed.

Lemma word_nospace' c : is_word c = true -> nospace c = true.
Proof. intros H. unfold nospace. now rewrite word_nospace. Qed.

(* ------------------------------------------------------------------------------------------ *)
(* generic list-of-char lemmas *)

Lemma forallb_impl {A} (p q : A -> bool) l :
  (forall x, p x = true -> q x = true) -> forallb p l = true -> forallb q l = true.
Proof.
  intros Hpq. induction l as [|x l IH]; cbn [forallb]; [reflexivity|].
  intros H. apply andb_true_iff in H as [H1 H2]. now rewrite (Hpq x H1), IH.
Qed.

Lemma forallb_join (p : ascii -> bool) sep l :
  forallb p sep = true -> (forall x, In x l -> forallb p x = true) -> forallb p (join sep l) = true.
Proof.
  intros Hsep. induction l as [|x l IH]; intros Hl; [reflexivity|].
  destruct l as [|y l].
  - cbn [join]. apply Hl. now left.
  - change (join sep (x :: y :: l)) with (x ++ sep ++ join sep (y :: l)).
    rewrite !forallb_app, Hsep, (Hl x (or_introl eq_refl)), IH; [reflexivity|].
    intros z Hz. apply Hl. now right.
Qed.

Lemma forallb_rev {A} (p : A -> bool) l : forallb p (rev l) = forallb p l.
Proof.
  induction l as [|x l IH]; [reflexivity|]. cbn [rev forallb].
  rewrite forallb_app, IH. cbn [forallb]. rewrite andb_true_r. apply andb_comm.
Qed.

Lemma mem_char_app c x y : mem_char c (x ++ y) = mem_char c x || mem_char c y.
Proof. induction x as [|d x IH]; cbn [mem_char app]; [reflexivity|]. now rewrite IH, orb_assoc. Qed.

Lemma mem_char_rev c x : mem_char c (rev x) = mem_char c x.
Proof.
  induction x as [|d x IH]; [reflexivity|]. cbn [rev mem_char].
  rewrite mem_char_app, IH. cbn [mem_char]. rewrite orb_false_r. apply orb_comm.
Qed.

Lemma mem_char_lstrip c x : is_space c = false -> mem_char c (lstrip x) = mem_char c x.
Proof.
  intros Hc. induction x as [|d x IH]; [reflexivity|]. cbn [lstrip].
  destruct (is_space d) eqn:Hd; [|reflexivity].
  rewrite IH. cbn [mem_char].
  destruct (Ascii.eqb_spec c d) as [->|_]; [congruence|reflexivity].
Qed.

Lemma mem_char_strip c x : is_space c = false -> mem_char c (strip x) = mem_char c x.
Proof.
  intros Hc. unfold strip.
  now rewrite mem_char_rev, mem_char_lstrip, mem_char_rev, mem_char_lstrip.
Qed.

Lemma lstrip_nospace x : forallb nospace x = true -> lstrip x = x.
Proof.
  destruct x as [|c x]; [reflexivity|]. cbn [forallb lstrip]. intros H.
  apply andb_true_iff in H as [H _]. unfold nospace in H. apply negb_true_iff in H. now rewrite H.
Qed.

Lemma strip_nospace x : forallb nospace x = true -> strip x = x.
Proof.
  intros H. unfold strip. rewrite (lstrip_nospace x H).
  rewrite lstrip_nospace by (now rewrite forallb_rev). apply rev_involutive.
Qed.

Lemma strip_blank x : strip (" "%char :: x) = strip x.
Proof. reflexivity. Qed.

(* span *)
Lemma span_app p a rest :
  forallb p a = true -> match rest with [] => True | c :: _ => p c = false end ->
  span p (a ++ rest) = (a, rest).
Proof.
  intros Ha Hr. induction a as [|c a IH]; cbn [app].
  - destruct rest as [|c r]; [reflexivity|]. cbn [span]. now rewrite Hr.
  - cbn [forallb] in Ha. apply andb_true_iff in Ha as [Hc Ha]. cbn [span]. rewrite Hc, (IH Ha). reflexivity.
Qed.

Lemma span_app_cons p a c r :
  forallb p a = true -> p c = false -> span p (a ++ c :: r) = (a, c :: r).
Proof. intros Ha Hc. now apply span_app. Qed.

(* split(",") *)
Lemma split_char_nosep x : forallb nocomma x = true -> split_char ","%char x = [x].
Proof.
  induction x as [|d x IH]; [reflexivity|]. cbn [forallb split_char]. intros H.
  apply andb_true_iff in H as [Hd Hx]. unfold nocomma in Hd. apply negb_true_iff in Hd.
  now rewrite Hd, (IH Hx).
Qed.

Lemma split_char_app x y :
  forallb nocomma x = true -> split_char ","%char (x ++ ","%char :: y) = x :: split_char ","%char y.
Proof.
  induction x as [|d x IH]; [reflexivity|]. cbn [forallb split_char app]. intros H.
  apply andb_true_iff in H as [Hd Hx]. unfold nocomma in Hd. apply negb_true_iff in Hd.
  now rewrite Hd, (IH Hx).
Qed.

Lemma split_char_blank y : split_char ","%char (" "%char :: y) =
  match split_char ","%char y with h :: r => (" "%char :: h) :: r | [] => [[" "%char]] end.
Proof. reflexivity. Qed.

Lemma split_char_join x l :
  (forall y, In y (x :: l) -> forallb nocomma y = true) ->
  split_char ","%char (join [","%char; " "%char] (x :: l)) = x :: map (cons " "%char) l.
Proof.
  revert x. induction l as [|y l IH]; intros x H.
  - cbn [join map]. apply split_char_nosep. apply H. now left.
  - change (join [","%char; " "%char] (x :: y :: l))
      with (x ++ ","%char :: " "%char :: join [","%char; " "%char] (y :: l)).
    rewrite split_char_app by (apply H; now left).
    rewrite split_char_blank, IH by (intros z Hz; apply H; now right). reflexivity.
Qed.

(* split("->") *)
Lemma split_arrow_cons d t : d <> "-"%char ->
  split_arrow (d :: t) = match split_arrow t with h :: r => (d :: h) :: r | [] => [[d]] end.
Proof.
  intros Hd. destruct d as [[] [] [] [] [] [] [] []]; try reflexivity. congruence.
Qed.

Lemma split_arrow_nodash x : forallb nodash x = true -> split_arrow x = [x].
Proof.
  induction x as [|d x IH]; [reflexivity|]. cbn [forallb]. intros H.
  apply andb_true_iff in H as [Hd Hx]. unfold nodash in Hd. apply negb_true_iff, Ascii.eqb_neq in Hd.
  now rewrite split_arrow_cons, (IH Hx).
Qed.

Lemma split_arrow_app x y : forallb nodash x = true ->
  split_arrow (x ++ "-"%char :: ">"%char :: y) = x :: split_arrow y.
Proof.
  induction x as [|d x IH]; [reflexivity|]. cbn [forallb app]. intros H.
  apply andb_true_iff in H as [Hd Hx]. unfold nodash in Hd. apply negb_true_iff, Ascii.eqb_neq in Hd.
  now rewrite split_arrow_cons, (IH Hx).
Qed.

Lemma split_first_spec c x a b : split_first c x = Some (a, b) -> x = a ++ c :: b.
Proof.
  revert a b. induction x as [|d x IH]; intros a b; cbn [split_first]; [discriminate|].
  destruct (Ascii.eqb_spec c d) as [->|_].
  - intros H. injection H as <- <-. reflexivity.
  - destruct (split_first c x) as [[a' b']|]; [|discriminate]. intros H. injection H as <- <-.
    cbn [app]. f_equal. now apply IH.
Qed.

Lemma join_concat sep (f : str) l :
  join sep (f :: l) = f ++ concat (map (fun x => sep ++ x) l).
Proof.
  revert f. induction l as [|y l IH]; intros f.
  - cbn [join map concat]. now rewrite app_nil_r.
  - change (join sep (f :: y :: l)) with (f ++ sep ++ join sep (y :: l)).
    rewrite IH. cbn [map concat]. now rewrite <- !app_assoc.
Qed.

(* ------------------------------------------------------------------------------------------ *)
(* identifiers and names *)

Lemma ident_words x : is_ident x = true -> forallb is_word x = true.
Proof.
  destruct x as [|c x]; cbn [is_ident forallb]; [discriminate|]. intros H.
  apply andb_true_iff in H as [Hc Hx]. now rewrite (alpha_word c Hc), Hx.
Qed.

Lemma ident_nonempty x : is_ident x = true -> x <> [].
Proof. destruct x; [discriminate|congruence]. Qed.

Lemma ident_not_colon x : is_ident x = true -> str_eqb x [":"%char] = false.
Proof.
  destruct x as [|c x]; cbn [is_ident str_eqb]; [discriminate|]. intros H.
  apply andb_true_iff in H as [Hc _].
  now rewrite (word_eqb_l c ":"%char (alpha_word c Hc) eq_refl).
Qed.

(* a valid name is  ident  or  ident.ident *)
Lemma valid_name_cases n : valid_name n = true ->
  is_ident n = true \/ exists a b, n = a ++ "."%char :: b /\ is_ident a = true /\ is_ident b = true.
Proof.
  unfold valid_name. destruct (mem_char "."%char n); [|now left].
  destruct (split_first "."%char n) as [[a b]|] eqn:E; [|discriminate].
  intros H. apply andb_true_iff in H as [Ha Hb]. right. exists a, b.
  split; [now apply split_first_spec|auto].
Qed.

Lemma valid_name_chars (p : ascii -> bool) n :
  (forall c, is_word c = true -> p c = true) -> p "."%char = true ->
  valid_name n = true -> forallb p n = true.
Proof.
  intros Hw Hdot H. destruct (valid_name_cases n H) as [Hi|[a [b [-> [Ha Hb]]]]].
  - apply (forallb_impl is_word p _ Hw). now apply ident_words.
  - rewrite forallb_app. cbn [forallb]. rewrite Hdot.
    rewrite (forallb_impl is_word p a Hw (ident_words a Ha)).
    now rewrite (forallb_impl is_word p b Hw (ident_words b Hb)).
Qed.

Lemma valid_name_nonempty n : valid_name n = true -> n <> [].
Proof.
  intros H. destruct (valid_name_cases n H) as [Hi|[a [b [-> _]]]].
  - now apply ident_nonempty.
  - destruct a; discriminate.
Qed.

Lemma valid_name_head n : valid_name n = true -> exists c t, n = c :: t /\ is_word c = true.
Proof.
  intros H. destruct (valid_name_cases n H) as [Hi|[a [b [-> [Ha _]]]]].
  - destruct n as [|c t]; [discriminate|]. exists c, t. split; [reflexivity|].
    cbn [is_ident] in Hi. apply andb_true_iff in Hi as [Hc _]. now apply alpha_word.
  - destruct a as [|c t]; [discriminate|]. exists c, (t ++ "."%char :: b). split; [reflexivity|].
    cbn [is_ident] in Ha. apply andb_true_iff in Ha as [Hc _]. now apply alpha_word.
Qed.

(* ------------------------------------------------------------------------------------------ *)
(* one regex match on a printed array *)

Lemma match_brackets_ok body rest :
  body <> [] -> forallb body_char body = true ->
  match_brackets (body ++ "]"%char :: rest) = Some (body, rest).
Proof.
  intros Hne Hb. destruct body as [|c b]; [congruence|]. cbn [forallb] in Hb.
  apply andb_true_iff in Hb as [Hc Hb]. unfold body_char in Hc. apply andb_true_iff in Hc as [Hc _].
  cbn [app match_brackets]. rewrite Hc.
  change (span _ (b ++ "]"%char :: rest)) with (span body_char (b ++ "]"%char :: rest)).
  rewrite (span_app_cons body_char b "]"%char rest Hb eq_refl). reflexivity.
Qed.

Lemma try_match_nonword c t : is_word c = false -> try_match (c :: t) = None.
Proof. intros H. unfold try_match. cbn [span]. now rewrite H. Qed.

Lemma try_match_print n body rest :
  valid_name n = true -> body <> [] -> forallb body_char body = true ->
  try_match (n ++ "["%char :: body ++ "]"%char :: rest) = Some (n, body, rest).
Proof.
  intros Hn Hne Hb. unfold try_match.
  destruct (valid_name_cases n Hn) as [Hi|[a [b [-> [Ha Hb']]]]].
  - rewrite (span_app_cons is_word n "["%char _ (ident_words n Hi) eq_refl).
    destruct n as [|c n]; [discriminate|].
    now rewrite (match_brackets_ok body rest Hne Hb).
  - rewrite <- app_assoc. cbn [app].
    rewrite (span_app_cons is_word a "."%char _ (ident_words a Ha) eq_refl).
    destruct a as [|c a]; [discriminate|].
    rewrite (span_app_cons is_word b "["%char _ (ident_words b Hb') eq_refl).
    destruct b as [|c' b]; [discriminate|].
    now rewrite (match_brackets_ok body rest Hne Hb).
Qed.

(* ------------------------------------------------------------------------------------------ *)
(* findall on a printed list of arrays *)

Lemma findall_skip pre x fuel :
  forallb nonword pre = true -> findall (length pre + fuel) (pre ++ x) = findall fuel x.
Proof.
  induction pre as [|c pre IH]; [reflexivity|]. cbn [forallb length app plus]. intros H.
  apply andb_true_iff in H as [Hc Hp]. unfold nonword in Hc. apply negb_true_iff in Hc.
  cbn [findall]. rewrite (try_match_nonword c _ Hc). now apply IH.
Qed.

Lemma findall_nonword x fuel : forallb nonword x = true -> findall fuel x = [].
Proof.
  revert fuel. induction x as [|c x IH]; intros [|fuel] H; try reflexivity.
  cbn [forallb] in H. apply andb_true_iff in H as [Hc Hp]. unfold nonword in Hc. apply negb_true_iff in Hc.
  cbn [findall]. rewrite (try_match_nonword c _ Hc). now apply IH.
Qed.

Definition body_of (a : aspec) : str := join [","%char; " "%char] (map axis_str (axes a)).
Definition tok (a : aspec) : str * str := (aname a, body_of a).

Lemma print_aspec_eq a : print_aspec a = aname a ++ "["%char :: body_of a ++ ["]"%char].
Proof. reflexivity. Qed.

(* a well-formed array of rank >= 1 *)
Definition good (a : aspec) : bool := wf_aspec a && negb (length (axes a) =? 0).

Lemma axis_str_chars (p : ascii -> bool) ax :
  (forall c, is_word c = true -> p c = true) -> p ":"%char = true ->
  valid_axis ax = true -> forallb p (axis_str ax) = true.
Proof.
  intros Hw Hc H. destruct ax as [i|]; cbn [axis_str valid_axis] in *.
  - apply (forallb_impl is_word p _ Hw). now apply ident_words.
  - cbn. now rewrite Hc.
Qed.

Lemma axis_str_nonempty ax : valid_axis ax = true -> axis_str ax <> [].
Proof. destruct ax as [i|]; cbn [axis_str valid_axis]; [apply ident_nonempty|discriminate]. Qed.

Lemma body_chars (p : ascii -> bool) a :
  (forall c, is_word c = true -> p c = true) -> p ":"%char = true -> p ","%char = true -> p " "%char = true ->
  forallb valid_axis (axes a) = true -> forallb p (body_of a) = true.
Proof.
  intros Hw Hc Hcm Hsp Hax. unfold body_of. apply forallb_join.
  - cbn [forallb]. now rewrite Hcm, Hsp.
  - intros x Hx. apply in_map_iff in Hx as [ax [<- Hin]]. apply axis_str_chars; auto.
    rewrite forallb_forall in Hax. now apply Hax.
Qed.

Lemma body_nonempty a : good a = true -> body_of a <> [].
Proof.
  unfold good, wf_aspec, body_of. intros H. apply andb_true_iff in H as [H Hr].
  apply andb_true_iff in H as [_ Hax].
  destruct (axes a) as [|ax l]; [discriminate|]. cbn [forallb map] in *.
  apply andb_true_iff in Hax as [Hax _]. rewrite join_concat.
  pose proof (axis_str_nonempty ax Hax) as Hne. destruct (axis_str ax); [congruence|discriminate].
Qed.

Lemma try_match_aspec a rest : good a = true ->
  try_match (print_aspec a ++ rest) = Some (aname a, body_of a, rest).
Proof.
  intros H. pose proof (body_nonempty a H) as Hne. unfold good, wf_aspec in H.
  apply andb_true_iff in H as [H _]. apply andb_true_iff in H as [Hn Hax].
  rewrite print_aspec_eq. rewrite <- !app_assoc. cbn [app]. rewrite <- !app_assoc. cbn [app].
  apply try_match_print; auto.
  apply body_chars; auto. exact word_body_char.
Qed.

Lemma print_aspec_nonempty a : print_aspec a <> [].
Proof. rewrite print_aspec_eq. destruct (aname a); discriminate. Qed.

(* the printed stream: every array preceded by a non-word prefix, then a non-word tail *)
Definition stream (pre : str) (l : list aspec) (tail : str) : str :=
  concat (map (fun a => pre ++ print_aspec a) l) ++ tail.

Lemma findall_stream pre tail : forallb nonword pre = true -> forallb nonword tail = true ->
  forall l fuel, forallb good l = true -> length (stream pre l tail) < fuel ->
  findall fuel (stream pre l tail) = map tok l.
Proof.
  intros Hpre Htail. induction l as [|a l IH]; intros fuel Hl Hf.
  - cbn [stream map concat app]. now apply findall_nonword.
  - cbn [forallb] in Hl. apply andb_true_iff in Hl as [Ha Hl].
    assert (stream pre (a :: l) tail = pre ++ print_aspec a ++ stream pre l tail) as E.
    { unfold stream. cbn [map concat]. now rewrite <- !app_assoc. }
    rewrite E in *. rewrite !app_length in Hf.
    replace fuel with (length pre + (fuel - length pre)) by lia.
    rewrite (findall_skip _ _ _ Hpre).
    destruct (fuel - length pre) as [|f] eqn:Ef; [lia|].
    cbn [findall]. rewrite (try_match_aspec a _ Ha).
    destruct (print_aspec a ++ stream pre l tail) eqn:Ep.
    { apply app_eq_nil in Ep as [Ep _]. now apply print_aspec_nonempty in Ep. }
    cbn [map]. f_equal. apply IH; [assumption|].
    pose proof (print_aspec_nonempty a) as Hne. destruct (print_aspec a); [congruence|]. cbn [length] in Hf. lia.
Qed.

Lemma join_print_stream a l :
  join [","%char; " "%char] (map print_aspec (a :: l)) = print_aspec a ++ stream [","%char; " "%char] l [].
Proof.
  cbn [map]. rewrite join_concat. unfold stream. rewrite app_nil_r. f_equal.
  now rewrite map_map.
Qed.

(* ------------------------------------------------------------------------------------------ *)
(* _parse_index_string on a printed index list *)

Definition parse_axis (p : str) : option str :=
  let i := strip p in if str_eqb i (s ":") then None else Some i.

Lemma parse_axis_print ax : valid_axis ax = true ->
  parse_axis (axis_str ax) = ax /\ parse_axis (" "%char :: axis_str ax) = ax.
Proof.
  intros H. unfold parse_axis. rewrite strip_blank.
  destruct ax as [i|]; cbn [axis_str valid_axis] in *; [|split; reflexivity].
  rewrite strip_nospace
    by (apply (forallb_impl is_word nospace _ word_nospace'); now apply ident_words).
  change (s ":") with [":"%char]. rewrite (ident_not_colon i H). split; reflexivity.
Qed.

Lemma map_id_in {A} (f : A -> A) l : (forall x, In x l -> f x = x) -> map f l = l.
Proof.
  induction l as [|x l IH]; intros H; [reflexivity|]. cbn [map].
  rewrite (H x (or_introl eq_refl)), IH; [reflexivity|]. intros; apply H; now right.
Qed.

Lemma parse_index_string_body a : good a = true -> parse_index_string (body_of a) = axes a.
Proof.
  unfold good, wf_aspec, body_of. intros H. apply andb_true_iff in H as [H Hr].
  apply andb_true_iff in H as [_ Hax].
  destruct (axes a) as [|ax l]; [discriminate|]. clear Hr.
  unfold parse_index_string. fold parse_axis. cbn [map].
  rewrite split_char_join.
  2:{ intros y Hy. change (axis_str ax :: map axis_str l) with (map axis_str (ax :: l)) in Hy.
      apply in_map_iff in Hy as [z [<- Hz]]. apply axis_str_chars; [exact word_nocomma|reflexivity|].
      rewrite forallb_forall in Hax. now apply Hax. }
  cbn [forallb] in Hax. apply andb_true_iff in Hax as [Hax Hl].
  cbn [map]. rewrite (proj1 (parse_axis_print ax Hax)). f_equal.
  rewrite !map_map. apply map_id_in. intros x Hx. rewrite forallb_forall in Hl.
  exact (proj2 (parse_axis_print x (Hl x Hx))).
Qed.

Lemma mapM_tok l : forallb good l = true ->
  mapM (fun nb => mk_aspec (fst nb) (parse_index_string (snd nb))) (map tok l) = Ok l.
Proof.
  induction l as [|a l IH]; intros H; [reflexivity|]. cbn [forallb] in H.
  apply andb_true_iff in H as [Ha Hl]. cbn [map mapM]. change (tok a) with (aname a, body_of a). cbn [fst snd].
  rewrite (parse_index_string_body a Ha). unfold mk_aspec at 1.
  pose proof Ha as Hw. unfold good in Hw. apply andb_true_iff in Hw as [Hw _]. unfold wf_aspec in Hw.
  rewrite Hw. cbn [bind]. rewrite (IH Hl). cbn [bind]. now destruct a.
Qed.

(* ------------------------------------------------------------------------------------------ *)
(* _parse_indexed_arrays on one printed side *)

Lemma print_aspec_brackets a :
  mem_char "["%char (print_aspec a) = true /\ mem_char "]"%char (print_aspec a) = true.
Proof.
  rewrite print_aspec_eq. split.
  - rewrite mem_char_app. cbn [mem_char]. rewrite Ascii.eqb_refl. cbn [orb]. apply orb_true_r.
  - rewrite mem_char_app. cbn [mem_char]. rewrite mem_char_app. cbn [mem_char].
    rewrite Ascii.eqb_refl. cbn [orb]. now rewrite !orb_true_r.
Qed.

Lemma stream_tail pre l tail : stream pre l [] ++ tail = stream pre l tail.
Proof. unfold stream. now rewrite app_nil_r. Qed.

Lemma parse_arrays_ok pre0 tail a l :
  forallb nonword pre0 = true -> forallb nonword tail = true -> forallb good (a :: l) = true ->
  parse_indexed_arrays (pre0 ++ join [","%char; " "%char] (map print_aspec (a :: l)) ++ tail) = Ok (a :: l).
Proof.
  intros Hpre Htail Hl. rewrite join_print_stream, <- app_assoc, stream_tail.
  set (st := stream [","%char; " "%char] l tail).
  assert (forall c, mem_char c (print_aspec a) = true -> mem_char c (pre0 ++ print_aspec a ++ st) = true) as Hmem.
  { intros c Hc. now rewrite !mem_char_app, Hc, orb_true_r. }
  destruct (print_aspec_brackets a) as [Hlb Hrb].
  unfold parse_indexed_arrays.
  destruct (str_eqb (strip (pre0 ++ print_aspec a ++ st)) (s "...")) eqn:E.
  { exfalso. apply str_eqb_eq in E.
    pose proof (mem_char_strip "["%char (pre0 ++ print_aspec a ++ st) eq_refl) as Hs.
    rewrite E, (Hmem _ Hlb) in Hs. discriminate Hs. }
  rewrite (Hmem _ Hlb), (Hmem _ Hrb). cbn [negb orb].
  cbn [forallb] in Hl. pose proof Hl as Hl'. apply andb_true_iff in Hl' as [Ha Hl'].
  replace (findall (S (length (pre0 ++ print_aspec a ++ st))) (pre0 ++ print_aspec a ++ st))
    with (map tok (a :: l)); [now apply mapM_tok|].
  symmetry. rewrite app_length.
  replace (S (length pre0 + length (print_aspec a ++ st)))
    with (length pre0 + S (length (print_aspec a ++ st))) by lia.
  rewrite (findall_skip _ _ _ Hpre). cbn [findall]. rewrite (try_match_aspec a _ Ha).
  destruct (print_aspec a ++ st) eqn:Ep.
  { apply app_eq_nil in Ep as [Ep _]. now apply print_aspec_nonempty in Ep. }
  rewrite <- Ep. cbn [map]. f_equal. apply findall_stream; auto.
  rewrite app_length. pose proof (print_aspec_nonempty a) as Hne.
  destruct (print_aspec a); [congruence|]. cbn [length]. subst st. lia.
Qed.

Lemma parse_arrays_dots : parse_indexed_arrays (s "..." ++ [" "%char]) = Ok [].
Proof. reflexivity. Qed.

(* ------------------------------------------------------------------------------------------ *)
(* the printed alphabet has no '-' *)

Lemma print_aspec_chars (p : ascii -> bool) a :
  (forall c, is_word c = true -> p c = true) ->
  p "."%char = true -> p ":"%char = true -> p ","%char = true -> p " "%char = true ->
  p "["%char = true -> p "]"%char = true ->
  wf_aspec a = true -> forallb p (print_aspec a) = true.
Proof.
  intros Hw Hd Hc Hcm Hsp Hl Hr H. unfold wf_aspec in H. apply andb_true_iff in H as [Hn Hax].
  rewrite print_aspec_eq. rewrite forallb_app. cbn [forallb]. rewrite forallb_app. cbn [forallb].
  rewrite (valid_name_chars p _ Hw Hd Hn), (body_chars p a Hw Hc Hcm Hsp Hax), Hl, Hr. reflexivity.
Qed.

Lemma print_list_nodash l : forallb wf_aspec l = true ->
  forallb nodash (join [","%char; " "%char] (map print_aspec l)) = true.
Proof.
  intros H. apply forallb_join; [reflexivity|]. intros x Hx.
  apply in_map_iff in Hx as [a [<- Ha]]. rewrite forallb_forall in H.
  apply print_aspec_chars; try reflexivity; [exact word_nodash | now apply H].
Qed.

Lemma forallb_andb {A} (p q : A -> bool) l :
  forallb (fun a => p a && q a) l = forallb p l && forallb q l.
Proof.
  induction l as [|x l IH]; [reflexivity|]. cbn [forallb]. rewrite IH.
  destruct (p x), (q x), (forallb p l); reflexivity.
Qed.

(* ------------------------------------------------------------------------------------------ *)
(* MapSpec.from_string (str (m)) = m *)

Theorem parse_print m : wf_decl m = true -> printable m = true -> parse (print m) = Ok m.
Proof.
  intros Hwf Hpr.
  pose proof Hwf as Hwf'. unfold wf_decl in Hwf'. apply andb_true_iff in Hwf' as [Hwf' Hrest].
  apply andb_true_iff in Hwf' as [Hwi Hwo].
  unfold printable in Hpr. rewrite forallb_app in Hpr. apply andb_true_iff in Hpr as [Hpi Hpo].
  assert (forallb good (ins m) = true) as Hgi by (unfold good; now rewrite forallb_andb, Hwi, Hpi).
  assert (forallb good (outs m) = true) as Hgo by (unfold good; now rewrite forallb_andb, Hwo, Hpo).
  destruct (outs m) as [|o0 orest] eqn:Eo; [discriminate|]. clear Hrest.
  set (L := match ins m with [] => s "..." | l => join (s ", ") (map print_aspec l) end).
  set (R := join [","%char; " "%char] (map print_aspec (o0 :: orest))).
  assert (print m = (L ++ [" "%char]) ++ "-"%char :: ">"%char :: " "%char :: R) as Ep.
  { unfold print. fold L. rewrite Eo. fold R. now rewrite <- app_assoc. }
  assert (forallb nodash L = true) as HL.
  { unfold L. destruct (ins m) as [|a l]; [reflexivity|]. now apply print_list_nodash. }
  assert (forallb nodash R = true) as HR by (now apply print_list_nodash).
  unfold parse. rewrite Ep, split_arrow_app by (now rewrite forallb_app, HL).
  rewrite split_arrow_nodash by (cbn [forallb]; now rewrite HR).
  assert (parse_indexed_arrays (L ++ [" "%char]) = Ok (ins m)) as ->.
  { unfold L. destruct (ins m) as [|a l]; [reflexivity|].
    exact (parse_arrays_ok [] [" "%char] a l eq_refl eq_refl Hgi). }
  cbn [bind].
  assert (parse_indexed_arrays (" "%char :: R) = Ok (o0 :: orest)) as ->.
  { pose proof (parse_arrays_ok [" "%char] [] o0 orest eq_refl eq_refl Hgo) as H.
    rewrite app_nil_r in H. exact H. }
  cbn [bind]. rewrite mk_mapspec_wf by assumption.
  assert ({| ins := ins m; outs := o0 :: orest |} = m) as -> by (rewrite <- Eo; now destruct m).
  now rewrite Hwf.
Qed.

(* consequence: the notation is unambiguous on well-formed printable specs *)
Corollary print_injective m1 m2 :
  wf_decl m1 = true -> printable m1 = true -> wf_decl m2 = true -> printable m2 = true ->
  print m1 = print m2 -> m1 = m2.
Proof.
  intros W1 P1 W2 P2 E. pose proof (parse_print m1 W1 P1) as H1. pose proof (parse_print m2 W2 P2) as H2.
  rewrite E, H2 in H1. now injection H1.
Qed.

(* non-trivial instances: a reduction + scoped name, and a spec without inputs ("...") *)
Example parse_print_instance :
  let A n ax := {| aname := n; axes := ax |} in
  let m := {| ins := [A (s "a") [Some (s "i"); None]; A (s "b.c") [Some (s "j")]];
              outs := [A (s "q") [Some (s "i"); Some (s "j")]] |} in
  let m0 := {| ins := []; outs := [A (s "q") [Some (s "i")]] |} in
  wf_decl m = true /\ printable m = true /\ print m = s "a[i, :], b.c[j] -> q[i, j]"
  /\ wf_decl m0 = true /\ printable m0 = true /\ print m0 = s "... -> q[i]".
Proof. vm_compute. repeat split. Qed.

(* ========================================================================================== *)
(* Whitespace insensitivity.  A spec may be written with arbitrary ASCII whitespace (other than a
   newline inside the brackets, which the regex `.` does not cross) around every index, and with any
   mixture of whitespace and commas between arrays, around "->" and around "...": it still parses to
   the same MapSpec.  The layout is given explicitly; erasing it gives the parsed spec. *)

Definition blank (c : ascii) : bool := is_space c && not_nl c.
Definition sepchar (c : ascii) : bool := is_space c || Ascii.eqb c ","%char.

Record saxis := { ax_l : str; ax_v : option str; ax_r : str }.
Record sarr := { ar_sep : str; ar_name : str; ar_axes : list saxis }.
Inductive sside := Dots (wl wr : str) | Arrays (l : list sarr) (tail : str).

Definition pr_axis (d : saxis) : str := ax_l d ++ axis_str (ax_v d) ++ ax_r d.
Definition pr_body (ds : list saxis) : str := join [","%char] (map pr_axis ds).
Definition pr_arr (a : sarr) : str := ar_sep a ++ ar_name a ++ "["%char :: pr_body (ar_axes a) ++ ["]"%char].
Definition pr_side (x : sside) : str :=
  match x with
  | Dots wl wr => wl ++ s "..." ++ wr
  | Arrays l tail => concat (map pr_arr l) ++ tail
  end.
Definition pr_spaced (L R : sside) : str := pr_side L ++ s "->" ++ pr_side R.

Definition er_arr (a : sarr) : aspec := {| aname := ar_name a; axes := map ax_v (ar_axes a) |}.
Definition er_side (x : sside) : list aspec :=
  match x with Dots _ _ => [] | Arrays l _ => map er_arr l end.

Definition ok_axis (d : saxis) : bool := forallb blank (ax_l d) && forallb blank (ax_r d).
Definition ok_arr (a : sarr) : bool := forallb sepchar (ar_sep a) && forallb ok_axis (ar_axes a).
Definition ok_side (x : sside) : bool :=
  match x with
  | Dots wl wr => forallb is_space wl && forallb is_space wr
  | Arrays l tail => negb (length l =? 0) && forallb ok_arr l && forallb sepchar tail
  end.

(* characters *)
Lemma space_nonword c : is_space c = true -> is_word c = false.
Proof. intros H. destruct (is_word c) eqn:E; [|reflexivity]. apply word_nospace in E. congruence. Qed.

Lemma space_eqb_l c d : is_space c = true -> is_space d = false -> Ascii.eqb c d = false.
Proof. intros Hc Hd. apply Ascii.eqb_neq. intros E. subst. congruence. Qed.

Lemma space_nodash c : is_space c = true -> nodash c = true.
Proof. intros H. unfold nodash. now rewrite (space_eqb_l c "-"%char H eq_refl). Qed.

Lemma space_nocomma c : is_space c = true -> nocomma c = true.
Proof. intros H. unfold nocomma. now rewrite Ascii.eqb_sym, (space_eqb_l c ","%char H eq_refl). Qed.

Lemma blank_space c : blank c = true -> is_space c = true.
Proof. unfold blank. intros H. now apply andb_true_iff in H as [H _]. Qed.

Lemma blank_body_char c : blank c = true -> body_char c = true.
Proof.
  unfold blank, body_char. intros H. apply andb_true_iff in H as [Hs Hn].
  now rewrite Hn, (space_eqb_l c "]"%char Hs eq_refl).
Qed.

Lemma sepchar_cases (p : ascii -> bool) c :
  (forall c, is_space c = true -> p c = true) -> p ","%char = true -> sepchar c = true -> p c = true.
Proof.
  intros Hs Hc H. unfold sepchar in H. apply orb_true_iff in H as [H|H]; [now apply Hs|].
  apply Ascii.eqb_eq in H. now subst.
Qed.

Lemma sepchar_nonword c : sepchar c = true -> nonword c = true.
Proof.
  apply sepchar_cases; [|reflexivity]. intros d Hd. unfold nonword. now rewrite space_nonword.
Qed.

(* strip of a padded token *)
Lemma lstrip_spaces_app w y : forallb is_space w = true -> lstrip (w ++ y) = lstrip y.
Proof.
  induction w as [|c w IH]; [reflexivity|]. cbn [forallb app lstrip]. intros H.
  apply andb_true_iff in H as [Hc Hw]. now rewrite Hc, IH.
Qed.

Lemma strip_pad wl x wr :
  forallb is_space wl = true -> forallb is_space wr = true -> x <> [] -> forallb nospace x = true ->
  strip (wl ++ x ++ wr) = x.
Proof.
  intros Hl Hr Hne Hx. unfold strip. rewrite (lstrip_spaces_app wl _ Hl).
  assert (lstrip (x ++ wr) = x ++ wr) as ->.
  { destruct x as [|c x]; [congruence|]. cbn [forallb] in Hx. apply andb_true_iff in Hx as [Hc _].
    unfold nospace in Hc. apply negb_true_iff in Hc. cbn [app lstrip]. now rewrite Hc. }
  rewrite rev_app_distr, lstrip_spaces_app by (now rewrite forallb_rev).
  rewrite lstrip_nospace by (now rewrite forallb_rev). apply rev_involutive.
Qed.

Lemma axis_str_nospace ax : valid_axis ax = true -> forallb nospace (axis_str ax) = true.
Proof. intros H. apply axis_str_chars; [exact word_nospace'|reflexivity|exact H]. Qed.

Lemma parse_axis_spaced d : ok_axis d = true -> valid_axis (ax_v d) = true ->
  parse_axis (pr_axis d) = ax_v d.
Proof.
  unfold ok_axis, pr_axis, parse_axis. intros Hd Hv. apply andb_true_iff in Hd as [Hl Hr].
  rewrite strip_pad.
  - destruct (ax_v d) as [i|]; cbn [axis_str valid_axis] in *; [|reflexivity].
    change (s ":") with [":"%char]. now rewrite (ident_not_colon i Hv).
  - exact (forallb_impl blank is_space _ blank_space Hl).
  - exact (forallb_impl blank is_space _ blank_space Hr).
  - now apply axis_str_nonempty.
  - now apply axis_str_nospace.
Qed.

Lemma pr_axis_chars (p : ascii -> bool) d :
  (forall c, is_word c = true -> p c = true) -> (forall c, blank c = true -> p c = true) ->
  p ":"%char = true -> ok_axis d = true -> valid_axis (ax_v d) = true -> forallb p (pr_axis d) = true.
Proof.
  intros Hw Hs Hc Hd Hv. unfold ok_axis in Hd. apply andb_true_iff in Hd as [Hl Hr].
  unfold pr_axis. rewrite !forallb_app, (axis_str_chars p _ Hw Hc Hv).
  now rewrite (forallb_impl blank p (ax_l d) Hs Hl), (forallb_impl blank p (ax_r d) Hs Hr).
Qed.

Lemma pr_axis_nonempty d : valid_axis (ax_v d) = true -> pr_axis d <> [].
Proof.
  intros Hv E. unfold pr_axis in E. apply app_eq_nil in E as [_ E]. apply app_eq_nil in E as [E _].
  now apply axis_str_nonempty in E.
Qed.

Lemma split_char_join1 x l :
  (forall y, In y (x :: l) -> forallb nocomma y = true) ->
  split_char ","%char (join [","%char] (x :: l)) = x :: l.
Proof.
  revert x. induction l as [|y l IH]; intros x H.
  - cbn [join]. apply split_char_nosep. apply H. now left.
  - change (join [","%char] (x :: y :: l)) with (x ++ ","%char :: join [","%char] (y :: l)).
    rewrite split_char_app by (apply H; now left).
    rewrite IH by (intros z Hz; apply H; now right). reflexivity.
Qed.

(* a spaced array whose erasure is well-formed of rank >= 1 *)
Definition goodS (a : sarr) : bool := ok_arr a && good (er_arr a).

Lemma goodS_parts a : goodS a = true ->
  forallb sepchar (ar_sep a) = true /\ forallb ok_axis (ar_axes a) = true /\ valid_name (ar_name a) = true
  /\ forallb (fun d => valid_axis (ax_v d)) (ar_axes a) = true /\ ar_axes a <> [].
Proof.
  unfold goodS, ok_arr, good, wf_aspec, er_arr. cbn [aname axes]. intros H.
  apply andb_true_iff in H as [H1 H2]. apply andb_true_iff in H1 as [Hs Ho].
  apply andb_true_iff in H2 as [H2 Hr]. apply andb_true_iff in H2 as [Hn Hv].
  repeat split; auto.
  - clear - Hv. induction (ar_axes a) as [|d l IH]; [reflexivity|]. cbn [map forallb] in *.
    apply andb_true_iff in Hv as [H1 H2]. now rewrite H1, IH.
  - intros E. rewrite E in Hr. discriminate Hr.
Qed.

Lemma parse_index_string_spaced a : goodS a = true ->
  parse_index_string (pr_body (ar_axes a)) = map ax_v (ar_axes a).
Proof.
  intros H. destruct (goodS_parts a H) as (_ & Ho & _ & Hv & Hne).
  destruct (ar_axes a) as [|d ds]; [congruence|]. clear Hne.
  assert (forall x, In x (d :: ds) -> ok_axis x = true /\ valid_axis (ax_v x) = true) as Hin.
  { intros x Hx. rewrite forallb_forall in Ho, Hv. split; [now apply Ho|now apply Hv]. }
  unfold parse_index_string, pr_body. fold parse_axis. cbn [map].
  rewrite split_char_join1.
  2:{ intros y Hy. change (pr_axis d :: map pr_axis ds) with (map pr_axis (d :: ds)) in Hy.
      apply in_map_iff in Hy as [z [<- Hz]]. destruct (Hin z Hz) as [Hz1 Hz2].
      apply pr_axis_chars; auto; [exact word_nocomma|].
      intros c Hc. apply space_nocomma. now apply blank_space. }
  change (pr_axis d :: map pr_axis ds) with (map pr_axis (d :: ds)).
  change (ax_v d :: map ax_v ds) with (map ax_v (d :: ds)). rewrite map_map.
  apply map_ext_in. intros x Hx. destruct (Hin x Hx). now apply parse_axis_spaced.
Qed.

Lemma pr_body_ok a : goodS a = true ->
  pr_body (ar_axes a) <> [] /\ forallb body_char (pr_body (ar_axes a)) = true.
Proof.
  intros H. destruct (goodS_parts a H) as (_ & Ho & _ & Hv & Hne).
  assert (forall x, In x (ar_axes a) -> ok_axis x = true /\ valid_axis (ax_v x) = true) as Hin.
  { intros x Hx. rewrite forallb_forall in Ho, Hv. split; [now apply Ho|now apply Hv]. }
  split.
  - unfold pr_body. destruct (ar_axes a) as [|d ds]; [congruence|]. cbn [map]. rewrite join_concat.
    intros E. apply app_eq_nil in E as [E _]. revert E. apply pr_axis_nonempty.
    apply Hin. now left.
  - unfold pr_body. apply forallb_join; [reflexivity|]. intros x Hx.
    apply in_map_iff in Hx as [z [<- Hz]]. destruct (Hin z Hz) as [Hz1 Hz2].
    apply pr_axis_chars; auto; [exact word_body_char|exact blank_body_char].
Qed.

Definition stok (a : sarr) : str * str := (ar_name a, pr_body (ar_axes a)).
(* the array without its leading separator *)
Definition pr_arr0 (a : sarr) : str := ar_name a ++ "["%char :: pr_body (ar_axes a) ++ ["]"%char].

Lemma pr_arr_eq a : pr_arr a = ar_sep a ++ pr_arr0 a.
Proof. reflexivity. Qed.

Lemma pr_arr0_nonempty a : pr_arr0 a <> [].
Proof. unfold pr_arr0. destruct (ar_name a); discriminate. Qed.

Lemma try_match_sarr a rest : goodS a = true ->
  try_match (pr_arr0 a ++ rest) = Some (ar_name a, pr_body (ar_axes a), rest).
Proof.
  intros H. destruct (pr_body_ok a H) as [Hne Hb]. destruct (goodS_parts a H) as (_ & _ & Hn & _ & _).
  unfold pr_arr0. rewrite <- !app_assoc. cbn [app]. rewrite <- !app_assoc. cbn [app].
  now apply try_match_print.
Qed.

Lemma findall_sarrs tail : forallb nonword tail = true ->
  forall l fuel, forallb goodS l = true -> length (concat (map pr_arr l) ++ tail) < fuel ->
  findall fuel (concat (map pr_arr l) ++ tail) = map stok l.
Proof.
  intros Htail. induction l as [|a l IH]; intros fuel Hl Hf.
  - cbn [map concat app]. now apply findall_nonword.
  - cbn [forallb] in Hl. apply andb_true_iff in Hl as [Ha Hl].
    destruct (goodS_parts a Ha) as (Hsep & _).
    apply (forallb_impl sepchar nonword _ sepchar_nonword) in Hsep.
    cbn [map concat] in *. rewrite pr_arr_eq, <- !app_assoc in *. rewrite !app_length in Hf.
    replace fuel with (length (ar_sep a) + (fuel - length (ar_sep a))) by lia.
    rewrite (findall_skip _ _ _ Hsep).
    destruct (fuel - length (ar_sep a)) as [|f] eqn:Ef; [lia|].
    cbn [findall]. rewrite (try_match_sarr a _ Ha).
    destruct (pr_arr0 a ++ concat (map pr_arr l) ++ tail) eqn:Ep.
    { apply app_eq_nil in Ep as [Ep _]. now apply pr_arr0_nonempty in Ep. }
    cbn [map]. f_equal. apply IH; [assumption|]. rewrite app_length.
    pose proof (pr_arr0_nonempty a) as Hne. destruct (pr_arr0 a); [congruence|]. cbn [length] in Hf. lia.
Qed.

Lemma mapM_stok l : forallb goodS l = true ->
  mapM (fun nb => mk_aspec (fst nb) (parse_index_string (snd nb))) (map stok l) = Ok (map er_arr l).
Proof.
  induction l as [|a l IH]; intros H; [reflexivity|]. cbn [forallb] in H.
  apply andb_true_iff in H as [Ha Hl]. cbn [map mapM]. change (stok a) with (ar_name a, pr_body (ar_axes a)).
  cbn [fst snd]. rewrite (parse_index_string_spaced a Ha). unfold mk_aspec at 1.
  pose proof Ha as Hw. unfold goodS in Hw. apply andb_true_iff in Hw as [_ Hw].
  unfold good in Hw. apply andb_true_iff in Hw as [Hw _]. unfold wf_aspec, er_arr in Hw. cbn [aname axes] in Hw.
  rewrite Hw. cbn [bind]. rewrite (IH Hl). reflexivity.
Qed.

Lemma pr_arr_brackets a :
  mem_char "["%char (pr_arr a) = true /\ mem_char "]"%char (pr_arr a) = true.
Proof.
  unfold pr_arr. split.
  - rewrite !mem_char_app. cbn [mem_char]. rewrite Ascii.eqb_refl. cbn [orb]. now rewrite !orb_true_r.
  - rewrite !mem_char_app. cbn [mem_char]. rewrite mem_char_app. cbn [mem_char].
    rewrite Ascii.eqb_refl. cbn [orb]. now rewrite !orb_true_r.
Qed.

Lemma parse_side_ok x : ok_side x = true -> forallb good (er_side x) = true ->
  parse_indexed_arrays (pr_side x) = Ok (er_side x).
Proof.
  destruct x as [wl wr|l tail]; cbn [ok_side er_side pr_side]; intros Hok Hg.
  - apply andb_true_iff in Hok as [Hl Hr]. unfold parse_indexed_arrays.
    rewrite (strip_pad wl (s "...") wr Hl Hr); [reflexivity|discriminate|reflexivity].
  - apply andb_true_iff in Hok as [Hok Htail]. apply andb_true_iff in Hok as [Hne Hok].
    assert (forallb goodS l = true) as Hgs.
    { unfold goodS. rewrite forallb_andb, Hok. cbn [andb]. clear - Hg.
      induction l as [|a l IH]; [reflexivity|]. cbn [map forallb] in *.
      apply andb_true_iff in Hg as [H1 H2]. now rewrite H1, IH. }
    apply (forallb_impl sepchar nonword _ sepchar_nonword) in Htail.
    destruct l as [|a l]; [discriminate|]. clear Hne.
    set (x := concat (map pr_arr (a :: l)) ++ tail).
    assert (forall c, mem_char c (pr_arr a) = true -> mem_char c x = true) as Hmem.
    { intros c Hc. unfold x. cbn [map concat]. now rewrite !mem_char_app, Hc. }
    destruct (pr_arr_brackets a) as [Hlb Hrb].
    unfold parse_indexed_arrays.
    destruct (str_eqb (strip x) (s "...")) eqn:E.
    { exfalso. apply str_eqb_eq in E. pose proof (mem_char_strip "["%char x eq_refl) as Hs.
      rewrite E, (Hmem _ Hlb) in Hs. discriminate Hs. }
    rewrite (Hmem _ Hlb), (Hmem _ Hrb). cbn [negb orb].
    unfold x. rewrite findall_sarrs by (auto; lia). now apply mapM_stok.
Qed.

Lemma pr_arr_nodash a : ok_arr a = true -> wf_aspec (er_arr a) = true -> forallb nodash (pr_arr a) = true.
Proof.
  unfold ok_arr, wf_aspec, er_arr. cbn [aname axes]. intros Ho Hw.
  apply andb_true_iff in Ho as [Hs Ho]. apply andb_true_iff in Hw as [Hn Hv].
  unfold pr_arr. rewrite !forallb_app. cbn [forallb]. rewrite forallb_app. cbn [forallb andb].
  rewrite (forallb_impl sepchar nodash _ (fun c => sepchar_cases nodash c space_nodash eq_refl) Hs).
  rewrite (valid_name_chars nodash _ word_nodash eq_refl Hn). cbn [andb]. rewrite andb_true_r.
  unfold pr_body. apply forallb_join; [reflexivity|]. intros y Hy.
  apply in_map_iff in Hy as [d [<- Hd]]. rewrite forallb_forall in Ho.
  apply pr_axis_chars; [exact word_nodash| |reflexivity|now apply Ho|].
  - intros c Hc. apply space_nodash. now apply blank_space.
  - rewrite forallb_forall in Hv. apply Hv. now apply in_map.
Qed.

Lemma pr_side_nodash x : ok_side x = true -> forallb wf_aspec (er_side x) = true ->
  forallb nodash (pr_side x) = true.
Proof.
  destruct x as [wl wr|l tail]; cbn [ok_side er_side pr_side]; intros Hok Hw.
  - apply andb_true_iff in Hok as [Hl Hr]. rewrite !forallb_app.
    now rewrite (forallb_impl is_space nodash _ space_nodash Hl), (forallb_impl is_space nodash _ space_nodash Hr).
  - apply andb_true_iff in Hok as [Hok Htail]. apply andb_true_iff in Hok as [_ Hok].
    rewrite forallb_app.
    rewrite (forallb_impl sepchar nodash _ (fun c => sepchar_cases nodash c space_nodash eq_refl) Htail).
    rewrite andb_true_r. clear Htail.
    induction l as [|a l IH]; [reflexivity|]. cbn [map concat forallb] in *.
    apply andb_true_iff in Hok as [Ha Hok]. apply andb_true_iff in Hw as [Hwa Hw].
    now rewrite forallb_app, (pr_arr_nodash a Ha Hwa), IH.
Qed.

(* any admissible re-spacing of a well-formed spec parses to that spec *)
Theorem parse_spaced L R :
  ok_side L = true -> ok_side R = true ->
  wf_decl {| ins := er_side L; outs := er_side R |} = true ->
  printable {| ins := er_side L; outs := er_side R |} = true ->
  parse (pr_spaced L R) = Ok {| ins := er_side L; outs := er_side R |}.
Proof.
  intros HL HR Hwf Hpr.
  pose proof Hwf as Hwf'. unfold wf_decl in Hwf'. cbn [ins outs] in Hwf'.
  apply andb_true_iff in Hwf' as [Hwf' _]. apply andb_true_iff in Hwf' as [Hwi Hwo].
  unfold printable in Hpr. cbn [ins outs] in Hpr. rewrite forallb_app in Hpr.
  apply andb_true_iff in Hpr as [Hpi Hpo].
  assert (forallb good (er_side L) = true) as Hgi by (unfold good; now rewrite forallb_andb, Hwi, Hpi).
  assert (forallb good (er_side R) = true) as Hgo by (unfold good; now rewrite forallb_andb, Hwo, Hpo).
  unfold parse, pr_spaced. change (s "->") with ["-"%char; ">"%char]. cbn [app].
  rewrite split_arrow_app by (now apply pr_side_nodash).
  rewrite split_arrow_nodash by (now apply pr_side_nodash).
  rewrite (parse_side_ok L HL Hgi), (parse_side_ok R HR Hgo). cbn [bind].
  rewrite mk_mapspec_wf by assumption. now rewrite Hwf.
Qed.

(* whitespace insensitivity proper: two admissible spacings of the same spec parse alike *)
Corollary parse_respaced L R L' R' :
  ok_side L = true -> ok_side R = true -> ok_side L' = true -> ok_side R' = true ->
  er_side L' = er_side L -> er_side R' = er_side R ->
  wf_decl {| ins := er_side L; outs := er_side R |} = true ->
  printable {| ins := er_side L; outs := er_side R |} = true ->
  parse (pr_spaced L' R') = parse (pr_spaced L R).
Proof.
  intros HL HR HL' HR' EL ER Hwf Hpr.
  rewrite (parse_spaced L R HL HR Hwf Hpr).
  rewrite <- EL, <- ER in Hwf, Hpr |- *. now apply parse_spaced.
Qed.

(* the canonical printer is one of the admissible spacings (shown on an instance), and so are a dense
   and a generously spaced rendering of the same spec *)
Example parse_spaced_instance :
  let ax l v r := {| ax_l := s l; ax_v := v; ax_r := s r |} in
  let L := Arrays [ {| ar_sep := []; ar_name := s "a"; ar_axes := [ax ""%string (Some (s "i")) ""%string; ax " "%string None ""%string] |};
                    {| ar_sep := s ", "; ar_name := s "b.c"; ar_axes := [ax ""%string (Some (s "j")) ""%string] |} ] (s " ") in
  let R := Arrays [ {| ar_sep := s " "; ar_name := s "q"; ar_axes := [ax ""%string (Some (s "i")) ""%string; ax " "%string (Some (s "j")) ""%string] |} ] [] in
  let L' := Arrays [ {| ar_sep := s "  "; ar_name := s "a"; ar_axes := [ax " "%string (Some (s "i")) "  "%string; ax ""%string None " "%string] |};
                     {| ar_sep := s " ,"; ar_name := s "b.c"; ar_axes := [ax "  "%string (Some (s "j")) ""%string] |} ] [] in
  let R' := Arrays [ {| ar_sep := []; ar_name := s "q"; ar_axes := [ax ""%string (Some (s "i")) ""%string; ax ""%string (Some (s "j")) " "%string] |} ] (s "  ") in
  let m := {| ins := er_side L; outs := er_side R |} in
  ok_side L = true /\ ok_side R = true /\ ok_side L' = true /\ ok_side R' = true
  /\ wf_decl m = true /\ printable m = true
  /\ pr_spaced L R = print m
  /\ pr_spaced L R = s "a[i, :], b.c[j] -> q[i, j]"
  /\ pr_spaced L' R' = s "  a[ i  ,: ] ,b.c[  j]->q[i,j ]  "
  /\ er_side L' = er_side L /\ er_side R' = er_side R
  /\ pr_spaced (Dots (s " ") []) R' = s " ...->q[i,j ]  ".
Proof. vm_compute. repeat split. Qed.
