(* MapSpec.shape computes exactly the (shape, mask) the notation implies, and rejects every
   unacceptable request.  Model: Model/MapSpec.v (`shape`), statement: Model/MapSpecSpec.v. *)
From Verif Require Import Base.Prelude Base.StrUtil Base.Index Model.MapSpec Model.MapSpecSpec Proofs.IndexFacts Proofs.StrFacts Proofs.MapSpecFacts.

(* ---------- generic list facts ---------- *)
Lemma mem_str_app x a b : mem_str x (a ++ b) = mem_str x a || mem_str x b.
Proof. induction a as [|y a IH]; cbn [app mem_str orb]; [reflexivity|]. now rewrite IH, orb_assoc. Qed.

Lemma forallb_pointwise {A} (f g : A -> bool) l : (forall x, f x = g x) -> forallb f l = forallb g l.
Proof. intros H. induction l as [|x l IH]; cbn [forallb]; [reflexivity|]. now rewrite H, IH. Qed.

Lemma forallb_map_comp {A B} (f : B -> bool) (g : A -> B) l : forallb f (map g l) = forallb (fun x => f (g x)) l.
Proof. induction l as [|x l IH]; cbn [forallb map]; [reflexivity|]. now rewrite IH. Qed.

Lemma in_combine_seq {A} (l : list A) : forall k0 j x,
  In (j, x) (combine (seq k0 (length l)) l) -> k0 <= j /\ nth_error l (j - k0) = Some x.
Proof.
  induction l as [|y l IH]; intros k0 j x H; cbn [length seq combine] in H; [destruct H|].
  destruct H as [H|H].
  - injection H as <- <-. split; [lia|]. now rewrite Nat.sub_diag.
  - apply IH in H as [H1 H2]. split; [lia|].
    replace (j - k0) with (S (j - S k0)) by lia. exact H2.
Qed.

Lemma no_colon_axes (l : list (option str)) : existsb is_none l = false -> l = map Some (somes l).
Proof.
  induction l as [|[y|] l IH]; cbn [existsb is_none somes map orb]; intros H; [reflexivity| |discriminate].
  f_equal. now apply IH.
Qed.

(* ---------- index_of vs. the declared positions ---------- *)
Lemma index_of_mem x l :
  mem_str x (somes l) = match index_of x l with Some _ => true | None => false end.
Proof.
  induction l as [|[y|] l IH]; cbn [somes mem_str index_of]; [reflexivity| |].
  - destruct (str_eqb x y); cbn [orb]; [reflexivity|]. rewrite IH. now destruct (index_of x l).
  - rewrite IH. now destruct (index_of x l).
Qed.

Lemma index_of_bound x l : forall p, index_of x l = Some p -> p < length l.
Proof.
  induction l as [|[y|] l IH]; intros p H; cbn [index_of length] in *; [discriminate| |].
  - destruct (str_eqb x y); [injection H as <-; lia|].
    destruct (index_of x l) as [q|]; [|discriminate]. injection H as <-. specialize (IH q eq_refl). lia.
  - destruct (index_of x l) as [q|]; [|discriminate]. injection H as <-. specialize (IH q eq_refl). lia.
Qed.

Definition carr_f (x : str) (a : aspec) (qa : nat * option str) : list (aspec * nat) :=
  match snd qa with Some y => if str_eqb x y then [(a, fst qa)] else [] | None => [] end.

Definition carr1 (x : str) (a : aspec) : list (aspec * nat) :=
  flat_map (carr_f x a) (combine (seq 0 (length (axes a))) (axes a)).

Lemma carriers_carr1 m x : carriers m x = flat_map (carr1 x) (ins m).
Proof. reflexivity. Qed.

Lemma carr_gen a x l : nodup_str (somes l) = true -> forall k0,
  flat_map (carr_f x a) (combine (seq k0 (length l)) l) =
  match index_of x l with Some p => [(a, k0 + p)] | None => [] end.
Proof.
  induction l as [|[y|] l IH]; intros Hnd k0; cbn [length seq combine flat_map index_of somes]; [reflexivity| |].
  - cbn [somes nodup_str] in Hnd. apply andb_true_iff in Hnd as [Hy Hnd]. apply negb_true_iff in Hy.
    rewrite (IH Hnd (S k0)). unfold carr_f at 1. cbn [fst snd].
    destruct (str_eqb x y) eqn:E.
    + apply str_eqb_eq in E. subst y. rewrite index_of_mem in Hy.
      destruct (index_of x l); [discriminate|]. cbn [app]. now rewrite Nat.add_0_r.
    + cbn [app]. destruct (index_of x l) as [p|]; cbn [option_map]; [|reflexivity].
      do 2 f_equal. lia.
  - cbn [somes] in Hnd. rewrite (IH Hnd (S k0)). unfold carr_f at 1. cbn [fst snd app].
    destruct (index_of x l) as [p|]; cbn [option_map]; [|reflexivity]. do 2 f_equal. lia.
Qed.

Lemma carr1_spec x a : nodup_axes a = true ->
  carr1 x a = match index_of x (axes a) with Some p => [(a, p)] | None => [] end.
Proof. intros H. unfold carr1. rewrite (carr_gen a x (axes a) H 0). reflexivity. Qed.

(* an index is carried by some input iff the `relevant` filter of `shape` is non-empty *)
Lemma filter_nil_mem x l :
  mem_str x (flat_map indices l) =
  match filter (fun a => mem_str x (indices a)) l with [] => false | _ :: _ => true end.
Proof.
  induction l as [|a l IH]; cbn [filter flat_map]; [reflexivity|].
  rewrite mem_str_app. destruct (mem_str x (indices a)); cbn [orb]; [reflexivity|exact IH].
Qed.

(* ---------- the loop of `shape` as a standalone fixpoint ---------- *)
Section Go.
  Variables (m : mapspec) (ish int : shape_dict) (o0 : aspec).

  Fixpoint go_shape (axs : list (option str)) (k : nat) : result (list nat * list bool) :=
    match axs with
    | [] => Ok ([], [])
    | None :: _ => Err AssertionError
    | Some index :: t =>
        let relevant := filter (fun x => mem_str index (indices x)) (ins m) in
        match relevant with
        | _ :: _ =>
            do d <- common_dim ish index relevant;
            do r <- go_shape t k;
            Ok (d :: fst r, true :: snd r)
        | [] =>
            match dict_get int (aname o0) with
            | None => Err ValueError
            | Some iv =>
                match nth_error iv k with
                | None => Err ValueError
                | Some d => do r <- go_shape t (S k); Ok (d :: fst r, false :: snd r)
                end
            end
        end
    end.

  Definition internal (x : str) : bool := negb (mem_str x (input_indices_list m)).
  Definition dimf (x : str) (a : aspec) : nat := match get_dim ish x a with Ok d => d | Err _ => 0 end.
  Definition dims (x : str) : list nat := map (dimf x) (filter (fun a => mem_str x (indices a)) (ins m)).
  Definition agree (ds : list nat) : bool :=
    match ds with [] => true | d :: rest => forallb (Nat.eqb d) rest end.
  (* the internal shape of the first output; a missing entry behaves like an empty one *)
  Definition ivec : list nat := match dict_get int (aname o0) with Some v => v | None => [] end.

  Lemma internal_dims x : internal x = true -> dims x = [].
  Proof.
    unfold internal, dims, input_indices_list. rewrite filter_nil_mem.
    destruct (filter _ (ins m)); [reflexivity|discriminate].
  Qed.

  Hypothesis Hnd : forallb nodup_axes (ins m) = true.
  Hypothesis Hrank : forallb (fun a => match dict_get ish (aname a) with
                                       | Some sh => length sh =? rank a | None => false end) (ins m) = true.

  Lemma get_dim_ok a x : In a (ins m) -> mem_str x (indices a) = true ->
    exists p d, index_of x (axes a) = Some p /\ get_dim ish x a = Ok d /\ dim_at ish (a, p) = Some d.
  Proof.
    intros Ha Hx. unfold indices in Hx. rewrite index_of_mem in Hx.
    destruct (index_of x (axes a)) as [p|] eqn:P; [|discriminate].
    pose proof (index_of_bound _ _ _ P) as Hp.
    rewrite forallb_forall in Hrank. specialize (Hrank a Ha).
    destruct (dict_get ish (aname a)) as [sh|] eqn:D; [|discriminate].
    apply Nat.eqb_eq in Hrank. unfold rank in Hrank.
    destruct (nth_error sh p) as [d|] eqn:N; [|apply nth_error_None in N; lia].
    exists p, d. split; [reflexivity|]. unfold get_dim, dim_at. cbn [fst snd]. rewrite P, D, N. auto.
  Qed.

  Lemma rel_dims x l : (forall a, In a l -> In a (ins m)) ->
    mapM (get_dim ish x) (filter (fun a => mem_str x (indices a)) l)
      = Ok (map (dimf x) (filter (fun a => mem_str x (indices a)) l))
    /\ map (dim_at ish) (flat_map (carr1 x) l)
      = map Some (map (dimf x) (filter (fun a => mem_str x (indices a)) l)).
  Proof.
    induction l as [|a l IH]; intros Hin; [split; reflexivity|].
    destruct IH as [IH1 IH2]; [intros b Hb; apply Hin; now right|].
    assert (In a (ins m)) as Ha by (apply Hin; now left).
    assert (nodup_axes a = true) as Hna by (rewrite forallb_forall in Hnd; now apply Hnd).
    cbn [filter flat_map]. rewrite map_app, IH2, (carr1_spec x a Hna).
    destruct (mem_str x (indices a)) eqn:E.
    - destruct (get_dim_ok a x Ha E) as (p & d & P & G & D).
      rewrite P. cbn [mapM map app]. rewrite G, D. cbn [bind]. rewrite IH1. cbn [bind].
      assert (dimf x a = d) as -> by (unfold dimf; now rewrite G). split; reflexivity.
    - unfold indices in E. rewrite index_of_mem in E.
      destruct (index_of x (axes a)); [discriminate|]. cbn [map app]. split; [exact IH1|reflexivity].
  Qed.

  Lemma carriers_dims x : map (dim_at ish) (carriers m x) = map Some (dims x).
  Proof. rewrite carriers_carr1. unfold dims. apply rel_dims. auto. Qed.

  Lemma carriers_nil x : carriers m x = [] <-> internal x = true.
  Proof.
    pose proof (carriers_dims x) as H. unfold internal, input_indices_list. rewrite filter_nil_mem.
    unfold dims in H. destruct (filter _ (ins m)) as [|a r]; cbn [map negb] in *.
    - split; [reflexivity|]. intros _. destruct (carriers m x); [reflexivity|discriminate].
    - split; [|discriminate]. intros E. rewrite E in H. discriminate.
  Qed.

  (* one step of the loop, in closed form *)
  Lemma go_cons x t k : go_shape (Some x :: t) k =
    if internal x then
      match nth_error ivec k with
      | None => Err ValueError
      | Some d => do r <- go_shape t (S k); Ok (d :: fst r, false :: snd r)
      end
    else if agree (dims x) then do r <- go_shape t k; Ok (hd 0 (dims x) :: fst r, true :: snd r)
    else Err ValueError.
  Proof.
    cbn [go_shape].
    destruct (rel_dims x (ins m) (fun a H => H)) as [Hm _].
    unfold internal, dims, input_indices_list. rewrite filter_nil_mem.
    destruct (filter (fun a => mem_str x (indices a)) (ins m)) as [|a r] eqn:F; cbn [negb].
    - unfold ivec. destruct (dict_get int (aname o0)); [reflexivity|]. destruct k; reflexivity.
    - unfold common_dim. rewrite Hm. cbn [bind map hd agree].
      destruct (forallb (Nat.eqb (dimf x a)) (map (dimf x) r)); reflexivity.
  Qed.

  Lemma go_ok : forall xs k,
    forallb (fun x => agree (dims x)) xs = true ->
    k + length (filter internal xs) <= length ivec ->
    exists sh mask,
      go_shape (map Some xs) k = Ok (sh, mask) /\ length sh = length xs /\ length mask = length xs /\
      forall j x, nth_error xs j = Some x ->
        nth_error mask j = Some (negb (internal x)) /\
        nth_error sh j = if internal x then nth_error ivec (k + length (filter negb (firstn j mask)))
                         else Some (hd 0 (dims x)).
  Proof.
    induction xs as [|x t IH]; intros k Hag Hlen.
    - exists [], []. cbn [map go_shape length]. split; [reflexivity|]. split; [reflexivity|]. split; [reflexivity|].
      intros [|j] y H; discriminate.
    - cbn [map]. rewrite go_cons. cbn [forallb filter] in Hag, Hlen.
      apply andb_true_iff in Hag as [Hx Ht]. destruct (internal x) eqn:I.
      + cbn [length] in Hlen.
        destruct (nth_error ivec k) as [d|] eqn:N; [|apply nth_error_None in N; lia].
        destruct (IH (S k) Ht) as (sh & mask & Hgo & Hl1 & Hl2 & Hpt); [lia|].
        rewrite Hgo. cbn [bind fst snd]. exists (d :: sh), (false :: mask).
        split; [reflexivity|]. split; [cbn [length]; lia|]. split; [cbn [length]; lia|].
        intros [|j] y Hy; cbn [nth_error] in Hy |- *.
        * injection Hy as <-. rewrite I. cbn [firstn filter length negb]. rewrite Nat.add_0_r. auto.
        * destruct (Hpt j y Hy) as [H1 H2]. split; [exact H1|]. rewrite H2.
          destruct (internal y); [|reflexivity]. cbn [firstn filter negb length]. f_equal. lia.
      + rewrite Hx. destruct (IH k Ht Hlen) as (sh & mask & Hgo & Hl1 & Hl2 & Hpt).
        rewrite Hgo. cbn [bind fst snd]. exists (hd 0 (dims x) :: sh), (true :: mask).
        split; [reflexivity|]. split; [cbn [length]; lia|]. split; [cbn [length]; lia|].
        intros [|j] y Hy; cbn [nth_error] in Hy |- *.
        * injection Hy as <-. rewrite I. auto.
        * destruct (Hpt j y Hy) as [H1 H2]. split; [exact H1|]. rewrite H2.
          destruct (internal y); reflexivity.
  Qed.

  Lemma go_err_agree : forall xs k,
    forallb (fun x => agree (dims x)) xs = false -> exists e, go_shape (map Some xs) k = Err e.
  Proof.
    induction xs as [|x t IH]; intros k H; cbn [forallb] in H; [discriminate|].
    cbn [map]. rewrite go_cons. destruct (agree (dims x)) eqn:A; cbn [andb] in H.
    - destruct (internal x).
      + destruct (nth_error ivec k); [|eauto]. destruct (IH (S k) H) as [e He]. rewrite He. cbn [bind]. eauto.
      + destruct (IH k H) as [e He]. rewrite He. cbn [bind]. eauto.
    - destruct (internal x) eqn:I; [|eauto].
      rewrite (internal_dims x I) in A. discriminate.
  Qed.

  Lemma go_err_short : forall xs k,
    k <= length ivec -> length ivec < k + length (filter internal xs) ->
    exists e, go_shape (map Some xs) k = Err e.
  Proof.
    induction xs as [|x t IH]; intros k Hk H; cbn [filter] in H.
    - cbn [length] in H. lia.
    - cbn [map]. rewrite go_cons. destruct (internal x) eqn:I.
      + cbn [length] in H. destruct (nth_error ivec k) as [d|] eqn:N; [|eauto].
        assert (k < length ivec) as Hlt by (apply nth_error_Some; congruence).
        destruct (IH (S k)) as [e He]; [lia|lia|]. rewrite He. cbn [bind]. eauto.
      + destruct (IH k Hk H) as [e He]. destruct (agree (dims x)); [|eauto].
        rewrite He. cbn [bind]. eauto.
  Qed.
End Go.

Lemma shape_unfold m ish int :
  shape m ish int =
  do _ <- validate_shapes m ish int;
  match outs m with
  | [] => Err IndexError
  | o0 :: _ => go_shape m ish int o0 (axes o0) 0
  end.
Proof. reflexivity. Qed.

(* ---------- _validate_shapes accepts exactly the first three conjuncts of the request ---------- *)
Definition req123 (m : mapspec) (ish int : shape_dict) : bool :=
  keys_subset ish (map aname (ins m))
  && forallb (fun a => match dict_get ish (aname a) with
                       | Some sh => length sh =? rank a | None => false end) (ins m)
  && keys_subset int (map aname (outs m)).

Lemma validate_shapes_spec m ish int :
  validate_shapes m ish int = if req123 m ish int then Ok tt else Err ValueError.
Proof.
  unfold validate_shapes, req123.
  destruct (keys_subset ish (map aname (ins m))); cbn [negb andb]; [|reflexivity].
  destruct (forallb (fun a => match dict_get ish (aname a) with
                              | Some sh => length sh =? rank a | None => false end) (ins m)) eqn:R.
  - assert (forallb (fun n => is_ok (match dict_get ish n with Some v => Ok v | None => Err KeyError end))
                    (map aname (ins m)) = true) as ->.
    { rewrite forallb_map_comp. rewrite forallb_forall in R |- *. intros a Ha. specialize (R a Ha).
      destruct (dict_get ish (aname a)); [reflexivity|discriminate]. }
    cbn [negb andb]. destruct (keys_subset int (map aname (outs m))); reflexivity.
  - cbn [negb andb]. destruct (forallb _ (map aname (ins m))); reflexivity.
Qed.

Lemma shape_request_ok_split m ish int :
  shape_request_ok m ish int =
  req123 m ish int
  && forallb (fun x => match map (dim_at ish) (carriers m x) with
                       | [] => true
                       | d :: rest => forallb (opt_eqb Nat.eqb d) rest
                       end) (output_indices m)
  && ((n_internal m =? 0)
      || match outs m with
         | o0 :: _ => match dict_get int (aname o0) with
                      | Some iv => n_internal m <=? length iv | None => false end
         | [] => false
         end).
Proof. reflexivity. Qed.

Lemma agree_spec ds :
  match map (@Some nat) ds with [] => true | d :: rest => forallb (opt_eqb Nat.eqb d) rest end = agree ds.
Proof.
  destruct ds as [|d rest]; cbn [map agree]; [reflexivity|].
  rewrite forallb_map_comp. reflexivity.
Qed.

(* ---------- main theorem ---------- *)
Lemma shape_correct_aux m ish int o0 rest :
  outs m = o0 :: rest -> axes o0 = map Some (indices o0) -> forallb nodup_axes (ins m) = true ->
  (shape_request_ok m ish int = true ->
     exists sh mask, shape m ish int = Ok (sh, mask) /\ shape_result_ok m ish int sh mask = true)
  /\ (shape_request_ok m ish int = false -> exists e, shape m ish int = Err e).
Proof.
  intros Ho Hax Hnd.
  assert (output_indices m = indices o0) as Hoi by (unfold output_indices; now rewrite Ho).
  assert (n_internal m = length (filter (internal m) (indices o0))) as Hni
    by (unfold n_internal; now rewrite Hoi).
  rewrite shape_request_ok_split, shape_unfold, validate_shapes_spec.
  destruct (req123 m ish int) eqn:R; cbn [andb bind].
  2:{ split; [discriminate|eauto]. }
  assert (forallb (fun a => match dict_get ish (aname a) with
                            | Some sh => length sh =? rank a | None => false end) (ins m) = true) as Hrank.
  { unfold req123 in R. apply andb_true_iff in R as [R _]. now apply andb_true_iff in R as [_ R]. }
  rewrite (forallb_pointwise _ (fun x => agree (dims m ish x))).
  2:{ intros x. rewrite (carriers_dims m ish Hnd Hrank x). apply agree_spec. }
  assert (((n_internal m =? 0)
           || match outs m with
              | o1 :: _ => match dict_get int (aname o1) with
                           | Some iv => n_internal m <=? length iv | None => false end
              | [] => false
              end) = (n_internal m <=? length (ivec int o0))) as ->.
  { rewrite Ho. unfold ivec. destruct (dict_get int (aname o0)) as [iv|].
    - destruct (n_internal m) as [|n]; [reflexivity|]. reflexivity.
    - cbn [length]. rewrite orb_false_r. destruct (n_internal m); reflexivity. }
  rewrite Ho, Hax, Hoi, Hni.
  destruct (forallb (fun x => agree (dims m ish x)) (indices o0)) eqn:A; cbn [andb].
  2:{ split; [discriminate|]. intros _. apply (go_err_agree m ish int o0 Hnd Hrank). exact A. }
  destruct (length (filter (internal m) (indices o0)) <=? length (ivec int o0)) eqn:L.
  2:{ split; [discriminate|]. intros _. apply Nat.leb_gt in L.
      apply (go_err_short m ish int o0 Hnd Hrank); lia. }
  split; [|discriminate]. intros _. apply Nat.leb_le in L.
  destruct (go_ok m ish int o0 Hnd Hrank (indices o0) 0 A) as (sh & mask & Hgo & Hl1 & Hl2 & Hpt); [lia|].
  exists sh, mask. split; [exact Hgo|].
  unfold shape_result_ok. rewrite Hoi, Hl1, Hl2, Nat.eqb_refl. cbn [andb].
  apply forallb_forall. intros [j x] Hjx. cbn [fst snd].
  apply in_combine_seq in Hjx as [_ Hjx]. rewrite Nat.sub_0_r in Hjx.
  destruct (Hpt j x Hjx) as [Hm Hs]. cbn [plus] in Hs.
  assert (j < length sh) as Hj by (rewrite Hl1; apply nth_error_Some; congruence).
  destruct (internal m x) eqn:I.
  - apply (carriers_nil m ish Hnd Hrank) in I. rewrite I, Hm. cbn [negb opt_eqb Bool.eqb andb].
    rewrite Ho. destruct (nth_error sh j) as [d|] eqn:N; [|apply nth_error_None in N; lia].
    unfold ivec in Hs. destruct (dict_get int (aname o0)) as [iv|].
    + rewrite <- Hs. cbn [opt_eqb]. apply Nat.eqb_refl.
    + destruct (length (filter negb (firstn j mask))); discriminate.
  - destruct (carriers m x) as [|aq cs] eqn:C.
    { apply (carriers_nil m ish Hnd Hrank) in C. congruence. }
    rewrite <- C, Hm, Hs. cbn [negb opt_eqb Bool.eqb andb].
    rewrite <- (forallb_map_comp (fun o => opt_eqb Nat.eqb o (Some (hd 0 (dims m ish x)))) (dim_at ish)).
    rewrite (carriers_dims m ish Hnd Hrank x). rewrite forallb_map_comp. cbn [opt_eqb].
    rewrite forallb_forall in A. assert (In x (indices o0)) as Hin by (eapply nth_error_In; eassumption).
    specialize (A x Hin). destruct (dims m ish x) as [|d ds]; [reflexivity|].
    cbn [hd forallb agree] in A |- *. rewrite Nat.eqb_refl. cbn [andb].
    rewrite forallb_forall in A |- *. intros d' Hd'. rewrite Nat.eqb_sym. now apply A.
Qed.

(* The three NoDup hypotheses on names are not needed by the proof (dict lookups of the model and of the
   statement agree even with duplicate keys); they are kept so that the statement matches the side
   conditions of the differential check (`shape_ok` in Corr/Run_C08.v). *)
Theorem shape_correct : forall m ish int,
  wf_decl m = true -> forallb nodup_axes (ins m) = true ->
  NoDup (map aname (ins m)) -> NoDup (map fst ish) -> NoDup (map fst int) ->
  (shape_request_ok m ish int = true ->
     exists sh mask, shape m ish int = Ok (sh, mask) /\ shape_result_ok m ish int sh mask = true)
  /\ (shape_request_ok m ish int = false -> exists e, shape m ish int = Err e).
Proof.
  intros m ish int Hwf Hnd _ _ _.
  unfold wf_decl in Hwf. apply andb_true_iff in Hwf as [_ Hwf].
  destruct (outs m) as [|o0 rest] eqn:Ho; [discriminate|].
  apply andb_true_iff in Hwf as [Hwf _]. apply andb_true_iff in Hwf as [Hwf _].
  cbn [forallb] in Hwf. apply andb_true_iff in Hwf as [Hnc _].
  unfold no_colon in Hnc. apply negb_true_iff in Hnc.
  apply (shape_correct_aux m ish int o0 rest Ho); [|exact Hnd].
  unfold indices. now apply no_colon_axes.
Qed.

(* a non-trivial instance of the hypotheses: a[i,:], b[j] -> q[i,j,k] with an internal axis k *)
Example shape_correct_instance :
  let A n ax := {| aname := n; axes := ax |} in
  let m := {| ins := [A (s "a") [Some (s "i"); None]; A (s "b") [Some (s "j")]];
              outs := [A (s "q") [Some (s "i"); Some (s "j"); Some (s "k")]] |} in
  let ish := [(s "a", [3; 7]); (s "b", [4])] in
  let int := [(s "q", [5])] in
  wf_decl m = true /\ forallb nodup_axes (ins m) = true /\ shape_request_ok m ish int = true
  /\ shape m ish int = Ok ([3; 4; 5], [true; true; false])
  /\ shape_request_ok m ish [] = false /\ shape m ish [] = Err ValueError.
Proof. vm_compute. repeat split. Qed.

Print Assumptions shape_correct.
