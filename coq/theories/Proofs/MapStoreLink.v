(* C01 <-> C07: the abstract storage of the map loop (Model/MapRun.v: `sto`, `sto_dump`, `sto_get`, `sto_array`) IS the
   masked n-d reference array of the storage property (Model/Store.v: `dumpM`, `getM`, `stepM`), and therefore (by the
   refinement theorems of C07) what the FileArray / DictArray models assemble in `to_array` after the dumps of
   `run_mapped` is the denotation of the mapped function.

   The C01 side is imported; the Store side is used qualified (both define kitem/KInt, nd_get, dict_get ...).

   geom_of sh mask   the storage geometry of an output of full shape sh and shape mask `mask`
   sval_of v         the stored value handed to dump: the row-major flat list of a returned value
   cells_of sh st    the reference array denoted by an abstract storage st (missing entry = Masked)
   render            how to_array shows a cell (Masked = "--"; Uninit never occurs, it is shown as None)
   dump_ops sh mask V   the dump(output_key(i), V i) calls of the loop, in loop order

   L0 geom_of_ok, geom_of_full        L1 sto_array_render
   L2 sto_dump_is_dumpM, getM_cells, read_after_dump
   L3 dump_ops_valid, loop_is_reference, loop_reference_render
   L4 file_to_array_target, dict_to_array_target
   L5 mapped_file_to_array_denotes, mapped_dict_to_array_denotes (+ closed example ex_link) *)
From Verif Require Import Base.Prelude Base.StrUtil Base.Index Base.NdArr Model.MapSpec Model.MapSpecSpec
  Model.MapRun Model.MapDenote Model.SymBody
  Proofs.IndexFacts Proofs.StrFacts Proofs.MapSpecFacts Proofs.ListFacts Proofs.PlaceFacts Proofs.SelectFacts
  Proofs.MapRunFacts Proofs.C01Example.
From Verif Require Base.PySlice Model.Store Model.StoreSpec Proofs.PySliceFacts Proofs.StoreBase Proofs.StoreAbs
  Proofs.StoreFileFacts Proofs.StoreDictFacts Proofs.StoreFacts.

(* ================================================================ definitions *)
Definition geom_of (sh : list nat) (mask : list bool) : Store.geom :=
  {| Store.g_ext := ext_of mask sh; Store.g_int := int_of mask sh; Store.g_mask := mask |}.

(* what dump receives: np.asarray(value).flat for an array, the object itself (a one-element list) for a scalar *)
Definition sval_of (v : val) : list str := match v with VS x => [x] | VA a => dat a end.

Definition cell_of_sto (st : sto) (idx : list nat) : Store.cell str :=
  match sto_get st idx with Some x => Store.Val x | None => Store.Masked end.

Definition cells_of (sh : list nat) (st : sto) : list (Store.cell str) := map (cell_of_sto st) (all_indices sh).

Definition render (c : Store.cell str) : str :=
  match c with Store.Val x => x | Store.Masked => s "--" | Store.Uninit => none_str end.

Definition dump_op (sh : list nat) (mask : list bool) (i : nat) (v : val) : Store.op str :=
  Store.Dump (StoreSpec.int_key (unravel (ext_of mask sh) i)) (sval_of v).

Definition dump_ops (sh : list nat) (mask : list bool) (V : nat -> val) : list (Store.op str) :=
  map (fun i => dump_op sh mask i (V i)) (seq 0 (prod (ext_of mask sh))).

(* ================================================================ L1: rendering (no hypotheses) *)
Theorem sto_array_render sh st : sto_array sh st = {| shp := sh; dat := map render (cells_of sh st) |}.
Proof.
  unfold sto_array, nd_of_fun, cells_of. f_equal. rewrite map_map. apply map_ext. intros idx.
  unfold cell_of_sto. destruct (sto_get st idx); reflexivity.
Qed.

(* ================================================================ small facts about sto_get *)
Lemma sto_get_app (l st : sto) idx :
  sto_get (l ++ st) idx = match sto_get l idx with Some x => Some x | None => sto_get st idx end.
Proof.
  induction l as [|[k x] l IH]; [reflexivity|]. cbn [app sto_get].
  destruct (list_eqb Nat.eqb k idx); [reflexivity|exact IH].
Qed.

Lemma sto_get_absent (st : sto) idx : ~ In idx (map fst st) -> sto_get st idx = None.
Proof.
  induction st as [|[k x] st IH]; intros Hn; [reflexivity|]. cbn [sto_get].
  destruct (list_eqb Nat.eqb k idx) eqn:E.
  - apply (list_eqb_eq Nat.eqb Nat.eqb_eq) in E. subst k. exfalso. apply Hn. left. reflexivity.
  - apply IH. intros Hin. apply Hn. right. exact Hin.
Qed.

Lemma idx_eqb_list_eqb a b : Store.idx_eqb a b = list_eqb Nat.eqb a b.
Proof. reflexivity. Qed.

Section Link.
  Variables (sh : list nat) (mask : list bool).
  Hypothesis Hlen : length mask = length sh.
  Hypothesis Hpos : forallb (fun d => 0 <? d) sh = true.

  Let ext := ext_of mask sh.
  Let int := int_of mask sh.
  Let g := geom_of sh mask.

  (* ================================================================ L0 *)
  Theorem geom_of_ok : Store.geom_ok (geom_of sh mask) = true.
  Proof.
    unfold Store.geom_ok, geom_of, Store.count_true, Store.count_false.
    cbn [Store.g_ext Store.g_int Store.g_mask].
    rewrite (ext_of_length mask sh (eq_sym Hlen)), (int_of_length mask sh (eq_sym Hlen)), !Nat.eqb_refl.
    destruct (forallb_pos_proj mask sh Hpos) as [H1 H2]. rewrite H1, H2. reflexivity.
  Qed.

  Theorem geom_of_full : Store.full_shape (geom_of sh mask) = sh.
  Proof.
    unfold Store.full_shape, geom_of. cbn [Store.g_ext Store.g_int Store.g_mask].
    apply merge_ext_int. now symmetry.
  Qed.

  Lemma cells_of_nil : cells_of sh [] = Store.absent str g.
  Proof.
    unfold cells_of, Store.absent. subst g. rewrite geom_of_full.
    unfold cell_of_sto. cbn [sto_get]. rewrite StoreBase.map_const_repeat, all_indices_length. reflexivity.
  Qed.

  Lemma nd_get_cells st p : in_bounds sh p = true -> Store.nd_get str sh (cells_of sh st) p = cell_of_sto st p.
  Proof. intros Hp. unfold cells_of. now apply StoreBase.nd_get_map_all. Qed.

  (* ================================================================ the entries of one dump *)
  Lemma key_lengths key jj :
    in_bounds ext key = true -> in_bounds int jj = true ->
    length key = length (filter id mask) /\ length jj = length (filter negb mask).
  Proof.
    intros Hk Hj. rewrite (in_bounds_length _ _ Hk), (in_bounds_length _ _ Hj). subst ext int.
    split; [apply ext_of_length|apply int_of_length]; now symmetry.
  Qed.

  Lemma dump_entries_hit key v p :
    in_bounds ext key = true -> in_bounds sh p = true -> ext_of mask p = key ->
    sto_get (dump_entries sh mask key v) p = Some (elem v (int_of mask p)).
  Proof.
    intros Hk Hp He.
    destruct (in_bounds_proj mask sh p Hlen Hp) as [_ Hj]. fold int in Hj.
    apply (sto_get_consistent (fun k => elem v (int_of mask k))).
    - intros k x Hin. unfold dump_entries in Hin. apply in_map_iff in Hin as [jj [E Hjj]]. injection E as <- <-.
      apply in_all_indices_iff in Hjj. fold int in Hjj.
      destruct (key_lengths key jj Hk Hjj) as [L1 L2].
      destruct (ext_of_merge mask key jj L1 L2) as [_ E2]. now rewrite E2.
    - unfold dump_entries. rewrite map_map. cbn [fst]. apply in_map_iff. exists (int_of mask p). split.
      + rewrite <- He. apply merge_ext_int. rewrite (in_bounds_length _ _ Hp). now symmetry.
      + now apply in_all_indices_iff.
  Qed.

  Lemma dump_entries_miss key v p :
    in_bounds ext key = true -> ext_of mask p <> key -> sto_get (dump_entries sh mask key v) p = None.
  Proof.
    intros Hk Hne. apply sto_get_absent. intros Hin. apply Hne.
    unfold dump_entries in Hin. rewrite map_map in Hin. cbn [fst] in Hin.
    apply in_map_iff in Hin as [jj [E Hjj]]. subst p.
    apply in_all_indices_iff in Hjj. fold int in Hjj.
    destruct (key_lengths key jj Hk Hjj) as [L1 L2].
    now destruct (ext_of_merge mask key jj L1 L2) as [E1 _].
  Qed.

  (* element jj of a returned value is element (ravel int jj) of its flat stored value *)
  Lemma nth_cell_sval v jj :
    val_ok mask int v -> in_bounds int jj = true ->
    Store.nth_cell str (sval_of v) (ravel int jj) = Store.Val (elem v jj).
  Proof.
    intros Hv Hj. unfold val_ok in Hv. destruct (forallb id mask) eqn:Hm.
    - destruct Hv as [x ->]. destruct (alltrue_proj mask sh Hm (eq_sym Hlen)) as [_ E2].
      fold int in E2. rewrite E2 in *. destruct jj; [reflexivity|discriminate].
    - destruct Hv as [a [-> [Hshp Hwf]]]. cbn [sval_of elem].
      assert (In jj (all_indices (shp a))) as Hin by (rewrite Hshp; now apply in_all_indices_iff).
      destruct (nd_get_some a jj Hwf Hin) as [x Hx]. rewrite Hx.
      unfold nd_get in Hx. rewrite Hshp, Hj in Hx. unfold Store.nth_cell. now rewrite Hx.
  Qed.

  Lemma sval_length v : val_ok mask int v -> length (sval_of v) = prod int.
  Proof.
    intros Hv. unfold val_ok in Hv. destruct (forallb id mask) eqn:Hm.
    - destruct Hv as [x ->]. destruct (alltrue_proj mask sh Hm (eq_sym Hlen)) as [_ E2].
      fold int in E2. rewrite E2. reflexivity.
    - destruct Hv as [a [-> [Hshp Hwf]]]. cbn [sval_of]. unfold nd_wf in Hwf. apply Nat.eqb_eq in Hwf.
      now rewrite Hwf, Hshp.
  Qed.

  (* ================================================================ L2: one dump *)
  (* the reference dump at an in-range integer key *)
  Lemma dumpM_int_key (A : list (Store.cell str)) key sv :
    in_bounds ext key = true ->
    Store.dumpM str g A (StoreSpec.int_key key) sv
    = Ok (map (fun p => if Store.idx_eqb (ext_of mask p) key
                        then Store.nth_cell str sv (ravel int (int_of mask p))
                        else Store.nd_get str sh A p) (all_indices sh)).
  Proof.
    intros Hk. unfold Store.dumpM, Store.norm_key_ref. subst g. rewrite geom_of_full.
    cbn [geom_of Store.g_ext Store.g_int Store.g_mask]. fold ext. fold int.
    assert (length (StoreSpec.int_key key) = length ext) as ->
        by (unfold StoreSpec.int_key; rewrite map_length; now apply in_bounds_length).
    rewrite Nat.eqb_refl, StoreFacts.norm_items_int_key by exact Hk. cbn [bind].
    destruct (StoreFacts.axes_of_ints ext key (in_bounds_length _ _ Hk)) as [H1 _]. rewrite H1. cbn [bind].
    rewrite PySliceFacts.cart_singletons. f_equal. apply map_ext. intros p.
    unfold Store.mem_idx. cbn [existsb]. now rewrite orb_false_r.
  Qed.

  Lemma dumpM_entries st key v :
    in_bounds ext key = true -> val_ok mask int v ->
    Store.dumpM str g (cells_of sh st) (StoreSpec.int_key key) (sval_of v)
    = Ok (cells_of sh (dump_entries sh mask key v ++ st)).
  Proof.
    intros Hk Hv. rewrite dumpM_int_key by exact Hk. f_equal. unfold cells_of at 2.
    apply map_ext_in. intros p Hp. apply in_all_indices_iff in Hp.
    unfold cell_of_sto at 1. rewrite sto_get_app.
    destruct (Store.idx_eqb (ext_of mask p) key) eqn:Ee.
    - apply StoreBase.idx_eqb_eq in Ee. rewrite (dump_entries_hit key v p Hk Hp Ee).
      destruct (in_bounds_proj mask sh p Hlen Hp) as [_ Hj]. now apply nth_cell_sval.
    - apply StoreBase.idx_eqb_neq in Ee. rewrite (dump_entries_miss key v p Hk Ee).
      now apply nd_get_cells.
  Qed.

  (* one storage dump of the map loop is one dump of the reference *)
  Theorem sto_dump_is_dumpM st st' key v :
    in_bounds ext key = true -> val_ok mask int v ->
    sto_dump sh mask key v st = Ok st' ->
    Store.dumpM str g (cells_of sh st) (StoreSpec.int_key key) (sval_of v) = Ok (cells_of sh st').
  Proof.
    intros Hk Hv Hd. rewrite (sto_dump_ok sh mask key v st Hlen Hv) in Hd. injection Hd as <-.
    now apply dumpM_entries.
  Qed.

  (* reading one position of the reference *)
  Theorem getM_cells st p :
    in_bounds sh p = true ->
    Store.getM str g (cells_of sh st) (StoreSpec.int_key p) = Ok (Store.OArr [] [cell_of_sto st p])
    /\ nd_get (sto_array sh st) p = Some (render (cell_of_sto st p)).
  Proof.
    intros Hp. split.
    - unfold Store.getM, Store.norm_key_ref. subst g. rewrite geom_of_full.
      assert (length (StoreSpec.int_key p) = length sh) as ->
          by (unfold StoreSpec.int_key; rewrite map_length; now apply in_bounds_length).
      rewrite Nat.eqb_refl, StoreFacts.norm_items_int_key by exact Hp. cbn [bind].
      destruct (StoreFacts.axes_of_ints sh p (in_bounds_length _ _ Hp)) as [H1 H2]. rewrite H1. cbn [bind].
      rewrite H2, PySliceFacts.cart_singletons. cbn [map]. now rewrite nd_get_cells.
    - rewrite sto_array_render. unfold nd_get. cbn [shp dat]. rewrite Hp.
      unfold cells_of. rewrite map_map.
      rewrite (map_nth_error _ (ravel sh p) (all_indices sh) (d := p)); [reflexivity|].
      rewrite StoreBase.nth_error_all_indices by (now apply ravel_lt). now rewrite unravel_ravel.
  Qed.

  (* after a dump, `storage[p]` of the reference is a 0-d result whose rendering is element p of the array the
     abstract storage assembles *)
  Corollary read_after_dump st st' key v p :
    in_bounds ext key = true -> val_ok mask int v -> in_bounds sh p = true ->
    sto_dump sh mask key v st = Ok st' ->
    exists A' c,
      Store.dumpM str g (cells_of sh st) (StoreSpec.int_key key) (sval_of v) = Ok A'
      /\ Store.getM str g A' (StoreSpec.int_key p) = Ok (Store.OArr [] [c])
      /\ nd_get (sto_array sh st') p = Some (render c)
      /\ (ext_of mask p = key -> c = Store.Val (elem v (int_of mask p))).
  Proof.
    intros Hk Hv Hp Hd. exists (cells_of sh st'), (cell_of_sto st' p).
    split; [now apply sto_dump_is_dumpM|]. destruct (getM_cells st' p Hp) as [H1 H2].
    split; [exact H1|]. split; [exact H2|]. intros He.
    rewrite (sto_dump_ok sh mask key v st Hlen Hv) in Hd. injection Hd as <-.
    unfold cell_of_sto. rewrite sto_get_app, (dump_entries_hit key v p Hk Hp He). reflexivity.
  Qed.

  (* ================================================================ L3: the whole loop *)
  Variable V : nat -> val.
  Hypothesis HV : forall i, i < prod ext -> val_ok mask int (V i).

  Theorem dump_ops_valid : StoreSpec.valid_ops str g (dump_ops sh mask V) = true.
  Proof.
    unfold StoreSpec.valid_ops, dump_ops. apply forallb_forall. intros o Ho.
    apply in_map_iff in Ho as [i [<- Hi]]. apply in_seq in Hi.
    unfold dump_op. cbn [Store.valid_op]. apply Nat.eqb_eq.
    subst g. cbn [geom_of Store.g_int]. apply sval_length. apply HV. fold ext in Hi. lia.
  Qed.

  Lemma stepM_dump_op miss st i :
    i < prod ext ->
    fst (Store.stepM str miss g (cells_of sh st) (dump_op sh mask i (V i)))
    = cells_of sh (dump_pure sh mask i (V i) st).
  Proof.
    intros Hi. unfold dump_op, dump_pure. cbn [Store.stepM]. fold ext.
    rewrite dumpM_entries; [reflexivity|now apply unravel_in_bounds|now apply HV].
  Qed.

  Lemma final_dumps miss : forall (l : list nat) (st0 : sto),
    (forall i, In i l -> i < prod ext) ->
    Store.final str (Store.stepM str miss g) (cells_of sh st0) (map (fun i => dump_op sh mask i (V i)) l)
    = cells_of sh (fold_left (fun st i => dump_pure sh mask i (V i) st) l st0).
  Proof.
    unfold Store.final. induction l as [|i l IH]; intros st0 Hl; [reflexivity|].
    assert (i < prod ext) as Hi by (apply Hl; now left).
    cbn [map fold_left]. rewrite stepM_dump_op by exact Hi.
    apply IH. intros i' Hi'. apply Hl. now right.
  Qed.

  (* the loop of storage dumps of run_mapped, seen as operations of the reference machine, ends in the reference
     array denoted by the final abstract storage (the st of PlaceFacts.sto_all) *)
  Theorem loop_is_reference miss :
    exists st,
      fold_left (fun acc i => do st <- acc; sto_dump sh mask (unravel (ext_of mask sh) i) (V i) st)
                (seq 0 (prod (ext_of mask sh))) (Ok []) = Ok st
      /\ Store.final str (Store.stepM str miss g) (Store.absent str g) (dump_ops sh mask V) = cells_of sh st
      /\ sto_array sh st = {| shp := sh; dat := target sh mask V |}.
  Proof.
    exists (fold_left (fun st i => dump_pure sh mask i (V i) st) (seq 0 (prod (ext_of mask sh))) []).
    split; [|split].
    - apply (fold_left_bind_ok (fun st i => sto_dump sh mask (unravel (ext_of mask sh) i) (V i) st)).
      intros i st Hi. apply in_seq in Hi. unfold dump_pure. apply sto_dump_ok; [exact Hlen|apply HV].
      fold ext in Hi. lia.
    - rewrite <- cells_of_nil. unfold dump_ops. apply final_dumps.
      intros i Hi. apply in_seq in Hi. fold ext in Hi. lia.
    - apply (sto_pure_all sh mask V Hlen).
  Qed.

  Corollary loop_reference_render miss :
    map render (Store.final str (Store.stepM str miss g) (Store.absent str g) (dump_ops sh mask V))
    = target sh mask V.
  Proof.
    destruct (loop_is_reference miss) as [st [_ [Hf Ha]]]. rewrite Hf.
    rewrite sto_array_render in Ha. now injection Ha.
  Qed.

  (* ================================================================ L4: the two backend models *)
  Theorem file_to_array_target :
    exists cells,
      snd (Store.stepF str g (Store.final str (Store.stepF str g) [] (dump_ops sh mask V)) Store.ToArray)
      = Store.OArr sh cells
      /\ map render cells = target sh mask V.
  Proof.
    destruct (StoreFacts.file_final str g geom_of_ok _ dump_ops_valid) as [Habs Hinv].
    destruct (StoreFileFacts.stepF_refines str g geom_of_ok _ Store.ToArray Hinv eq_refl) as [H _].
    rewrite Habs in H. cbn [Store.stepM] in H. apply (f_equal snd) in H. cbn [snd] in H.
    eexists. split; [rewrite <- H; subst g; now rewrite geom_of_full|].
    apply loop_reference_render.
  Qed.

  Theorem dict_to_array_target :
    exists cells,
      snd (Store.stepD str g (Store.final str (Store.stepD str g) [] (dump_ops sh mask V)) Store.ToArray)
      = Store.OArr sh cells
      /\ map render cells = target sh mask V.
  Proof.
    destruct (StoreFacts.dict_final str g geom_of_ok _ dump_ops_valid) as [Habs Hinv].
    destruct (StoreDictFacts.stepD_refines str g geom_of_ok _ Store.ToArray Hinv eq_refl) as [H _].
    rewrite Habs in H. cbn [Store.stepM] in H. apply (f_equal snd) in H. cbn [snd] in H.
    eexists. split; [rewrite <- H; subst g; now rewrite geom_of_full|].
    apply loop_reference_render.
  Qed.
End Link.

(* ================================================================ L5: composition with C01's main theorem *)
Section MappedLink.
  Variable body : mfunc -> env -> result (list val).
  Hypothesis Harity : body_arity body.

  Variables (f : mfunc) (ms : mapspec) (kw : env) (sh : list nat) (mask : list bool).
  Hypothesis Hwf : wf_decl ms = true.
  Hypothesis Hnames : NoDup (map aname (ins ms)).
  Hypothesis Hout : NoDup (output_indices ms).
  Hypothesis Hk : 0 < length (fouts f).
  Hypothesis Hlen : length mask = length sh.
  Hypothesis Hext : length (ext_of mask sh) = length (external_indices ms).
  Hypothesis Hpos : forallb (fun d => 0 <? d) sh = true.
  Variable arrs : list (nd str).
  Hypothesis Hden : denote_mapped body f ms kw sh mask = Ok arrs.

  Let ext := ext_of mask sh.
  Let int := int_of mask sh.
  Let g := geom_of sh mask.

  (* the value the user function returns for output j at linear index i *)
  Definition out_col (j i : nat) : val := nth j (outs_lin body f ms kw sh mask i) (VS []).

  Lemma out_col_ok j i : j < length (fouts f) -> i < prod ext -> val_ok mask int (out_col j i).
  Proof.
    intros Hj Hi.
    destruct (iteration_facts body Harity f ms kw sh mask Hk Hlen Hext Hpos arrs Hden i Hi) as [_ [_ [_ [Hl Hv]]]].
    apply Hv. unfold out_col. apply nth_In. rewrite Hl. exact Hj.
  Qed.

  (* dump_ops (out_col j) are exactly the dump calls of the loop of run_mapped for the storage of output j:
     key = output_key, value = the j-th returned value of that iteration *)
  Lemma dump_op_is_loop_dump i :
    i < prod ext ->
    exists sel outs key,
      select_kwargs ms kw ext i = Ok sel /\ body f sel = Ok outs /\ length outs = length (fouts f)
      /\ output_key ms ext i = Ok key
      /\ forall j, dump_op sh mask i (out_col j i)
                   = Store.Dump (StoreSpec.int_key key) (sval_of (nth j outs (VS []))).
  Proof.
    intros Hi.
    destruct (iteration_facts body Harity f ms kw sh mask Hk Hlen Hext Hpos arrs Hden i Hi) as [sel [Hs [Hb [Hl _]]]].
    pose proof (ext_pos sh mask Hpos) as Hep.
    exists sel, (outs_lin body f ms kw sh mask i), (unravel ext i).
    split; [subst ext; now rewrite (select_kwargs_arg_at ms Hwf Hnames Hout kw _ i Hext Hep)|].
    split; [exact Hb|]. split; [exact Hl|].
    split; [subst ext; exact (output_key_ok ms Hwf Hout _ i Hext Hep)|]. reflexivity.
  Qed.

  Lemma nth_arrs j :
    j < length (fouts f) ->
    nth j arrs {| shp := []; dat := [] |} = {| shp := sh; dat := target sh mask (out_col j) |}.
  Proof.
    intros Hj. rewrite (denote_mapped_arrays body f ms kw sh mask Hlen arrs Hden (VS [])) at 1.
    set (F := fun j0 : nat => {| shp := sh; dat := target sh mask (fun i => nth j0 (outs_lin body f ms kw sh mask i) (VS [])) |}).
    rewrite (nth_indep _ _ (F 0)) by (now rewrite map_length, seq_length).
    rewrite map_nth, seq_nth by exact Hj. reflexivity.
  Qed.

  (* the FileArray model, driven by the dumps of the loop, assembles the denotation of output j *)
  Theorem mapped_file_to_array_denotes j :
    j < length (fouts f) ->
    exists cells,
      snd (Store.stepF str g (Store.final str (Store.stepF str g) [] (dump_ops sh mask (out_col j))) Store.ToArray)
      = Store.OArr sh cells
      /\ {| shp := sh; dat := map render cells |} = nth j arrs {| shp := []; dat := [] |}.
  Proof.
    intros Hj.
    destruct (file_to_array_target sh mask Hlen Hpos (out_col j) (fun i Hi => out_col_ok j i Hj Hi)) as [cells [H1 H2]].
    exists cells. split; [exact H1|]. now rewrite nth_arrs, H2.
  Qed.

  (* ... and so does the DictArray model *)
  Theorem mapped_dict_to_array_denotes j :
    j < length (fouts f) ->
    exists cells,
      snd (Store.stepD str g (Store.final str (Store.stepD str g) [] (dump_ops sh mask (out_col j))) Store.ToArray)
      = Store.OArr sh cells
      /\ {| shp := sh; dat := map render cells |} = nth j arrs {| shp := []; dat := [] |}.
  Proof.
    intros Hj.
    destruct (dict_to_array_target sh mask Hlen Hpos (out_col j) (fun i Hi => out_col_ok j i Hj Hi)) as [cells [H1 H2]].
    exists cells. split; [exact H1|]. now rewrite nth_arrs, H2.
  Qed.

  (* everything together: the model of Pipeline.map returns (and stores, abstractly) the denotation, and each of
     the two concrete storage models fed with the same dumps shows the same array *)
  Theorem mapped_storage_link :
    run_mapped body f ms kw sh mask = Ok (arrs, arrs, prod (ext_of mask sh))
    /\ forall j, j < length (fouts f) ->
         exists cF cD,
           snd (Store.stepF str g (Store.final str (Store.stepF str g) [] (dump_ops sh mask (out_col j))) Store.ToArray)
           = Store.OArr sh cF
           /\ snd (Store.stepD str g (Store.final str (Store.stepD str g) [] (dump_ops sh mask (out_col j))) Store.ToArray)
              = Store.OArr sh cD
           /\ {| shp := sh; dat := map render cF |} = nth j arrs {| shp := []; dat := [] |}
           /\ {| shp := sh; dat := map render cD |} = nth j arrs {| shp := []; dat := [] |}.
  Proof.
    split; [exact (run_mapped_denotes body Harity f ms kw sh mask Hwf Hnames Hout Hk Hlen Hext Hpos arrs Hden)|].
    intros j Hj. destruct (mapped_file_to_array_denotes j Hj) as [cF [F1 F2]].
    destruct (mapped_dict_to_array_denotes j Hj) as [cD [D1 D2]]. exists cF, cD. auto.
  Qed.
End MappedLink.

(* ================================================================ a closed instance (C01Example: f1 : x[i] -> y[j, i],
   full shape [2; 3], the internal axis j first): the three machines run on the dumps of the loop; the rendered
   to_array of each is the denoted array and the stored array of run_mapped *)
Definition ex_ops : list (Store.op str) :=
  dump_ops [2; 3] [false; true] (out_col sym_body ex_f1 ex_ms1 ex_kw1 [2; 3] [false; true] 0).
Definition ex_g : Store.geom := geom_of [2; 3] [false; true].

Definition rendered (o : Store.out str) : option (nd str) :=
  match o with Store.OArr sh cells => Some {| shp := sh; dat := map render cells |} | _ => None end.

Example ex_link :
  exists a,
    denote_mapped sym_body ex_f1 ex_ms1 ex_kw1 [2; 3] [false; true] = Ok [a]
    /\ run_mapped sym_body ex_f1 ex_ms1 ex_kw1 [2; 3] [false; true] = Ok ([a], [a], 3)
    /\ length ex_ops = 3
    /\ rendered (snd (Store.stepM str KeyError ex_g
                        (Store.final str (Store.stepM str KeyError ex_g) (Store.absent str ex_g) ex_ops) Store.ToArray))
       = Some a
    /\ rendered (snd (Store.stepF str ex_g (Store.final str (Store.stepF str ex_g) [] ex_ops) Store.ToArray)) = Some a
    /\ rendered (snd (Store.stepD str ex_g (Store.final str (Store.stepD str ex_g) [] ex_ops) Store.ToArray)) = Some a.
Proof. eexists. vm_compute. repeat split; reflexivity. Qed.
