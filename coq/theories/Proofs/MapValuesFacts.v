(* What a full run (no request) leaves in the store, as a function of the store it started from; and from that:
   a run on a sub-store of the final store of an uninterrupted run ends with that same final store.
   (Used for C05 resume_eq_uninterrupted and C06 pieces_eq_whole at the level of whole pipelines.) *)
From Verif Require Import Base.Prelude Base.StrUtil Base.Index Base.NdArr Base.PyRange Base.StrSeq
  Model.MapSpec Model.MapSpecSpec Model.MapRun
  Proofs.IndexFacts Proofs.StrFacts Proofs.MapSpecFacts Proofs.PyRangeFacts.
From Verif Require Import Model.MapResume Model.FixedSpec Proofs.MapResumeFacts.

Section Values.
  Variable body : mfunc -> env -> result (list val).
  Variable c : ctx.
  Variable rs : rstore.                 (* the store the run starts from *)
  Hypothesis Hsized : sized c rs.
  Hypothesis Huniq : forall g f o, In g (x_p c) -> In f (x_p c) -> In o (fouts g) -> In o (fouts f) -> g = f.

  Definition missing_of (f : mfunc) (N : nat) : list nat :=
    filter (fun i => miss_any (stores_of rs f N) i) (seq 0 N).

  Definition vals_are (r : rstore) (f : mfunc) (outs : list val) : Prop :=
    Forall2 (fun o v => dict_get (st_val r) o = Some (Ok v)) (fouts f) outs.

  (* what the run did for a function, read off the store r it ended with *)
  Definition func_fact (r : rstore) (f : mfunc) : Prop :=
    exists kw, func_kwargs_sel c r f = Ok kw /\
      if is_mapped f then
        forall ms sm, fspec f = Some ms -> shape_of c f = Ok sm ->
          let N := prod (ext_of (snd sm) (fst sm)) in
          filled body f ms kw (fst sm) (snd sm) (missing_of f N) (stores_of rs f N) (stores_of r f N)
      else
        match load_single rs f with
        | Ok (Some outs) => vals_are r f outs
        | Ok None => exists outs, body f kw = Ok outs /\ length outs = length (fouts f) /\ vals_are r f outs
        | Err _ => False
        end.

  (* a pending task of a function without mapped inputs: its outputs, not yet dumped *)
  Definition task_fact (r : rstore) (t : task) : Prop :=
    match t with
    | TMapped _ _ _ _ _ => True
    | TSingle f outs =>
        is_mapped f = false /\ length outs = length (fouts f) /\
        exists kw, func_kwargs_sel c r f = Ok kw /\
          match load_single rs f with
          | Ok (Some l) => outs = l
          | Ok None => body f kw = Ok outs
          | Err _ => False
          end
    end.

  (* done: submitted functions; settled: those whose outputs are in the store (mapped: at once; others: after _process_task) *)
  Record inv2 (done settled : list mfunc) (ps : pstate) : Prop := {
    j_inv : inv c None rs done ps;
    j_sub : forall f, In f settled -> In f done;
    j_fact : forall f, In f settled -> func_fact (p_store ps) f
  }.

  (* the parameters of f are not produced by g *)
  Definition indep (g f : mfunc) : Prop := forall o, In o (fouts g) -> ~ In o (fparams f).

  Lemma func_fact_frame r r' f :
    (forall q, In q (fparams f) -> dict_get (st_arr r) q = dict_get (st_arr r') q /\ dict_get (st_val r) q = dict_get (st_val r') q) ->
    (forall o, In o (fouts f) -> dict_get (st_arr r) o = dict_get (st_arr r') o /\ dict_get (st_val r) o = dict_get (st_val r') o) ->
    func_fact r f -> func_fact r' f.
  Proof.
    intros Hp Ho [kw [Hkw H]]. exists kw. split; [now rewrite <- (func_kwargs_sel_frame c r r' f Hp)|].
    destruct (is_mapped f).
    - intros ms sm Hms Hsm. cbn zeta. rewrite <- (stores_of_ext r r' f _ (fun o Hi => proj1 (Ho o Hi))). now apply H.
    - assert (Hv : forall outs, vals_are r f outs -> vals_are r' f outs).
      { intros outs Hva. unfold vals_are in *. clear - Hva Ho.
        induction Hva as [|o v os vs H1 _ IH]; constructor.
        - rewrite <- (proj2 (Ho o (or_introl eq_refl))). exact H1.
        - apply IH. intros o' Ho'. apply Ho. right. exact Ho'. }
      destruct (load_single rs f) as [[outs|]|]; [now apply Hv | | exact H].
      destruct H as [outs [Hb [Hl Hva]]]. exists outs. auto.
  Qed.

  Lemma task_fact_frame r r' t :
    (forall q, In q (fparams (task_func t)) -> dict_get (st_arr r) q = dict_get (st_arr r') q /\ dict_get (st_val r) q = dict_get (st_val r') q) ->
    task_fact r t -> task_fact r' t.
  Proof.
    destruct t as [f sh mask st ex|f outs]; cbn [task_fact task_func]; [auto|].
    intros Hp [Hm [Hl [kw [Hkw H]]]]. split; [exact Hm|]. split; [exact Hl|]. exists kw.
    split; [now rewrite <- (func_kwargs_sel_frame c r r' f Hp) | exact H].
  Qed.

  Lemma stores_of_put_same r f sts n : NoDup (fouts f) -> length sts = length (fouts f) ->
    stores_of (put_stores r f sts) f n = sts.
  Proof.
    intros Hnd Hl. apply (@list_eq_nth estore []).
    - unfold stores_of. now rewrite map_length.
    - intros j Hj. unfold stores_of in Hj. rewrite map_length in Hj.
      destruct (nth_error (fouts f) j) as [o|] eqn:Eo; [|apply nth_error_None in Eo; lia].
      destruct (stores_of_nth (put_stores r f sts) f n j o Eo) as [Hn _]. rewrite Hn.
      unfold get_arr, put_stores. now rewrite (put_stores_arr_nth r (fouts f) sts j o Hnd Hl Eo).
  Qed.

  Lemma load_single_length r f outs : load_single r f = Ok (Some outs) -> length outs = length (fouts f).
  Proof.
    unfold load_single. destruct (mapM _ (fouts f)) as [l|] eqn:E; cbn; [|discriminate].
    destruct (forallb _ l) eqn:Ea; [|discriminate]. intros H. injection H as <-.
    apply mapM_length in E. rewrite <- E. clear E.
    induction l as [|x l IH]; cbn in *; [reflexivity|].
    destruct x; [|discriminate]. cbn. f_equal. now apply IH.
  Qed.

  Lemma set_val_fold_get r outs_names : forall vs, NoDup outs_names -> length vs = length outs_names ->
    Forall2 (fun o v => dict_get (st_val (fold_left (fun r0 ov => set_val r0 (fst ov) (snd ov)) (combine outs_names vs) r)) o = Some (Ok v))
            outs_names vs.
  Proof.
    revert r. induction outs_names as [|o os IH]; intros r [|v vs] Hnd Hl; cbn in Hl; try lia; [constructor|].
    inversion Hnd as [|? ? Hni Hnd']; subst. cbn [combine fold_left fst snd]. constructor.
    - rewrite set_val_other by exact Hni. cbn. apply dict_get_set_same.
    - apply IH; [exact Hnd' | lia].
  Qed.

  Definition task_settles (t : task) : list mfunc := match t with TSingle f _ => [f] | TMapped _ _ _ _ _ => [] end.

  Definition disjoint_outs (f : mfunc) (l : list mfunc) : Prop := forall o, In o (fouts f) -> ~ In o (flat_map fouts l).

  (* submitting one function *)
  Lemma submit_func_inv2 done settled tasks ps f ps' t :
    inv2 done settled ps ->
    Forall (task_fact (p_store ps)) tasks -> Forall (fun t0 => In (task_func t0) done) tasks ->
    In f (x_p c) -> NoDup (fouts f) -> disjoint_outs f done ->
    (forall g, In g done -> indep f g) -> indep f f ->
    submit_func body c None ps f = ROk (ps', t) ->
    inv2 (done ++ [f]) (if is_mapped f then settled ++ [f] else settled) ps'
    /\ Forall (task_fact (p_store ps')) (tasks ++ [t])
    /\ task_func t = f /\ (is_mapped f = false -> task_settles t = [f]).
  Proof.
    intros [J1 J2 J3] Htf Htd Hin Hnd Hdis Hind Hself H.
    destruct (submit_func_inv body c None rs Hsized Huniq done ps f ps' t J1 Hin Hnd Hdis H) as [K1 K2].
    destruct J1 as [I1 I2 I3 I4].
    unfold submit_func in H.
    destruct (func_kwargs_sel c (p_store ps) f) as [kw|] eqn:Ekw; cbn [lift rbind] in H; [|discriminate].
    destruct (is_mapped f) eqn:Em.
    - destruct (fspec f) as [ms|] eqn:Esp; [|discriminate].
      destruct (shape_of c f) as [sm|] eqn:Es; cbn [lift rbind] in H; [|discriminate].
      set (N := prod (ext_of (snd sm) (fst sm))) in *.
      destruct (submit_mapped _ _ _ _ _ _ _ _ _) as [[st ex]|] eqn:Esub; cbn [rbind fst snd] in H; [|discriminate].
      injection H as <- <-. cbn [p_store] in *.
      assert (Hfr : stores_of (p_store ps) f N = stores_of rs f N).
      { apply stores_of_ext. intros o Ho. apply I2. now apply Hdis. }
      rewrite Hfr in Esub.
      apply submit_mapped_exact in Esub as [fm [Hfm [_ [Hfill _]]]]; [| unfold stores_of; now rewrite map_length].
      cbn in Hfm. injection Hfm as <-. cbn [selb andb] in Hfill.
      assert (Hlen : length (m_stores st) = length (fouts f)).
      { destruct Hfill as [FL _]. rewrite FL. unfold stores_of. now rewrite map_length. }
      (* entries that the new store shares with the old one *)
      assert (Hoth : forall q, ~ In q (fouts f) ->
                dict_get (st_arr (p_store ps)) q = dict_get (st_arr (put_stores (p_store ps) f (m_stores st))) q
                /\ dict_get (st_val (p_store ps)) q = dict_get (st_val (put_stores (p_store ps) f (m_stores st))) q).
      { intros q Hq. unfold put_stores. rewrite put_stores_arr_other by exact Hq. rewrite put_stores_val. auto. }
      split; [|split; [|split; [reflexivity | discriminate]]].
      + constructor; [exact K1 | |].
        * intros g Hg. apply in_app_or in Hg as [Hg|[<-|[]]]; apply in_or_app; [left; now apply J2 | right; left; reflexivity].
        * intros g Hg. apply in_app_or in Hg as [Hg|[<-|[]]].
          -- apply (func_fact_frame (p_store ps)); [| |now apply J3].
             ++ intros q Hq. apply Hoth. intros X. exact (Hind g (J2 g Hg) q X Hq).
             ++ intros o Ho. apply Hoth. intros X. apply (Hdis o X). apply in_flat_map. exists g. split; [now apply J2 | exact Ho].
          -- exists kw. split.
             ++ rewrite <- Ekw. symmetry. apply func_kwargs_sel_frame. intros q Hq. apply Hoth. intros X. exact (Hself q X Hq).
             ++ rewrite Em. intros ms' sm' Hms' Hsm'. rewrite Esp in Hms'. injection Hms' as <-.
                rewrite Es in Hsm'. injection Hsm' as <-. cbn zeta.
                rewrite (stores_of_put_same (p_store ps) f (m_stores st) _ Hnd Hlen). exact Hfill.
      + apply Forall_app. split; [|constructor; [exact I|constructor]].
        rewrite Forall_forall in Htf, Htd |- *. intros t0 Ht0.
        apply (task_fact_frame (p_store ps)); [|now apply Htf].
        intros q Hq. apply Hoth. intros X. exact (Hind _ (Htd t0 Ht0) q X Hq).
    - unfold execute_single in H.
      assert (Hld : load_single (p_store ps) f = load_single rs f).
      { apply load_single_frame. intros o Ho. apply I2. now apply Hdis. }
      rewrite Hld in H.
      destruct (load_single rs f) as [ld|] eqn:El; cbn [lift rbind] in H; [|discriminate].
      destruct ld as [outs|].
      + cbn [rbind fst snd] in H. injection H as <- <-. cbn [p_store].
        split; [|split; [|split; [reflexivity | reflexivity]]].
        * constructor; [exact K1 | intros g Hg; apply in_or_app; left; now apply J2 | exact J3].
        * apply Forall_app. split; [exact Htf|]. constructor; [|constructor].
          cbn [task_fact]. split; [exact Em|]. split; [now apply (load_single_length rs f)|].
          exists kw. split; [exact Ekw|]. rewrite El. reflexivity.
      + destruct (body f kw) as [outs|] eqn:Eb; cbn [lift rbind] in H; [|discriminate].
        destruct (length outs =? length (fouts f)) eqn:Eln; cbn [negb] in H; [|discriminate].
        cbn [rbind fst snd] in H. injection H as <- <-. cbn [p_store].
        split; [|split; [|split; [reflexivity | reflexivity]]].
        * constructor; [exact K1 | intros g Hg; apply in_or_app; left; now apply J2 | exact J3].
        * apply Forall_app. split; [exact Htf|]. constructor; [|constructor].
          cbn [task_fact]. split; [exact Em|]. split; [now apply Nat.eqb_eq|].
          exists kw. split; [exact Ekw|]. rewrite El. exact Eb.
  Qed.

  (* processing one task *)
  Lemma process_task_inv2 done settled tasks ps t ps' :
    inv2 done settled ps ->
    task_fact (p_store ps) t -> In (task_func t) done ->
    Forall (task_fact (p_store ps)) tasks -> Forall (fun t0 => In (task_func t0) done) tasks ->
    NoDup (fouts (task_func t)) ->
    (forall g, In g done -> In g (x_p c)) ->
    (forall g, In g done -> indep (task_func t) g) ->
    process_task ps t = ROk ps' ->
    inv2 done (settled ++ task_settles t) ps' /\ Forall (task_fact (p_store ps')) tasks.
  Proof.
    intros [J1 J2 J3] Hfact Htd Htf Htds Hnd Hdone Hind H.
    pose proof (process_task_inv c None rs done ps t ps' J1 Htd H) as K1.
    destruct t as [f sh mask st ex | f outs]; cbn [process_task task_func task_settles] in *.
    - destruct (process_mapped f sh mask _ ex) as [arrs|]; cbn [rbind] in H; [|discriminate].
      injection H as <-. cbn [p_store]. rewrite app_nil_r. split; [|exact Htf].
      constructor; [exact K1 | exact J2 | exact J3].
    - injection H as <-. cbn [dump_single fst snd p_store].
      destruct Hfact as [Hm [Hl [kw [Hkw Hcase]]]].
      set (r' := fold_left (fun r0 ov => set_val r0 (fst ov) (snd ov)) (combine (fouts f) outs) (p_store ps)).
      assert (Harr : st_arr r' = st_arr (p_store ps)) by apply set_val_arr.
      assert (Hoth : forall q, ~ In q (fouts f) ->
                dict_get (st_arr (p_store ps)) q = dict_get (st_arr r') q /\ dict_get (st_val (p_store ps)) q = dict_get (st_val r') q).
      { intros q Hq. split; [now rewrite Harr | symmetry; now apply set_val_other]. }
      assert (Hnew : func_fact r' f).
      { exists kw. split.
        - rewrite <- Hkw. symmetry. apply func_kwargs_sel_frame. intros q Hq. apply Hoth. intros X. exact (Hind f Htd q X Hq).
        - rewrite Hm. pose proof (set_val_fold_get (p_store ps) (fouts f) outs Hnd Hl) as Hset. fold r' in Hset.
          destruct (load_single rs f) as [[l|]|]; [subst l; exact Hset | | exact Hcase].
          exists outs. auto. }
      split.
      + constructor; [exact K1 | |].
        * intros g Hg. apply in_app_or in Hg as [Hg|[<-|[]]]; [now apply J2 | exact Htd].
        * intros g Hg. apply in_app_or in Hg as [Hg|[<-|[]]]; [|exact Hnew].
          destruct (existsb (fun o => mem_str o (fouts f)) (fouts g)) eqn:Esh.
          -- apply existsb_exists in Esh as [o [Ho Hof]]. apply mem_str_In in Hof.
             assert (g = f) by (apply (Huniq g f o); [apply Hdone; now apply J2 | apply Hdone; exact Htd | exact Ho | exact Hof]). subst g. exact Hnew.
          -- apply (func_fact_frame (p_store ps)); [| |now apply J3].
             ++ intros q Hq. apply Hoth. intros X. exact (Hind g (J2 g Hg) q X Hq).
             ++ intros o Ho. apply Hoth. intros X.
                assert (Ht : existsb (fun o0 => mem_str o0 (fouts f)) (fouts g) = true)
                  by (apply existsb_exists; exists o; split; [exact Ho | now apply mem_str_In]).
                rewrite Ht in Esh. discriminate.
      + rewrite Forall_forall in Htf, Htds |- *. intros t0 Ht0.
        apply (task_fact_frame (p_store ps)); [|now apply Htf].
        intros q Hq. apply Hoth. intros X. exact (Hind _ (Htds t0 Ht0) q X Hq).
  Qed.

  (* all functions of a generation are submitted *)
  Lemma submit_fold_inv2 gen : forall done settled tasks ps ps' tasks',
    inv2 done settled ps ->
    Forall (task_fact (p_store ps)) tasks -> Forall (fun t0 => In (task_func t0) done) tasks ->
    (forall f, In f gen -> In f (x_p c)) ->
    NoDup (flat_map fouts (done ++ gen)) ->
    (forall f, In f gen -> forall g, In g (done ++ gen) -> indep f g) ->
    fold_left (fun acc f => rdo pt <- acc; rdo r <- submit_func body c None (fst pt) f; ROk (fst r, snd pt ++ [snd r]))
              gen (ROk (ps, tasks)) = ROk (ps', tasks') ->
    exists settled' new,
      inv2 (done ++ gen) settled' ps' /\ tasks' = tasks ++ new
      /\ Forall (task_fact (p_store ps')) tasks' /\ Forall (fun t0 => In (task_func t0) (done ++ gen)) tasks'
      /\ (forall f, In f settled -> In f settled')
      /\ (forall f, In f gen -> In f settled' \/ In f (flat_map task_settles new))
      /\ (forall t0, In t0 new -> In (task_func t0) gen).
  Proof.
    induction gen as [|f gen IH]; intros done settled tasks ps ps' tasks' Hinv Htf Htd Hsub Hnd Hind H.
    - cbn in H. injection H as <- <-. exists settled, []. rewrite !app_nil_r.
      split; [exact Hinv|]. split; [reflexivity|]. split; [exact Htf|]. split; [exact Htd|].
      split; [auto|]. split; [intros f [] | intros t0 []].
    - cbn [fold_left rbind fst snd] in H.
      destruct (submit_func body c None ps f) as [[ps1 t]|e tr] eqn:Es; cbn [rbind fst snd] in H;
        [|rewrite rfold_err in H; discriminate].
      pose proof Hnd as Hnd0.
      rewrite flat_map_app in Hnd. cbn [flat_map] in Hnd.
      destruct (NoDup_app_inv _ _ Hnd) as [_ [Hnd2 Hdis]].
      destruct (NoDup_app_inv _ _ Hnd2) as [Hndf _].
      destruct (submit_func_inv2 done settled tasks ps f ps1 t Hinv Htf Htd) as [K1 [K2 [K3 K4]]].
      + apply Hsub. left. reflexivity.
      + exact Hndf.
      + intros o Ho X. apply (Hdis o X). apply in_or_app. left. exact Ho.
      + intros g Hg. apply Hind; [left; reflexivity | apply in_or_app; left; exact Hg].
      + apply Hind; [left; reflexivity | apply in_or_app; right; left; reflexivity].
      + exact Es.
      + set (settled1 := if is_mapped f then settled ++ [f] else settled) in *.
        destruct (IH (done ++ [f]) settled1 (tasks ++ [t]) ps1 ps' tasks' K1 K2) as [settled' [new [L1 [L2 [L3 [L4 [L5 [L6 L7]]]]]]]].
        * apply Forall_app. split.
          -- eapply Forall_impl; [|exact Htd]. intros t0 Ht0. apply in_or_app. left. exact Ht0.
          -- constructor; [|constructor]. rewrite K3. apply in_or_app. right. left. reflexivity.
        * intros g Hg. apply Hsub. right. exact Hg.
        * rewrite <- app_assoc. exact Hnd0.
        * intros g Hg h Hh. apply Hind; [right; exact Hg|]. rewrite <- app_assoc in Hh. exact Hh.
        * exact H.
        * exists settled', (t :: new). rewrite <- app_assoc in L1, L4. cbn [app] in L1, L4.
          split; [exact L1|]. split; [rewrite L2, <- app_assoc; reflexivity|]. split; [exact L3|]. split; [exact L4|].
          split; [|split].
          -- intros g Hg. apply L5. unfold settled1. destruct (is_mapped f); [apply in_or_app; left|]; exact Hg.
          -- intros g [<-|Hg].
             ++ destruct (is_mapped f) eqn:Em.
                ** left. apply L5. unfold settled1. apply in_or_app. right. left. reflexivity.
                ** right. cbn [flat_map]. apply in_or_app. left. rewrite (K4 eq_refl). left. reflexivity.
             ++ destruct (L6 g Hg) as [X|X]; [left; exact X | right; cbn [flat_map]; apply in_or_app; right; exact X].
          -- intros t0 [<-|Ht0]; [rewrite K3; left; reflexivity | right; now apply L7].
  Qed.

  (* all tasks of a generation are processed *)
  Lemma process_fold_inv2 tasks : forall done settled ps ps',
    inv2 done settled ps ->
    Forall (task_fact (p_store ps)) tasks -> Forall (fun t0 => In (task_func t0) done) tasks ->
    (forall t0, In t0 tasks -> NoDup (fouts (task_func t0))) ->
    (forall g, In g done -> In g (x_p c)) ->
    (forall t0, In t0 tasks -> forall g, In g done -> indep (task_func t0) g) ->
    fold_left (fun acc t0 => rdo ps0 <- acc; process_task ps0 t0) tasks (ROk ps) = ROk ps' ->
    inv2 done (settled ++ flat_map task_settles tasks) ps'.
  Proof.
    induction tasks as [|t tasks IH]; intros done settled ps ps' Hinv Htf Htd Hnd Hdone Hind H.
    - cbn in H. injection H as <-. cbn. now rewrite app_nil_r.
    - cbn [fold_left rbind] in H. inversion Htf as [|? ? Hf1 Hf2]; subst. inversion Htd as [|? ? Hd1 Hd2]; subst.
      destruct (process_task ps t) as [ps1|e tr] eqn:Ep; [|rewrite rfold_err in H; discriminate].
      destruct (process_task_inv2 done settled tasks ps t ps1 Hinv Hf1 Hd1 Hf2 Hd2) as [K1 K2].
      + apply Hnd. left. reflexivity.
      + exact Hdone.
      + apply Hind. left. reflexivity.
      + exact Ep.
      + cbn [flat_map]. rewrite app_assoc. apply (IH done _ ps1 ps' K1 K2 Hd2).
        * intros t0 Ht0. apply Hnd. right. exact Ht0.
        * exact Hdone.
        * intros t0 Ht0. apply Hind. right. exact Ht0.
        * exact H.
  Qed.

  Lemma NoDup_flat_map_In (l : list mfunc) f : NoDup (flat_map fouts l) -> In f l -> NoDup (fouts f).
  Proof.
    induction l as [|g l IH]; intros Hnd Hin; [destruct Hin|]. cbn in Hnd.
    destruct (NoDup_app_inv _ _ Hnd) as [A [B _]]. destruct Hin as [->|Hin]; [exact A | now apply IH].
  Qed.

  Lemma run_generation_inv2 done settled ps gen ps' :
    inv2 done settled ps -> (forall f, In f done -> In f settled) ->
    (forall f, In f (done ++ gen) -> In f (x_p c)) ->
    NoDup (flat_map fouts (done ++ gen)) ->
    (forall f, In f gen -> forall g, In g (done ++ gen) -> indep f g) ->
    run_generation body c None ps gen = ROk ps' ->
    exists settled', inv2 (done ++ gen) settled' ps' /\ (forall f, In f (done ++ gen) -> In f settled').
  Proof.
    intros Hinv Hall Hsub Hnd Hind H. unfold run_generation in H.
    destruct (fold_left _ gen (ROk (ps, []))) as [[ps1 tasks]|] eqn:E1; cbn [rbind fst snd] in H; [|discriminate].
    destruct (submit_fold_inv2 gen done settled [] ps ps1 tasks Hinv (Forall_nil _) (Forall_nil _)) as
      [settled1 [new [L1 [L2 [L3 [L4 [L5 [L6 L7]]]]]]]].
    - intros f Hf. apply Hsub. apply in_or_app. right. exact Hf.
    - exact Hnd.
    - exact Hind.
    - exact E1.
    - cbn [app] in L2. subst new.
      exists (settled1 ++ flat_map task_settles tasks). split.
      + apply (process_fold_inv2 tasks (done ++ gen) settled1 ps1 ps' L1 L3 L4).
        * intros t0 Ht0. apply (NoDup_flat_map_In (done ++ gen)); [exact Hnd|]. apply in_or_app. right. now apply L7.
        * exact Hsub.
        * intros t0 Ht0 g Hg. apply Hind; [now apply L7 | exact Hg].
        * exact H.
      + intros f Hf. apply in_or_app. apply in_app_or in Hf as [Hf|Hf].
        * left. apply L5. now apply Hall.
        * destruct (L6 f Hf) as [X|X]; [left | right]; exact X.
  Qed.

  (* outputs of a generation are consumed only by strictly later generations *)
  Fixpoint order_ok (before : list mfunc) (gens : list (list mfunc)) : Prop :=
    match gens with
    | [] => True
    | gen :: rest => (forall f, In f gen -> forall g, In g (before ++ gen) -> indep f g) /\ order_ok (before ++ gen) rest
    end.

  Lemma generations_fold_inv2 gens : forall done settled ps ps',
    inv2 done settled ps -> (forall f, In f done -> In f settled) ->
    (forall f, In f (done ++ concat gens) -> In f (x_p c)) ->
    NoDup (flat_map fouts (done ++ concat gens)) ->
    order_ok done gens ->
    fold_left (fun acc gen => rdo ps0 <- acc; run_generation body c None ps0 gen) gens (ROk ps) = ROk ps' ->
    exists settled', inv2 (done ++ concat gens) settled' ps' /\ (forall f, In f (done ++ concat gens) -> In f settled').
  Proof.
    induction gens as [|gen gens IH]; intros done settled ps ps' Hinv Hall Hsub Hnd Hord H.
    - cbn in H. injection H as <-. cbn [concat]. rewrite app_nil_r. exists settled. auto.
    - cbn [fold_left rbind] in H. cbn [concat] in *. destruct Hord as [Ho1 Ho2].
      destruct (run_generation body c None ps gen) as [ps1|e tr] eqn:Eg; [|rewrite rfold_err in H; discriminate].
      rewrite app_assoc in Hsub, Hnd |- *.
      destruct (run_generation_inv2 done settled ps gen ps1 Hinv Hall) as [settled1 [K1 K2]].
      + intros f Hf. apply Hsub. apply in_or_app. left. exact Hf.
      + rewrite flat_map_app in Hnd. apply NoDup_app_inv in Hnd as [Hnd _]. exact Hnd.
      + exact Ho1.
      + exact Eg.
      + apply (IH (done ++ gen) settled1 ps1 ps' K1 K2 Hsub Hnd Ho2 H).
  Qed.

  (* the facts of a full run: every function's outputs in the final store are the stored elements of rs plus the
     values computed (from the arguments read off the FINAL store) for the missing ones *)
  Theorem full_run_facts user ps :
    all_shapes user (x_inputs c) (x_p c) = Ok (x_shapes c) ->
    NoDup (flat_map fouts (concat (generations (x_p c)))) ->
    order_ok [] (generations (x_p c)) ->
    map_run_sel body (x_p c) (x_inputs c) user None rs = ROk ps ->
    inv c None rs (concat (generations (x_p c))) ps
    /\ forall f, In f (concat (generations (x_p c))) -> func_fact (p_store ps) f.
  Proof.
    intros Hsh Hnd Hord H. unfold map_run_sel in H. cbn [validate_fixed lift rbind] in H.
    rewrite Hsh in H. cbn [lift rbind] in H.
    assert (Ec : {| x_p := x_p c; x_inputs := x_inputs c; x_shapes := x_shapes c |} = c) by (destruct c; reflexivity).
    rewrite Ec in H.
    destruct (generations_fold_inv2 (generations (x_p c)) [] [] {| p_store := rs; p_out := []; p_tr := [] |} ps) with (6 := H) as [settled [[K1 K2 K3] K4]].
    - constructor.
      + constructor; cbn [p_store p_tr]; [reflexivity | intros o _; split; reflexivity | intros f [] | exact Hsized].
      + intros f [].
      + intros f [].
    - intros f [].
    - intros f Hf. cbn [app] in Hf. apply in_concat in Hf as [gen [Hg Hf]]. eapply generations_In; eauto.
    - exact Hnd.
    - exact Hord.
    - cbn [app] in *. split; [exact K1|]. intros f Hf. apply K3. now apply K4.
  Qed.
End Values.

(* ------------------------------------------------------------------ comparing two runs *)
Lemma lookup_arg_sel_frame2 c r r' f q :
  (forall g sm, producer (x_p c) q = Some g -> is_mapped g = true -> shape_of c g = Ok sm ->
                get_arr r q (prod (ext_of (snd sm) (fst sm))) = get_arr r' q (prod (ext_of (snd sm) (fst sm)))) ->
  (forall g, producer (x_p c) q = Some g -> is_mapped g = false -> dict_get (st_val r) q = dict_get (st_val r') q) ->
  lookup_arg_sel c r f q = lookup_arg_sel c r' f q.
Proof.
  intros Ha Hv. unfold lookup_arg_sel.
  destruct (dict_get (fbound f) q); [reflexivity|]. destruct (dict_get (x_inputs c) q); [reflexivity|].
  destruct (producer (x_p c) q) as [g|] eqn:Ep; [|reflexivity].
  destruct (is_mapped g) eqn:Em.
  - destruct (shape_of c g) as [sm|] eqn:Es; cbn [bind]; [|reflexivity].
    now rewrite (Ha g sm eq_refl Em Es).
  - now rewrite (Hv g eq_refl Em).
Qed.

Lemma func_kwargs_sel_frame2 c r r' f :
  (forall q g sm, In q (fparams f) -> producer (x_p c) q = Some g -> is_mapped g = true -> shape_of c g = Ok sm ->
                  get_arr r q (prod (ext_of (snd sm) (fst sm))) = get_arr r' q (prod (ext_of (snd sm) (fst sm)))) ->
  (forall q g, In q (fparams f) -> producer (x_p c) q = Some g -> is_mapped g = false ->
               dict_get (st_val r) q = dict_get (st_val r') q) ->
  func_kwargs_sel c r f = func_kwargs_sel c r' f.
Proof.
  intros Ha Hv. unfold func_kwargs_sel. apply mapM_ext_in. intros q Hq.
  rewrite (lookup_arg_sel_frame2 c r r' f q); [reflexivity | intros; eapply Ha; eauto | intros; eapply Hv; eauto].
Qed.

Lemma producer_Some p q g : producer p q = Some g -> In g p /\ In q (fouts g).
Proof.
  unfold producer. intros H. apply find_some in H as [H1 H2]. split; [exact H1 | now apply mem_str_In].
Qed.

Section Compare.
  Variable body : mfunc -> env -> result (list val).
  Variable c : ctx.
  Variables rs R F : rstore.
  (* F: the final store of an uninterrupted run (from the empty store); R: the final store of a run from rs *)
  Hypothesis Huniq : forall g f o, In g (x_p c) -> In f (x_p c) -> In o (fouts g) -> In o (fouts f) -> g = f.

  (* the outputs of f are the same in R and in F *)
  Definition same_outputs (f : mfunc) : Prop :=
    (is_mapped f = true -> forall sm, shape_of c f = Ok sm ->
       stores_of R f (prod (ext_of (snd sm) (fst sm))) = stores_of F f (prod (ext_of (snd sm) (fst sm))))
    /\ (is_mapped f = false -> forall o, In o (fouts f) -> dict_get (st_val R) o = dict_get (st_val F) o).

  (* rs holds only values that the uninterrupted run also stored *)
  Definition sub_store : Prop :=
    (forall f sm, In f (x_p c) -> is_mapped f = true -> shape_of c f = Ok sm ->
       let N := prod (ext_of (snd sm) (fst sm)) in
       forall j x, j < length (fouts f) -> x < N ->
         nth x (nth j (stores_of rs f N) []) None = None
         \/ nth x (nth j (stores_of rs f N) []) None = nth x (nth j (stores_of F f N) []) None)
    /\ (forall o r, dict_get (st_val rs) o = Some r -> dict_get (st_val F) o = Some r).

  Hypothesis Hsub : sub_store.
  Hypothesis HsizedR : sized c rs.
  Hypothesis HsizedF : sized c empty_store.

  Lemma get_arr_of_stores r r' f n o : stores_of r f n = stores_of r' f n -> In o (fouts f) -> get_arr r o n = get_arr r' o n.
  Proof.
    intros H Ho. apply In_nth_error in Ho as [j Hj].
    destruct (stores_of_nth r f n j o Hj) as [A _]. destruct (stores_of_nth r' f n j o Hj) as [B _].
    rewrite <- A, <- B, H. reflexivity.
  Qed.

  (* one step of the comparison: if everything f reads is the same in R and F, so are f's outputs *)
  Lemma same_outputs_step f :
    In f (x_p c) -> NoDup (fouts f) ->
    (forall q g, In q (fparams f) -> producer (x_p c) q = Some g -> same_outputs g) ->
    (is_mapped f = true -> exists ms sm, fspec f = Some ms /\ shape_of c f = Ok sm) ->
    func_fact body c empty_store F f -> func_fact body c rs R f ->
    same_outputs f.
  Proof.
    intros Hin Hnd Hdeps Hshape [kwF [HkF FF]] [kwR [HkR FR]].
    assert (Hkw : kwR = kwF).
    { assert (E : func_kwargs_sel c R f = func_kwargs_sel c F f).
      { apply func_kwargs_sel_frame2.
        - intros q g sm Hq Hp Hm Hs. destruct (producer_Some _ _ _ Hp) as [Hg Ho].
          destruct (Hdeps q g Hq Hp) as [A _]. apply (get_arr_of_stores R F g _ q (A Hm sm Hs) Ho).
        - intros q g Hq Hp Hm. destruct (producer_Some _ _ _ Hp) as [Hg Ho].
          destruct (Hdeps q g Hq Hp) as [_ B]. now apply B. }
      rewrite HkF, HkR in E. now injection E. }
    subst kwR. split.
    - intros Hm sm Hs. rewrite Hm in FF, FR. destruct (Hshape Hm) as [ms [sm' [Hms Hsm']]].
      rewrite Hs in Hsm'. injection Hsm' as <-.
      specialize (FF ms sm Hms Hs). specialize (FR ms sm Hms Hs). cbn zeta in FF, FR.
      set (N := prod (ext_of (snd sm) (fst sm))) in *.
      destruct FF as [LF HF]. destruct FR as [LR HR].
      assert (Hk : length (stores_of empty_store f N) = length (fouts f)) by (unfold stores_of; now rewrite map_length).
      assert (Hk' : length (stores_of rs f N) = length (fouts f)) by (unfold stores_of; now rewrite map_length).
      apply (@list_eq_nth estore []); [now rewrite LF, LR, Hk, Hk'|].
      intros j Hj. rewrite LR, Hk' in Hj.
      destruct (HF j) as [AF BF]; [now rewrite Hk|]. destruct (HR j) as [AR BR]; [now rewrite Hk'|].
      destruct (nth_error (fouts f) j) as [o|] eqn:Eo; [|apply nth_error_None in Eo; lia].
      destruct (stores_of_nth empty_store f N j o Eo) as [E0 _]. destruct (stores_of_nth rs f N j o Eo) as [E1 _].
      assert (L0 : length (nth j (stores_of empty_store f N) []) = N).
      { rewrite E0. unfold get_arr. cbn. apply repeat_length. }
      assert (L1 : length (nth j (stores_of rs f N) []) = N).
      { rewrite E1. apply (get_arr_length c rs f sm o HsizedR Hin Hm Hs). eapply nth_error_In; eauto. }
      apply (@list_eq_nth cell None); [now rewrite AR, AF, L0, L1|].
      intros x Hx. rewrite AR, L1 in Hx.
      rewrite BR by (rewrite L1; exact Hx). rewrite BF by (rewrite L0; exact Hx).
      (* in the uninterrupted run every element was missing *)
      assert (HmF : memb x (missing_of empty_store f N) = true).
      { apply memb_In. unfold missing_of. apply filter_In. split; [apply in_seq; lia|].
        unfold miss_any. apply existsb_exists. exists (nth j (stores_of empty_store f N) []).
        split; [apply nth_In; now rewrite Hk|]. cbn beta. rewrite E0. unfold get_arr. cbn. now rewrite nth_repeat. }
      rewrite HmF.
      destruct (memb x (missing_of rs f N)) eqn:HmR; [reflexivity|].
      (* present in rs: then equal to what the uninterrupted run stored, which is the computed value *)
      destruct Hsub as [Hs1 _]. destruct (Hs1 f sm Hin Hm Hs j x Hj Hx) as [Hnone|Heq].
      + exfalso. apply Bool.not_true_iff_false in HmR. apply HmR. apply memb_In. unfold missing_of. apply filter_In.
        split; [apply in_seq; lia|]. unfold miss_any. apply existsb_exists.
        exists (nth j (stores_of rs f N) []). split; [apply nth_In; now rewrite Hk'|]. fold N in Hnone. cbn beta. exact (f_equal cell_missing Hnone).
      + fold N in Heq. rewrite Heq. rewrite BF by (rewrite L0; exact Hx). now rewrite HmF.
    - intros Hm o Ho. rewrite Hm in FF, FR.
      assert (HlF : load_single empty_store f = Ok (if length (fouts f) =? 0 then Some [] else None)).
      { unfold load_single. cbn [st_val empty_store dict_get].
        rewrite (mapM_ok_map _ (fun _ => None)) by (intros; reflexivity). cbn [bind].
        destruct (fouts f); cbn; reflexivity. }
      rewrite HlF in FF. destruct (fouts f) as [|o0 os] eqn:Efo; [destruct Ho|]. cbn [length Nat.eqb] in FF.
      destruct FF as [outsF [HbF [HlenF HvF]]].
      assert (HvR : vals_are R f outsF).
      { destruct (load_single rs f) as [[l|]|] eqn:El; [| |destruct FR].
        - (* loaded from rs: the same values by sub_store *)
          assert (l = outsF); [|subst; exact FR].
          unfold load_single in El. rewrite Efo in El.
          destruct (mapM _ (o0 :: os)) as [lo|] eqn:Em2; cbn [bind] in El; [|discriminate].
          destruct (forallb _ lo) eqn:Ea; [|discriminate]. injection El as <-.
          destruct Hsub as [_ Hs2]. unfold vals_are in HvF. rewrite Efo in HvF.
          clear - Em2 Ea HvF Hs2. revert lo outsF Em2 Ea HvF.
          induction (o0 :: os) as [|o l IH]; intros lo outsF Em2 Ea HvF; cbn in Em2.
          + injection Em2 as <-. inversion HvF. reflexivity.
          + destruct (dict_get (st_val rs) o) as [[v|e]|] eqn:Eg; cbn in Em2; try discriminate.
            * destruct (mapM _ l) as [lo'|] eqn:E3; cbn in Em2; [|discriminate]. injection Em2 as <-.
              inversion HvF as [|? v' ? outs' H1 H2]; subst. cbn in Ea |- *.
              apply Hs2 in Eg. rewrite Eg in H1. injection H1 as <-. f_equal. now apply IH.
            * destruct (mapM _ l) as [lo'|] eqn:E3; cbn in Em2; [|discriminate]. injection Em2 as <-. cbn in Ea. discriminate.
        - destruct FR as [outsR [HbR [_ HvR]]]. rewrite HbF in HbR. injection HbR as <-. exact HvR. }
      unfold vals_are in HvF, HvR. rewrite Efo in HvF, HvR.
      clear - HvF HvR Ho. revert outsF HvF HvR. induction (o0 :: os) as [|o1 l IH]; intros outsF HvF HvR; [destruct Ho|].
      inversion HvF as [|? v ? outs' A1 A2]; subst. inversion HvR as [|? ? ? ? B1 B2]; subst.
      destruct Ho as [->|Ho]; [now rewrite A1, B1 | eapply IH; eauto].
  Qed.
End Compare.

Lemma order_ok_later before gens :
  order_ok before gens -> forall h, In h (concat gens) -> forall f, In f before -> indep h f.
Proof.
  revert before. induction gens as [|gen rest IH]; intros before Hord h Hh f Hf; cbn in Hh; [destruct Hh|].
  destruct Hord as [H1 H2]. apply in_app_or in Hh as [Hh|Hh].
  - apply H1; [exact Hh | apply in_or_app; left; exact Hf].
  - apply (IH (before ++ gen) H2 h Hh). apply in_or_app. left. exact Hf.
Qed.

Section RunOnSubstore.
  Variable body : mfunc -> env -> result (list val).
  Variable c : ctx.
  Variables rs R F : rstore.
  Hypothesis Huniq : forall g f o, In g (x_p c) -> In f (x_p c) -> In o (fouts g) -> In o (fouts f) -> g = f.
  Hypothesis Hsub : sub_store c rs F.
  Hypothesis HsizedR : sized c rs.
  Hypothesis HsizedF : sized c empty_store.
  Hypothesis Hshape : forall f, In f (x_p c) -> is_mapped f = true -> exists ms sm, fspec f = Some ms /\ shape_of c f = Ok sm.

  Lemma same_outputs_gens gens : forall before,
    (forall f, In f before -> same_outputs c R F f) ->
    (forall g, In g (x_p c) -> In g (before ++ concat gens)) ->
    (forall f, In f (before ++ concat gens) -> In f (x_p c) /\ NoDup (fouts f)) ->
    order_ok before gens ->
    (forall f, In f (concat gens) -> func_fact body c empty_store F f /\ func_fact body c rs R f) ->
    forall f, In f (before ++ concat gens) -> same_outputs c R F f.
  Proof.
    induction gens as [|gen rest IH]; intros before Hbef Hall Hwf Hord Hfacts f Hf.
    - cbn in Hf. rewrite app_nil_r in Hf. now apply Hbef.
    - cbn [concat] in *. destruct Hord as [H1 H2]. rewrite app_assoc in Hf, Hall, Hwf.
      apply (IH (before ++ gen)); [| exact Hall | exact Hwf | exact H2
                                   | intros g Hg; apply Hfacts; apply in_or_app; right; exact Hg | exact Hf].
      intros g Hg. apply in_app_or in Hg as [Hg|Hg]; [now apply Hbef|].
      destruct (Hwf g) as [Hgin Hgnd]; [apply in_or_app; left; apply in_or_app; right; exact Hg|].
      destruct (Hfacts g) as [FF FR]; [apply in_or_app; left; exact Hg|].
      apply (same_outputs_step body c rs R F Hsub HsizedR g Hgin Hgnd); [| now apply Hshape | exact FF | exact FR].
      intros q h Hq Hp. destruct (producer_Some _ _ _ Hp) as [Hhin Hqo].
      specialize (Hall h Hhin). apply in_app_or in Hall as [Hh|Hh].
      + apply in_app_or in Hh as [Hh|Hh]; [now apply Hbef|].
        (* h in the same generation: its outputs are not consumed by g *)
        exfalso. apply (H1 h Hh g (in_or_app _ _ _ (or_intror Hg)) q Hqo Hq).
      + exfalso. apply (order_ok_later (before ++ gen) rest H2 h Hh g (in_or_app _ _ _ (or_intror Hg)) q Hqo Hq).
  Qed.
End RunOnSubstore.

(* resume_eq_uninterrupted / pieces_eq_whole, store level, whole pipelines, any user functions:
   if an uninterrupted full run (from the empty store) ends with the store F, then a full run started from any
   sub-store rs of F – provided it completes – ends with exactly the same outputs in the store *)
Theorem run_on_substore_same_store body (c : ctx) user rs psF psR :
  (forall g f o, In g (x_p c) -> In f (x_p c) -> In o (fouts g) -> In o (fouts f) -> g = f) ->
  all_shapes user (x_inputs c) (x_p c) = Ok (x_shapes c) ->
  NoDup (flat_map fouts (concat (generations (x_p c)))) ->
  order_ok [] (generations (x_p c)) ->
  (forall g, In g (x_p c) -> In g (concat (generations (x_p c)))) ->
  (forall f, In f (x_p c) -> is_mapped f = true -> exists ms sm, fspec f = Some ms /\ shape_of c f = Ok sm) ->
  sized c rs ->
  map_run_sel body (x_p c) (x_inputs c) user None empty_store = ROk psF ->
  map_run_sel body (x_p c) (x_inputs c) user None rs = ROk psR ->
  sub_store c rs (p_store psF) ->
  forall f, In f (x_p c) -> same_outputs c (p_store psR) (p_store psF) f.
Proof.
  intros Huniq Hsh Hnd Hord Hall Hshape Hsz HF HR Hsub f Hf.
  assert (Hsz0 : sized c empty_store) by (intros g sm o st _ _ _ _ Hg; cbn in Hg; discriminate).
  destruct (full_run_facts body c empty_store Hsz0 Huniq user psF Hsh Hnd Hord HF) as [_ FF].
  destruct (full_run_facts body c rs Hsz Huniq user psR Hsh Hnd Hord HR) as [_ FR].
  apply (same_outputs_gens body c rs (p_store psR) (p_store psF) Hsub Hsz Hshape (generations (x_p c)) []).
  - intros g [].
  - exact Hall.
  - intros g Hg. cbn [app] in Hg. split.
    + apply in_concat in Hg as [gen [Hgen Hg]]. eapply generations_In; eauto.
    + eapply NoDup_flat_map_In; eauto.
  - exact Hord.
  - intros g Hg. split; [now apply FF | now apply FR].
  - cbn [app]. now apply Hall.
Qed.

(* ------------------------------------------------------------------ the learner step of the model is learner_elem *)
Lemma learner_step_is_elem body c f ms sm i ls ls' :
  fspec f = Some ms -> shape_of c f = Ok sm ->
  learner_step body c f (Some i) ls = ROk ls' ->
  let stores := stores_of (ls_store ls) f (prod (ext_of (snd sm) (fst sm))) in
  (forallb (fun st => has_index st i) stores = true /\ ls' = ls)
  \/ exists kw st,
       func_kwargs_sel c (ls_store ls) f = Ok kw
       /\ learner_elem body f ms kw (fst sm) (snd sm) {| m_stores := stores; m_results := []; m_tr := ls_tr ls |} i = ROk st
       /\ ls_store ls' = put_stores (ls_store ls) f (m_stores st) /\ ls_tr ls' = m_tr st.
Proof.
  intros Hms Hsm H. cbn zeta. unfold learner_step in H. rewrite Hms, Hsm in H. cbn [lift rbind] in H.
  destruct (forallb _ _) eqn:Eh.
  - left. split; [reflexivity|]. now injection H as <-.
  - right. destruct (func_kwargs_sel c (ls_store ls) f) as [kw|]; cbn [lift rbind] in H; [|discriminate].
    destruct (compute_elem _ _ _ _ _ _ _ _) as [st|] eqn:Ec; cbn [rbind] in H; [|discriminate].
    injection H as <-. exists kw, st. split; [reflexivity|]. split; [|split; reflexivity].
    unfold learner_elem. cbn [m_stores]. rewrite Eh. exact Ec.
Qed.
