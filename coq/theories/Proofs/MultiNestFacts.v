(* simplify_preserves (C10): several NestedPipeFuncs at once.
   A pipeline p, the functions `rest` left alone and a list of groups, each replaced by one nested node; p' = rest ++ nested.
   multi_sound / multi_complete generalise NestFacts.nest_sound / nest_complete (one group);  simplify_shape shows that
   Model/Rewrite.simplify builds exactly such a p' (with the output names of _output_name keeping every output that a
   function outside the group takes), which gives simplify_sound / simplify_complete. *)
From Verif Require Import Base.Prelude Base.StrOrd Base.StrUtil Base.Graph Model.Pipe Model.Rewrite
  Proofs.GraphFacts Proofs.RewriteFacts Proofs.NestFacts.

Lemma agetN (d : alist) k : ~ In k (akeys d) -> aget d k = None.
Proof.
  induction d as [|[k' v] d IH]; cbn; intros H; [reflexivity|].
  destruct (str_eqb k k') eqn:E.
  - apply str_eqb_eq in E. subst. exfalso. apply H. left. reflexivity.
  - apply IH. intros Hin. apply H. right. exact Hin.
Qed.

(* the argument list of a function whose parameters are ps under their own names, nothing bound *)
Lemma self_args_entries (rec : str -> result str) P kw (F : pfunc) ps args :
  params F = map (fun n => (n, n)) ps -> args_with rec P kw F = Ok args ->
  (forall c v0, In (c, v0) args -> In c ps /\ arg_val rec P kw F c = Ok v0)
  /\ (forall c, In c ps -> exists v0, In (c, v0) args).
Proof.
  intros HFp Ea. unfold args_with in Ea. rewrite HFp in Ea.
  assert (HF2 : Forall2 (fun (po y : str * str) => fst y = snd po /\ arg_val rec P kw F (fst po) = Ok (snd y))
                        (map (fun n0 : str => (n0, n0)) ps) args).
  { apply (mapM_Forall2 _ _ _ _ Ea). intros [c c'] y _ Ey0. cbn [fst snd] in *.
    destruct (arg_val rec P kw F c) as [v0|]; cbn [bind] in Ey0; [|discriminate]. injection Ey0 as <-. cbn. auto. }
  clear Ea. split.
  - remember (map (fun n0 : str => (n0, n0)) ps) as l eqn:El. clear HFp. revert ps El.
    induction HF2; intros ps0 El c v0 Hin; [destruct Hin|].
    destruct ps0 as [|q ps1]; [discriminate|]. cbn in El. injection El as -> ->.
    destruct Hin as [Hy|Hin].
    + destruct H as [H1 H2]. subst y. cbn [fst snd] in H1, H2. subst q. split; [left; reflexivity|exact H2].
    + destruct (IHHF2 ps1 eq_refl c v0 Hin) as [A1 A2]. split; [right; exact A1|exact A2].
  - remember (map (fun n0 : str => (n0, n0)) ps) as l eqn:El. clear HFp. revert ps El.
    induction HF2; intros ps0 El c Hin.
    + destruct ps0; [destruct Hin|discriminate].
    + destruct ps0 as [|q ps1]; [discriminate|]. cbn in El. injection El as -> ->.
      destruct Hin as [<-|Hin].
      * destruct H as [H1 _]. destruct y as [a b]. cbn in H1. subst. exists b. left. reflexivity.
      * destruct (IHHF2 ps1 eq_refl c Hin) as [v0 Hv]. exists v0. right. exact Hv.
Qed.

(* ------------------------------------------------------------------ one group inside p *)
Section Group.
  Variable body : str -> alist -> result str.
  Variable pick : str -> str -> str.
  Variables (p fs : npipe) (ps : list str) (kw : alist).
  Hypothesis Huniq : forall n1 n2 o, In n1 p -> In n2 p -> In o (outs (nf n1)) -> In o (outs (nf n2)) -> n1 = n2.
  Hypothesis Hfs : incl fs p.
  Hypothesis Hps1 : forall g c, In g fs -> In c (pnames (nf g)) -> ahas (bound (nf g)) c = false ->
                                In c ps \/ In c (all_outputs (funcs fs)).
  Hypothesis Hps2 : forall c, In c ps -> ~ In c (all_outputs (funcs fs)).
  Hypothesis Hkw : forall k, In k (akeys kw) -> ~ In k (all_outputs (funcs fs)).
  Let args_ok := NestFacts.args_ok body pick p ps kw.

  Lemma g_inner_sound : forall n args m v, args_ok args -> neval body pick n fs args m = Ok v ->
    exists k, neval body pick k p kw m = Ok v.
  Proof.
    induction n as [|n IH]; intros args m v Hargs E; [discriminate|].
    cbn [neval] in E. destruct (nproducer fs m) as [g|] eqn:Eg; [|discriminate].
    apply nproducer_In in Eg as [Hg Hm].
    assert (Egp : nproducer p m = Some g) by (apply (nproducer_p p Huniq); [apply Hfs; exact Hg|exact Hm]).
    destruct (args_with (neval body pick n fs args) (funcs fs) args (nf g)) as [gargs|] eqn:Ea; cbn [bind] in E; [|discriminate].
    assert (HN : exists N, forall M, N <= M -> args_with (neval body pick M p kw) (funcs p) kw (nf g) = Ok gargs).
    { unfold args_with in *.
      apply (mapM_exists_fuel _ (fun M (po : str * str) =>
               do v0 <- arg_val (neval body pick M p kw) (funcs p) kw (nf g) (fst po); Ok (snd po, v0)) _ _ Ea).
      intros [cur orig] y Hco Ey. cbn [fst snd] in *.
      assert (Hc : In cur (pnames (nf g))).
      { unfold pnames. change cur with (fst (cur, orig)). apply in_map. exact Hco. }
      unfold arg_val in Ey. unfold arg_val.
      destruct (aget (bound (nf g)) cur) as [b|] eqn:Eb.
      { exists 0. intros M _. exact Ey. }
      destruct (aget args cur) as [v1|] eqn:Eac.
      { destruct Hargs as [Ha1 _]. destruct (Ha1 cur v1 Eac) as [_ Hr].
        destruct (resolves_arg_val body pick p kw (nf g) cur v1 Eb Hr) as [N HNn]. exists N. intros M HM.
        specialize (HNn M HM). unfold arg_val in HNn. rewrite Eb in HNn. rewrite HNn. exact Ey. }
      destruct (is_output (funcs fs) cur) eqn:Eo.
      - destruct (neval body pick n fs args cur) as [v0|] eqn:Er; cbn [bind] in Ey; [|discriminate].
        destruct (IH args cur v0 Hargs Er) as [k Hk].
        assert (Hout : In cur (all_outputs (funcs fs))).
        { rewrite is_output_funcs in Eo. destruct (nproducer fs cur) as [z|] eqn:Ez; [|discriminate].
          apply nproducer_In in Ez as [Z1 Z2]. apply in_all_outputs. eauto. }
        assert (Hk0 : aget kw cur = None).
        { apply agetN. intros Hin. apply (Hkw cur Hin). exact Hout. }
        assert (Hop : is_output (funcs p) cur = true).
        { apply in_all_outputs in Hout as (z & Z1 & Z2). rewrite is_output_funcs, ((nproducer_p p Huniq) z cur (Hfs z Z1) Z2). reflexivity. }
        exists k. intros M HM. rewrite Hk0, Hop, (neval_mono body pick k p kw cur v0 Hk M HM). exact Ey.
      - exfalso. assert (Hub : ahas (bound (nf g)) cur = false) by (unfold ahas; rewrite Eb; reflexivity).
        destruct (Hps1 g cur Hg Hc Hub) as [Hp|Hp].
        + destruct Hargs as [_ Ha2]. destruct (Ha2 cur Hp) as [v2 E2]. congruence.
        + apply in_all_outputs in Hp as (z & Z1 & Z2). rewrite is_output_funcs in Eo.
          destruct (nproducer_exists fs cur z Z1 Z2) as [z' Ez']. rewrite Ez' in Eo. discriminate. }
    destruct HN as [N HNn]. exists (S (Nat.max N n)). cbn [neval]. rewrite Egp.
    rewrite (HNn (Nat.max N n)) by lia. cbn [bind].
    apply (call_transfer body pick g gargs m v n (Nat.max N n)); [lia|exact E].
  Qed.


  Lemma g_inner_complete Fargs : args_ok Fargs -> forall n m v, In m (all_outputs (funcs fs)) -> neval body pick n p kw m = Ok v ->
    exists k, neval body pick k fs Fargs m = Ok v.
  Proof.
    intros [Hok1 Hok2].
    induction n as [|n IH]; intros m v Hm E; [discriminate|].
    apply in_all_outputs in Hm as (g & Hg & Hmo).
    cbn [neval] in E. rewrite ((nproducer_p p Huniq) g m (Hfs g Hg) Hmo) in E.
    destruct (args_with (neval body pick n p kw) (funcs p) kw (nf g)) as [gargs|] eqn:Ea; cbn [bind] in E; [|discriminate].
    assert (HN : exists N, forall M, N <= M -> args_with (neval body pick M fs Fargs) (funcs fs) Fargs (nf g) = Ok gargs).
    { unfold args_with in *.
      apply (mapM_exists_fuel _ (fun M (po : str * str) =>
               do v0 <- arg_val (neval body pick M fs Fargs) (funcs fs) Fargs (nf g) (fst po); Ok (snd po, v0)) _ _ Ea).
      intros [cur orig] y Hco Ey. cbn [fst snd] in *.
      assert (Hc : In cur (pnames (nf g))).
      { unfold pnames. change cur with (fst (cur, orig)). apply in_map. exact Hco. }
      unfold arg_val in Ey. unfold arg_val.
      destruct (aget (bound (nf g)) cur) as [b|] eqn:Eb; [exists 0; intros M _; exact Ey|].
      assert (Hub : ahas (bound (nf g)) cur = false) by (unfold ahas; rewrite Eb; reflexivity).
      destruct (Hps1 g cur Hg Hc Hub) as [Hp|Hp].
      - (* a parameter of the nested function: the value it was resolved to is the value p uses *)
        destruct (Hok2 cur Hp) as [vc Evc]. destruct (Hok1 cur vc Evc) as [_ Hres].
        exists 0. intros M _. rewrite Evc.
        assert (Hy : y = (orig, vc)).
        { destruct Hres as [H|[(H1 & H2 & n' & H3)|(H1 & H2 & H3)]].
          - rewrite H in Ey. injection Ey as <-. reflexivity.
          - rewrite H1, H2 in Ey. destruct (neval body pick n p kw cur) as [w|] eqn:Ew; cbn [bind] in Ey; [|discriminate].
            injection Ey as <-. rewrite (neval_det body pick p kw n n' cur w vc Ew H3). reflexivity.
          - rewrite H1, H2, H3 in Ey. injection Ey as <-. reflexivity. }
        subst y. reflexivity.
      - (* produced inside the group *)
        assert (Hk0 : aget kw cur = None).
        { apply agetN. intros Hin. apply (Hkw cur Hin). exact Hp. }
        assert (Hop : is_output (funcs p) cur = true).
        { apply in_all_outputs in Hp as (z & Z1 & Z2). rewrite is_output_funcs, ((nproducer_p p Huniq) z cur (Hfs z Z1) Z2). reflexivity. }
        rewrite Hk0, Hop in Ey.
        destruct (neval body pick n p kw cur) as [w|] eqn:Ew; cbn [bind] in Ey; [|discriminate].
        destruct (IH cur w Hp Ew) as [k Hk].
        assert (Ha0 : aget Fargs cur = None).
        { destruct (aget Fargs cur) as [x|] eqn:Ex; [|reflexivity]. exfalso.
          destruct (Hok1 cur x Ex) as [Hin _]. apply (Hps2 cur Hin). exact Hp. }
        assert (Hof : is_output (funcs fs) cur = true).
        { apply in_all_outputs in Hp as (z & Z1 & Z2). rewrite is_output_funcs, (nprod_fs p fs Huniq Hfs z cur Z1 Z2). reflexivity. }
        exists k. intros M HM. rewrite Ha0, Hof, (neval_mono body pick k fs Fargs cur w Hk M HM). exact Ey. }
    destruct HN as [N HNn]. exists (S (Nat.max N n)). cbn [neval]. rewrite (nprod_fs p fs Huniq Hfs g m Hg Hmo).
    rewrite (HNn (Nat.max N n)) by lia. cbn [bind].
    apply (call_transfer body pick g gargs m v n (Nat.max N n)); [lia|exact E].
  Qed.

End Group.

(* ------------------------------------------------------------------ several groups *)
Record grp := { g_F : pfunc; g_oo : list str; g_ps : list str; g_fs : npipe }.
Definition gnode (g : grp) : node := Node (g_F g) (g_oo g) (Some (g_fs g)).

Section Multi.
  Variable body : str -> alist -> result str.
  Variable pick : str -> str -> str.
  Variables (p rest : npipe) (groups : list grp) (kw : alist).
  Let p' := rest ++ map gnode groups.

  Hypothesis Huniq : forall n1 n2 o, In n1 p -> In n2 p -> In o (outs (nf n1)) -> In o (outs (nf n2)) -> n1 = n2.
  Hypothesis Hrest : incl rest p.
  Hypothesis Hfs : forall g, In g groups -> incl (g_fs g) p.
  Hypothesis Hcover : forall n, In n p -> In n rest \/ exists g, In g groups /\ In n (g_fs g).
  Hypothesis HF_outs : forall g, In g groups -> outs (g_F g) = g_oo g.
  Hypothesis HF_params : forall g, In g groups -> params (g_F g) = map (fun n => (n, n)) (g_ps g).
  Hypothesis HF_bound : forall g, In g groups -> bound (g_F g) = [].
  Hypothesis Hoo : forall g o, In g groups -> In o (g_oo g) -> In o (all_outputs (funcs (g_fs g))).
  Hypothesis Hps1 : forall g x c, In g groups -> In x (g_fs g) -> In c (pnames (nf x)) -> ahas (bound (nf x)) c = false ->
                                  In c (g_ps g) \/ In c (all_outputs (funcs (g_fs g))).
  Hypothesis Hps2 : forall g c, In g groups -> In c (g_ps g) -> ~ In c (all_outputs (funcs (g_fs g))).
  Hypothesis Hkw : forall g k, In g groups -> In k (akeys kw) -> ~ In k (all_outputs (funcs (g_fs g))).
  (* an output of a group that a function left alone, or another nested function, takes stays an output *)
  Hypothesis Hhid_rest : forall g a c, In g groups -> In a rest -> In c (pnames (nf a)) -> ahas (bound (nf a)) c = false ->
                                       In c (all_outputs (funcs (g_fs g))) -> In c (g_oo g).
  Hypothesis Hhid_grp : forall g h c, In g groups -> In h groups -> In c (g_ps h) ->
                                      In c (all_outputs (funcs (g_fs g))) -> In c (g_oo g).
  Hypothesis Hdef : forall c, is_output (funcs p) c = false -> default_of (funcs p') c = default_of (funcs p) c.

  Let np := nproducer_p p Huniq.

  Lemma in_p' x : In x p' <-> In x rest \/ exists g, In g groups /\ x = gnode g.
  Proof.
    unfold p'. rewrite in_app_iff, in_map_iff. split; intros [H|H]; auto.
    - right. destruct H as (g & <- & Hg). eauto.
    - right. destruct H as (g & Hg & ->). eauto.
  Qed.

  Lemma m_is_output_p'_p c : is_output (funcs p') c = true -> is_output (funcs p) c = true.
  Proof.
    rewrite !is_output_funcs. destruct (nproducer p' c) as [x|] eqn:E; [|discriminate]. intros _.
    apply nproducer_In in E as [E1 E2]. apply in_p' in E1 as [E1|(g & Hg & ->)].
    - rewrite (np x c (Hrest x E1) E2). reflexivity.
    - cbn [nf gnode] in E2. rewrite (HF_outs g Hg) in E2. apply (Hoo g c Hg) in E2.
      apply in_all_outputs in E2 as (z & Hz & Ho). rewrite (np z c (Hfs g Hg z Hz) Ho). reflexivity.
  Qed.

  (* a name that is not an output of p', and is taken by a rest function or is a parameter of a nested function, is
     not an output of p *)
  Lemma not_output_back c :
    is_output (funcs p') c = false ->
    ((exists a, In a rest /\ In c (pnames (nf a)) /\ ahas (bound (nf a)) c = false)
     \/ (exists h, In h groups /\ In c (g_ps h))) ->
    is_output (funcs p) c = false.
  Proof.
    intros Eo Huse. destruct (is_output (funcs p) c) eqn:Eop; [|reflexivity]. exfalso.
    rewrite is_output_funcs in Eop. destruct (nproducer p c) as [z0|] eqn:Ez0; [|discriminate].
    apply nproducer_In in Ez0 as [Z1 Z2]. rewrite is_output_funcs in Eo.
    destruct (Hcover z0 Z1) as [Hr|(g & Hg & Hf)].
    - destruct (nproducer_exists p' c z0) as [w Ew]; [apply in_p'; left; exact Hr|exact Z2|]. rewrite Ew in Eo. discriminate.
    - assert (Hin : In c (all_outputs (funcs (g_fs g)))) by (apply in_all_outputs; eauto).
      assert (Hoo' : In c (g_oo g)).
      { destruct Huse as [(a & Ha & Hc & Hb)|(h & Hh & Hc)]; [exact (Hhid_rest g a c Hg Ha Hc Hb Hin)|exact (Hhid_grp g h c Hg Hh Hc Hin)]. }
      destruct (nproducer_exists p' c (gnode g)) as [w Ew];
        [apply in_p'; right; eauto|cbn [nf gnode]; rewrite (HF_outs g Hg); exact Hoo'|].
      rewrite Ew in Eo. discriminate.
  Qed.

  Lemma m_orig_out g o : In g groups -> In o (g_oo g) -> orig_out (gnode g) o = o.
  Proof.
    intros Hg Ho. unfold orig_out, gnode. cbn [nf noorig]. rewrite (HF_outs g Hg).
    assert (Hm : mem_str o (g_oo g) = true) by (apply mem_str_In; exact Ho).
    destruct (pos_str_nth o (g_oo g) Hm) as (i & E1 & E2). rewrite E1. exact E2.
  Qed.

  (* the arguments of a nested function, resolved in p', are resolved alike in p *)
  Lemma m_args_ok g n args : In g groups ->
    (forall o v, neval body pick n p' kw o = Ok v -> exists m, neval body pick m p kw o = Ok v) ->
    args_with (neval body pick n p' kw) (funcs p') kw (g_F g) = Ok args ->
    NestFacts.args_ok body pick p (g_ps g) kw args.
  Proof.
    intros Hg Hsound Ea.
    destruct (self_args_entries _ _ _ _ _ _ (HF_params g Hg) Ea) as [Hentry Hcov].
    split.
    - intros c v0 Hget. apply aget_In' in Hget. destruct (Hentry c v0 Hget) as [Hc Hval]. split; [exact Hc|].
      unfold arg_val in Hval. rewrite (HF_bound g Hg) in Hval. cbn [aget] in Hval.
      destruct (aget kw c) as [v1|] eqn:Ek.
      { injection Hval as <-. left. exact Ek. }
      destruct (is_output (funcs p') c) eqn:Eo.
      + destruct (Hsound c v0 Hval) as [k Hk]. right. left. split; [exact Ek|]. split; [apply m_is_output_p'_p; exact Eo|]. eauto.
      + right. right. split; [exact Ek|].
        assert (Hop : is_output (funcs p) c = false) by (apply not_output_back; [exact Eo|right; eauto]).
        split; [exact Hop|]. rewrite <- (Hdef c Hop).
        destruct (default_of (funcs p') c); [injection Hval as <-; reflexivity|discriminate].
    - intros c Hc. destruct (Hcov c Hc) as [v0 Hv]. apply (In_aget' args c v0 Hv).
  Qed.

  (* multi_sound: whatever p' computes, p computes *)
  Theorem multi_sound : forall n o v, neval body pick n p' kw o = Ok v -> exists m, neval body pick m p kw o = Ok v.
  Proof.
    induction n as [|n IH]; intros o v E; [discriminate|].
    cbn [neval] in E. destruct (nproducer p' o) as [x|] eqn:Ex; [|discriminate].
    destruct (args_with (neval body pick n p' kw) (funcs p') kw (nf x)) as [args|] eqn:Ea; cbn [bind] in E; [|discriminate].
    apply nproducer_In in Ex as [Hx Ho]. apply in_p' in Hx as [Hy|(g & Hg & ->)].
    - (* a function left alone *)
      assert (Eyp : nproducer p o = Some x) by (apply np; [apply Hrest; exact Hy|exact Ho]).
      assert (HN : exists N, forall M, N <= M -> args_with (neval body pick M p kw) (funcs p) kw (nf x) = Ok args).
      { unfold args_with in *.
        apply (mapM_exists_fuel _ (fun M (po : str * str) =>
                 do v0 <- arg_val (neval body pick M p kw) (funcs p) kw (nf x) (fst po); Ok (snd po, v0)) _ _ Ea).
        intros [cur orig] z Hco Ez. cbn [fst snd] in *.
        assert (Hc : In cur (pnames (nf x))).
        { unfold pnames. change cur with (fst (cur, orig)). apply in_map. exact Hco. }
        unfold arg_val in Ez. unfold arg_val.
        destruct (aget (bound (nf x)) cur) as [b|] eqn:Eb; [exists 0; intros M _; exact Ez|].
        destruct (aget kw cur) as [v1|] eqn:Ek; [exists 0; intros M _; exact Ez|].
        destruct (is_output (funcs p') cur) eqn:Eo.
        - destruct (neval body pick n p' kw cur) as [v0|] eqn:Er; cbn [bind] in Ez; [|discriminate].
          destruct (IH cur v0 Er) as [k Hk]. exists k. intros M HM.
          rewrite (m_is_output_p'_p cur Eo), (neval_mono body pick k p kw cur v0 Hk M HM). exact Ez.
        - assert (Hop : is_output (funcs p) cur = false).
          { apply not_output_back; [exact Eo|]. left. exists x. split; [exact Hy|]. split; [exact Hc|].
            unfold ahas. rewrite Eb. reflexivity. }
          exists 0. intros M _. rewrite Hop, <- (Hdef cur Hop). exact Ez. }
      destruct HN as [N HNn]. exists (S (Nat.max N n)). cbn [neval]. rewrite Eyp.
      rewrite (HNn (Nat.max N n)) by lia. cbn [bind].
      apply (call_transfer body pick x args o v n (Nat.max N n)); [lia|exact E].
    - (* a nested function *)
      cbn [ninner gnode] in E. cbn [nf gnode] in Ho, Ea. rewrite (HF_outs g Hg) in Ho.
      rewrite (m_orig_out g o Hg Ho) in E.
      apply (g_inner_sound body pick p (g_fs g) (g_ps g) kw Huniq (Hfs g Hg) (fun x c => Hps1 g x c Hg) (fun k => Hkw g k Hg) n args o v); [|exact E].
      apply (m_args_ok g n args Hg IH Ea).
  Qed.

  (* ---------- the converse ---------- *)
  (* outputs of p' are unique (Pipeline construction checks it) *)
  Hypothesis Huniq' : forall n1 n2 o, In n1 p' -> In n2 p' -> In o (outs (nf n1)) -> In o (outs (nf n2)) -> n1 = n2.
  (* the arguments of every nested function have values in p' *)
  Hypothesis HFargs : forall g, In g groups ->
    exists M args, args_with (neval body pick M p' kw) (funcs p') kw (g_F g) = Ok args.
  Let np' := nproducer_p p' Huniq'.

  Theorem multi_complete : forall n o v, neval body pick n p kw o = Ok v -> In o (all_outputs (funcs p')) ->
    exists m, neval body pick m p' kw o = Ok v.
  Proof.
    induction n as [|n IH]; intros o v E Ho; [discriminate|].
    apply in_all_outputs in Ho as (x & Hx & Hox). pose proof (np' x o Hx Hox) as Ep'.
    apply in_p' in Hx as [Hx|(g & Hg & ->)].
    - cbn [neval] in E. rewrite (np x o (Hrest x Hx) Hox) in E.
      destruct (args_with (neval body pick n p kw) (funcs p) kw (nf x)) as [args|] eqn:Ea; cbn [bind] in E; [|discriminate].
      assert (HN : exists N, forall M, N <= M -> args_with (neval body pick M p' kw) (funcs p') kw (nf x) = Ok args).
      { unfold args_with in *.
        apply (mapM_exists_fuel _ (fun M (po : str * str) =>
                 do v0 <- arg_val (neval body pick M p' kw) (funcs p') kw (nf x) (fst po); Ok (snd po, v0)) _ _ Ea).
        intros [cur orig] y Hco Ey. cbn [fst snd] in *.
        assert (Hc : In cur (pnames (nf x))).
        { unfold pnames. change cur with (fst (cur, orig)). apply in_map. exact Hco. }
        unfold arg_val in Ey. unfold arg_val.
        destruct (aget (bound (nf x)) cur) as [b|] eqn:Eb; [exists 0; intros M _; exact Ey|].
        destruct (aget kw cur) as [v1|] eqn:Ek; [exists 0; intros M _; exact Ey|].
        assert (Hub : ahas (bound (nf x)) cur = false) by (unfold ahas; rewrite Eb; reflexivity).
        destruct (is_output (funcs p) cur) eqn:Eo.
        - destruct (neval body pick n p kw cur) as [w|] eqn:Ew; cbn [bind] in Ey; [|discriminate].
          assert (Hret : In cur (all_outputs (funcs p'))).
          { rewrite is_output_funcs in Eo. destruct (nproducer p cur) as [z|] eqn:Ez; [|discriminate].
            apply nproducer_In in Ez as [Z1 Z2]. apply in_all_outputs. destruct (Hcover z Z1) as [Hr|(g & Hg & Hf)].
            + exists z. split; [apply in_p'; left; exact Hr|exact Z2].
            + exists (gnode g). split; [apply in_p'; right; eauto|].
              cbn [nf gnode]. rewrite (HF_outs g Hg). apply (Hhid_rest g x cur Hg Hx Hc Hub). apply in_all_outputs. eauto. }
          destruct (IH cur w Ew Hret) as [k Hk]. exists k. intros M HM.
          assert (Eo' : is_output (funcs p') cur = true).
          { apply in_all_outputs in Hret as (z & Z1 & Z2). rewrite is_output_funcs, (np' z cur Z1 Z2). reflexivity. }
          rewrite Eo', (neval_mono body pick k p' kw cur w Hk M HM). exact Ey.
        - exists 0. intros M _.
          assert (Eo' : is_output (funcs p') cur = false).
          { destruct (is_output (funcs p') cur) eqn:E1; [|reflexivity]. apply m_is_output_p'_p in E1. congruence. }
          rewrite Eo', (Hdef cur Eo). exact Ey. }
      destruct HN as [N HNn]. exists (S (Nat.max N n)). cbn [neval]. rewrite Ep'.
      rewrite (HNn (Nat.max N n)) by lia. cbn [bind].
      apply (call_transfer body pick x args o v n (Nat.max N n)); [lia|exact E].
    - cbn [nf gnode] in Hox. rewrite (HF_outs g Hg) in Hox.
      destruct (HFargs g Hg) as (Mf & Fargs & HFa).
      assert (Hok : NestFacts.args_ok body pick p (g_ps g) kw Fargs).
      { apply (m_args_ok g Mf Fargs Hg); [apply multi_sound|exact HFa]. }
      destruct (g_inner_complete body pick p (g_fs g) (g_ps g) kw Huniq (Hfs g Hg) (fun x c => Hps1 g x c Hg) (fun c => Hps2 g c Hg) (fun k => Hkw g k Hg)
                                 Fargs Hok (S n) o v (Hoo g o Hg Hox) E) as [k Hk].
      exists (S (Nat.max Mf k)). cbn [neval]. rewrite Ep'. cbn [nf gnode].
      rewrite (args_with_mono _ (neval body pick (Nat.max Mf k) p' kw) _ _ _ _ HFa).
      2:{ intros c v0 Hc. apply (neval_mono body pick Mf p' kw c v0 Hc). lia. }
      cbn [bind ninner gnode]. rewrite (m_orig_out g o Hg Hox). apply (neval_mono body pick k (g_fs g) Fargs o v Hk). lia.
  Qed.
End Multi.

(* ------------------------------------------------------------------ root arguments keep their defaults *)
Section MultiDefaults.
  Variables (p rest : npipe) (groups : list grp).
  Let p' := rest ++ map gnode groups.
  Hypothesis Huniq : forall n1 n2 o, In n1 p -> In n2 p -> In o (outs (nf n1)) -> In o (outs (nf n2)) -> n1 = n2.
  Hypothesis Hrest : incl rest p.
  Hypothesis Hfs : forall g, In g groups -> incl (g_fs g) p.
  Hypothesis Hcover : forall n, In n p -> In n rest \/ exists g, In g groups /\ In n (g_fs g).
  Hypothesis HF_outs : forall g, In g groups -> outs (g_F g) = g_oo g.
  Hypothesis HF_bound : forall g, In g groups -> bound (g_F g) = [].
  Hypothesis Hoo : forall g o, In g groups -> In o (g_oo g) -> In o (all_outputs (funcs (g_fs g))).
  Hypothesis Hps1 : forall g x c, In g groups -> In x (g_fs g) -> In c (pnames (nf x)) -> ahas (bound (nf x)) c = false ->
                                  In c (g_ps g) \/ In c (all_outputs (funcs (g_fs g))).
  Hypothesis HF_dflt : forall g, In g groups ->
    dflt (g_F g) = flat_map (fun n => match aget (rev (pdefaults (funcs (g_fs g)))) n with
                                      | Some v => [(n, v)] | None => [] end) (g_ps g).
  Hypothesis Hcons : consistent_defaults (funcs p) = true.
  Hypothesis Hdk : forall n k, In n p -> In k (akeys (dflt (nf n))) -> In k (pnames (nf n)).

  Lemma md_in_p' x : In x p' <-> In x rest \/ exists g, In g groups /\ x = gnode g.
  Proof.
    unfold p'. rewrite in_app_iff, in_map_iff. split; intros [H|H]; auto.
    - right. destruct H as (g & <- & Hg). eauto.
    - right. destruct H as (g & Hg & ->). eauto.
  Qed.

  Lemma md_not_output_p' c : is_output (funcs p) c = false -> is_output (funcs p') c = false.
  Proof.
    intros H. destruct (is_output (funcs p') c) eqn:E; [|reflexivity]. exfalso.
    rewrite is_output_funcs in E. destruct (nproducer p' c) as [x|] eqn:Ex; [|discriminate].
    apply nproducer_In in Ex as [E1 E2]. rewrite is_output_funcs in H. apply md_in_p' in E1 as [E1|(g & Hg & ->)].
    - destruct (nproducer_exists p c x (Hrest x E1) E2) as [y Ey]. rewrite Ey in H. discriminate.
    - cbn [nf gnode] in E2. rewrite (HF_outs g Hg) in E2. apply (Hoo g c Hg) in E2. apply in_all_outputs in E2 as (z & Hz & Ho).
      destruct (nproducer_exists p c z (Hfs g Hg z Hz) Ho) as [y Ey]. rewrite Ey in H. discriminate.
  Qed.
  Lemma md_not_output_fs g c : In g groups -> is_output (funcs p) c = false -> is_output (funcs (g_fs g)) c = false.
  Proof.
    intros Hg H. destruct (is_output (funcs (g_fs g)) c) eqn:E; [|reflexivity]. exfalso.
    rewrite is_output_funcs in E. destruct (nproducer (g_fs g) c) as [x|] eqn:Ex; [|discriminate].
    apply nproducer_In in Ex as [E1 E2]. rewrite is_output_funcs in H.
    destruct (nproducer_exists p c x (Hfs g Hg x E1) E2) as [y Ey]. rewrite Ey in H. discriminate.
  Qed.

  Lemma md_p'_p c v : is_output (funcs p) c = false -> In (c, v) (pdefaults (funcs p')) -> In (c, v) (pdefaults (funcs p)).
  Proof.
    intros Ho H. apply in_pdefaults in H as (f & Hf & Hd & Hb & _).
    apply in_map_iff in Hf as (x & <- & Hx). apply md_in_p' in Hx as [Hx|(g & Hg & ->)].
    - apply in_pdefaults. exists (nf x). split; [apply in_map; apply Hrest; exact Hx|auto].
    - cbn [nf gnode] in Hd. rewrite (HF_dflt g Hg) in Hd. apply in_flat_map in Hd as (n & Hn & Hd).
      destruct (aget (rev (pdefaults (funcs (g_fs g)))) n) as [w|] eqn:Ew; [|destruct Hd].
      destruct Hd as [Hd|[]]. injection Hd as -> ->. apply in_rev_aget in Ew.
      apply in_pdefaults in Ew as (h & Hh & Gd & Gb & _). apply in_pdefaults. exists h. split; [|auto].
      apply in_map_iff in Hh as (x & <- & Hx). apply in_map. apply (Hfs g Hg). exact Hx.
  Qed.

  Lemma md_p_p' c v : is_output (funcs p) c = false -> In (c, v) (pdefaults (funcs p)) ->
    exists v', In (c, v') (pdefaults (funcs p')).
  Proof.
    intros Ho H. apply in_pdefaults in H as (f & Hf & Hd & Hb & _).
    apply in_map_iff in Hf as (x & <- & Hx). destruct (Hcover x Hx) as [Hr|(g & Hg & Hxg)].
    - exists v. apply in_pdefaults. exists (nf x). split; [|split; [exact Hd|split; [exact Hb|apply md_not_output_p'; exact Ho]]].
      apply in_map. apply md_in_p'. left. exact Hr.
    - assert (Hc : In c (pnames (nf x))) by (apply (Hdk x c Hx); eapply In_akeys_local; eauto).
      assert (Hps : In c (g_ps g)).
      { destruct (Hps1 g x c Hg Hxg Hc Hb) as [A|A]; [exact A|]. exfalso.
        apply in_all_outputs in A as (z & G1 & G2). rewrite is_output_funcs in Ho.
        destruct (nproducer_exists p c z (Hfs g Hg z G1) G2) as [y Ey]. rewrite Ey in Ho. discriminate. }
      assert (Hin : In (c, v) (pdefaults (funcs (g_fs g)))).
      { apply in_pdefaults. exists (nf x). split; [apply in_map; exact Hxg|]. split; [exact Hd|]. split; [exact Hb|].
        apply md_not_output_fs; assumption. }
      destruct (In_aget' (rev (pdefaults (funcs (g_fs g)))) c v) as [w Hw]; [apply in_rev; rewrite rev_involutive; exact Hin|].
      exists w. apply in_pdefaults. exists (g_F g).
      split; [|split; [|split; [rewrite (HF_bound g Hg); reflexivity|apply md_not_output_p'; exact Ho]]].
      + change (g_F g) with (nf (gnode g)). apply in_map. apply md_in_p'. right. eauto.
      + rewrite (HF_dflt g Hg). apply in_flat_map. exists c. split; [exact Hps|]. rewrite Hw. left. reflexivity.
  Qed.

  Lemma multi_defaults c : is_output (funcs p) c = false -> default_of (funcs p') c = default_of (funcs p) c.
  Proof.
    intros Ho. unfold default_of. destruct (aget (pdefaults (funcs p)) c) as [v|] eqn:E.
    - apply aget_In' in E. apply aget_all_vals.
      + intros v' H. apply (md_p'_p c v' Ho) in H. eapply consistent_all_vals; eauto.
      + eapply md_p_p'; eauto.
    - apply aget_no_entry. intros v' H. apply (md_p'_p c v' Ho) in H.
      destruct (In_aget' _ _ _ H) as [w Hw]. congruence.
  Qed.
End MultiDefaults.
