(* Facts about Model/Mutate.v: an ill-formed state produced by ONE post-construction mutation is rejected either by
   the mutating call or by the graph checks at the start of the next run / map. *)
From Verif Require Import Base.Prelude Base.StrOrd Base.StrUtil Base.Graph Model.MapSpec Model.MapSpecSpec
  Model.PrepareSteps Model.Validate Model.ValidateSpec Model.Mutate.
From Verif Require Import Proofs.GraphFacts Proofs.PrepareFacts Proofs.ValidateFacts.

Lemma apply_mutation_desc fs mu fs' : apply_mutation fs mu = Ok fs' -> fs' = mutate_desc fs mu /\ mutation_checks fs mu = Ok tt.
Proof.
  unfold apply_mutation. destruct (mutation_checks fs mu) as [[]|e]; cbn [bind]; [|discriminate].
  intros H. injection H as <-. auto.
Qed.

(* run: the state left by an accepted mutation and accepted by the next call has unique outputs, consistent
   defaults and no cycle *)
Theorem mutate_then_run_sound fs mu fs' :
  apply_mutation fs mu = Ok fs' -> use_run fs' = Ok tt ->
  fs' = mutate_desc fs mu /\ ~ F_dup_output fs' /\ ~ F_defaults fs' /\ ~ F_cycle fs'.
Proof.
  intros Ha Hu. split; [exact (proj1 (apply_mutation_desc _ _ _ Ha))|]. now apply graph_checks_sound.
Qed.

(* per fault class: rejected at the mutation or at the start of the next run *)
Theorem mutate_then_run_complete_per_fault fs mu :
  let fs' := mutate_desc fs mu in
  (F_dup_output fs' \/ F_defaults fs' \/ F_cycle fs') ->
  (exists e, apply_mutation fs mu = Err e) \/ (exists e, use_run fs' = Err e).
Proof.
  intros fs' HF. destruct (apply_mutation fs mu) as [fs2|e] eqn:Ea; [|left; eauto]. right.
  destruct (result_unit_cases (use_run fs')) as [Hok|Herr]; [|exact Herr].
  destruct (graph_checks_sound fs' Hok) as [N1 [N2 N3]]. tauto.
Qed.

(* map: the same three classes are (re)checked before anything else of prepare_run that reads the pipeline, and
   a rejection at that point has touched nothing (rejected_runs_nothing holds for every request) *)
Theorem mutate_then_map_sound q fs' :
  validate_map (with_funcs q fs') = Ok tt -> ~ F_dup_output fs' /\ ~ F_defaults fs' /\ ~ F_cycle fs'.
Proof. intros H. apply graph_checks_sound. exact (validate_map_graph (with_funcs q fs') H). Qed.

Theorem mutate_then_map_complete_per_fault q fs' :
  (F_dup_output fs' \/ F_defaults fs' \/ F_cycle fs') -> exists e, validate_map (with_funcs q fs') = Err e.
Proof.
  intros HF. destruct (result_unit_cases (validate_map (with_funcs q fs'))) as [Hok|Herr]; [|exact Herr].
  destruct (mutate_then_map_sound q fs' Hok) as [N1 [N2 N3]]. tauto.
Qed.

(* a member-level mutation re-validates the member itself: afterwards no output of it equals one of its parameters *)
Lemma nth_error_set_nth {A} (l : list A) : forall j x y, nth_error l j = Some y -> nth_error (set_nth l j x) j = Some x.
Proof. induction l as [|z l IH]; intros [|j] x y H; cbn in *; try discriminate; [reflexivity|eauto]. Qed.

Theorem member_mutation_revalidates_member fs j f fs' mu :
  (exists d, mu = MDefaults j d) \/ (exists b ow, mu = MBound j b ow) \/ (exists ren, mu = MRename j ren) ->
  nth_error fs j = Some f -> apply_mutation fs mu = Ok fs' ->
  exists f', nth_error fs' j = Some f' /\ validate_func f' = Ok tt
             /\ NoDup (routs f') /\ (forall o, In o (routs f') -> ~ In o (rparams f')).
Proof.
  intros Hmu Hj Ha. destruct (apply_mutation_desc _ _ _ Ha) as [-> Hc].
  assert (G : forall g, mutate_desc fs mu = on_member fs j g -> member_update f (g f) = member_update f (g f) ->
              forall keys allowed vals, member_update f (g f) keys allowed vals = Ok tt ->
              exists f', nth_error (mutate_desc fs mu) j = Some f' /\ validate_func f' = Ok tt
                         /\ NoDup (routs f') /\ (forall o, In o (routs f') -> ~ In o (rparams f'))).
  { intros g Hd _ keys allowed vals Hm. exists (g f). rewrite Hd. unfold on_member. rewrite Hj.
    split; [exact (nth_error_set_nth fs j (g f) f Hj)|].
    unfold member_update in Hm. destruct (negb (subset_str keys allowed)); [discriminate|].
    destruct (negb (forallb is_ident vals)); [discriminate|]. split; [exact Hm|].
    exact (validate_names_facts _ (validate_func_names _ Hm)). }
  destruct Hmu as [[d ->]|[[b [ow ->]]|[ren ->]]]; cbn [mutation_checks] in Hc; unfold check_member in Hc;
    rewrite Hj in Hc; eapply G; try reflexivity; exact Hc.
Qed.
