(* The run model of the rewrite layer (Rewrite.nrun, the model that the correspondence executes) tied to the
   specification (Rewrite.neval) by proof:
   1. on pipelines without nested functions nrun IS Pipe.run, hence (C02 run_eq_eval) equals neval - errors included;
   2. on ALL pipelines (nested functions to any depth) every value that nrun returns is the value of neval. *)
From Verif Require Import Base.Prelude Base.StrOrd Base.StrUtil Base.Graph Model.Pipe Model.Rewrite
  Proofs.GraphFacts Proofs.PipeFacts Proofs.RewriteFacts Proofs.NestFacts.

Lemma get_args_ext P kw rec rec' f : (forall st o, rec st o = rec' st o) ->
  forall ps st acc, get_args P kw rec f ps st acc = get_args P kw rec' f ps st acc.
Proof.
  intros H. induction ps as [|[cur orig] t IH]; intros st acc; cbn [get_args]; [reflexivity|].
  assert (E : resolve P kw rec f st cur = resolve P kw rec' f st cur).
  { unfold resolve. destruct (aget (bound f) cur); [reflexivity|]. destruct (aget kw cur); [reflexivity|].
    destruct (is_output P cur); [apply H|reflexivity]. }
  rewrite E. destruct (resolve P kw rec' f st cur) as [st1 [v|e]]; [apply IH|reflexivity].
Qed.

Lemma psize_lift p : psize (lift p) = length p.
Proof. unfold psize, lift. induction p as [|f p IH]; cbn; [reflexivity|]. now rewrite IH. Qed.

Section Lifted.
  Variable body : str -> alist -> result str.
  Variable pick : str -> str -> str.

  Lemma orig_out_prim f o : In o (outs f) -> orig_out (prim f) o = o.
  Proof.
    intros H. unfold orig_out. cbn [nf prim noorig].
    assert (Hm : mem_str o (outs f) = true) by (apply mem_str_In; exact H).
    destruct (pos_str_nth o (outs f) Hm) as (i & E1 & E2). rewrite E1. exact E2.
  Qed.

  Lemma store_vals_prim f r rs : outs f <> [] ->
    store_vals f (map (fun o' => (o', if multi f then pick (orig_out (prim f) o') r else r)) (outs f)) rs
    = update_all_results pick f r rs.
  Proof.
    intros Hne. unfold store_vals, update_all_results. destruct (multi f) eqn:Em.
    - assert (G : forall l rs0, incl l (outs f) ->
        fold_left (fun acc nv => if ahas acc (fst nv) then acc else aset acc (fst nv) (snd nv))
                  (map (fun o' => (o', pick (orig_out (prim f) o') r)) l) rs0
        = fold_left (fun acc n => if ahas acc n then acc else aset acc n (pick n r)) l rs0).
      { induction l as [|x l IH]; intros rs0 Hl; cbn; [reflexivity|].
        rewrite (orig_out_prim f x) by (apply Hl; left; reflexivity). apply IH. intros y Hy. apply Hl. right. exact Hy. }
      apply G. apply incl_refl.
    - unfold multi in Em. apply Nat.ltb_ge in Em. destruct (outs f) as [|a [|b l]] eqn:Eo; [congruence| |cbn in Em; lia].
      cbn. unfold fid. rewrite Eo. reflexivity.
  Qed.

  Lemma nrun_out_lift p kw : forall n st o, nrun_out body pick n (lift p) kw st o = run_out body pick p kw n st o.
  Proof.
    induction n as [|n IH]; intros st o; [reflexivity|].
    cbn [nrun_out run_out]. destruct (aget (res st) o); [reflexivity|].
    rewrite nproducer_lift. destruct (producer p o) as [f|] eqn:Ep; cbn [option_map]; [|reflexivity].
    cbn [nf prim ninner]. rewrite funcs_lift.
    rewrite (get_args_ext p kw (nrun_out body pick n (lift p) kw) (run_out body pick p kw n) f IH).
    destruct (get_args p kw (run_out body pick p kw n) f (params f) st []) as [st1 [args|e]]; [|reflexivity].
    destruct (body (fname f) args) as [r|e]; cbn [bind]; [|reflexivity].
    assert (Hne : outs f <> []).
    { apply producer_Some in Ep as [_ Ho]. intros E0. rewrite E0 in Ho. destruct Ho. }
    rewrite (store_vals_prim f r _ Hne). reflexivity.
  Qed.

  Definition strip (r : result outcome) : result str :=
    match r with Ok (Value v) => Ok v | Ok (Full _) => Err OtherError | Err e => Err e end.

  (* nrun on a pipeline without nested functions is Pipe.run on the flattened keywords *)
  Theorem nrun_lift p o kw fk : flatten_scopes p kw = Ok fk ->
    existsb (fun kv => str_eqb (fst kv) o) kw = false -> aget (flat_vals fk) o = None ->
    nrun body pick (lift p) o kw = (strip (fst (run body pick p o (flat_vals fk) false)), snd (run body pick p o (flat_vals fk) false)).
  Proof.
    intros Ef Ex Ea. unfold nrun, run. rewrite funcs_lift, Ef, Ex.
    assert (Eh : ahas (flat_vals fk) o = false) by (apply ahas_false_iff; exact Ea). rewrite Eh.
    destruct (negb (is_node p o)); [reflexivity|]. cbn [negb].
    unfold nfuel. rewrite psize_lift, nrun_out_lift.
    destruct (run_out body pick p (flat_vals fk) (S (length p)) (init_state (flat_vals fk)) o) as [st [v|e]]; [|reflexivity].
    destruct (unused_kw (flat_vals fk) st); reflexivity.
  Qed.

  (* run_eq_eval for the rewrite layer, pipelines without nested functions: the run model equals the specification,
     errors included; the only difference is the rejection of surplus keywords *)
  Theorem nrun_eq_neval_lifted p o kw fk : wf_pipeline p -> is_output p o = true ->
    flatten_scopes p kw = Ok fk -> existsb (fun kv => str_eqb (fst kv) o) kw = false -> aget (flat_vals fk) o = None ->
    fst (nrun body pick (lift p) o kw) =
      match neval body pick (nfuel (lift p)) (lift p) (flat_vals fk) o with
      | Err e => Err e
      | Ok v => if subset_str (akeys (flat_vals fk)) (param_names_needed p (flat_vals fk) o) then Ok v
                else Err UnusedParametersError
      end.
  Proof.
    intros Hwf Ho Ef Ex Ea. rewrite (nrun_lift p o kw fk Ef Ex Ea). cbn [fst].
    rewrite (run_char_final body pick p o (flat_vals fk) Hwf Ho Ea).
    rewrite neval_lift. unfold nfuel. rewrite psize_lift. unfold eval_top.
    destruct (eval body pick (S (length p)) p (flat_vals fk) o); [|reflexivity].
    destruct (subset_str (akeys (flat_vals fk)) (param_names_needed p (flat_vals fk) o)); reflexivity.
  Qed.
End Lifted.

(* ------------------------------------------------------------------ value soundness for nested pipelines *)
(* well-formed nested pipelines: output names unique, defaults consistent, and - at every depth - the original
   parameter names of a nested function are not among the original output names it exports (the arguments of the
   inner run are root arguments of the inner pipeline; what mk_nested builds) *)
Inductive nwf : npipe -> Prop :=
| nwf_intro p : NoDup (all_outputs (funcs p)) -> consistent_defaults (funcs p) = true ->
    (forall nd inner, In nd p -> ninner nd = Some inner ->
       nwf inner /\ (forall k, In k (map snd (params (nf nd))) -> ~ In k (noorig nd))) -> nwf p.

Lemma nodup_app_parts {A} (a b : list A) : NoDup (a ++ b) -> NoDup a /\ NoDup b /\ (forall x, In x a -> ~ In x b).
Proof.
  induction a as [|x a IH]; cbn; intros N; [split; [constructor|split; [exact N|intros x []]]|].
  inversion N as [|? ? Hx N']; subst. destruct (IH N') as (Na & Nb & D). split; [|split; [exact Nb|]].
  - constructor; [|exact Na]. intros Hin. apply Hx. apply in_or_app. left. exact Hin.
  - intros y [<-|Hy]; [|apply D; exact Hy]. intros Hin. apply Hx. apply in_or_app. right. exact Hin.
Qed.

Lemma nproducer_unique p : NoDup (all_outputs (funcs p)) -> forall nd o, In nd p -> In o (outs (nf nd)) ->
  nproducer p o = Some nd.
Proof.
  unfold nproducer. induction p as [|x t IH]; intros N nd o Hnd Ho; [destruct Hnd|].
  cbn [funcs map all_outputs flat_map] in N. change (flat_map outs (map nf t)) with (all_outputs (funcs t)) in N.
  cbn [find]. destruct (mem_str o (outs (nf x))) eqn:Em.
  - destruct Hnd as [->|Hnd]; [reflexivity|]. exfalso. apply mem_str_In in Em.
    apply nodup_app_parts in N as (_ & _ & D). apply (D o Em). apply in_all_outputs. exists nd. split; assumption.
  - destruct Hnd as [->|Hnd]; [apply mem_str_In in Ho; congruence|]. apply IH; [|exact Hnd|exact Ho].
    apply nodup_app_parts in N as (_ & N & _). exact N.
Qed.

Lemma outs_nodup p : NoDup (all_outputs (funcs p)) -> forall nd, In nd p -> NoDup (outs (nf nd)).
Proof.
  induction p as [|x t IH]; intros N nd Hnd; [destruct Hnd|].
  cbn [funcs map all_outputs flat_map] in N. change (flat_map outs (map nf t)) with (all_outputs (funcs t)) in N.
  apply nodup_app_parts in N as (N1 & N2 & _). destruct Hnd as [->|Hnd]; [exact N1|]. apply IH; [exact N2|exact Hnd].
Qed.

Lemma pdefault_default_of P k : consistent_defaults P = true -> pdefault P k = default_of P k.
Proof.
  intros Hc. unfold pdefault, default_of. apply aget_rev_consistent. intros k0 v Hin.
  unfold consistent_defaults in Hc. rewrite forallb_forall in Hc. specialize (Hc (k0, v) Hin). cbn in Hc.
  destruct (aget (pdefaults P) k0) as [w|]; [|discriminate]. apply str_eqb_eq in Hc. now subst.
Qed.

Lemma combine_pos (l : list str) : NoDup l -> forall (l' : list str) k orig, In (k, orig) (combine l l') ->
  exists i, pos_str k l = Some i /\ nth i l' [] = orig.
Proof.
  induction 1 as [|x l Hx N IH]; intros l' k orig Hin; [destruct Hin|]. destruct l' as [|y l']; [destruct Hin|].
  cbn [combine] in Hin. destruct Hin as [Hin|Hin].
  - injection Hin as -> ->. exists 0. cbn. rewrite str_eqb_refl. split; reflexivity.
  - destruct (IH l' k orig Hin) as (i & E1 & E2). exists (S i). cbn. destruct (str_eqb k x) eqn:E.
    + apply str_eqb_eq in E. subst. exfalso. apply Hx. apply in_combine_l in Hin. exact Hin.
    + rewrite E1. split; [reflexivity|exact E2].
Qed.

Lemma mapM_In {A B} (f : A -> result B) l r : mapM f l = Ok r -> forall y, In y r -> exists x, In x l /\ f x = Ok y.
Proof.
  revert r. induction l as [|x l IH]; intros r E y Hy; cbn in E.
  - injection E as <-. destruct Hy.
  - destruct (f x) as [b|] eqn:Ex; [|discriminate]. cbn in E. destruct (mapM f l) as [bs|] eqn:El; [|discriminate].
    cbn in E. injection E as <-. destruct Hy as [<-|Hy]; [exists x; split; [left; reflexivity|exact Ex]|].
    destruct (IH bs eq_refl y Hy) as (x0 & H1 & H2). exists x0. split; [right; exact H1|exact H2].
Qed.

Lemma store_vals_from f vals rs k v : aget (store_vals f vals rs) k = Some v -> aget rs k = Some v \/ In (k, v) vals.
Proof.
  unfold store_vals. destruct (multi f); revert rs; induction vals as [|[a b] vals IH]; cbn [fold_left fst snd]; intros rs H;
    try (left; exact H).
  - apply IH in H as [H|H]; [|right; right; exact H]. destruct (ahas rs a); [left; exact H|].
    destruct (str_eqb a k) eqn:E.
    + apply str_eqb_eq in E. subst. rewrite aget_aset_same in H. injection H as <-. right. left. reflexivity.
    + apply str_eqb_neq in E. rewrite aget_aset_other in H by exact E. left. exact H.
  - apply IH in H as [H|H]; [|right; right; exact H].
    destruct (str_eqb a k) eqn:E.
    + apply str_eqb_eq in E. subst. rewrite aget_aset_same in H. injection H as <-. right. left. reflexivity.
    + apply str_eqb_neq in E. rewrite aget_aset_other in H by exact E. left. exact H.
Qed.

(* a key that is already present keeps its value unless a single-output store overwrites it *)
Lemma store_vals_keep f vals rs k w : aget rs k = Some w -> (multi f = true \/ ~ In k (map fst vals)) ->
  aget (store_vals f vals rs) k = Some w.
Proof.
  unfold store_vals. intros H Hc. destruct (multi f) eqn:Em.
  - clear Hc. revert rs H. induction vals as [|[a b] vals IH]; cbn [fold_left fst snd]; intros rs H; [exact H|].
    apply IH. destruct (ahas rs a) eqn:Eh; [exact H|]. destruct (str_eqb a k) eqn:E.
    + apply str_eqb_eq in E. subst. apply ahas_false_iff in Eh. congruence.
    + apply str_eqb_neq in E. rewrite aget_aset_other by exact E. exact H.
  - destruct Hc as [Hc|Hc]; [discriminate|]. revert rs H. induction vals as [|[a b] vals IH]; cbn [fold_left fst snd]; intros rs H; [exact H|].
    apply IH; [intros Hin; apply Hc; right; exact Hin|]. rewrite aget_aset_other; [exact H|].
    intros ->. apply Hc. left. reflexivity.
Qed.

Section Sound.
  Variable body : str -> alist -> result str.
  Variable pick : str -> str -> str.

  (* the memo holds the supplied keywords and, for every other key, the value of the specification *)
  Definition Inv (p : npipe) (kw : alist) (st : rstate) : Prop :=
    (forall k w, aget kw k = Some w -> aget (res st) k = Some w)
    /\ (forall k v, aget (res st) k = Some v -> aget kw k = None -> exists F, neval body pick F p kw k = Ok v).

  Lemma Inv_init p kw : Inv p kw (init_state kw).
  Proof. split; cbn; [auto|]. intros k v H1 H2. congruence. Qed.

  Definition RecOK (p : npipe) (kw : alist) (rec : rstate -> str -> rstate * result str) : Prop :=
    forall st o st' v, Inv p kw st -> rec st o = (st', Ok v) -> Inv p kw st' /\ aget (res st') o = Some v.

  Lemma get_args_sound p kw rec f : RecOK p kw rec -> consistent_defaults (funcs p) = true ->
    forall ps st acc st1 args, Inv p kw st -> get_args (funcs p) kw rec f ps st acc = (st1, Ok args) ->
    Inv p kw st1 /\ exists vs F, args = acc ++ vs /\ map fst vs = map snd ps
      /\ forall F', F <= F' ->
           mapM (fun po : str * str => do v <- arg_val (neval body pick F' p kw) (funcs p) kw f (fst po); Ok (snd po, v)) ps = Ok vs.
  Proof.
    intros Hrec Hc. induction ps as [|[cur orig] t IH]; intros st acc st1 args HI E; cbn [get_args] in E.
    - injection E as <- <-. split; [exact HI|]. exists [], 0. rewrite app_nil_r. repeat split; reflexivity.
    - destruct (resolve (funcs p) kw rec f st cur) as [st0 [v|e]] eqn:Er; [|discriminate].
      assert (Hres : Inv p kw st0 /\ exists F, forall F', F <= F' -> arg_val (neval body pick F' p kw) (funcs p) kw f cur = Ok v).
      { unfold resolve in Er. unfold arg_val. destruct (aget (bound f) cur) as [b|].
        { injection Er as <- <-. split; [exact HI|]. exists 0. reflexivity. }
        destruct (aget kw cur) as [w|] eqn:Ek.
        { injection Er as <- <-. split; [exact HI|]. exists 0. reflexivity. }
        destruct (is_output (funcs p) cur).
        - destruct (Hrec st cur st0 v HI Er) as [HI0 Hv]. split; [exact HI0|].
          destruct (proj2 HI0 cur v Hv Ek) as [F HF]. exists F. intros F' HF'. apply (neval_mono body pick F p kw cur v HF F' HF').
        - rewrite <- (pdefault_default_of (funcs p) cur Hc). destruct (pdefault (funcs p) cur) as [d|]; [|discriminate].
          injection Er as <- <-. split; [exact HI|]. exists 0. reflexivity. }
      destruct Hres as [HI0 [F1 HF1]].
      assert (HIu : Inv p kw (st_use st0 cur)) by exact HI0.
      destruct (IH (st_use st0 cur) (acc ++ [(orig, v)]) st1 args HIu E) as [HI1 (vs & F2 & -> & Ek & HF2)].
      split; [exact HI1|]. exists ((orig, v) :: vs), (Nat.max F1 F2). rewrite <- app_assoc. split; [reflexivity|].
      split; [cbn; rewrite Ek; reflexivity|]. intros F' HF'. cbn [mapM fst snd].
      rewrite (HF1 F') by lia. cbn [bind]. rewrite (HF2 F') by lia. reflexivity.
  Qed.

  Theorem nrun_out_sound : forall n p kw st o st' v, nwf p -> Inv p kw st ->
    nrun_out body pick n p kw st o = (st', Ok v) -> Inv p kw st' /\ aget (res st') o = Some v.
  Proof.
    induction n as [|n IH]; intros p kw st o st' v Hwf HI E; [discriminate|].
    cbn [nrun_out] in E. destruct (aget (res st) o) as [v0|] eqn:Eres.
    { injection E as <- <-. split; [exact HI|exact Eres]. }
    assert (Hkwo : aget kw o = None).
    { destruct (aget kw o) as [w|] eqn:Ek; [|reflexivity]. rewrite (proj1 HI o w Ek) in Eres. discriminate. }
    destruct (nproducer p o) as [nd|] eqn:Ep; [|discriminate].
    destruct Hwf as [p N Hc Hnest].
    destruct (nproducer_In p o nd Ep) as [Hnd Ho].
    destruct (get_args (funcs p) kw (nrun_out body pick n p kw) (nf nd) (params (nf nd)) st []) as [st1 [args|e]] eqn:Eg; [|discriminate].
    assert (Hrec : RecOK p kw (nrun_out body pick n p kw)).
    { intros s0 o0 s1 v1 H0 E0. apply (IH p kw s0 o0 s1 v1); [constructor; assumption|exact H0|exact E0]. }
    destruct (get_args_sound p kw _ (nf nd) Hrec Hc (params (nf nd)) st [] st1 args HI Eg) as [HI1 (vs & F & Ea & Ekeys & HF)].
    cbn [app] in Ea. subst vs.
    assert (Hargs : forall F', F <= F' -> args_with (neval body pick F' p kw) (funcs p) kw (nf nd) = Ok args) by exact HF.
    (* what is stored: for every new entry (k, x) the specification has the value x *)
    assert (Hstore : forall st2 vals, res st2 = res st1 ->
              (forall k x, In (k, x) vals -> In k (outs (nf nd)) /\ exists F', neval body pick F' p kw k = Ok x) ->
              match aget (store_vals (nf nd) vals (res st2)) o with Some v1 => Ok v1 | None => Err KeyError end = Ok v ->
              Inv p kw (st_res st2 (store_vals (nf nd) vals (res st2))) /\ aget (store_vals (nf nd) vals (res st2)) o = Some v).
    { intros st2 vals Hr Hv Hm. split.
      - split; cbn [res st_res].
        + intros k w Hk. apply store_vals_keep; [rewrite Hr; apply (proj1 HI1 k w Hk)|].
          destruct (multi (nf nd)) eqn:Em; [left; reflexivity|right]. intros Hin. apply in_map_iff in Hin as ([k' x] & <- & Hin).
          cbn [fst] in Hk. destruct (Hv k' x Hin) as [Hko _].
          unfold multi in Em. apply Nat.ltb_ge in Em. destruct (outs (nf nd)) as [|a [|b l]]; [destruct Ho| |cbn in Em; lia].
          destruct Ho as [<-|[]]. destruct Hko as [<-|[]]. congruence.
        + intros k x Hk Hkw. apply store_vals_from in Hk as [Hk|Hk]; [rewrite Hr in Hk; apply (proj2 HI1 k x Hk Hkw)|].
          apply (Hv k x Hk).
      - destruct (aget (store_vals (nf nd) vals (res st2)) o); [injection Hm as <-; reflexivity|discriminate]. }
    destruct (ninner nd) as [inner|] eqn:Ei.
    - (* a nested function *)
      destruct (Hnest nd inner Hnd Ei) as [Hwfi Hdisj].
      destruct (leaf_funcs (funcs inner)) as [|lf [|lf2 ls]]; [discriminate| |discriminate].
      destruct (ahas args (fid lf)); [discriminate|].
      destruct (nrun_out body pick n inner args {| res := args; used := []; log := log st1 |} (fid lf)) as [ist [r0|e]] eqn:Einner;
        [|discriminate].
      destruct (filter (fun k => negb (mem_str k (used ist))) (akeys args)); [|discriminate].
      destruct (mapM (fun co : str * str => match aget (res ist) (snd co) with Some v1 => Ok (fst co, v1) | None => Err KeyError end)
                     (combine (outs (nf nd)) (noorig nd))) as [vals|e] eqn:Ev; [|discriminate].
      assert (HIi : Inv inner args ist).
      { apply (IH inner args {| res := args; used := []; log := log st1 |} (fid lf) ist r0 Hwfi); [|exact Einner]. split; cbn [res]; [auto|]. intros k x H1 H2. congruence. }
      set (st2 := {| res := res st1; used := used st1; log := log ist |}) in *.
      injection E as <- Em.
      apply (Hstore st2 vals eq_refl); [|exact Em].
      intros k x Hkx. destruct (mapM_In _ _ _ Ev (k, x) Hkx) as ([k' orig] & Hco & Hx). cbn [fst snd] in Hx.
      destruct (aget (res ist) orig) as [x'|] eqn:Eo; [|discriminate]. injection Hx as -> ->.
      split; [apply in_combine_l in Hco; exact Hco|].
      assert (Horig : In orig (noorig nd)) by (apply in_combine_r in Hco; exact Hco).
      assert (Hnk : aget args orig = None).
      { apply aget_None_iff. unfold akeys. rewrite Ekeys. intros Hk. apply (Hdisj orig Hk Horig). }
      destruct (proj2 HIi orig x Eo Hnk) as [F2 HF2].
      destruct (combine_pos (outs (nf nd)) (outs_nodup p N nd Hnd) (noorig nd) k orig Hco) as (i & Ei1 & Ei2).
      exists (S (Nat.max F F2)). cbn [neval].
      rewrite (nproducer_unique p N nd k Hnd (in_combine_l _ _ _ _ Hco)). cbv zeta.
      rewrite (Hargs (Nat.max F F2)) by lia. cbn [bind]. rewrite Ei.
      unfold orig_out. rewrite Ei1, Ei2. apply (neval_mono body pick F2 inner args orig x HF2). lia.
    - (* a user function *)
      destruct (body (fname (nf nd)) args) as [r|e] eqn:Eb; cbn [bind] in E; [|discriminate].
      injection E as <- Em.
      apply (Hstore (st_log st1 (fname (nf nd), args)) _ eq_refl); [|exact Em].
      intros k x Hkx. apply in_map_iff in Hkx as (k' & Hk' & Hko). injection Hk' as -> <-.
      split; [exact Hko|]. exists (S F). cbn [neval]. rewrite (nproducer_unique p N nd k Hnd Hko). cbv zeta.
      rewrite (Hargs F) by lia. cbn [bind]. rewrite Ei, Eb. reflexivity.
  Qed.

  (* every value the run model returns - for pipelines with nested functions to any depth - is the value of the
     specification (for some fuel, hence for every larger one: neval_mono) *)
  Theorem nrun_value_sound p o kw v lg : nwf p -> nrun body pick p o kw = (Ok v, lg) ->
    exists fk, flatten_scopes (funcs p) kw = Ok fk
      /\ (aget (flat_vals fk) o = None -> exists F, neval body pick F p (flat_vals fk) o = Ok v)
      /\ (forall w, aget (flat_vals fk) o = Some w -> w = v).
  Proof.
    intros Hwf E. unfold nrun in E. destruct (negb (is_node (funcs p) o)); [discriminate|].
    destruct (existsb (fun kv => str_eqb (fst kv) o) kw); [discriminate|].
    destruct (flatten_scopes (funcs p) kw) as [fk|e]; [|discriminate]. exists fk. split; [reflexivity|].
    destruct (nrun_out body pick (nfuel p) p (flat_vals fk) (init_state (flat_vals fk)) o) as [st [v0|e]] eqn:Er; [|discriminate].
    destruct (unused_kw (flat_vals fk) st); [|discriminate]. injection E as <- _.
    destruct (nrun_out_sound (nfuel p) p (flat_vals fk) _ o st v0 Hwf (Inv_init p (flat_vals fk)) Er) as [HI Hv].
    split.
    - intros Hk. apply (proj2 HI o v0 Hv Hk).
    - intros w Hw. rewrite (proj1 HI o w Hw) in Hv. congruence.
  Qed.
End Sound.

(* non-vacuity: f(x)->a, g(a,y)->b, h(b,a)->c with {a, b} nested keeping (a, b): the nested pipeline is well formed,
   the run model returns a value, and it is the value of the specification *)
Example nrun_instance :
  let p := lift [mkf (s "f") [s "a"] [(s "x", s "x")] [] [] false;
                 mkf (s "g") [s "b"] [(s "a", s "a"); (s "y", s "y")] [] [] false;
                 mkf (s "h") [s "c"] [(s "b", s "b"); (s "a", s "a")] [] [] false] in
  exists p', nest [s "a"; s "b"] (Some [s "a"; s "b"]) p = Ok p' /\ nwf p'
    /\ fst (nrun Sym.body Sym.pick p' (s "c") (dotted [(s "x", s "X"); (s "y", s "Y")])) = Ok (s "h(b=g(a=f(x=X),y=Y),a=f(x=X))")
    /\ neval Sym.body Sym.pick 5 p' [(s "x", s "X"); (s "y", s "Y")] (s "c") = Ok (s "h(b=g(a=f(x=X),y=Y),a=f(x=X))").
Proof.
  cbv zeta. eexists. split; [vm_compute; reflexivity|]. split; [|split; vm_compute; reflexivity].
  constructor; [apply nodup_strb_NoDup; vm_compute; reflexivity|vm_compute; reflexivity|].
  intros nd inner [<-|[<-|[]]] Ei; cbn in Ei; [discriminate|]. injection Ei as <-. split.
  - constructor; [apply nodup_strb_NoDup; vm_compute; reflexivity|vm_compute; reflexivity|].
    intros nd inner [<-|[<-|[]]] Ei; cbn in Ei; discriminate.
  - intros k Hk Hn. vm_compute in Hk, Hn. repeat (destruct Hk as [<-|Hk]; [repeat (destruct Hn as [Hn|Hn]; [discriminate|]); destruct Hn|]). destruct Hk.
Qed.

(* pipelines without nested functions: nwf is unique outputs + consistent defaults *)
Lemma nwf_lift p : NoDup (all_outputs p) -> consistent_defaults p = true -> nwf (lift p).
Proof.
  intros N C. constructor; rewrite ?funcs_lift; [exact N|exact C|].
  intros nd inner Hin Ei. unfold lift in Hin. apply in_map_iff in Hin as (f & <- & _). discriminate.
Qed.
