(* nest_preserves (C10): whatever the pipeline with a NestedPipeFunc computes, the original pipeline computes.
   Stated abstractly for a pipeline p split into `rest` and the nested group `fs`; Model/Rewrite.nest builds
   exactly such a split (nest_shape). *)
From Verif Require Import Base.Prelude Base.StrOrd Base.StrUtil Base.Graph Model.Pipe Model.Rewrite
  Proofs.GraphFacts Proofs.RewriteFacts.

Lemma mapM_Forall2 {A B} (f : A -> result B) (P : A -> B -> Prop) :
  forall l r, mapM f l = Ok r -> (forall x y, In x l -> f x = Ok y -> P x y) -> Forall2 P l r.
Proof.
  induction l as [|x l IH]; intros r E H; cbn in E.
  - injection E as <-. constructor.
  - destruct (f x) as [y|] eqn:Ex; [|discriminate]. cbn in E.
    destruct (mapM f l) as [ys|] eqn:El; [|discriminate]. cbn in E. injection E as <-.
    constructor; [apply H; [left; reflexivity|exact Ex]|].
    apply IH; [reflexivity|]. intros. eapply H; eauto. right. assumption.
Qed.

(* a common fuel for all elements *)
Lemma mapM_exists_fuel {A B} (f : A -> result B) (g : nat -> A -> result B) l r :
  mapM f l = Ok r ->
  (forall x y, In x l -> f x = Ok y -> exists N, forall M, N <= M -> g M x = Ok y) ->
  exists N, forall M, N <= M -> mapM (g M) l = Ok r.
Proof.
  revert r. induction l as [|x l IH]; intros r E H; cbn in E.
  - injection E as <-. exists 0. reflexivity.
  - destruct (f x) as [y|] eqn:Ex; [|discriminate]. cbn in E.
    destruct (mapM f l) as [ys|] eqn:El; [|discriminate]. cbn in E. injection E as <-.
    destruct (H x y (or_introl eq_refl) Ex) as [N1 H1].
    destruct (IH ys eq_refl) as [N2 H2]. { intros x0 y0 Hx0. apply H. right. exact Hx0. }
    exists (Nat.max N1 N2). intros M HM. cbn. rewrite (H1 M) by lia. cbn. rewrite (H2 M) by lia. reflexivity.
Qed.

Lemma nproducer_In p o nd : nproducer p o = Some nd -> In nd p /\ In o (outs (nf nd)).
Proof. unfold nproducer. intros E. apply find_some in E as [H1 H2]. split; [exact H1|]. apply mem_str_In. exact H2. Qed.

Lemma nproducer_exists p o nd : In nd p -> In o (outs (nf nd)) -> exists nd', nproducer p o = Some nd'.
Proof.
  intros H1 H2. unfold nproducer. destruct (find _ p) as [x|] eqn:E; [eauto|].
  exfalso. apply (find_none _ _ E) in H1. apply mem_str_In in H2. congruence.
Qed.

Lemma in_all_outputs p o : In o (all_outputs (funcs p)) <-> exists nd, In nd p /\ In o (outs (nf nd)).
Proof.
  unfold all_outputs, funcs. rewrite in_flat_map. split.
  - intros (f & Hf & Ho). apply in_map_iff in Hf as (nd & <- & Hnd). eauto.
  - intros (nd & Hnd & Ho). exists (nf nd). split; [apply in_map; exact Hnd|exact Ho].
Qed.

Section Nest.
  Variable body : str -> alist -> result str.
  Variable pick : str -> str -> str.
  Variables (p rest fs : npipe) (F : pfunc) (oo ps : list str) (kw : alist).
  Let nd := Node F oo (Some fs).
  Let p' := rest ++ [nd].

  (* the split *)
  Hypothesis Huniq : forall n1 n2 o, In n1 p -> In n2 p -> In o (outs (nf n1)) -> In o (outs (nf n2)) -> n1 = n2.
  Hypothesis Hrest : incl rest p.
  Hypothesis Hfs : incl fs p.
  Hypothesis Hcover : forall n, In n p -> In n rest \/ In n fs.
  Hypothesis Hdisj : forall a b, In a rest -> In b fs -> a <> b.
  (* the nested function: outputs oo (known to the inner pipeline under the same names), parameters ps under
     their own names, nothing bound *)
  Hypothesis HF_outs : outs F = oo.
  Hypothesis HF_params : params F = map (fun n => (n, n)) ps.
  Hypothesis HF_bound : bound F = [].
  Hypothesis Hoo : forall o, In o oo -> In o (all_outputs (funcs fs)).
  (* ps = the unbound parameters of the group that the group does not produce itself *)
  Hypothesis Hps1 : forall g c, In g fs -> In c (pnames (nf g)) -> ahas (bound (nf g)) c = false ->
                                In c ps \/ In c (all_outputs (funcs fs)).
  Hypothesis Hps2 : forall c, In c ps -> ~ In c (all_outputs (funcs fs)).
  (* the request does not supply a name produced inside the group *)
  Hypothesis Hkw : forall k, In k (akeys kw) -> ~ In k (all_outputs (funcs fs)).
  (* every output of the group that a function outside consumes stays an output *)
  Hypothesis Hhidden : forall a c, In a rest -> In c (pnames (nf a)) -> ahas (bound (nf a)) c = false ->
                                   In c (all_outputs (funcs fs)) -> In c oo.
  (* root arguments keep their defaults *)
  Hypothesis Hdef : forall c, is_output (funcs p) c = false -> default_of (funcs p') c = default_of (funcs p) c.

  Lemma nproducer_p nd0 o : In nd0 p -> In o (outs (nf nd0)) -> nproducer p o = Some nd0.
  Proof.
    intros H1 H2. destruct (nproducer_exists p o nd0 H1 H2) as [x E]. rewrite E. f_equal.
    apply nproducer_In in E as [E1 E2]. eapply Huniq; eauto.
  Qed.

  Lemma aget_None_keys (d : alist) k : ~ In k (akeys d) -> aget d k = None.
  Proof.
    induction d as [|[k' v] d IH]; cbn; intros H; [reflexivity|].
    destruct (str_eqb k k') eqn:E.
    - apply str_eqb_eq in E. subst. exfalso. apply H. left. reflexivity.
    - apply IH. intros Hin. apply H. right. exact Hin.
  Qed.
  Lemma aget_Some_keys (d : alist) k v : aget d k = Some v -> In k (akeys d).
  Proof.
    induction d as [|[k' v'] d IH]; cbn; [discriminate|]. destruct (str_eqb k k') eqn:E.
    - apply str_eqb_eq in E. subst. intros _. left. reflexivity.
    - intros H. right. apply IH. exact H.
  Qed.

  (* producers in p' *)
  Lemma nproducer_p'_rest o x : nproducer p' o = Some x -> x <> nd -> In x rest /\ nproducer p o = Some x.
  Proof.
    unfold p'. rewrite nproducer_app. destruct (nproducer rest o) as [y|] eqn:E.
    - intros H _. injection H as <-. apply nproducer_In in E as [E1 E2]. split; [exact E1|].
      apply nproducer_p; [apply Hrest; exact E1|exact E2].
    - unfold nproducer at 1. cbn [find]. destruct (mem_str o (outs (nf nd))); intros H Hne;
        [injection H as <-; contradiction|discriminate].
  Qed.

  Lemma is_output_p'_p c : is_output (funcs p') c = true -> is_output (funcs p) c = true.
  Proof.
    rewrite !is_output_funcs. destruct (nproducer p' c) as [x|] eqn:E; [|discriminate]. intros _.
    apply nproducer_In in E as [E1 E2]. unfold p' in E1. apply in_app_or in E1 as [E1|[<-|[]]].
    - rewrite (nproducer_p x c (Hrest x E1) E2). reflexivity.
    - cbn [nf nd] in E2. rewrite HF_outs in E2. apply Hoo in E2. apply in_all_outputs in E2 as (g & Hg & Ho).
      rewrite (nproducer_p g c (Hfs g Hg) Ho). reflexivity.
  Qed.

  (* the original resolution of a name (not bound) *)
  Definition resolves (c v : str) : Prop :=
    aget kw c = Some v
    \/ (aget kw c = None /\ is_output (funcs p) c = true /\ exists n, neval body pick n p kw c = Ok v)
    \/ (aget kw c = None /\ is_output (funcs p) c = false /\ default_of (funcs p) c = Some v).
  Definition args_ok (args : alist) : Prop :=
    (forall c v, aget args c = Some v -> In c ps /\ resolves c v)
    /\ (forall c, In c ps -> exists v, aget args c = Some v).

  Lemma resolves_arg_val f c v : aget (bound f) c = None -> resolves c v ->
    exists N, forall M, N <= M -> arg_val (neval body pick M p kw) (funcs p) kw f c = Ok v.
  Proof.
    intros Hb [H|[(H1 & H2 & n & H3)|(H1 & H2 & H3)]]; unfold arg_val; rewrite Hb.
    - exists 0. intros M _. rewrite H. reflexivity.
    - exists n. intros M HM. rewrite H1, H2. eapply neval_mono; eauto.
    - exists 0. intros M _. rewrite H1, H2, H3. reflexivity.
  Qed.

  Lemma aget_In (d : alist) k v : aget d k = Some v -> In (k, v) d.
  Proof.
    induction d as [|[k' v'] d IH]; cbn; [discriminate|]. destruct (str_eqb k k') eqn:E.
    - apply str_eqb_eq in E. subst. intros H. injection H as <-. left. reflexivity.
    - intros H. right. apply IH. exact H.
  Qed.
  Lemma In_aget (d : alist) k v : In (k, v) d -> exists v', aget d k = Some v'.
  Proof.
    induction d as [|[k' v'] d IH]; cbn; [intros []|]. intros [H|H].
    - injection H as -> ->. rewrite str_eqb_refl. eauto.
    - destruct (str_eqb k k'); [eauto|]. apply IH. exact H.
  Qed.

  (* the call of a node with identical arguments *)
  Lemma call_transfer (x : node) args o v n M : n <= M ->
    match ninner x with
    | None => do r <- body (fname (nf x)) args; Ok (if multi (nf x) then pick (orig_out x o) r else r)
    | Some inner => neval body pick n inner args (orig_out x o)
    end = Ok v ->
    match ninner x with
    | None => do r <- body (fname (nf x)) args; Ok (if multi (nf x) then pick (orig_out x o) r else r)
    | Some inner => neval body pick M inner args (orig_out x o)
    end = Ok v.
  Proof. intros HM. destruct (ninner x); [|auto]. intros E. eapply neval_mono; eauto. Qed.

  (* inside the group *)
  Lemma nest_inner : forall n args m v, args_ok args -> neval body pick n fs args m = Ok v ->
    exists k, neval body pick k p kw m = Ok v.
  Proof.
    induction n as [|n IH]; intros args m v Hargs E; [discriminate|].
    cbn [neval] in E. destruct (nproducer fs m) as [g|] eqn:Eg; [|discriminate].
    apply nproducer_In in Eg as [Hg Hm].
    assert (Egp : nproducer p m = Some g) by (apply nproducer_p; [apply Hfs; exact Hg|exact Hm]).
    destruct (args_with (neval body pick n fs args) (funcs fs) args (nf g)) as [gargs|] eqn:Ea; cbn [bind] in E; [|discriminate].
    assert (HN : exists N, forall M, N <= M -> args_with (neval body pick M p kw) (funcs p) kw (nf g) = Ok gargs).
    { unfold args_with in *.
      apply (mapM_exists_fuel _ (fun M (po : str * str) =>
               do v0 <- arg_val (neval body pick M p kw) (funcs p) kw (nf g) (fst po); Ok (snd po, v0)) _ _ Ea).
      intros [cur orig] y Hco Ey. cbn [fst snd] in *.
      assert (Hc : In cur (pnames (nf g))).
      { unfold pnames. change cur with (fst (cur, orig)). apply in_map. exact Hco. }
      unfold arg_val in Ey. unfold arg_val.
      destruct (aget (bound (nf g)) cur) as [b|] eqn:Eb.
      { exists 0. intros M _. exact Ey. }
      destruct (aget args cur) as [v1|] eqn:Eac.
      { destruct Hargs as [Ha1 _]. destruct (Ha1 cur v1 Eac) as [_ Hr].
        destruct (resolves_arg_val (nf g) cur v1 Eb Hr) as [N HNn]. exists N. intros M HM.
        specialize (HNn M HM). unfold arg_val in HNn. rewrite Eb in HNn. rewrite HNn. exact Ey. }
      destruct (is_output (funcs fs) cur) eqn:Eo.
      - destruct (neval body pick n fs args cur) as [v0|] eqn:Er; cbn [bind] in Ey; [|discriminate].
        destruct (IH args cur v0 Hargs Er) as [k Hk].
        assert (Hout : In cur (all_outputs (funcs fs))).
        { rewrite is_output_funcs in Eo. destruct (nproducer fs cur) as [z|] eqn:Ez; [|discriminate].
          apply nproducer_In in Ez as [Z1 Z2]. apply in_all_outputs. eauto. }
        assert (Hk0 : aget kw cur = None).
        { apply aget_None_keys. intros Hin. apply (Hkw cur Hin). exact Hout. }
        assert (Hop : is_output (funcs p) cur = true).
        { apply in_all_outputs in Hout as (z & Z1 & Z2). rewrite is_output_funcs, (nproducer_p z cur (Hfs z Z1) Z2). reflexivity. }
        exists k. intros M HM. rewrite Hk0, Hop, (neval_mono body pick k p kw cur v0 Hk M HM). exact Ey.
      - exfalso. assert (Hub : ahas (bound (nf g)) cur = false) by (unfold ahas; rewrite Eb; reflexivity).
        destruct (Hps1 g cur Hg Hc Hub) as [Hp|Hp].
        + destruct Hargs as [_ Ha2]. destruct (Ha2 cur Hp) as [v2 E2]. congruence.
        + apply in_all_outputs in Hp as (z & Z1 & Z2). rewrite is_output_funcs in Eo.
          destruct (nproducer_exists fs cur z Z1 Z2) as [z' Ez']. rewrite Ez' in Eo. discriminate. }
    destruct HN as [N HNn]. exists (S (Nat.max N n)). cbn [neval]. rewrite Egp.
    rewrite (HNn (Nat.max N n)) by lia. cbn [bind].
    apply (call_transfer g gargs m v n (Nat.max N n)); [lia|exact E].
  Qed.

  Lemma orig_out_nd o : In o oo -> orig_out nd o = o.
  Proof.
    intros Ho. unfold orig_out, nd. cbn [nf noorig]. rewrite HF_outs.
    assert (Hm : mem_str o oo = true) by (apply mem_str_In; exact Ho).
    destruct (pos_str_nth o oo Hm) as (i & E1 & E2). rewrite E1. exact E2.
  Qed.

  (* nest_sound: a value computed by the pipeline with the nested function is the value the original computes *)
  Theorem nest_sound : forall n o v, neval body pick n p' kw o = Ok v -> exists m, neval body pick m p kw o = Ok v.
  Proof.
    induction n as [|n IH]; intros o v E; [discriminate|].
    cbn [neval] in E. destruct (nproducer p' o) as [x|] eqn:Ex; [|discriminate].
    destruct (args_with (neval body pick n p' kw) (funcs p') kw (nf x)) as [args|] eqn:Ea; cbn [bind] in E; [|discriminate].
    unfold p' in Ex. rewrite nproducer_app in Ex. destruct (nproducer rest o) as [y|] eqn:Ey.
    - (* a function outside the group *)
      injection Ex as <-. apply nproducer_In in Ey as [Hy Ho].
      assert (Eyp : nproducer p o = Some y) by (apply nproducer_p; [apply Hrest; exact Hy|exact Ho]).
      assert (HN : exists N, forall M, N <= M -> args_with (neval body pick M p kw) (funcs p) kw (nf y) = Ok args).
      { unfold args_with in *.
        apply (mapM_exists_fuel _ (fun M (po : str * str) =>
                 do v0 <- arg_val (neval body pick M p kw) (funcs p) kw (nf y) (fst po); Ok (snd po, v0)) _ _ Ea).
        intros [cur orig] z Hco Ez. cbn [fst snd] in *.
        assert (Hc : In cur (pnames (nf y))).
        { unfold pnames. change cur with (fst (cur, orig)). apply in_map. exact Hco. }
        unfold arg_val in Ez. unfold arg_val.
        destruct (aget (bound (nf y)) cur) as [b|] eqn:Eb; [exists 0; intros M _; exact Ez|].
        destruct (aget kw cur) as [v1|] eqn:Ek; [exists 0; intros M _; exact Ez|].
        destruct (is_output (funcs p') cur) eqn:Eo.
        - destruct (neval body pick n p' kw cur) as [v0|] eqn:Er; cbn [bind] in Ez; [|discriminate].
          destruct (IH cur v0 Er) as [k Hk]. exists k. intros M HM.
          rewrite (is_output_p'_p cur Eo), (neval_mono body pick k p kw cur v0 Hk M HM). exact Ez.
        - assert (Hop : is_output (funcs p) cur = false).
          { destruct (is_output (funcs p) cur) eqn:Eop; [|reflexivity]. exfalso.
            rewrite is_output_funcs in Eop. destruct (nproducer p cur) as [z0|] eqn:Ez0; [|discriminate].
            apply nproducer_In in Ez0 as [Z1 Z2]. rewrite is_output_funcs in Eo.
            destruct (Hcover z0 Z1) as [Hr|Hf].
            + destruct (nproducer_exists p' cur z0) as [w Ew]; [unfold p'; apply in_or_app; left; exact Hr|exact Z2|].
              rewrite Ew in Eo. discriminate.
            + assert (Hub : ahas (bound (nf y)) cur = false) by (unfold ahas; rewrite Eb; reflexivity).
              assert (Hin : In cur (all_outputs (funcs fs))) by (apply in_all_outputs; eauto).
              pose proof (Hhidden y cur Hy Hc Hub Hin) as Hoo'.
              destruct (nproducer_exists p' cur nd) as [w Ew];
                [unfold p'; apply in_or_app; right; left; reflexivity|cbn [nf nd]; rewrite HF_outs; exact Hoo'|].
              rewrite Ew in Eo. discriminate. }
          exists 0. intros M _. rewrite Hop, <- (Hdef cur Hop). exact Ez. }
      destruct HN as [N HNn]. exists (S (Nat.max N n)). cbn [neval]. rewrite Eyp.
      rewrite (HNn (Nat.max N n)) by lia. cbn [bind].
      apply (call_transfer y args o v n (Nat.max N n)); [lia|exact E].
    - (* the nested function *)
      unfold nproducer in Ex. cbn [find] in Ex. destruct (mem_str o (outs (nf nd))) eqn:Em; [|discriminate].
      injection Ex as <-. cbn [ninner nd] in E. cbn [nf nd] in Em, Ea. rewrite HF_outs in Em. apply mem_str_In in Em.
      rewrite (orig_out_nd o Em) in E.
      apply (nest_inner n args o v); [|exact E].
      unfold args_with in Ea. rewrite HF_params in Ea.
      pose proof (mapM_Forall2 _ (fun (po : str * str) (y : str * str) =>
                     fst y = snd po /\ arg_val (neval body pick n p' kw) (funcs p') kw F (fst po) = Ok (snd y)) _ _ Ea) as HF2.
      assert (HF2' : Forall2 (fun (po y : str * str) =>
                        fst y = snd po /\ arg_val (neval body pick n p' kw) (funcs p') kw F (fst po) = Ok (snd y))
                             (map (fun n0 : str => (n0, n0)) ps) args).
      { apply HF2. intros [c c'] y _ Ey0. cbn [fst snd] in *.
        destruct (arg_val (neval body pick n p' kw) (funcs p') kw F c) as [v0|]; cbn [bind] in Ey0; [|discriminate].
        injection Ey0 as <-. cbn. auto. }
      clear HF2.
      assert (Hentry : forall c v0, In (c, v0) args -> In c ps /\ arg_val (neval body pick n p' kw) (funcs p') kw F c = Ok v0).
      { clear -HF2'. remember (map (fun n0 : str => (n0, n0)) ps) as l eqn:El. revert ps El.
        induction HF2'; intros ps0 El c v0 Hin; [destruct Hin|].
        destruct ps0 as [|q ps1]; [discriminate|]. cbn in El. injection El as -> ->.
        destruct Hin as [Hy|Hin].
        - destruct H as [H1 H2]. subst y. cbn [fst snd] in H1, H2. subst q. split; [left; reflexivity|exact H2].
        - destruct (IHHF2' ps1 eq_refl c v0 Hin) as [A1 A2]. split; [right; exact A1|exact A2]. }
      assert (Hcov : forall c, In c ps -> exists v0, In (c, v0) args).
      { clear -HF2'. remember (map (fun n0 : str => (n0, n0)) ps) as l eqn:El. revert ps El.
        induction HF2'; intros ps0 El c Hin.
        - destruct ps0; [destruct Hin|discriminate].
        - destruct ps0 as [|q ps1]; [discriminate|]. cbn in El. injection El as -> ->.
          destruct Hin as [<-|Hin].
          + destruct H as [H1 _]. destruct y as [a b]. cbn in H1. subst. exists b. left. reflexivity.
          + destruct (IHHF2' ps1 eq_refl c Hin) as [v0 Hv]. exists v0. right. exact Hv. }
      split.
      + intros c v0 Hget. apply aget_In in Hget. destruct (Hentry c v0 Hget) as [Hc Hval]. split; [exact Hc|].
        unfold arg_val in Hval. rewrite HF_bound in Hval. cbn [aget] in Hval.
        destruct (aget kw c) as [v1|] eqn:Ek.
        { injection Hval as <-. left. exact Ek. }
        destruct (is_output (funcs p') c) eqn:Eo.
        * destruct (IH c v0 Hval) as [k Hk]. right. left. split; [exact Ek|]. split; [apply is_output_p'_p; exact Eo|]. eauto.
        * right. right. split; [exact Ek|].
          assert (Hop : is_output (funcs p) c = false).
          { destruct (is_output (funcs p) c) eqn:Eop; [|reflexivity]. exfalso.
            rewrite is_output_funcs in Eop. destruct (nproducer p c) as [z0|] eqn:Ez0; [|discriminate].
            apply nproducer_In in Ez0 as [Z1 Z2]. rewrite is_output_funcs in Eo.
            destruct (Hcover z0 Z1) as [Hr|Hf].
            + destruct (nproducer_exists p' c z0) as [w Ew]; [unfold p'; apply in_or_app; left; exact Hr|exact Z2|].
              rewrite Ew in Eo. discriminate.
            + apply (Hps2 c Hc). apply in_all_outputs. eauto. }
          split; [exact Hop|]. rewrite <- (Hdef c Hop).
          destruct (default_of (funcs p') c); [injection Hval as <-; reflexivity|discriminate].
      + intros c Hc. destruct (Hcov c Hc) as [v0 Hv]. apply (In_aget args c v0 Hv).
  Qed.

  (* ---------- the converse: what the original computes, the pipeline with the nested function computes,
     provided the arguments of the nested function have values ---------- *)
  Lemma F_args_ok n args : args_with (neval body pick n p' kw) (funcs p') kw F = Ok args -> args_ok args.
  Proof.
    intros Ea.
      unfold args_with in Ea. rewrite HF_params in Ea.
      pose proof (mapM_Forall2 _ (fun (po : str * str) (y : str * str) =>
                     fst y = snd po /\ arg_val (neval body pick n p' kw) (funcs p') kw F (fst po) = Ok (snd y)) _ _ Ea) as HF2.
      assert (HF2' : Forall2 (fun (po y : str * str) =>
                        fst y = snd po /\ arg_val (neval body pick n p' kw) (funcs p') kw F (fst po) = Ok (snd y))
                             (map (fun n0 : str => (n0, n0)) ps) args).
      { apply HF2. intros [c c'] y _ Ey0. cbn [fst snd] in *.
        destruct (arg_val (neval body pick n p' kw) (funcs p') kw F c) as [v0|]; cbn [bind] in Ey0; [|discriminate].
        injection Ey0 as <-. cbn. auto. }
      clear HF2.
      assert (Hentry : forall c v0, In (c, v0) args -> In c ps /\ arg_val (neval body pick n p' kw) (funcs p') kw F c = Ok v0).
      { clear -HF2'. remember (map (fun n0 : str => (n0, n0)) ps) as l eqn:El. revert ps El.
        induction HF2'; intros ps0 El c v0 Hin; [destruct Hin|].
        destruct ps0 as [|q ps1]; [discriminate|]. cbn in El. injection El as -> ->.
        destruct Hin as [Hy|Hin].
        - destruct H as [H1 H2]. subst y. cbn [fst snd] in H1, H2. subst q. split; [left; reflexivity|exact H2].
        - destruct (IHHF2' ps1 eq_refl c v0 Hin) as [A1 A2]. split; [right; exact A1|exact A2]. }
      assert (Hcov : forall c, In c ps -> exists v0, In (c, v0) args).
      { clear -HF2'. remember (map (fun n0 : str => (n0, n0)) ps) as l eqn:El. revert ps El.
        induction HF2'; intros ps0 El c Hin.
        - destruct ps0; [destruct Hin|discriminate].
        - destruct ps0 as [|q ps1]; [discriminate|]. cbn in El. injection El as -> ->.
          destruct Hin as [<-|Hin].
          + destruct H as [H1 _]. destruct y as [a b]. cbn in H1. subst. exists b. left. reflexivity.
          + destruct (IHHF2' ps1 eq_refl c Hin) as [v0 Hv]. exists v0. right. exact Hv. }
      split.
      + intros c v0 Hget. apply aget_In in Hget. destruct (Hentry c v0 Hget) as [Hc Hval]. split; [exact Hc|].
        unfold arg_val in Hval. rewrite HF_bound in Hval. cbn [aget] in Hval.
        destruct (aget kw c) as [v1|] eqn:Ek.
        { injection Hval as <-. left. exact Ek. }
        destruct (is_output (funcs p') c) eqn:Eo.
        * destruct (nest_sound n c v0 Hval) as [k Hk]. right. left. split; [exact Ek|]. split; [apply is_output_p'_p; exact Eo|]. eauto.
        * right. right. split; [exact Ek|].
          assert (Hop : is_output (funcs p) c = false).
          { destruct (is_output (funcs p) c) eqn:Eop; [|reflexivity]. exfalso.
            rewrite is_output_funcs in Eop. destruct (nproducer p c) as [z0|] eqn:Ez0; [|discriminate].
            apply nproducer_In in Ez0 as [Z1 Z2]. rewrite is_output_funcs in Eo.
            destruct (Hcover z0 Z1) as [Hr|Hf].
            + destruct (nproducer_exists p' c z0) as [w Ew]; [unfold p'; apply in_or_app; left; exact Hr|exact Z2|].
              rewrite Ew in Eo. discriminate.
            + apply (Hps2 c Hc). apply in_all_outputs. eauto. }
          split; [exact Hop|]. rewrite <- (Hdef c Hop).
          destruct (default_of (funcs p') c); [injection Hval as <-; reflexivity|discriminate].
      + intros c Hc. destruct (Hcov c Hc) as [v0 Hv]. apply (In_aget args c v0 Hv).
  Qed.

  Lemma neval_det n m o v v' : neval body pick n p kw o = Ok v -> neval body pick m p kw o = Ok v' -> v = v'.
  Proof.
    intros H1 H2. pose proof (neval_mono body pick n p kw o v H1 (Nat.max n m) (Nat.le_max_l n m)) as A.
    pose proof (neval_mono body pick m p kw o v' H2 (Nat.max n m) (Nat.le_max_r n m)) as B. congruence.
  Qed.

  Lemma nprod_fs g m : In g fs -> In m (outs (nf g)) -> nproducer fs m = Some g.
  Proof.
    intros H1 H2. destruct (nproducer_exists fs m g H1 H2) as [x E]. rewrite E. f_equal.
    apply nproducer_In in E as [E1 E2]. eapply Huniq; eauto.
  Qed.

  Variable Fargs : alist.
  Variable Mf : nat.
  Hypothesis HFargs : args_with (neval body pick Mf p' kw) (funcs p') kw F = Ok Fargs.

  (* inside the group: the inner pipeline, called with the arguments of the nested function, computes what p computes *)
  Lemma nest_inner_complete : forall n m v, In m (all_outputs (funcs fs)) -> neval body pick n p kw m = Ok v ->
    exists k, neval body pick k fs Fargs m = Ok v.
  Proof.
    pose proof (F_args_ok Mf Fargs HFargs) as [Hok1 Hok2].
    induction n as [|n IH]; intros m v Hm E; [discriminate|].
    apply in_all_outputs in Hm as (g & Hg & Hmo).
    cbn [neval] in E. rewrite (nproducer_p g m (Hfs g Hg) Hmo) in E.
    destruct (args_with (neval body pick n p kw) (funcs p) kw (nf g)) as [gargs|] eqn:Ea; cbn [bind] in E; [|discriminate].
    assert (HN : exists N, forall M, N <= M -> args_with (neval body pick M fs Fargs) (funcs fs) Fargs (nf g) = Ok gargs).
    { unfold args_with in *.
      apply (mapM_exists_fuel _ (fun M (po : str * str) =>
               do v0 <- arg_val (neval body pick M fs Fargs) (funcs fs) Fargs (nf g) (fst po); Ok (snd po, v0)) _ _ Ea).
      intros [cur orig] y Hco Ey. cbn [fst snd] in *.
      assert (Hc : In cur (pnames (nf g))).
      { unfold pnames. change cur with (fst (cur, orig)). apply in_map. exact Hco. }
      unfold arg_val in Ey. unfold arg_val.
      destruct (aget (bound (nf g)) cur) as [b|] eqn:Eb; [exists 0; intros M _; exact Ey|].
      assert (Hub : ahas (bound (nf g)) cur = false) by (unfold ahas; rewrite Eb; reflexivity).
      destruct (Hps1 g cur Hg Hc Hub) as [Hp|Hp].
      - (* a parameter of the nested function: the value it was resolved to is the value p uses *)
        destruct (Hok2 cur Hp) as [vc Evc]. destruct (Hok1 cur vc Evc) as [_ Hres].
        exists 0. intros M _. rewrite Evc.
        assert (Hy : y = (orig, vc)).
        { destruct Hres as [H|[(H1 & H2 & n' & H3)|(H1 & H2 & H3)]].
          - rewrite H in Ey. injection Ey as <-. reflexivity.
          - rewrite H1, H2 in Ey. destruct (neval body pick n p kw cur) as [w|] eqn:Ew; cbn [bind] in Ey; [|discriminate].
            injection Ey as <-. rewrite (neval_det n n' cur w vc Ew H3). reflexivity.
          - rewrite H1, H2, H3 in Ey. injection Ey as <-. reflexivity. }
        subst y. reflexivity.
      - (* produced inside the group *)
        assert (Hk0 : aget kw cur = None).
        { apply aget_None_keys. intros Hin. apply (Hkw cur Hin). exact Hp. }
        assert (Hop : is_output (funcs p) cur = true).
        { apply in_all_outputs in Hp as (z & Z1 & Z2). rewrite is_output_funcs, (nproducer_p z cur (Hfs z Z1) Z2). reflexivity. }
        rewrite Hk0, Hop in Ey.
        destruct (neval body pick n p kw cur) as [w|] eqn:Ew; cbn [bind] in Ey; [|discriminate].
        destruct (IH cur w Hp Ew) as [k Hk].
        assert (Ha0 : aget Fargs cur = None).
        { destruct (aget Fargs cur) as [x|] eqn:Ex; [|reflexivity]. exfalso.
          destruct (Hok1 cur x Ex) as [Hin _]. apply (Hps2 cur Hin). exact Hp. }
        assert (Hof : is_output (funcs fs) cur = true).
        { apply in_all_outputs in Hp as (z & Z1 & Z2). rewrite is_output_funcs, (nprod_fs z cur Z1 Z2). reflexivity. }
        exists k. intros M HM. rewrite Ha0, Hof, (neval_mono body pick k fs Fargs cur w Hk M HM). exact Ey. }
    destruct HN as [N HNn]. exists (S (Nat.max N n)). cbn [neval]. rewrite (nprod_fs g m Hg Hmo).
    rewrite (HNn (Nat.max N n)) by lia. cbn [bind].
    apply (call_transfer g gargs m v n (Nat.max N n)); [lia|exact E].
  Qed.

  (* nest_complete *)
  Theorem nest_complete : forall n o v, neval body pick n p kw o = Ok v -> In o (all_outputs (funcs p')) ->
    exists m, neval body pick m p' kw o = Ok v.
  Proof.
    induction n as [|n IH]; intros o v E Ho; [discriminate|].
    apply in_all_outputs in Ho as (x & Hx & Hox). unfold p' in Hx. apply in_app_or in Hx as [Hx|[<-|[]]].
    - (* a function outside the group *)
      assert (Ep' : nproducer p' o = Some x).
      { unfold p'. rewrite nproducer_app. destruct (nproducer_exists rest o x Hx Hox) as [y Ey]. rewrite Ey. f_equal.
        apply nproducer_In in Ey as [Y1 Y2]. symmetry. eapply Huniq; eauto. }
      cbn [neval] in E. rewrite (nproducer_p x o (Hrest x Hx) Hox) in E.
      destruct (args_with (neval body pick n p kw) (funcs p) kw (nf x)) as [args|] eqn:Ea; cbn [bind] in E; [|discriminate].
      assert (HN : exists N, forall M, N <= M -> args_with (neval body pick M p' kw) (funcs p') kw (nf x) = Ok args).
      { unfold args_with in *.
        apply (mapM_exists_fuel _ (fun M (po : str * str) =>
                 do v0 <- arg_val (neval body pick M p' kw) (funcs p') kw (nf x) (fst po); Ok (snd po, v0)) _ _ Ea).
        intros [cur orig] y Hco Ey. cbn [fst snd] in *.
        assert (Hc : In cur (pnames (nf x))).
        { unfold pnames. change cur with (fst (cur, orig)). apply in_map. exact Hco. }
        unfold arg_val in Ey. unfold arg_val.
        destruct (aget (bound (nf x)) cur) as [b|] eqn:Eb; [exists 0; intros M _; exact Ey|].
        destruct (aget kw cur) as [v1|] eqn:Ek; [exists 0; intros M _; exact Ey|].
        assert (Hub : ahas (bound (nf x)) cur = false) by (unfold ahas; rewrite Eb; reflexivity).
        destruct (is_output (funcs p) cur) eqn:Eo.
        - destruct (neval body pick n p kw cur) as [w|] eqn:Ew; cbn [bind] in Ey; [|discriminate].
          assert (Hret : In cur (all_outputs (funcs p'))).
          { rewrite is_output_funcs in Eo. destruct (nproducer p cur) as [z|] eqn:Ez; [|discriminate].
            apply nproducer_In in Ez as [Z1 Z2]. apply in_all_outputs. destruct (Hcover z Z1) as [Hr|Hf].
            + exists z. split; [unfold p'; apply in_or_app; left; exact Hr|exact Z2].
            + exists nd. split; [unfold p'; apply in_or_app; right; left; reflexivity|].
              cbn [nf nd]. rewrite HF_outs. apply (Hhidden x cur Hx Hc Hub). apply in_all_outputs. eauto. }
          destruct (IH cur w Ew Hret) as [k Hk]. exists k. intros M HM.
          assert (Eo' : is_output (funcs p') cur = true).
          { apply in_all_outputs in Hret as (z & Z1 & Z2). rewrite is_output_funcs.
            destruct (nproducer_exists p' cur z Z1 Z2) as [z' ->]. reflexivity. }
          rewrite Eo', (neval_mono body pick k p' kw cur w Hk M HM). exact Ey.
        - exists 0. intros M _.
          assert (Eo' : is_output (funcs p') cur = false).
          { destruct (is_output (funcs p') cur) eqn:E1; [|reflexivity]. apply is_output_p'_p in E1. congruence. }
          rewrite Eo', (Hdef cur Eo). exact Ey. }
      destruct HN as [N HNn]. exists (S (Nat.max N n)). cbn [neval]. rewrite Ep'.
      rewrite (HNn (Nat.max N n)) by lia. cbn [bind].
      apply (call_transfer x args o v n (Nat.max N n)); [lia|exact E].
    - (* an output of the nested function *)
      cbn [nf nd] in Hox. rewrite HF_outs in Hox.
      assert (Ep' : nproducer p' o = Some nd).
      { unfold p'. rewrite nproducer_app. destruct (nproducer rest o) as [y|] eqn:Ey.
        - exfalso. apply nproducer_In in Ey as [Y1 Y2]. pose proof (Hoo o Hox) as Hg.
          apply in_all_outputs in Hg as (g & G1 & G2).
          apply (Hdisj y g Y1 G1). eapply Huniq; eauto.
        - unfold nproducer. cbn [find]. cbn [nf nd]. rewrite HF_outs.
          rewrite (proj2 (mem_str_In o oo) Hox). reflexivity. }
      destruct (nest_inner_complete (S n) o v (Hoo o Hox) E) as [k Hk].
      exists (S (Nat.max Mf k)). cbn [neval]. rewrite Ep'. cbn [nf nd].
      rewrite (args_with_mono _ (neval body pick (Nat.max Mf k) p' kw) _ _ _ _ HFargs).
      2:{ intros c v0 Hc. apply (neval_mono body pick Mf p' kw c v0 Hc). lia. }
      cbn [bind ninner nd]. rewrite (orig_out_nd o Hox). apply (neval_mono body pick k fs Fargs o v Hk). lia.
  Qed.
End Nest.

(* ------------------------------------------------------------------ root arguments keep their defaults *)
Lemma aget_In' (d : alist) k v : aget d k = Some v -> In (k, v) d.
Proof.
  induction d as [|[k0 v0] d IH]; cbn; [discriminate|]. destruct (str_eqb k k0) eqn:E.
  - apply str_eqb_eq in E. subst. intros H. injection H as <-. left. reflexivity.
  - intros H. right. apply IH. exact H.
Qed.
Lemma In_aget' (d : alist) k v : In (k, v) d -> exists v0, aget d k = Some v0.
Proof.
  induction d as [|[k0 v0] d IH]; cbn; [intros []|]. intros [H|H].
  - injection H as -> ->. rewrite str_eqb_refl. eauto.
  - destruct (str_eqb k k0); [eauto|]. apply IH. exact H.
Qed.
Lemma in_pdefaults (P : pipeline) c v :
  In (c, v) (pdefaults P) <->
  exists f, In f P /\ In (c, v) (dflt f) /\ ahas (bound f) c = false /\ is_output P c = false.
Proof.
  unfold pdefaults. rewrite in_flat_map. split.
  - intros (f & Hf & H). apply filter_In in H as [H1 H2]. cbn [fst] in H2. apply andb_true_iff in H2 as [A B].
    apply negb_true_iff in A, B. eauto 6.
  - intros (f & Hf & H1 & A & B). exists f. split; [exact Hf|]. apply filter_In. split; [exact H1|].
    cbn [fst]. rewrite A, B. reflexivity.
Qed.

Lemma aget_all_vals (l : alist) c v : (forall v', In (c, v') l -> v' = v) -> (exists v', In (c, v') l) ->
  aget l c = Some v.
Proof.
  intros Hall [v' Hin]. destruct (aget l c) as [w|] eqn:E.
  - apply aget_In' in E. rewrite (Hall w E). reflexivity.
  - destruct (In_aget' l c v' Hin) as [w Hw]. congruence.
Qed.
Lemma aget_no_entry (l : alist) c : (forall v', ~ In (c, v') l) -> aget l c = None.
Proof. intros H. destruct (aget l c) as [w|] eqn:E; [|reflexivity]. apply aget_In' in E. exfalso. eapply H; eauto. Qed.

Lemma consistent_all_vals (P : pipeline) c v v' : consistent_defaults P = true ->
  In (c, v) (pdefaults P) -> In (c, v') (pdefaults P) -> v' = v.
Proof.
  unfold consistent_defaults. intros H H1 H2. rewrite forallb_forall in H.
  pose proof (H _ H1) as A. pose proof (H _ H2) as B. cbn [fst snd] in A, B.
  destruct (aget (pdefaults P) c) as [w|]; [|discriminate].
  apply str_eqb_eq in A, B. congruence.
Qed.

Lemma in_rev_aget (l : alist) c v : aget (rev l) c = Some v -> In (c, v) l.
Proof. intros E. apply aget_In' in E. apply in_rev. exact E. Qed.

Lemma In_akeys_local (d : alist) k v : In (k, v) d -> In k (akeys d).
Proof. intros H. unfold akeys. change k with (fst (k, v)). apply in_map. exact H. Qed.

Section NestDefaults.
  Variables (p rest fs : npipe) (F : pfunc) (oo ps : list str).
  Let nd := Node F oo (Some fs).
  Let p' := rest ++ [nd].
  Hypothesis Huniq : forall n1 n2 o, In n1 p -> In n2 p -> In o (outs (nf n1)) -> In o (outs (nf n2)) -> n1 = n2.
  Hypothesis Hrest : incl rest p.
  Hypothesis Hfs : incl fs p.
  Hypothesis Hcover : forall n, In n p -> In n rest \/ In n fs.
  Hypothesis HF_outs : outs F = oo.
  Hypothesis HF_bound : bound F = [].
  Hypothesis Hoo : forall o, In o oo -> In o (all_outputs (funcs fs)).
  Hypothesis Hps1 : forall g c, In g fs -> In c (pnames (nf g)) -> ahas (bound (nf g)) c = false ->
                                In c ps \/ In c (all_outputs (funcs fs)).
  (* the defaults of the nested function: the inner pipeline's defaults of its parameters *)
  Hypothesis HF_dflt : dflt F = flat_map (fun n => match aget (rev (pdefaults (funcs fs))) n with
                                                   | Some v => [(n, v)] | None => [] end) ps.
  Hypothesis Hcons : consistent_defaults (funcs p) = true.
  Hypothesis Hdk : forall n k, In n p -> In k (akeys (dflt (nf n))) -> In k (pnames (nf n)).

  Lemma not_output_p' c : is_output (funcs p) c = false -> is_output (funcs p') c = false.
  Proof.
    intros H. destruct (is_output (funcs p') c) eqn:E; [|reflexivity]. exfalso.
    rewrite is_output_funcs in E. destruct (nproducer p' c) as [x|] eqn:Ex; [|discriminate].
    apply nproducer_In in Ex as [E1 E2]. unfold p' in E1. apply in_app_or in E1 as [E1|[<-|[]]].
    - rewrite is_output_funcs in H. destruct (nproducer_exists p c x (Hrest x E1) E2) as [y Ey]. rewrite Ey in H. discriminate.
    - cbn [nf nd] in E2. rewrite HF_outs in E2. apply Hoo in E2. apply in_all_outputs in E2 as (g & Hg & Ho).
      rewrite is_output_funcs in H. destruct (nproducer_exists p c g (Hfs g Hg) Ho) as [y Ey]. rewrite Ey in H. discriminate.
  Qed.
  Lemma not_output_fs c : is_output (funcs p) c = false -> is_output (funcs fs) c = false.
  Proof.
    intros H. destruct (is_output (funcs fs) c) eqn:E; [|reflexivity]. exfalso.
    rewrite is_output_funcs in E. destruct (nproducer fs c) as [x|] eqn:Ex; [|discriminate].
    apply nproducer_In in Ex as [E1 E2]. rewrite is_output_funcs in H.
    destruct (nproducer_exists p c x (Hfs x E1) E2) as [y Ey]. rewrite Ey in H. discriminate.
  Qed.

  (* every default entry of p' for a root argument c is a default entry of p *)
  Lemma pdefaults_p'_p c v : is_output (funcs p) c = false -> In (c, v) (pdefaults (funcs p')) -> In (c, v) (pdefaults (funcs p)).
  Proof.
    intros Ho H. apply in_pdefaults in H as (f & Hf & Hd & Hb & _).
    unfold funcs, p' in Hf. rewrite map_app in Hf. apply in_app_or in Hf as [Hf|[<-|[]]].
    - apply in_pdefaults. exists f. split; [|auto]. apply in_map_iff in Hf as (x & <- & Hx). apply in_map. apply Hrest. exact Hx.
    - cbn [nf nd] in Hd. rewrite HF_dflt in Hd. apply in_flat_map in Hd as (n & Hn & Hd).
      destruct (aget (rev (pdefaults (funcs fs))) n) as [w|] eqn:Ew; [|destruct Hd].
      destruct Hd as [Hd|[]]. injection Hd as -> ->. apply in_rev_aget in Ew.
      apply in_pdefaults in Ew as (g & Hg & Gd & Gb & _). apply in_pdefaults. exists g. split; [|auto].
      apply in_map_iff in Hg as (x & <- & Hx). apply in_map. apply Hfs. exact Hx.
  Qed.

  (* and if p has a default entry for c then so does p' *)
  Lemma pdefaults_p_p' c v : is_output (funcs p) c = false -> In (c, v) (pdefaults (funcs p)) ->
    exists v', In (c, v') (pdefaults (funcs p')).
  Proof.
    intros Ho H. apply in_pdefaults in H as (f & Hf & Hd & Hb & _).
    apply in_map_iff in Hf as (x & <- & Hx). destruct (Hcover x Hx) as [Hr|Hg].
    - exists v. apply in_pdefaults. exists (nf x). split; [|split; [exact Hd|split; [exact Hb|apply not_output_p'; exact Ho]]].
      unfold funcs, p'. rewrite map_app. apply in_or_app. left. apply in_map. exact Hr.
    - (* x is in the group: c is one of the nested function's parameters, with the inner default *)
      assert (Hc : In c (pnames (nf x))) by (apply (Hdk x c Hx); eapply In_akeys_local; eauto).
      assert (Hps : In c ps).
      { destruct (Hps1 x c Hg Hc Hb) as [A|A]; [exact A|]. exfalso.
        apply in_all_outputs in A as (g & G1 & G2). rewrite is_output_funcs in Ho.
        destruct (nproducer_exists p c g (Hfs g G1) G2) as [y Ey]. rewrite Ey in Ho. discriminate. }
      assert (Hin : In (c, v) (pdefaults (funcs fs))).
      { apply in_pdefaults. exists (nf x). split; [apply in_map; exact Hg|]. split; [exact Hd|]. split; [exact Hb|].
        apply not_output_fs. exact Ho. }
      destruct (In_aget' (rev (pdefaults (funcs fs))) c v) as [w Hw]; [apply in_rev; rewrite rev_involutive; exact Hin|].
      exists w. apply in_pdefaults. exists F. split; [|split; [|split; [rewrite HF_bound; reflexivity|apply not_output_p'; exact Ho]]].
      + unfold funcs, p'. rewrite map_app. apply in_or_app. right. left. reflexivity.
      + rewrite HF_dflt. apply in_flat_map. exists c. split; [exact Hps|]. rewrite Hw. left. reflexivity.
  Qed.

  Lemma nest_defaults c : is_output (funcs p) c = false -> default_of (funcs p') c = default_of (funcs p) c.
  Proof.
    intros Ho. unfold default_of. destruct (aget (pdefaults (funcs p)) c) as [v|] eqn:E.
    - apply aget_In' in E. apply aget_all_vals.
      + intros v' H. apply (pdefaults_p'_p c v' Ho) in H. eapply consistent_all_vals; eauto.
      + eapply pdefaults_p_p'; eauto.
    - apply aget_no_entry. intros v' H. apply (pdefaults_p'_p c v' Ho) in H.
      destruct (In_aget' _ _ _ H) as [w Hw]. congruence.
  Qed.
End NestDefaults.

(* ------------------------------------------------------------------ Model/Rewrite.nest builds such a split *)
Definition group (p : npipe) (names : list str) : npipe :=
  flat_map (fun o => match nproducer p o with Some nd => [nd] | None => [] end) names.
Definition nested_outs (fs : npipe) (new_out : option (list str)) : list str :=
  match new_out with Some l => l | None => sort_strs (dedup (all_outputs (funcs fs))) end.

Lemma mapM_group p names fs :
  mapM (fun o => match nproducer p o with Some nd => Ok nd | None => Err KeyError end) names = Ok fs ->
  fs = group p names.
Proof.
  revert fs. induction names as [|o names IH]; intros fs E; cbn in *.
  - injection E as <-. reflexivity.
  - destruct (nproducer p o) as [nd|]; [|discriminate]. cbn in E.
    destruct (mapM _ names) as [r|]; [|discriminate]. cbn in E. injection E as <-. cbn. f_equal. apply IH. reflexivity.
Qed.

Lemma group_incl p names : incl (group p names) p.
Proof.
  intros x Hx. unfold group in Hx. apply in_flat_map in Hx as (o & _ & Hx).
  destruct (nproducer p o) as [nd|] eqn:E; [|destruct Hx]. destruct Hx as [<-|[]]. apply nproducer_In in E. tauto.
Qed.

Lemma mk_nested_shape fs new_out nd : mk_nested fs new_out = Ok nd ->
  exists F ps, nd = Node F (nested_outs fs new_out) (Some fs)
    /\ outs F = nested_outs fs new_out /\ params F = map (fun n => (n, n)) ps /\ bound F = []
    /\ dflt F = flat_map (fun n => match aget (rev (pdefaults (funcs fs))) n with Some v => [(n, v)] | None => [] end) ps
    /\ (forall o, In o (nested_outs fs new_out) -> In o (all_outputs (funcs fs)))
    /\ (forall g c, In g fs -> In c (pnames (nf g)) -> ahas (bound (nf g)) c = false ->
                    In c ps \/ In c (all_outputs (funcs fs)))
    /\ (forall c, In c ps -> ~ In c (all_outputs (funcs fs))).
Proof.
  unfold mk_nested. destruct fs as [|a [|b fs0]]; try discriminate.
  set (fs := a :: b :: fs0). destruct (add_all [] fs) as [inner|] eqn:Ei; cbn [bind]; [|discriminate].
  apply add_all_ok in Ei. cbn [app] in Ei. subst inner.
  set (all_out := sort_strs (dedup (all_outputs (funcs fs)))).
  set (oo := match new_out with Some l => l | None => all_out end).
  assert (Hall : forall x, In x all_out <-> In x (all_outputs (funcs fs))).
  { intros x. unfold all_out, sort_strs. rewrite sort_In, dedup_In. reflexivity. }
  assert (Hgo : (if negb (subset_str oo all_out) then Err ValueError
                 else Ok (Node (mkf (nested_name oo) oo
                                    (map (fun n => (n, n)) (sort_strs (diff_str (dedup (flat_map unbound_params (funcs fs))) all_out)))
                                    (flat_map (fun n => match aget (rev (pdefaults (funcs fs))) n with Some v => [(n, v)] | None => [] end)
                                              (sort_strs (diff_str (dedup (flat_map unbound_params (funcs fs))) all_out)))
                                    [] (existsb cached (funcs fs))) oo (Some fs))) = Ok nd ->
                exists F ps, nd = Node F (nested_outs fs new_out) (Some fs)
                  /\ outs F = nested_outs fs new_out /\ params F = map (fun n => (n, n)) ps /\ bound F = []
                  /\ dflt F = flat_map (fun n => match aget (rev (pdefaults (funcs fs))) n with Some v => [(n, v)] | None => [] end) ps
                  /\ (forall o, In o (nested_outs fs new_out) -> In o (all_outputs (funcs fs)))
                  /\ (forall g c, In g fs -> In c (pnames (nf g)) -> ahas (bound (nf g)) c = false ->
                                  In c ps \/ In c (all_outputs (funcs fs)))
                  /\ (forall c, In c ps -> ~ In c (all_outputs (funcs fs)))).
  { destruct (subset_str oo all_out) eqn:Es; cbn [negb]; [|discriminate]. intros E. injection E as <-.
    eexists _, _. split; [reflexivity|]. split; [reflexivity|]. split; [reflexivity|]. split; [reflexivity|].
    split; [reflexivity|]. split; [|split].
    - intros o Ho. apply Hall. apply subset_str_incl in Es. apply Es. exact Ho.
    - intros g c Hg Hc Hb.
      assert (Hu : In c (flat_map unbound_params (funcs fs))).
      { apply in_flat_map. exists (nf g). split; [unfold funcs; apply in_map; exact Hg|].
        unfold unbound_params. apply filter_In. split; [exact Hc|]. rewrite Hb. reflexivity. }
      destruct (mem_str c all_out) eqn:Em.
      + right. apply Hall. apply mem_str_In. exact Em.
      + left. unfold sort_strs. apply sort_In. apply diff_str_In. split; [apply dedup_In; exact Hu|].
        apply mem_str_not_In. exact Em.
    - intros c Hc. unfold sort_strs in Hc. apply sort_In in Hc. apply diff_str_In in Hc as [_ Hc].
      intros Hin. apply Hc. apply Hall. exact Hin. }
  destruct (leaf_funcs (funcs fs)) as [|l1 [|l2 ls]]; [exact Hgo|exact Hgo|discriminate].
Qed.

Section NestOp.
  Variable body : str -> alist -> result str.
  Variable pick : str -> str -> str.

  (* nest_preserves (soundness direction): every value that the pipeline obtained by nest_funcs computes is the
     value the original pipeline computes for that output and these keywords *)
  Theorem nest_preserves names new_out p p' kw :
    nest names new_out p = Ok p' ->
    (* the pipeline has unique, non-empty output names *)
    (forall n1 n2 o, In n1 p -> In n2 p -> In o (outs (nf n1)) -> In o (outs (nf n2)) -> n1 = n2) ->
    (forall n, In n p -> outs (nf n) <> []) ->
    let fs := group p names in
    (* the request does not supply a name that is produced inside the group *)
    (forall k, In k (akeys kw) -> ~ In k (all_outputs (funcs fs))) ->
    (* every output of the group that a function outside consumes (unbound) stays an output *)
    (forall a c, In a p -> ~ In a fs -> In c (pnames (nf a)) -> ahas (bound (nf a)) c = false ->
                 In c (all_outputs (funcs fs)) -> In c (nested_outs fs new_out)) ->
    (* defaults are declared for parameters and are consistent (part of what construction checks) *)
    (forall n k, In n p -> In k (akeys (dflt (nf n))) -> In k (pnames (nf n))) ->
    consistent_defaults (funcs p) = true ->
    forall n o v, neval body pick n p' kw o = Ok v -> exists m, neval body pick m p kw o = Ok v.
  Proof.
    intros E Huniq Hne fs Hkw Hhid Hdk Hcons. unfold nest in E.
    destruct (mapM _ names) as [fs0|] eqn:Em; cbn [bind] in E; [|discriminate].
    apply mapM_group in Em. fold fs in Em. subst fs0.
    destruct (negb (nodup_strb (map nid fs))); [discriminate|].
    destruct (mk_nested fs new_out) as [nd|] eqn:En; cbn [bind] in E; [|discriminate].
    apply add_node_ok in E. subst p'.
    destruct (mk_nested_shape fs new_out nd En) as (F & ps & -> & HFo & HFp & HFb & HFd & Hoo & Hps1 & Hps2).
    set (rest := filter (fun x => negb (mem_str (nid x) (map nid fs))) p) in *.
    assert (Hfs : incl fs p) by apply group_incl.
    assert (Hnid : forall a b, In a p -> In b p -> nid a = nid b -> a = b).
    { intros a b Ha Hb Hab. unfold nid, fid in Hab.
      destruct (outs (nf a)) as [|oa ta] eqn:Ea; [exfalso; apply (Hne a Ha); exact Ea|].
      destruct (outs (nf b)) as [|ob tb] eqn:Eb; [exfalso; apply (Hne b Hb); exact Eb|].
      cbn in Hab. subst ob. apply (Huniq a b oa Ha Hb); [rewrite Ea; left; reflexivity|rewrite Eb; left; reflexivity]. }
    assert (Hrest : incl rest p).
    { intros x Hx. unfold rest in Hx. apply filter_In in Hx. tauto. }
    assert (Hcover : forall x, In x p -> In x rest \/ In x fs).
    { intros x Hx. destruct (mem_str (nid x) (map nid fs)) eqn:Emem.
      + right. apply mem_str_In in Emem. apply in_map_iff in Emem as (g & Hg1 & Hg2).
        rewrite (Hnid x g Hx (Hfs g Hg2) (eq_sym Hg1)). exact Hg2.
      + left. unfold rest. apply filter_In. split; [exact Hx|]. rewrite Emem. reflexivity. }
    assert (Hdisj : forall a b, In a rest -> In b fs -> a <> b).
    { intros a b Ha Hb Hab. subst b. unfold rest in Ha. apply filter_In in Ha as [_ Ha].
      apply negb_true_iff in Ha. apply mem_str_not_In in Ha. apply Ha. apply in_map. exact Hb. }
    assert (Hhidden : forall a c, In a rest -> In c (pnames (nf a)) -> ahas (bound (nf a)) c = false ->
                                  In c (all_outputs (funcs fs)) -> In c (nested_outs fs new_out)).
    { intros a c Ha Hc Hb Hin. unfold rest in Ha. apply filter_In in Ha as [Ha1 Ha2].
      apply (Hhid a c Ha1); auto. intros Hfa. apply negb_true_iff in Ha2. apply mem_str_not_In in Ha2.
      apply Ha2. apply in_map. exact Hfa. }
    assert (Hdef : forall c, is_output (funcs p) c = false ->
                             default_of (funcs (rest ++ [Node F (nested_outs fs new_out) (Some fs)])) c = default_of (funcs p) c).
    { intros c Hc. eapply (nest_defaults p rest fs F (nested_outs fs new_out) ps); eassumption. }
    exact (nest_sound body pick p rest fs F (nested_outs fs new_out) ps kw Huniq Hrest Hfs Hcover HFo HFp HFb
                      Hoo Hps1 Hps2 Hkw Hhidden Hdef).
  Qed.
  (* nest_preserves, completeness direction: if the arguments of the new nested function (the last function of
     the rewritten pipeline) have values, every retained output the original computes is computed alike *)
  Definition dummy_node : node := Node (mkf [] [] [] [] [] false) [] None.
  Theorem nest_preserves_complete names new_out p p' kw :
    nest names new_out p = Ok p' ->
    (forall n1 n2 o, In n1 p -> In n2 p -> In o (outs (nf n1)) -> In o (outs (nf n2)) -> n1 = n2) ->
    (forall n, In n p -> outs (nf n) <> []) ->
    let fs := group p names in
    (forall k, In k (akeys kw) -> ~ In k (all_outputs (funcs fs))) ->
    (forall a c, In a p -> ~ In a fs -> In c (pnames (nf a)) -> ahas (bound (nf a)) c = false ->
                 In c (all_outputs (funcs fs)) -> In c (nested_outs fs new_out)) ->
    (forall n k, In n p -> In k (akeys (dflt (nf n))) -> In k (pnames (nf n))) ->
    consistent_defaults (funcs p) = true ->
    (exists M args, args_with (neval body pick M p' kw) (funcs p') kw (nf (last p' dummy_node)) = Ok args) ->
    forall n o v, neval body pick n p kw o = Ok v -> In o (all_outputs (funcs p')) ->
                  exists m, neval body pick m p' kw o = Ok v.
  Proof.
    intros E Huniq Hne fs Hkw Hhid Hdk Hcons HFa. unfold nest in E.
    destruct (mapM _ names) as [fs0|] eqn:Em; cbn [bind] in E; [|discriminate].
    apply mapM_group in Em. fold fs in Em. subst fs0.
    destruct (negb (nodup_strb (map nid fs))); [discriminate|].
    destruct (mk_nested fs new_out) as [nd|] eqn:En; cbn [bind] in E; [|discriminate].
    apply add_node_ok in E. subst p'.
    destruct (mk_nested_shape fs new_out nd En) as (F & ps & -> & HFo & HFp & HFb & HFd & Hoo & Hps1 & Hps2).
    set (rest := filter (fun x => negb (mem_str (nid x) (map nid fs))) p) in *.
    assert (Hfs : incl fs p) by apply group_incl.
    assert (Hnid : forall a b, In a p -> In b p -> nid a = nid b -> a = b).
    { intros a b Ha Hb Hab. unfold nid, fid in Hab.
      destruct (outs (nf a)) as [|oa ta] eqn:Ea; [exfalso; apply (Hne a Ha); exact Ea|].
      destruct (outs (nf b)) as [|ob tb] eqn:Eb; [exfalso; apply (Hne b Hb); exact Eb|].
      cbn in Hab. subst ob. apply (Huniq a b oa Ha Hb); [rewrite Ea; left; reflexivity|rewrite Eb; left; reflexivity]. }
    assert (Hrest : incl rest p).
    { intros x Hx. unfold rest in Hx. apply filter_In in Hx. tauto. }
    assert (Hcover : forall x, In x p -> In x rest \/ In x fs).
    { intros x Hx. destruct (mem_str (nid x) (map nid fs)) eqn:Emem.
      + right. apply mem_str_In in Emem. apply in_map_iff in Emem as (g & Hg1 & Hg2).
        rewrite (Hnid x g Hx (Hfs g Hg2) (eq_sym Hg1)). exact Hg2.
      + left. unfold rest. apply filter_In. split; [exact Hx|]. rewrite Emem. reflexivity. }
    assert (Hdisj : forall a b, In a rest -> In b fs -> a <> b).
    { intros a b Ha Hb Hab. subst b. unfold rest in Ha. apply filter_In in Ha as [_ Ha].
      apply negb_true_iff in Ha. apply mem_str_not_In in Ha. apply Ha. apply in_map. exact Hb. }
    assert (Hhidden : forall a c, In a rest -> In c (pnames (nf a)) -> ahas (bound (nf a)) c = false ->
                                  In c (all_outputs (funcs fs)) -> In c (nested_outs fs new_out)).
    { intros a c Ha Hc Hb Hin. unfold rest in Ha. apply filter_In in Ha as [Ha1 Ha2].
      apply (Hhid a c Ha1); auto. intros Hfa. apply negb_true_iff in Ha2. apply mem_str_not_In in Ha2.
      apply Ha2. apply in_map. exact Hfa. }
    assert (Hdef : forall c, is_output (funcs p) c = false ->
                             default_of (funcs (rest ++ [Node F (nested_outs fs new_out) (Some fs)])) c = default_of (funcs p) c).
    { intros c Hc. eapply (nest_defaults p rest fs F (nested_outs fs new_out) ps); eassumption. }
    destruct HFa as (M & args & HFargs). rewrite last_last in HFargs. cbn [nf] in HFargs.
    exact (nest_complete body pick p rest fs F (nested_outs fs new_out) ps kw Huniq Hrest Hfs Hcover Hdisj HFo HFp HFb
                         Hoo Hps1 Hps2 Hkw Hhidden Hdef args M HFargs).
  Qed.
End NestOp.

