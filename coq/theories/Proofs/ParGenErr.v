(* Which error surfaces: when the sequential run fails in a generation whose submission succeeds and whose
   library-side steps (output key, placement, dumps) cannot fail, the failure is that of the FIRST FAILING TASK in
   submission order (argument selection, the user function raising, a wrong number of outputs) -- and for every
   schedule the parallel run fails with the same error class. *)
From Coq Require Import Permutation.
From Verif Require Import Base.Prelude Base.StrUtil Base.Index Base.NdArr Model.MapSpec Model.MapSpecSpec
  Model.MapRun Model.ParGen
  Proofs.IndexFacts Proofs.StrFacts Proofs.ListFacts Proofs.PlaceFacts Proofs.MapSpecFacts Proofs.SelectFacts
  Proofs.ParGenFacts.

Lemma mapM_all_ok {A B} (F : A -> result B) l : (forall x, In x l -> exists y, F x = Ok y) -> exists r, mapM F l = Ok r.
Proof.
  induction l as [|x l IH]; intros H; cbn [mapM]; [eauto|].
  destruct (H x (or_introl eq_refl)) as [y ->]. destruct IH as [r ->]; [intros z Hz; apply H; now right|]. cbn [bind]. eauto.
Qed.

Section ErrMapped.
  Variable body : mfunc -> env -> result (list val).
  Variable dis : str -> bool.
  Variables (f : mfunc) (ms : mapspec) (kw : env) (sh : list nat) (mask : list bool).
  Notation ext := (ext_of mask sh).
  Notation k := (length (fouts f)).
  Notation n := (prod (ext_of mask sh)).
  Notation p := (PMapped f ms kw sh mask).

  (* the library's own steps for an element whose task succeeded cannot fail *)
  Definition steps_ok : Prop :=
    forall i sel outs, i < n -> select_kwargs ms kw ext i = Ok sel -> body f sel = Ok outs -> length outs = k ->
      output_key ms ext i = Ok (unravel ext i)
      /\ forall v, In v outs ->
           (exists l, dump_items sh mask (unravel ext i) v = Ok l) /\ (forall arr, exists arr', place sh mask i v arr = Ok arr').

  Lemma dumps_for_total w i outs :
    output_key ms ext i = Ok (unravel ext i) ->
    (forall v, In v outs -> exists l, dump_items sh mask (unravel ext i) v = Ok l) ->
    exists evs, dumps_for dis w f ms sh mask i outs = Ok evs.
  Proof.
    intros Hk Hd. unfold dumps_for. destruct (filter _ _) as [|ov0 sel] eqn:Ef; [eauto|].
    rewrite Hk. cbn [bind]. apply mapM_all_ok. intros ov Hov. rewrite <- Ef in Hov. apply filter_In in Hov as [Hov _].
    destruct (Hd (snd ov)) as [l Hl]; [destruct ov; eapply in_combine_r; exact Hov|]. rewrite Hl. cbn [bind]. eauto.
  Qed.

  Lemma seq_err_task l : forall A0 S0 e,
    steps_ok -> (forall i, In i l -> i < n) -> length S0 = k ->
    fold_left (seq_step body f ms kw sh mask) l (Ok (A0, S0)) = Err e ->
    mapM (fun i => oc_res (run_task body dis (p, Some i))) l = Err e.
  Proof.
    set (R := fun i => oc_res (run_task body dis (p, Some i))).
    induction l as [|i l IH]; intros A0 S0 e Hok Hlt HS H; cbn [fold_left] in H; [discriminate|].
    cbn [mapM]. unfold R at 1. cbn [run_task]. unfold seq_step at 2 in H. cbn [bind fst snd] in H.
    destruct (select_kwargs ms kw ext i) as [sel|e1] eqn:Es; cbn [bind] in H.
    2:{ rewrite seq_step_err in H. injection H as <-. reflexivity. }
    destruct (body f sel) as [outs|e1] eqn:Eb; cbn [bind] in H.
    2:{ rewrite seq_step_err in H. injection H as <-. reflexivity. }
    destruct (length outs =? k) eqn:El; cbn [negb] in H |- *.
    2:{ rewrite seq_step_err in H. injection H as <-. reflexivity. }
    apply Nat.eqb_eq in El.
    destruct (Hok i sel outs (Hlt i (or_introl eq_refl)) Es Eb El) as [Hk Hv].
    destruct (dumps_for_total true i outs Hk (fun v Hin => proj1 (Hv v Hin))) as [evs Hevs].
    rewrite Hevs. cbn [oc_res bind].
    rewrite Hk in H. cbn [bind] in H.
    destruct (mapM_all_ok (fun av : list str * val => place sh mask i (snd av) (fst av)) (combine A0 outs)) as [A1 HA1].
    { intros [a v] Hin. cbn [fst snd]. apply (proj2 (Hv v (in_combine_r _ _ _ _ Hin))). }
    rewrite HA1 in H. cbn [bind] in H.
    destruct (mapM_all_ok (fun sv : sto * val => sto_dump sh mask (unravel ext i) (snd sv) (fst sv)) (combine S0 outs)) as [S1 HS1].
    { intros [s0 v] Hin. cbn [fst snd]. destruct (proj1 (Hv v (in_combine_r _ _ _ _ Hin))) as [l' Hl'].
      rewrite (sto_dump_from_items _ _ _ _ _ s0 Hl'). eauto. }
    rewrite HS1 in H. cbn [bind] in H.
    rewrite (IH A1 S1 e Hok (fun j Hj => Hlt j (or_intror Hj))); [reflexivity| |exact H].
    rewrite (mapM_length _ _ _ HS1), combine_length. lia.
  Qed.
End ErrMapped.

Definition prep_steps_ok (body : mfunc -> env -> result (list val)) (p : prep) : Prop :=
  match p with PMapped f ms kw sh mask => steps_ok body f ms kw sh mask | PSingle _ _ => True end.

Section ErrGen.
  Variable body : mfunc -> env -> result (list val).
  Variable dis : str -> bool.
  Variable preps_all : list prep.
  Variable pi : list nat.
  Notation done := (execute body dis (flat_map tasks_of preps_all) (order (length (flat_map tasks_of preps_all)) pi)).
  Notation wtrace := (flat_map (fun x => oc_dumps (snd x))
                        (execute body dis (flat_map tasks_of preps_all) (order (length (flat_map tasks_of preps_all)) pi))).

  Lemma finish_err pre p post c1 e :
    preps_all = pre ++ p :: post -> prep_steps_ok body p -> seq_prep body c1 p = Err e ->
    finish_prep dis done wtrace (length (flat_map tasks_of pre)) p = Err e.
  Proof.
    intros Hp Hok H. destruct p as [f ms kw sh mask|f kw]; cbn [seq_prep finish_prep prep_steps_ok] in *.
    - destruct (run_mapped body f ms kw sh mask) as [r|e1] eqn:Er; cbn [bind] in H; [discriminate|]. injection H as <-.
      rewrite run_mapped_unfold in Er.
      destruct (fold_left _ (seq 0 _) _) as [fin|e2] eqn:Ef; cbn [bind] in Er; [discriminate|]. injection Er as <-.
      cbn [missing_of]. rewrite seq_length.
      rewrite (mapM_ext_in _ (fun i => oc_res (run_task body dis (PMapped f ms kw sh mask, Some i)))).
      2:{ intros i Hi. apply in_seq in Hi. apply (await_slot body dis preps_all pi pre _ post i _ Hp).
          cbn [tasks_of missing_of]. rewrite nth_error_map, nth_error_seq0 by lia. reflexivity. }
      rewrite (seq_err_task body dis f ms kw sh mask (seq 0 (prod (ext_of mask sh))) (init_arrs f sh) (repeat ([] : sto) (length (fouts f))) e2 Hok); [reflexivity| | |exact Ef].
      + intros i Hi. apply in_seq in Hi. lia.
      + apply repeat_length.
    - rewrite <- (Nat.add_0_r (length (flat_map tasks_of pre))).
      rewrite (await_slot body dis preps_all pi pre _ post 0 (PSingle f kw, None) Hp) by reflexivity.
      cbn [run_task]. destruct (body f kw) as [outs|e1]; cbn [bind] in H |- *; [|now injection H as <-].
      destruct (negb (length outs =? length (fouts f))); [now injection H as <-|discriminate].
  Qed.

  Hypothesis Hwf : Forall prep_wf preps_all.
  Hypothesis Hnd : NoDup (flat_map (fun p => fouts (prep_fun p)) preps_all).

  Lemma parent_seq_err : forall rest pre c0 ps e,
    preps_all = pre ++ rest -> Forall (prep_steps_ok body) rest -> seq_preps body c0 rest = Err e ->
    p_env ps = fst (fst c0) -> p_out ps = snd (fst c0) ->
    parent dis done wtrace rest (length (flat_map tasks_of pre)) ps = Err e.
  Proof.
    induction rest as [|p rest IH]; intros pre c0 ps e Hp Hok Hs He Ho; unfold seq_preps in Hs; cbn [fold_left] in Hs; [discriminate|].
    cbn [bind] in Hs. pose proof (Forall_inv Hok) as Hokp. pose proof (Forall_inv_tail Hok) as Hokr. cbn [parent].
    destruct (seq_prep body c0 p) as [c1|e1] eqn:E1.
    - destruct (finish_seq body dis preps_all pi Hwf Hnd pre p rest c0 c1 Hp E1) as (r & Hf & Henv & Hout & _).
      rewrite Hf. cbn [bind]. rewrite <- flat_map_length_app.
      apply (IH (pre ++ [p]) c1); [now rewrite <- app_assoc|exact Hokr|exact Hs| |].
      + cbn [p_env]. rewrite He. exact Henv.
      + cbn [p_out]. rewrite Ho. exact Hout.
    - rewrite seq_preps_err in Hs. injection Hs as <-.
      now rewrite (finish_err pre p rest c0 e1 Hp Hokp E1).
  Qed.
End ErrGen.

Section ErrRun.
  Variable body : mfunc -> env -> result (list val).
  Variable dis : str -> bool.
  Variable user : shape_dict.
  Notation seq_fold := (fold_left (fun acc f => do st <- acc; run_func body user st f)).

  (* if every function of the generation can be submitted, the sequential error is that of running the preparations *)
  Lemma seq_gen_preps_err gen : forall rs e e0 new preps shapes',
    r_env rs = new ++ e0 ->
    (forall f, In f gen -> forall q, In q (fparams f) -> ~ In q (map fst new) /\ ~ In q (flat_map fouts gen)) ->
    submit_gen user e0 (r_shapes rs) gen = Ok (preps, shapes') ->
    seq_fold gen (Ok rs) = Err e -> seq_preps body (core_of rs) preps = Err e.
  Proof.
    induction gen as [|f t IH]; intros rs e e0 new preps shapes' Henv Hlay Hsub H; cbn [fold_left] in H; [discriminate|].
    cbn [submit_gen] in Hsub.
    destruct (prep_func user (r_shapes rs) e0 f) as [[p sa]|] eqn:Ep; cbn [bind fst snd] in Hsub; [|discriminate].
    destruct (submit_gen user e0 sa t) as [[ps sb]|] eqn:Et; cbn [bind fst snd] in Hsub; [|discriminate].
    injection Hsub as <- <-. cbn [bind] in H. rewrite run_func_prep, Henv in H.
    rewrite prep_func_env_irrel in H by (intros q Hq; apply (Hlay f (or_introl eq_refl) q Hq)).
    rewrite Ep in H. cbn [bind fst snd] in H. unfold seq_preps. cbn [fold_left bind].
    destruct (seq_prep body (core_of rs) p) as [ca|e1] eqn:Ec; cbn [bind] in H.
    - destruct (seq_prep_env _ _ _ _ Ec) as [newa [Hea Hka]]. rewrite (prep_func_fun _ _ _ _ _ _ Ep) in Hka.
      replace ca with (core_of (state_of ca sa)) by (destruct ca as [[? ?] ?]; reflexivity).
      apply (IH (state_of ca sa) e e0 (newa ++ new) ps sb).
      + cbn [state_of r_env]. rewrite Hea. cbn [core_of fst]. rewrite Henv. now rewrite app_assoc.
      + intros g Hg q Hq. destruct (Hlay g (or_intror Hg) q Hq) as [H1 H2]. cbn [flat_map] in H2. split.
        * rewrite map_app. intros Hin. apply in_app_or in Hin as [Hin|Hin]; [|now apply H1].
          apply H2. apply in_or_app. left. now apply Hka.
        * intros Hin. apply H2. apply in_or_app. now right.
      + exact Et.
      + exact H.
    - rewrite run_fold_err in H. injection H as <-. apply seq_preps_err.
  Qed.

  (* one generation *)
  Theorem par_gen_err ps rs gen pi preps shapes' e :
    st_rel ps rs ->
    (forall f, In f gen -> forall q, In q (fparams f) -> ~ In q (flat_map fouts gen)) ->
    NoDup (flat_map fouts gen) ->
    submit_gen user (r_env rs) (r_shapes rs) gen = Ok (preps, shapes') -> Forall (prep_steps_ok body) preps ->
    seq_fold gen (Ok rs) = Err e ->
    par_gen body dis user ps gen pi = Err e.
  Proof.
    intros (He & Hsh & Ho) Hlay Hnd Hsub Hok Hseq.
    pose proof (seq_gen_preps_err gen rs e (r_env rs) [] preps shapes' eq_refl
                  (fun f Hf q Hq => conj (fun X : In q [] => X) (Hlay f Hf q Hq)) Hsub Hseq) as Hsp.
    unfold par_gen. rewrite He, Hsh, Hsub. cbn [bind fst snd].
    apply (parent_seq_err body dis preps pi (submit_gen_wf _ _ _ _ _ _ Hsub)) with (pre := @nil prep) (c0 := core_of rs).
    - rewrite <- (flat_map_map fouts prep_fun preps), (submit_gen_funs _ _ _ _ _ _ Hsub). exact Hnd.
    - reflexivity.
    - exact Hok.
    - exact Hsp.
    - reflexivity.
    - cbn [p_out core_of fst snd]. exact Ho.
  Qed.

  (* the whole run: the failing generation is g, after the generations G1 *)
  Lemma par_gens_err : forall G g G2 ps rs pis rs1 preps shapes' e,
    st_rel ps rs -> NoDup (flat_map fouts (concat (G ++ g :: G2))) -> layered (G ++ g :: G2) = true ->
    seq_fold (concat G) (Ok rs) = Ok rs1 ->
    submit_gen user (r_env rs1) (r_shapes rs1) g = Ok (preps, shapes') -> Forall (prep_steps_ok body) preps ->
    seq_fold g (Ok rs1) = Err e ->
    par_gens body dis user ps (G ++ g :: G2) pis = Err e.
  Proof.
    induction G as [|g0 G IH]; intros g G2 ps rs pis rs1 preps shapes' e Hrel Hnd0 Hlay0 Hs Hsub Hok Hg;
      cbn [app concat par_gens] in *.
    - cbn [fold_left] in Hs. injection Hs as ->.
      destruct (layered_cons _ _ Hlay0) as [Hg0 _].
      rewrite flat_map_app in Hnd0. destruct (NoDup_app_inv _ _ Hnd0) as [Hndg _].
      rewrite (par_gen_err ps rs1 g (hd [] pis) preps shapes' e Hrel); try assumption; [reflexivity|].
      intros f Hf q Hq Hin. apply (Hg0 f Hf q Hq). rewrite flat_map_app. apply in_or_app. now left.
    - rewrite fold_left_app in Hs.
      destruct (seq_fold g0 (Ok rs)) as [rs0|e0] eqn:E0; [|rewrite run_fold_err in Hs; discriminate].
      destruct (layered_cons _ _ Hlay0) as [Hg0 Hrest].
      rewrite flat_map_app in Hnd0. destruct (NoDup_app_inv _ _ Hnd0) as [Hndg _].
      destruct (par_gen_equiv body dis user ps rs g0 (hd [] pis) rs0 Hrel) as (ps0 & preps0 & Hp0 & Hrel0 & _ & _).
      + intros f Hf q Hq Hin. apply (Hg0 f Hf q Hq). rewrite flat_map_app. apply in_or_app. now left.
      + exact Hndg.
      + exact E0.
      + rewrite Hp0. cbn [bind]. apply (IH g G2 ps0 rs0 (tl pis) rs1 preps shapes' e Hrel0); try assumption.
        clear - Hnd0. induction (flat_map fouts g0) as [|a l IHl]; [exact Hnd0|]. cbn [app] in Hnd0.
        inversion Hnd0; subst. now apply IHl.
  Qed.

  Theorem par_run_err G1 g G2 inputs pis rs1 preps shapes' e :
    layering_ok (G1 ++ g :: G2) = true ->
    map_run body (concat G1) inputs user = Ok rs1 ->
    submit_gen user (r_env rs1) (r_shapes rs1) g = Ok (preps, shapes') -> Forall (prep_steps_ok body) preps ->
    seq_fold g (Ok rs1) = Err e ->
    map_run body (concat (G1 ++ g :: G2)) inputs user = Err e
    /\ par_run body dis (G1 ++ g :: G2) inputs user pis = Err e.
  Proof.
    intros Hl H1 Hsub Hok Hg. destruct (layering_ok_split _ Hl) as [Hnd Hlay]. split.
    - unfold map_run in *. rewrite concat_app, fold_left_app, H1. cbn [concat]. rewrite fold_left_app, Hg.
      apply run_fold_err.
    - unfold par_run. eapply par_gens_err; try eassumption. repeat split.
  Qed.
End ErrRun.
