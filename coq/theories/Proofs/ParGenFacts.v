(* Proofs about Model/ParGen.v: the generation-wise parallel execution yields, for EVERY schedule, the results of
   the sequential MapRun.map_run; every submitted task is invoked exactly once; barrier; single dump. *)
From Coq Require Import Permutation.
From Verif Require Import Base.Prelude Base.StrUtil Base.Index Base.NdArr Model.MapSpec Model.MapSpecSpec
  Model.MapRun Model.ParGen
  Proofs.IndexFacts Proofs.StrFacts Proofs.ListFacts Proofs.PlaceFacts Proofs.MapSpecFacts Proofs.SelectFacts.

(* ================================================================ schedules *)
Lemma existsb_eqb_In s l : existsb (Nat.eqb s) l = true <-> In s l.
Proof.
  rewrite existsb_exists. split.
  - intros [x [Hx E]]. apply Nat.eqb_eq in E. now subst.
  - intros H. exists s. split; [exact H|apply Nat.eqb_refl].
Qed.

Lemma sched_ok_perm n pi : sched_ok n pi = true -> Permutation pi (seq 0 n).
Proof.
  unfold sched_ok. intros H. apply andb_true_iff in H as [Hl Hc]. apply Nat.eqb_eq in Hl.
  apply Permutation_sym. apply NoDup_Permutation_bis.
  - apply seq_NoDup.
  - rewrite seq_length. lia.
  - intros s Hs. rewrite forallb_forall in Hc. apply existsb_eqb_In. now apply Hc.
Qed.

(* every list denotes a schedule, and every permutation of the slots denotes itself *)
Theorem order_perm n pi : Permutation (order n pi) (seq 0 n).
Proof.
  unfold order. destruct (sched_ok n pi) eqn:E; [now apply sched_ok_perm|apply Permutation_refl].
Qed.

Theorem order_of_perm n pi : Permutation pi (seq 0 n) -> order n pi = pi.
Proof.
  intros H. unfold order. replace (sched_ok n pi) with true; [reflexivity|]. symmetry.
  unfold sched_ok. apply andb_true_iff. split.
  - apply Nat.eqb_eq. rewrite (Permutation_length H). apply seq_length.
  - apply forallb_forall. intros s Hs. apply existsb_eqb_In. eapply Permutation_in; [apply Permutation_sym; exact H|exact Hs].
Qed.

Lemma order_In n pi s : In s (order n pi) <-> s < n.
Proof.
  split; intros H.
  - apply (Permutation_in _ (order_perm n pi)) in H. apply in_seq in H. lia.
  - apply (Permutation_in _ (Permutation_sym (order_perm n pi))). apply in_seq. lia.
Qed.

(* ================================================================ generic list facts *)
Lemma nth_error_flat_map_mid {A B} (g : A -> list B) pre x post k :
  k < length (g x) ->
  nth_error (flat_map g (pre ++ x :: post)) (length (flat_map g pre) + k) = nth_error (g x) k.
Proof.
  intros Hk. rewrite flat_map_app. cbn [flat_map].
  rewrite nth_error_app2 by lia. replace (length (flat_map g pre) + k - length (flat_map g pre)) with k by lia.
  now rewrite nth_error_app1.
Qed.

Lemma flat_map_length_app {A B} (g : A -> list B) pre x :
  length (flat_map g (pre ++ [x])) = length (flat_map g pre) + length (g x).
Proof. rewrite flat_map_app, app_length. cbn [flat_map]. now rewrite app_nil_r. Qed.

Lemma dict_get_app_notin {V} (a b : list (str * V)) k :
  ~ In k (map fst a) -> dict_get (a ++ b) k = dict_get b k.
Proof.
  induction a as [|[k' v] a IH]; intros H; cbn [app dict_get]; [reflexivity|].
  cbn [map fst] in H. destruct (str_eqb k k') eqn:E.
  - apply str_eqb_eq in E. subst. exfalso. apply H. now left.
  - apply IH. intros Hin. apply H. now right.
Qed.

Lemma Permutation_flat_map_l {A B} (g : A -> list B) l l' :
  Permutation l l' -> Permutation (flat_map g l) (flat_map g l').
Proof.
  induction 1; cbn [flat_map].
  - apply Permutation_refl.
  - now apply Permutation_app_head.
  - rewrite !app_assoc. apply Permutation_app_tail. apply Permutation_app_comm.
  - eapply Permutation_trans; eassumption.
Qed.

Lemma flat_map_app_perm {A B} (g h : A -> list B) l :
  Permutation (flat_map g l ++ flat_map h l) (flat_map (fun x => g x ++ h x) l).
Proof.
  induction l as [|x l IH]; cbn [flat_map]; [apply Permutation_refl|].
  rewrite <- app_assoc. rewrite <- app_assoc. apply Permutation_app_head.
  eapply Permutation_trans; [|apply Permutation_app_head; exact IH].
  rewrite !app_assoc. apply Permutation_app_tail. apply Permutation_app_comm.
Qed.

Lemma filter_partition_perm {A} (p : A -> bool) l :
  Permutation (filter p l ++ filter (fun x => negb (p x)) l) l.
Proof.
  induction l as [|x l IH]; cbn [filter]; [apply Permutation_refl|].
  destruct (p x); cbn [negb app].
  - now apply perm_skip.
  - eapply Permutation_trans; [apply Permutation_sym, Permutation_middle|]. now apply perm_skip.
Qed.

Lemma map_nth_error_seq {A} (l : list A) :
  map (nth_error l) (seq 0 (length l)) = map Some l.
Proof.
  apply nth_error_ext_eq; [now rewrite !map_length, seq_length|].
  intros q Hq. rewrite map_length, seq_length in Hq.
  rewrite !nth_error_map, nth_error_seq0 by exact Hq. cbn [option_map].
  destruct (nth_error l q) eqn:E; [reflexivity|]. apply nth_error_None in E. lia.
Qed.

Lemma mapM_ok_map_proj {A B C} (F : A -> result B) (P : B -> C) (Q : A -> C) l : forall r,
  mapM F l = Ok r -> (forall x y, In x l -> F x = Ok y -> P y = Q x) -> map P r = map Q l.
Proof.
  induction l as [|x l IH]; intros r H HPQ; cbn [mapM] in H.
  - injection H as <-. reflexivity.
  - destruct (F x) as [y|e] eqn:E; cbn [bind] in H; [|discriminate].
    destruct (mapM F l) as [ys|e] eqn:E'; cbn [bind] in H; [|discriminate].
    injection H as <-. cbn [map]. f_equal.
    + apply HPQ; [now left|exact E].
    + apply IH; [reflexivity|]. intros x' y' Hin. apply HPQ. now right.
Qed.

Lemma mapM_length {A B} (F : A -> result B) l : forall r, mapM F l = Ok r -> length r = length l.
Proof.
  intros r H. apply mapM_Forall2 in H. induction H; cbn [length]; [reflexivity|now f_equal].
Qed.

(* ================================================================ execution of a batch *)
Section Exec.
  Variable body : mfunc -> env -> result (list val).
  Variable dis : str -> bool.

  Notation run_task := (run_task body dis).
  Notation run_slot := (run_slot body dis).
  Notation execute := (execute body dis).
  Notation dumps_for := (dumps_for dis).

  (* a future is paired with its task by its slot, whatever the completion order *)
  Lemma await_execute tasks pi s :
    In s pi -> await (execute tasks pi) s = oc_res (run_slot tasks s).
  Proof.
    unfold await, execute. induction pi as [|a pi IH]; intros Hin; [contradiction|].
    cbn [map find fst]. destruct (a =? s) eqn:E.
    - apply Nat.eqb_eq in E. subst a. reflexivity.
    - apply Nat.eqb_neq in E. destruct Hin as [->|Hin]; [congruence|]. now apply IH.
  Qed.

  Lemma execute_calls tasks pi :
    flat_map (fun x => oc_calls (snd x)) (execute tasks pi) = flat_map (fun s => oc_calls (run_slot tasks s)) pi.
  Proof. unfold execute. rewrite flat_map_concat_map, map_map, <- flat_map_concat_map. reflexivity. Qed.

  Lemma execute_dumps tasks pi :
    flat_map (fun x => oc_dumps (snd x)) (execute tasks pi) = flat_map (fun s => oc_dumps (run_slot tasks s)) pi.
  Proof. unfold execute. rewrite flat_map_concat_map, map_map, <- flat_map_concat_map. reflexivity. Qed.

  Lemma run_slot_nth tasks s t : nth_error tasks s = Some t -> run_slot tasks s = run_task t.
  Proof. unfold ParGen.run_slot. now intros ->. Qed.

  (* executing all slots in submission order = running the tasks in list order *)
  Lemma flat_map_slots {B} (g : outcome -> list B) tasks :
    flat_map (fun s => g (run_slot tasks s)) (seq 0 (length tasks)) = flat_map (fun t => g (run_task t)) tasks.
  Proof.
    rewrite !flat_map_concat_map. f_equal.
    transitivity (map (fun o => match o with Some t => g (run_task t) | None => g (failed [] RuntimeError) end)
                      (map (nth_error tasks) (seq 0 (length tasks)))).
    - rewrite map_map. apply map_ext. intros s. unfold ParGen.run_slot. destruct (nth_error tasks s); reflexivity.
    - rewrite map_nth_error_seq, map_map. reflexivity.
  Qed.

  (* ---------- one task ---------- *)
  Lemma output_key_unravel ms ext i key : output_key ms ext i = Ok key -> key = unravel ext i.
  Proof.
    unfold output_key, unravel_checked. destruct (negb _); [discriminate|].
    destruct (existsb _ _); [discriminate|]. now intros [= <-].
  Qed.

  Lemma dumps_for_ids w f ms sh mask i outs evs :
    dumps_for w f ms sh mask i outs = Ok evs ->
    map dump_id evs = map (fun ov => (fst ov, unravel (ext_of mask sh) i, w))
                          (filter (fun ov => Bool.eqb (dis (fst ov)) w) (combine (fouts f) outs)).
  Proof.
    unfold ParGen.dumps_for. destruct (filter _ _) as [|ov0 sel] eqn:Ef.
    - intros [= <-]. reflexivity.
    - destruct (output_key ms (ext_of mask sh) i) as [key|e] eqn:Ek; cbn [bind]; [|discriminate].
      apply output_key_unravel in Ek. subst key. intros H.
      apply (mapM_ok_map_proj _ _ _ _ _ H). intros ov ev _ Hev.
      destruct (dump_items _ _ _ _) as [l|e]; cbn [bind] in Hev; [|discriminate]. injection Hev as <-. reflexivity.
  Qed.

  Lemma run_task_mapped_inv f ms kw sh mask i outs :
    oc_res (run_task (PMapped f ms kw sh mask, Some i)) = Ok outs ->
    exists sel evs,
      select_kwargs ms kw (ext_of mask sh) i = Ok sel /\ body f sel = Ok outs /\ length outs = length (fouts f)
      /\ dumps_for true f ms sh mask i outs = Ok evs
      /\ run_task (PMapped f ms kw sh mask, Some i)
         = {| oc_calls := [{| c_fn := f; c_idx := Some i; c_kw := sel |}]; oc_dumps := evs; oc_res := Ok outs |}.
  Proof.
    cbn [ParGen.run_task].
    destruct (select_kwargs ms kw (ext_of mask sh) i) as [sel|e] eqn:Es; [|discriminate].
    destruct (body f sel) as [o|e] eqn:Eb; [|discriminate].
    destruct (length o =? length (fouts f)) eqn:El; cbn [negb]; [|discriminate].
    destruct (dumps_for true f ms sh mask i o) as [evs|e] eqn:Ed; [|discriminate].
    cbn [oc_res]. intros [= ->]. apply Nat.eqb_eq in El. exists sel, evs. repeat split; assumption.
  Qed.

  Lemma run_task_single_inv f kw outs :
    oc_res (run_task (PSingle f kw, None)) = Ok outs ->
    body f kw = Ok outs /\ length outs = length (fouts f)
    /\ run_task (PSingle f kw, None)
       = {| oc_calls := [{| c_fn := f; c_idx := None; c_kw := kw |}]; oc_dumps := []; oc_res := Ok outs |}.
  Proof.
    cbn [ParGen.run_task]. destruct (body f kw) as [o|e] eqn:Eb; [|discriminate].
    destruct (length o =? length (fouts f)) eqn:El; cbn [negb]; [|discriminate].
    cbn [oc_res]. intros [= ->]. apply Nat.eqb_eq in El. repeat split; assumption.
  Qed.
End Exec.

(* ================================================================ storage facts *)
Lemma sto_dump_inv sh mask key v st st' :
  sto_dump sh mask key v st = Ok st' ->
  st' = dump_entries sh mask key v ++ st /\ dump_items sh mask key v = Ok (dump_entries sh mask key v).
Proof.
  unfold dump_items, sto_dump, dump_entries. destruct v as [x|a]; destruct (int_of mask sh) as [|d t] eqn:Ei; try discriminate.
  - intros [= <-]. cbn [all_indices map elem app]. split; reflexivity.
  - destruct (negb _); [discriminate|].
    destruct (mapM _ (all_indices (d :: t))) as [l|e] eqn:Em; cbn [bind]; [|discriminate].
    intros [= <-].
    assert (l = map (fun jj => (merge mask key jj, elem (VA a) jj)) (all_indices (d :: t))) as ->.
    { apply (mapM_ok_inv_map _ _ _ _ Em). intros jj y _ Hy. cbn [elem].
      destruct (nd_get a jj); [|discriminate]. now injection Hy as <-. }
    rewrite app_nil_r. split; reflexivity.
Qed.

Lemma in_combine_of_snd {A B} (v : B) : forall (xs : list A) (vs : list B),
  In v vs -> length vs <= length xs -> exists x, In (x, v) (combine xs vs).
Proof.
  induction xs as [|x xs IH]; intros [|w vs] Hin Hl; cbn [length] in Hl; try contradiction; try lia.
  destruct Hin as [->|Hin].
  - exists x. now left.
  - destruct (IH vs Hin ltac:(lia)) as [x' Hx']. exists x'. now right.
Qed.

Lemma combine_nth_NoDup {A B} (l : list A) (vs : list B) j d dv v :
  NoDup l -> length vs = length l -> j < length l -> In (nth j l d, v) (combine l vs) -> v = nth j vs dv.
Proof.
  revert vs j. induction l as [|a l IH]; intros [|w vs] j Hnd Hl Hj Hin; cbn [length] in *; try lia; try discriminate.
  inversion Hnd as [|? ? Ha Hnd']; subst. injection Hl as Hl. destruct j as [|j]; cbn [nth] in *.
  - destruct Hin as [E|Hin]; [now injection E|]. apply in_combine_l in Hin. contradiction.
  - destruct Hin as [E|Hin].
    + injection E as E _. exfalso. apply Ha. rewrite E. apply nth_In. lia.
    + apply IH; [assumption|assumption|lia|assumption].
Qed.

Lemma in_combine_nth {A B} (l : list A) (vs : list B) j d dv :
  length vs = length l -> j < length l -> In (nth j l d, nth j vs dv) (combine l vs).
Proof.
  intros Hl Hj. rewrite <- (combine_nth l vs j d dv) by (now symmetry). apply nth_In. rewrite combine_length. lia.
Qed.

(* the content of a storage is determined by WHICH entries were dumped, not by their order *)
Lemma sto_array_entries sh mask (V : nat -> val) (S : sto) :
  length mask = length sh ->
  (forall e, In e S <-> exists i, i < prod (ext_of mask sh) /\ In e (dump_entries sh mask (unravel (ext_of mask sh) i) (V i))) ->
  sto_array sh S = {| shp := sh; dat := target sh mask V |}.
Proof.
  intros Hlen HS. unfold sto_array, nd_of_fun, target. f_equal. apply map_ext_in. intros idx Hidx.
  apply in_all_indices_iff in Hidx.
  rewrite (sto_get_consistent (target_elem sh mask V)); [reflexivity| |].
  - intros k x Hin. apply HS in Hin as [i [Hi Hin]].
    unfold dump_entries in Hin. apply in_map_iff in Hin as [jj [E Hjj]]. injection E as <- <-.
    destruct (merge_facts sh mask Hlen i jj Hi Hjj) as [Hb [E1 [E2 E3]]].
    unfold target_elem. rewrite E3, E2. reflexivity.
  - destruct (split_facts sh mask Hlen _ Hidx) as [Hi [Hjj Hm]].
    apply in_map_iff. exists (idx, elem (V (ravel (ext_of mask sh) (ext_of mask idx))) (int_of mask idx)).
    split; [reflexivity|]. apply HS. exists (ravel (ext_of mask sh) (ext_of mask idx)).
    split; [exact Hi|]. unfold dump_entries. apply in_map_iff.
    exists (int_of mask idx). split; [|exact Hjj]. rewrite Hm. reflexivity.
Qed.

Lemma sto_of_In o trace e :
  In e (sto_of o trace) <-> exists ev, In ev trace /\ dv_out ev = o /\ In e (dv_entries ev).
Proof.
  unfold sto_of. rewrite in_flat_map. split.
  - intros [ev [Hev Hin]]. apply in_rev in Hev. destruct (str_eqb (dv_out ev) o) eqn:E; [|contradiction].
    apply str_eqb_eq in E. eauto.
  - intros [ev [Hev [Ho Hin]]]. exists ev. split; [now apply -> in_rev|]. subst o. now rewrite str_eqb_refl.
Qed.

(* ================================================================ one mapped function *)
Section Mapped.
  Variable body : mfunc -> env -> result (list val).
  Variable dis : str -> bool.
  Variables (f : mfunc) (ms : mapspec) (kw : env) (sh : list nat) (mask : list bool).

  Notation ext := (ext_of mask sh).
  Notation k := (length (fouts f)).
  Notation n := (prod (ext_of mask sh)).
  Notation p := (PMapped f ms kw sh mask).

  (* total accessors for what iteration i selects / returns *)
  Definition sel_of (i : nat) : env := match select_kwargs ms kw ext i with Ok s => s | Err _ => [] end.
  Definition outs_of (i : nat) : list val := match body f (sel_of i) with Ok o => o | Err _ => [] end.
  Definition ents (i : nat) (v : val) : sto := dump_entries sh mask (unravel ext i) v.
  Definition mk_ev (w : bool) (i : nat) (ov : str * val) : dump_ev :=
    {| dv_out := fst ov; dv_key := unravel ext i; dv_entries := ents i (snd ov); dv_worker := w |}.
  Definition evs_of (w : bool) (i : nat) : list dump_ev :=
    map (mk_ev w i) (filter (fun ov => Bool.eqb (dis (fst ov)) w) (combine (fouts f) (outs_of i))).

  (* every step of iteration i succeeds *)
  Definition good (i : nat) : Prop :=
    select_kwargs ms kw ext i = Ok (sel_of i) /\ body f (sel_of i) = Ok (outs_of i) /\ length (outs_of i) = k
    /\ output_key ms ext i = Ok (unravel ext i)
    /\ forall v, In v (outs_of i) -> dump_items sh mask (unravel ext i) v = Ok (ents i v).

  Lemma dumps_for_good w i : good i -> dumps_for dis w f ms sh mask i (outs_of i) = Ok (evs_of w i).
  Proof.
    intros (_ & _ & _ & Hk & Hd). unfold dumps_for, evs_of.
    destruct (filter _ (combine (fouts f) (outs_of i))) as [|ov0 sel] eqn:Ef; [reflexivity|].
    rewrite Hk. cbn [bind]. apply mapM_ok_map_in. intros ov Hov.
    assert (In ov (combine (fouts f) (outs_of i))) as Hin.
    { rewrite <- Ef in Hov. now apply filter_In in Hov as [H _]. }
    rewrite (Hd (snd ov)) by (destruct ov; eapply in_combine_r; exact Hin). reflexivity.
  Qed.

  Lemma run_task_good i : good i ->
    run_task body dis (p, Some i)
    = {| oc_calls := [{| c_fn := f; c_idx := Some i; c_kw := sel_of i |}]; oc_dumps := evs_of true i;
         oc_res := Ok (outs_of i) |}.
  Proof.
    intros Hg. pose proof (dumps_for_good true i Hg) as Hd. destruct Hg as (Hs & Hb & Hl & _).
    cbn [run_task]. rewrite Hs, Hb, Hl, Nat.eqb_refl. cbn [negb]. rewrite Hd. reflexivity.
  Qed.

  (* ---------- the sequential loop, inverted ---------- *)
  Definition seq_step (acc : result (list (list str) * list sto)) (i : nat) : result (list (list str) * list sto) :=
    do st <- acc;
    do sel <- select_kwargs ms kw ext i;
    do outs <- body f sel;
    if negb (length outs =? k) then Err ValueError else
    do key <- output_key ms ext i;
    do arrs <- mapM (fun av => place sh mask i (snd av) (fst av)) (combine (fst st) outs);
    do stos <- mapM (fun sv => sto_dump sh mask key (snd sv) (fst sv)) (combine (snd st) outs);
    Ok (arrs, stos).

  Definition init_arrs : list (list str) := repeat (repeat none_str (prod sh)) k.

  Lemma run_mapped_unfold :
    run_mapped body f ms kw sh mask =
    do fin <- fold_left seq_step (seq 0 n) (Ok (init_arrs, repeat ([] : sto) k));
    Ok (map (fun d => {| shp := sh; dat := d |}) (fst fin), map (sto_array sh) (snd fin), n).
  Proof. reflexivity. Qed.

  Lemma seq_step_err l e : fold_left seq_step l (Err e) = Err e.
  Proof. induction l as [|i l IH]; cbn [fold_left]; [reflexivity|exact IH]. Qed.

  Definition place_all (A : list (list str)) (i : nat) : result (list (list str)) :=
    mapM (fun av => place sh mask i (snd av) (fst av)) (combine A (outs_of i)).
  Definition place_fold (l : list nat) (A0 : list (list str)) : result (list (list str)) :=
    fold_left (fun acc i => do a <- acc; place_all a i) l (Ok A0).
  Definition dump_cols (l : list nat) (S0 : list sto) : list sto :=
    fold_left (fun S i => zipw (fun v s => ents i v ++ s) S (outs_of i)) l S0.

  Lemma seq_step_inv A0 S0 i A1 S1 :
    seq_step (Ok (A0, S0)) i = Ok (A1, S1) -> length S0 = k ->
    good i /\ place_all A0 i = Ok A1 /\ S1 = zipw (fun v s => ents i v ++ s) S0 (outs_of i).
  Proof.
    unfold seq_step. cbn [bind fst snd]. intros H HS.
    destruct (select_kwargs ms kw ext i) as [sel|e] eqn:Es; cbn [bind] in H; [|discriminate].
    destruct (body f sel) as [outs|e] eqn:Eb; cbn [bind] in H; [|discriminate].
    destruct (length outs =? k) eqn:El; cbn [negb] in H; [|discriminate]. apply Nat.eqb_eq in El.
    destruct (output_key ms ext i) as [key|e] eqn:Ek; cbn [bind] in H; [|discriminate].
    destruct (mapM _ (combine A0 outs)) as [arrs|e] eqn:Ea; cbn [bind] in H; [|discriminate].
    destruct (mapM _ (combine S0 outs)) as [stos|e] eqn:Ed; cbn [bind] in H; [|discriminate].
    injection H as <- <-.
    assert (sel_of i = sel) as Hsel by (unfold sel_of; now rewrite Es).
    assert (outs_of i = outs) as Houts by (unfold outs_of; now rewrite Hsel, Eb).
    pose proof (output_key_unravel _ _ _ _ Ek) as ->.
    unfold good, place_all. rewrite Hsel, Houts. repeat split; try assumption.
    - intros v Hv. destruct (in_combine_of_snd v S0 outs Hv ltac:(lia)) as [s Hs].
      destruct (mapM_ok_in _ _ _ _ Ed Hs) as [y [Hy _]]. cbn [fst snd] in Hy.
      now apply sto_dump_inv in Hy as [_ Hy].
    - unfold zipw. apply (mapM_ok_inv_map _ _ _ _ Ed). intros [s v] y _ Hy. cbn [fst snd] in *.
      now apply sto_dump_inv in Hy as [Hy _].
  Qed.

  Lemma seq_fold_inv l : forall A0 S0 A S,
    fold_left seq_step l (Ok (A0, S0)) = Ok (A, S) -> length S0 = k ->
    (forall i, In i l -> good i) /\ place_fold l A0 = Ok A /\ S = dump_cols l S0.
  Proof.
    induction l as [|i l IH]; intros A0 S0 A S H HS; cbn [fold_left] in H.
    - injection H as <- <-. split; [intros j []|split; reflexivity].
    - destruct (seq_step (Ok (A0, S0)) i) as [[A1 S1]|e] eqn:E1; [|rewrite seq_step_err in H; discriminate].
      destruct (seq_step_inv _ _ _ _ _ E1 HS) as (Hg & Hp & ->).
      destruct (IH _ _ _ _ H) as (Hgs & Hpf & ->).
      { rewrite zipw_length; [exact HS|]. destruct Hg as (_ & _ & Hl & _). lia. }
      split; [|split].
      + intros j [<-|Hj]; [exact Hg|now apply Hgs].
      + unfold place_fold. cbn [fold_left bind]. rewrite Hp. exact Hpf.
      + reflexivity.
  Qed.

  (* ---------- the parent's collection loop ---------- *)
  Lemma place_fold_err l e :
    fold_left (fun acc i => do a <- acc; place_all a i) l (Err e) = Err e.
  Proof. induction l as [|i l IH]; cbn [fold_left bind]; [reflexivity|exact IH]. Qed.

  Lemma collect_good l : (forall i, In i l -> good i) -> forall A0 T0 A,
    place_fold l A0 = Ok A ->
    fold_left (fun acc io =>
                 do st <- acc;
                 do arrs <- mapM (fun av => place sh mask (fst io) (snd av) (fst av)) (combine (fst st) (snd io));
                 do evs <- dumps_for dis false f ms sh mask (fst io) (snd io);
                 Ok (arrs, snd st ++ evs))
              (combine l (map outs_of l)) (Ok (A0, T0))
    = Ok (A, T0 ++ flat_map (evs_of false) l).
  Proof.
    induction l as [|i l IH]; intros Hg A0 T0 A Hp; unfold place_fold in Hp; cbn [fold_left map combine flat_map] in *.
    - injection Hp as <-. now rewrite app_nil_r.
    - cbn [bind] in Hp. destruct (place_all A0 i) as [A1|e] eqn:E1; [|rewrite place_fold_err in Hp; discriminate].
      cbn [bind fst snd]. unfold place_all in E1. rewrite E1. cbn [bind].
      rewrite (dumps_for_good false i) by (apply Hg; now left). cbn [bind].
      rewrite (IH (fun j Hj => Hg j (or_intror Hj)) A1 (T0 ++ evs_of false i) A Hp). now rewrite app_assoc.
  Qed.

  Lemma run_mapped_inv arrs stored n' :
    run_mapped body f ms kw sh mask = Ok (arrs, stored, n') ->
    exists A, (forall i, i < n -> good i) /\ place_fold (seq 0 n) init_arrs = Ok A
              /\ arrs = map (fun d => {| shp := sh; dat := d |}) A
              /\ stored = map (sto_array sh) (dump_cols (seq 0 n) (repeat ([] : sto) k)) /\ n' = n.
  Proof.
    rewrite run_mapped_unfold. intros H.
    destruct (fold_left seq_step (seq 0 n) _) as [[A S]|e] eqn:Ef; cbn [bind fst snd] in H; [|discriminate].
    injection H as <- <- <-. destruct (seq_fold_inv _ _ _ _ _ Ef (repeat_length _ _)) as (Hg & Hpf & ->).
    exists A. split; [intros i Hi; apply Hg; apply in_seq; lia|]. split; [exact Hpf|]. repeat split.
  Qed.
End Mapped.

(* ================================================================ whose dumps are whose *)
Section Events.
  Variable body : mfunc -> env -> result (list val).
  Variable dis : str -> bool.

  Lemma dumps_for_outs w f ms sh mask i outs evs :
    dumps_for dis w f ms sh mask i outs = Ok evs -> forall ev, In ev evs -> In (dv_out ev) (fouts f).
  Proof.
    intros H ev Hev. apply dumps_for_ids in H.
    assert (In (dump_id ev) (map dump_id evs)) as Hin by (now apply in_map).
    rewrite H in Hin. apply in_map_iff in Hin as [[o v] [E Hov]]. apply filter_In in Hov as [Hov _].
    unfold dump_id in E. cbn [fst] in E. injection E as E _ _. rewrite <- E. eapply in_combine_l. exact Hov.
  Qed.

  (* a task only dumps into the storages of its own function *)
  Lemma events_of_task t ev :
    In ev (oc_dumps (run_task body dis t)) -> In (dv_out ev) (fouts (prep_fun (fst t))).
  Proof.
    destruct t as [[f ms kw sh mask|f kw] [i|]]; cbn [run_task fst prep_fun]; try (cbn; contradiction).
    - destruct (select_kwargs _ _ _ _) as [sel|e]; [|cbn; contradiction].
      destruct (body f sel) as [o|e]; [|cbn; contradiction].
      destruct (negb _); [cbn; contradiction|].
      destruct (dumps_for dis true f ms sh mask i o) as [evs|e] eqn:Ed; [|cbn; contradiction].
      cbn [oc_dumps]. now apply (dumps_for_outs _ _ _ _ _ _ _ _ Ed).
    - destruct (body f kw) as [o|e]; [|cbn; contradiction]. destruct (negb _); cbn; contradiction.
  Qed.

  Lemma tasks_of_fst q t : In t (tasks_of q) -> fst t = q.
  Proof.
    destruct q; cbn [tasks_of].
    - intros H. apply in_map_iff in H as [i [<- _]]. reflexivity.
    - intros [<-|[]]. reflexivity.
  Qed.

  (* the worker dumps of a batch, whatever the schedule: exactly the dumps of its tasks *)
  Lemma wtrace_In tasks pi ev :
    In ev (flat_map (fun x => oc_dumps (snd x)) (execute body dis tasks (order (length tasks) pi)))
    <-> exists t, In t tasks /\ In ev (oc_dumps (run_task body dis t)).
  Proof.
    rewrite execute_dumps, in_flat_map. split.
    - intros [s [Hs Hev]]. apply order_In in Hs. unfold run_slot in Hev.
      destruct (nth_error tasks s) as [t|] eqn:E; [|apply nth_error_None in E; lia].
      exists t. split; [eapply nth_error_In; exact E|exact Hev].
    - intros [t [Ht Hev]]. apply In_nth_error in Ht as [s Hs]. exists s. split.
      + apply order_In. apply nth_error_Some. congruence.
      + now rewrite (run_slot_nth _ _ _ _ _ Hs).
  Qed.
End Events.

(* ================================================================ finishing one mapped function *)
Section MappedFinish.
  Variable body : mfunc -> env -> result (list val).
  Variable dis : str -> bool.
  Variables (f : mfunc) (ms : mapspec) (kw : env) (sh : list nat) (mask : list bool).
  Hypothesis Hlen : length mask = length sh.
  Hypothesis Hnd : NoDup (fouts f).

  Notation ext := (ext_of mask sh).
  Notation k := (length (fouts f)).
  Notation n := (prod (ext_of mask sh)).
  Notation p := (PMapped f ms kw sh mask).
  Notation good := (good body f ms kw sh mask).
  Notation outs_of := (outs_of body f ms kw sh mask).
  Notation evs_of := (evs_of body dis f ms kw sh mask).

  Variable tasks : list task.
  Variable wtrace : list dump_ev.
  Hypothesis Hw : forall ev, In ev wtrace <-> exists t, In t tasks /\ In ev (oc_dumps (run_task body dis t)).
  Hypothesis Htasks : forall t, In t tasks ->
    (exists i, i < n /\ t = (p, Some i)) \/ (forall o, In o (fouts f) -> ~ In o (fouts (prep_fun (fst t)))).
  Hypothesis Hmine : forall i, i < n -> In (p, Some i) tasks.
  Hypothesis Hgood : forall i, i < n -> good i.

  Lemma own_event w i ev j d dv :
    i < n -> j < k -> In ev (evs_of w i) -> dv_out ev = nth j (fouts f) d ->
    dv_entries ev = dump_entries sh mask (unravel ext i) (nth j (outs_of i) dv).
  Proof.
    intros Hi Hj Hev Ho. unfold ParGenFacts.evs_of in Hev. apply in_map_iff in Hev as [[o v] [<- Hov]].
    apply filter_In in Hov as [Hov _]. cbn [mk_ev dv_out dv_entries fst snd] in *. subst o.
    destruct (Hgood i Hi) as (_ & _ & Hl & _).
    rewrite (combine_nth_NoDup _ _ j d dv v Hnd Hl Hj Hov). reflexivity.
  Qed.

  Theorem stored_any_schedule j d dv : j < k ->
    sto_array sh (sto_of (nth j (fouts f) d) (wtrace ++ flat_map (evs_of false) (seq 0 n)))
    = {| shp := sh; dat := target sh mask (fun i => nth j (outs_of i) dv) |}.
  Proof.
    intros Hj. apply (sto_array_entries sh mask _ _ Hlen). intros e. rewrite sto_of_In. split.
    - intros [ev [Hev [Ho He]]]. apply in_app_or in Hev as [Hev|Hev].
      + apply Hw in Hev as [t [Ht Hev]]. destruct (Htasks t Ht) as [[i [Hi ->]]|Hother].
        * rewrite (run_task_good body dis f ms kw sh mask i (Hgood i Hi)) in Hev. cbn [oc_dumps] in Hev.
          exists i. split; [exact Hi|]. now rewrite <- (own_event true i ev j d dv Hi Hj Hev Ho).
        * exfalso. apply events_of_task in Hev. apply (Hother (dv_out ev)); [|exact Hev].
          rewrite Ho. apply nth_In. exact Hj.
      + apply in_flat_map in Hev as [i [Hi Hev]]. apply in_seq in Hi.
        exists i. split; [lia|]. now rewrite <- (own_event false i ev j d dv ltac:(lia) Hj Hev Ho).
    - intros [i [Hi He]]. destruct (Hgood i Hi) as (_ & _ & Hl & _).
      pose proof (in_combine_nth (fouts f) (outs_of i) j d dv Hl Hj) as Hov.
      set (ov := (nth j (fouts f) d, nth j (outs_of i) dv)) in *.
      destruct (dis (fst ov)) eqn:Ed.
      * exists (mk_ev sh mask true i ov). split; [|split; [reflexivity|exact He]].
        apply in_or_app. left. apply Hw. exists (p, Some i). split; [now apply Hmine|].
        rewrite (run_task_good body dis f ms kw sh mask i (Hgood i Hi)). cbn [oc_dumps].
        unfold ParGenFacts.evs_of. apply in_map. apply filter_In. split; [exact Hov|now rewrite Ed].
      * exists (mk_ev sh mask false i ov). split; [|split; [reflexivity|exact He]].
        apply in_or_app. right. apply in_flat_map. exists i. split; [apply in_seq; lia|].
        unfold ParGenFacts.evs_of. apply in_map. apply filter_In. split; [exact Hov|now rewrite Ed].
  Qed.

  Variables (done : list (nat * outcome)) (off : nat).
  Hypothesis Hawait : forall i, i < n -> await done (off + i) = oc_res (run_task body dis (p, Some i)).

  Lemma seq_stored_target dv :
    map (sto_array sh) (dump_cols body f ms kw sh mask (seq 0 n) (repeat ([] : sto) k))
    = map (fun j => {| shp := sh; dat := target sh mask (fun i => nth j (outs_of i) dv) |}) (seq 0 k).
  Proof.
    unfold dump_cols.
    rewrite (fold_zipw_columns (fun i v s => ents sh mask i v ++ s) outs_of k [] dv).
    - rewrite map_map. apply map_ext_in. intros j Hj. rewrite nth_repeat.
      apply (sto_pure_all sh mask (fun i => nth j (outs_of i) dv) Hlen).
    - apply repeat_length.
    - intros i Hi. apply in_seq in Hi. now destruct (Hgood i ltac:(lia)) as (_ & _ & Hl & _).
  Qed.

  Theorem finish_mapped arrs stored n' :
    run_mapped body f ms kw sh mask = Ok (arrs, stored, n') ->
    finish_prep dis done wtrace off p
    = Ok (map (fun x => (fst x, VA (fst (snd x)), VA (snd (snd x)))) (combine (fouts f) (combine arrs stored)),
          flat_map (evs_of false) (seq 0 n)) /\ n' = n.
  Proof.
    intros H. destruct (run_mapped_inv _ _ _ _ _ _ _ _ _ H) as (A & _ & Hpf & -> & -> & ->).
    split; [|reflexivity].
    unfold finish_prep. cbn [missing_of]. rewrite seq_length.
    rewrite (mapM_ok_map_in _ outs_of).
    2:{ intros i Hi. apply in_seq in Hi. rewrite Hawait by lia.
        now rewrite (run_task_good body dis f ms kw sh mask i (Hgood i ltac:(lia))). }
    cbn [bind]. unfold collect_mapped.
    rewrite (collect_good body dis f ms kw sh mask (seq 0 n)) with (A := A).
    2:{ intros i Hi. apply in_seq in Hi. apply Hgood. lia. }
    2:{ exact Hpf. }
    cbn [bind fst snd app]. f_equal. f_equal. f_equal. f_equal. f_equal.
    rewrite (seq_stored_target (VS [])).
    rewrite (list_eq_map_nth (fouts f) []) at 1. rewrite map_map.
    apply map_ext_in. intros j Hj. apply in_seq in Hj. apply stored_any_schedule. lia.
  Qed.
End MappedFinish.

(* ================================================================ one generation: the sequential side *)
Lemma map_pair_id {A B} (l : list (A * B)) : map (fun x => (fst x, snd x)) l = l.
Proof. induction l as [|[a b] l IH]; cbn [map fst snd]; [reflexivity|now rewrite IH]. Qed.

Lemma NoDup_app_inv {A} (a b : list A) :
  NoDup (a ++ b) -> NoDup a /\ forall x, In x a -> ~ In x b.
Proof.
  induction a as [|y a IH]; cbn [app]; intros H; [split; [constructor|intros x []]|].
  inversion H as [|? ? Hy Hl]; subst. destruct (IH Hl) as [Ha Hd]. split.
  - constructor; [|exact Ha]. intros Hin. apply Hy. apply in_or_app. now left.
  - intros x [->|Hx]; [|now apply Hd]. intros Hin. apply Hy. apply in_or_app. now right.
Qed.

Lemma NoDup_flat_map_mid {A B} (g : A -> list B) pre x post :
  NoDup (flat_map g (pre ++ x :: post)) ->
  NoDup (g x) /\ forall y, In y (pre ++ post) -> forall o, In o (g x) -> ~ In o (g y).
Proof.
  rewrite flat_map_app. cbn [flat_map]. intros H.
  assert (NoDup (g x ++ flat_map g pre ++ flat_map g post)) as H'.
  { eapply Permutation_NoDup; [|exact H]. rewrite app_assoc.
    eapply Permutation_trans; [apply Permutation_app_tail, Permutation_app_comm|]. rewrite <- app_assoc. apply Permutation_refl. }
  destruct (NoDup_app_inv _ _ H') as [Hx Hd]. split; [exact Hx|].
  intros y Hy o Ho Hoy. apply (Hd o Ho).
  rewrite <- flat_map_app. apply in_flat_map. exists y. split; assumption.
Qed.

Section GenSeq.
  Variable body : mfunc -> env -> result (list val).
  Variable user : shape_dict.

  (* what the sequential model does with a prepared function: (env, outputs, number of calls) *)
  Definition core := (env * list (str * val * val) * nat)%type.
  Definition seq_prep (c : core) (p : prep) : result core :=
    match p with
    | PMapped f ms kw sh mask =>
        do r <- run_mapped body f ms kw sh mask;
        let new := combine (fouts f) (combine (fst (fst r)) (snd (fst r))) in
        Ok (map (fun x => (fst x, VA (snd (snd x)))) new ++ fst (fst c),
            snd (fst c) ++ map (fun x => (fst x, VA (fst (snd x)), VA (snd (snd x)))) new,
            snd c + snd r)
    | PSingle f kw =>
        do outs <- body f kw;
        if negb (length outs =? length (fouts f)) then Err ValueError else
        let new := combine (fouts f) outs in
        Ok (new ++ fst (fst c), snd (fst c) ++ map (fun x => (fst x, snd x, snd x)) new, snd c + 1)
    end.
  Definition seq_preps (c : core) (preps : list prep) : result core :=
    fold_left (fun acc p => do c <- acc; seq_prep c p) preps (Ok c).
  Definition state_of (c : core) (shapes : shapes_t) : run_state :=
    {| r_env := fst (fst c); r_shapes := shapes; r_out := snd (fst c); r_calls := snd c |}.
  Definition core_of (st : run_state) : core := (r_env st, r_out st, r_calls st).

  Lemma run_func_prep st f :
    run_func body user st f =
    do ps <- prep_func user (r_shapes st) (r_env st) f;
    do c <- seq_prep (core_of st) (fst ps);
    Ok (state_of c (snd ps)).
  Proof.
    unfold run_func, prep_func, core_of, state_of.
    destruct (func_shape user (r_shapes st) f) as [shm|e]; cbn [bind]; [|reflexivity].
    destruct (func_kwargs f (r_env st)) as [kw|e]; cbn [bind]; [|reflexivity].
    destruct (is_mapped f).
    - destruct (fspec f) as [ms|]; [|reflexivity]. destruct shm as [[sh mask]|]; [|reflexivity].
      cbn [bind fst snd seq_prep]. destruct (run_mapped body f ms kw sh mask) as [[[arrs stored] n]|e]; reflexivity.
    - cbn [bind fst snd seq_prep]. destruct (body f kw) as [outs|e]; cbn [bind]; [|reflexivity].
      destruct (negb _); reflexivity.
  Qed.

  Lemma prep_func_fun shapes e f p s : prep_func user shapes e f = Ok (p, s) -> prep_fun p = f.
  Proof.
    unfold prep_func. destruct (func_shape user shapes f) as [shm|]; cbn [bind]; [|discriminate].
    destruct (func_kwargs f e) as [kw|]; cbn [bind]; [|discriminate].
    destruct (is_mapped f).
    - destruct (fspec f); [|discriminate]. destruct shm as [[sh mask]|]; [|discriminate]. now intros [= <- _].
    - now intros [= <- _].
  Qed.

  Lemma prep_func_env_irrel shapes e new f :
    (forall q, In q (fparams f) -> ~ In q (map fst new)) ->
    prep_func user shapes (new ++ e) f = prep_func user shapes e f.
  Proof.
    intros H. unfold prep_func. replace (func_kwargs f (new ++ e)) with (func_kwargs f e); [reflexivity|].
    unfold func_kwargs. apply mapM_ext_in. intros q Hq. unfold lookup_arg.
    now rewrite (dict_get_app_notin new e q (H q Hq)).
  Qed.

  (* the environment only grows by values named after the function's outputs *)
  Lemma seq_prep_env c p c' :
    seq_prep c p = Ok c' ->
    exists new, fst (fst c') = new ++ fst (fst c) /\ forall q, In q (map fst new) -> In q (fouts (prep_fun p)).
  Proof.
    destruct p as [f ms kw sh mask|f kw]; cbn [seq_prep prep_fun].
    - destruct (run_mapped body f ms kw sh mask) as [r|e]; cbn [bind]; [|discriminate]. intros [= <-]. cbn [fst].
      eexists. split; [reflexivity|]. intros q Hq. rewrite map_map in Hq. cbn [fst] in Hq.
      apply in_map_iff in Hq as [[o v] [<- Hin]]. eapply in_combine_l. exact Hin.
    - destruct (body f kw) as [outs|e]; cbn [bind]; [|discriminate]. destruct (negb _); [discriminate|].
      intros [= <-]. cbn [fst]. eexists. split; [reflexivity|]. intros q Hq.
      apply in_map_iff in Hq as [[o v] [<- Hin]]. eapply in_combine_l. exact Hin.
  Qed.

  Lemma seq_preps_err preps e : fold_left (fun acc p => do c <- acc; seq_prep c p) preps (Err e) = Err e.
  Proof. induction preps as [|p l IH]; cbn [fold_left bind]; [reflexivity|exact IH]. Qed.

  Lemma run_fold_err gen e :
    fold_left (fun acc f => do st <- acc; run_func body user st f) gen (Err e) = Err e.
  Proof. induction gen as [|f l IH]; cbn [fold_left bind]; [reflexivity|exact IH]. Qed.

  (* a generation of the sequential run = submit everything against the OLD environment, then run the preparations *)
  Lemma seq_gen_preps gen : forall rs rs' e0 new,
    r_env rs = new ++ e0 ->
    (forall f, In f gen -> forall q, In q (fparams f) -> ~ In q (map fst new) /\ ~ In q (flat_map fouts gen)) ->
    fold_left (fun acc f => do st <- acc; run_func body user st f) gen (Ok rs) = Ok rs' ->
    exists preps shapes' c,
      submit_gen user e0 (r_shapes rs) gen = Ok (preps, shapes') /\ map prep_fun preps = gen
      /\ seq_preps (core_of rs) preps = Ok c /\ rs' = state_of c shapes'.
  Proof.
    induction gen as [|f t IH]; intros rs rs' e0 new Henv Hlay H; cbn [fold_left] in H.
    - injection H as <-. exists [], (r_shapes rs), (core_of rs). cbn [submit_gen map]. repeat split.
      destruct rs; reflexivity.
    - cbn [bind] in H. destruct (run_func body user rs f) as [rsa|e] eqn:Ef; [|rewrite run_fold_err in H; discriminate].
      rewrite run_func_prep in Ef.
      destruct (prep_func user (r_shapes rs) (r_env rs) f) as [[p sa]|e] eqn:Ep; cbn [bind fst snd] in Ef; [|discriminate].
      destruct (seq_prep (core_of rs) p) as [ca|e] eqn:Ec; cbn [bind] in Ef; [|discriminate].
      injection Ef as <-.
      rewrite Henv in Ep. rewrite prep_func_env_irrel in Ep by (intros q Hq; apply (Hlay f (or_introl eq_refl) q Hq)).
      destruct (seq_prep_env _ _ _ Ec) as [newa [Hea Hka]]. rewrite (prep_func_fun _ _ _ _ _ Ep) in Hka.
      destruct (IH (state_of ca sa) rs' e0 (newa ++ new)) as (preps & shapes' & c & Hs & Hm & Hq & ->).
      + cbn [state_of r_env]. rewrite Hea. cbn [core_of fst]. rewrite Henv. now rewrite app_assoc.
      + intros g Hg q Hq. destruct (Hlay g (or_intror Hg) q Hq) as [H1 H2]. cbn [flat_map] in H2. split.
        * rewrite map_app. intros Hin. apply in_app_or in Hin as [Hin|Hin]; [|now apply H1].
          apply H2. apply in_or_app. left. now apply Hka.
        * intros Hin. apply H2. apply in_or_app. now right.
      + exact H.
      + exists (p :: preps), shapes', c. cbn [submit_gen]. rewrite Ep. cbn [bind fst snd].
        cbn [state_of r_shapes] in Hs. rewrite Hs. cbn [bind fst snd map]. rewrite (prep_func_fun _ _ _ _ _ Ep), Hm.
        repeat split. unfold seq_preps. cbn [fold_left bind]. rewrite Ec.
        replace ca with (core_of (state_of ca sa)) by (destruct ca as [[? ?] ?]; reflexivity). exact Hq.
  Qed.
End GenSeq.

(* ================================================================ one generation: the parallel side *)
Definition prep_wf (p : prep) : Prop :=
  match p with PMapped _ _ _ sh mask => length mask = length sh | PSingle _ _ => True end.

Lemma prep_func_wf user shapes e f p s : prep_func user shapes e f = Ok (p, s) -> prep_wf p.
Proof.
  unfold prep_func, func_shape. destruct (fspec f) as [ms|] eqn:Es.
  - destruct (shape ms _ _) as [[sh mask]|err] eqn:Eshape; cbn [bind]; [|discriminate].
    destruct (func_kwargs f e) as [kw|]; cbn [bind]; [|discriminate].
    destruct (is_mapped f); intros [= <- _]; cbn [prep_wf]; [|exact I].
    destruct (shape_mask _ _ _ _ _ Eshape) as [o0 [rest [_ [Hl ->]]]]. now rewrite map_length.
  - cbn [bind]. destruct (func_kwargs f e) as [kw|]; cbn [bind]; [|discriminate].
    destruct (is_mapped f); [discriminate|]. now intros [= <- _].
Qed.

Lemma submit_gen_wf user e gen : forall shapes preps s,
  submit_gen user e shapes gen = Ok (preps, s) -> Forall prep_wf preps.
Proof.
  induction gen as [|f t IH]; intros shapes preps s H; cbn [submit_gen] in H.
  - injection H as <- _. constructor.
  - destruct (prep_func user shapes e f) as [[p sa]|] eqn:Ep; cbn [bind fst snd] in H; [|discriminate].
    destruct (submit_gen user e sa t) as [[ps sb]|] eqn:Et; cbn [bind fst snd] in H; [|discriminate].
    injection H as <- _. constructor; [eapply prep_func_wf; exact Ep|eapply IH; exact Et].
Qed.

Lemma submit_gen_funs user e gen : forall shapes preps s,
  submit_gen user e shapes gen = Ok (preps, s) -> map prep_fun preps = gen.
Proof.
  induction gen as [|f t IH]; intros shapes preps s H; cbn [submit_gen] in H.
  - now injection H as <- _.
  - destruct (prep_func user shapes e f) as [[p sa]|] eqn:Ep; cbn [bind fst snd] in H; [|discriminate].
    destruct (submit_gen user e sa t) as [[ps sb]|] eqn:Et; cbn [bind fst snd] in H; [|discriminate].
    injection H as <- _. cbn [map]. f_equal; [eapply prep_func_fun; exact Ep|eapply IH; exact Et].
Qed.

Section GenPar.
  Variable body : mfunc -> env -> result (list val).
  Variable dis : str -> bool.
  Variable preps_all : list prep.
  Variable pi : list nat.

  Notation tasks := (flat_map tasks_of preps_all).
  Notation done := (execute body dis (flat_map tasks_of preps_all) (order (length (flat_map tasks_of preps_all)) pi)).
  Notation wtrace := (flat_map (fun x => oc_dumps (snd x))
                        (execute body dis (flat_map tasks_of preps_all) (order (length (flat_map tasks_of preps_all)) pi))).

  (* the future in slot (offset of the function + k) belongs to the function's k-th task, whatever the schedule *)
  Lemma await_slot pre p post k t :
    preps_all = pre ++ p :: post -> nth_error (tasks_of p) k = Some t ->
    await done (length (flat_map tasks_of pre) + k) = oc_res (run_task body dis t).
  Proof.
    intros Hp Hk.
    assert (nth_error tasks (length (flat_map tasks_of pre) + k) = Some t) as Hn.
    { rewrite Hp, nth_error_flat_map_mid; [exact Hk|]. apply nth_error_Some. congruence. }
    rewrite await_execute.
    - f_equal. now apply run_slot_nth.
    - apply order_In. apply nth_error_Some. congruence.
  Qed.

  Hypothesis Hwf : Forall prep_wf preps_all.
  Hypothesis Hnd : NoDup (flat_map (fun p => fouts (prep_fun p)) preps_all).

  Lemma finish_seq pre p post c0 c1 :
    preps_all = pre ++ p :: post -> seq_prep body c0 p = Ok c1 ->
    exists r, finish_prep dis done wtrace (length (flat_map tasks_of pre)) p = Ok r
              /\ map (fun x => (fst (fst x), snd x)) (fst r) ++ fst (fst c0) = fst (fst c1)
              /\ snd (fst c0) ++ fst r = snd (fst c1)
              /\ snd c1 = snd c0 + length (tasks_of p).
  Proof.
    intros Hp Hc. destruct (NoDup_flat_map_mid _ _ _ _ (eq_ind _ (fun l => NoDup (flat_map _ l)) Hnd _ Hp)) as [Hndf Hdisj].
    destruct p as [f ms kw sh mask|f kw]; cbn [seq_prep prep_fun] in *.
    - destruct (run_mapped body f ms kw sh mask) as [[[arrs stored] n']|e] eqn:Er; cbn [bind fst snd] in Hc; [|discriminate].
      injection Hc as <-.
      assert (length mask = length sh) as Hlen.
      { rewrite Forall_forall in Hwf. apply (Hwf (PMapped f ms kw sh mask)). rewrite Hp. apply in_or_app. right. now left. }
      destruct (run_mapped_inv _ _ _ _ _ _ _ _ _ Er) as (A & Hgood & _).
      destruct (finish_mapped body dis f ms kw sh mask Hlen Hndf tasks wtrace) with
        (done := done) (off := length (flat_map tasks_of pre)) (arrs := arrs) (stored := stored) (n' := n') as [Hfin ->].
      + intros ev. apply wtrace_In.
      + intros t Ht. apply in_flat_map in Ht as [q [Hq Ht]]. rewrite Hp in Hq.
        apply in_app_or in Hq as [Hq|[<-|Hq]].
        * right. intros o Ho. rewrite (tasks_of_fst _ _ Ht). apply (Hdisj q); [apply in_or_app; now left|exact Ho].
        * left. cbn [tasks_of missing_of] in Ht. apply in_map_iff in Ht as [i [<- Hi]]. apply in_seq in Hi.
          exists i. split; [lia|reflexivity].
        * right. intros o Ho. rewrite (tasks_of_fst _ _ Ht). apply (Hdisj q); [apply in_or_app; now right|exact Ho].
      + intros i Hi. apply in_flat_map. exists (PMapped f ms kw sh mask). split.
        * rewrite Hp. apply in_or_app. right. now left.
        * cbn [tasks_of missing_of]. apply in_map_iff. exists i. split; [reflexivity|apply in_seq; lia].
      + exact Hgood.
      + intros i Hi. apply (await_slot pre _ post i _ Hp). cbn [tasks_of missing_of].
        rewrite nth_error_map, nth_error_seq0 by exact Hi. reflexivity.
      + exact Er.
      + eexists. split; [exact Hfin|]. cbn [fst snd]. split; [|split].
        * f_equal. rewrite map_map. apply map_ext. intros x. reflexivity.
        * reflexivity.
        * cbn [tasks_of missing_of]. now rewrite map_length, seq_length.
    - destruct (body f kw) as [outs|e] eqn:Eb; cbn [bind] in Hc; [|discriminate].
      destruct (length outs =? length (fouts f)) eqn:El; cbn [negb] in Hc; [|discriminate].
      injection Hc as <-. cbn [finish_prep].
      rewrite <- (Nat.add_0_r (length (flat_map tasks_of pre))).
      rewrite (await_slot pre _ post 0 (PSingle f kw, None) Hp) by reflexivity.
      cbn [run_task]. rewrite Eb, El. cbn [negb oc_res bind]. eexists. split; [reflexivity|]. cbn [fst snd tasks_of length].
      split; [|split; reflexivity]. f_equal. rewrite map_map. cbn [fst snd]. apply map_pair_id.
  Qed.

  Lemma parent_seq : forall rest pre c0 c ps,
    preps_all = pre ++ rest -> seq_preps body c0 rest = Ok c ->
    p_env ps = fst (fst c0) -> p_out ps = snd (fst c0) ->
    exists ps', parent dis done wtrace rest (length (flat_map tasks_of pre)) ps = Ok ps'
                /\ p_env ps' = fst (fst c) /\ p_out ps' = snd (fst c)
                /\ snd c = snd c0 + length (flat_map tasks_of rest).
  Proof.
    induction rest as [|p rest IH]; intros pre c0 c ps Hp Hs He Ho; unfold seq_preps in Hs; cbn [fold_left] in Hs.
    - injection Hs as <-. exists ps. cbn [parent flat_map length]. repeat split; try assumption. lia.
    - cbn [bind] in Hs. destruct (seq_prep body c0 p) as [c1|e] eqn:E1; [|rewrite seq_preps_err in Hs; discriminate].
      destruct (finish_seq pre p rest c0 c1 Hp E1) as (r & Hf & Henv & Hout & Hcalls).
      cbn [parent]. rewrite Hf. cbn [bind].
      rewrite <- flat_map_length_app.
      destruct (IH (pre ++ [p]) c1 c
                  {| p_env := map (fun x => (fst (fst x), snd x)) (fst r) ++ p_env ps; p_shapes := p_shapes ps;
                     p_out := p_out ps ++ fst r; p_log := p_log ps; p_trace := p_trace ps ++ snd r;
                     p_preps := p_preps ps ++ [p] |}) as (ps' & Hpar & H1 & H2 & H3).
      + rewrite <- app_assoc. exact Hp.
      + exact Hs.
      + cbn [p_env]. rewrite He. exact Henv.
      + cbn [p_out]. rewrite Ho. exact Hout.
      + exists ps'. repeat split; try assumption. cbn [flat_map]. rewrite app_length. lia.
  Qed.
End GenPar.

(* ================================================================ generations and the whole run *)
Lemma parent_fields dis done wtrace : forall rest off ps ps',
  parent dis done wtrace rest off ps = Ok ps' ->
  p_shapes ps' = p_shapes ps /\ p_log ps' = p_log ps /\ p_preps ps' = p_preps ps ++ rest.
Proof.
  induction rest as [|p rest IH]; intros off ps ps' H; cbn [parent] in H.
  - injection H as <-. now rewrite app_nil_r.
  - destruct (finish_prep dis done wtrace off p) as [r|e]; cbn [bind] in H; [|discriminate].
    destruct (IH _ _ _ H) as (H1 & H2 & H3). cbn [p_shapes p_log p_preps] in *.
    repeat split; try assumption. now rewrite H3, <- app_assoc.
Qed.

Definition st_rel (ps : par_state) (rs : run_state) : Prop :=
  p_env ps = r_env rs /\ p_shapes ps = r_shapes rs /\ p_out ps = r_out rs.

Lemma layered_cons g rest :
  layered (g :: rest) = true ->
  (forall f, In f g -> forall q, In q (fparams f) -> ~ In q (flat_map fouts (g ++ concat rest))) /\ layered rest = true.
Proof.
  cbn [layered]. intros H. apply andb_true_iff in H as [H1 H2]. split; [|exact H2].
  intros f Hf q Hq. rewrite forallb_forall in H1. specialize (H1 f Hf). rewrite forallb_forall in H1.
  specialize (H1 q Hq). apply negb_true_iff in H1. now apply mem_str_false in H1.
Qed.

Section Run.
  Variable body : mfunc -> env -> result (list val).
  Variable dis : str -> bool.
  Variable user : shape_dict.

  Notation seq_fold := (fold_left (fun acc f => do st <- acc; run_func body user st f)).

  (* one generation, any schedule *)
  Theorem par_gen_equiv ps rs gen pi rs' :
    st_rel ps rs ->
    (forall f, In f gen -> forall q, In q (fparams f) -> ~ In q (flat_map fouts gen)) ->
    NoDup (flat_map fouts gen) ->
    seq_fold gen (Ok rs) = Ok rs' ->
    exists ps' preps, par_gen body dis user ps gen pi = Ok ps' /\ st_rel ps' rs'
                      /\ p_preps ps' = p_preps ps ++ preps
                      /\ r_calls rs' = r_calls rs + length (flat_map tasks_of preps).
  Proof.
    intros (He & Hsh & Ho) Hlay Hnd Hseq.
    destruct (seq_gen_preps body user gen rs rs' (r_env rs) []) as (preps & shapes' & c & Hsub & Hfun & Hsp & ->).
    - reflexivity.
    - intros f Hf q Hq. split; [intros []|exact (Hlay f Hf q Hq)].
    - exact Hseq.
    - unfold par_gen. rewrite He, Hsh, Hsub. cbn [bind fst snd].
      destruct (parent_seq body dis preps pi (submit_gen_wf _ _ _ _ _ _ Hsub)) with
        (rest := preps) (pre := @nil prep) (c0 := core_of rs) (c := c)
        (ps := {| p_env := r_env rs; p_shapes := shapes'; p_out := p_out ps;
                  p_log := p_log ps ++ flat_map (fun x => oc_calls (snd x))
                             (execute body dis (flat_map tasks_of preps) (order (length (flat_map tasks_of preps)) pi));
                  p_trace := p_trace ps ++ flat_map (fun x => oc_dumps (snd x))
                             (execute body dis (flat_map tasks_of preps) (order (length (flat_map tasks_of preps)) pi));
                  p_preps := p_preps ps |})
        as (ps' & Hpar & H1 & H2 & H3).
      + rewrite <- (flat_map_map fouts prep_fun preps), Hfun. exact Hnd.
      + reflexivity.
      + exact Hsp.
      + reflexivity.
      + cbn [p_out core_of fst snd]. exact Ho.
      + cbn [flat_map length] in Hpar. exists ps', preps. split; [exact Hpar|].
        destruct (parent_fields _ _ _ _ _ _ _ Hpar) as (Hs' & _ & Hpp). cbn [p_shapes p_preps] in Hs', Hpp.
        unfold st_rel, state_of. cbn [r_env r_shapes r_out r_calls]. repeat split; assumption.
  Qed.

End Run.

(* ================================================================ logs of a successful parallel run *)
Lemma filter_combine_fst {A B C} (P : A -> bool) (g : A -> C) (l : list A) : forall (vs : list B),
  length vs = length l ->
  map (fun ov => g (fst ov)) (filter (fun ov => P (fst ov)) (combine l vs)) = map g (filter P l).
Proof.
  induction l as [|a l IH]; intros [|v vs] H; cbn [length] in H; try discriminate; [reflexivity|].
  injection H as H. cbn [combine filter fst]. destruct (P a); cbn [map fst]; now rewrite IH.
Qed.

Section Logs.
  Variable body : mfunc -> env -> result (list val).
  Variable dis : str -> bool.

  (* identities of the dumps performed by the worker (w = true) / by the parent (w = false) for a function *)
  Definition ids_w (w : bool) (p : prep) : list (str * list nat * bool) :=
    match p with
    | PMapped f _ _ sh mask =>
        flat_map (fun i => map (fun o => (o, unravel (ext_of mask sh) i, w))
                               (filter (fun o => Bool.eqb (dis o) w) (fouts f))) (missing_of p)
    | PSingle _ _ => []
    end.
  Definition task_wids (t : task) : list (str * list nat * bool) :=
    match t with
    | (PMapped f _ _ sh mask, Some i) =>
        map (fun o => (o, unravel (ext_of mask sh) i, true)) (filter (fun o => Bool.eqb (dis o) true) (fouts f))
    | _ => []
    end.
  Definition task_id (t : task) : mfunc * option nat := (prep_fun (fst t), snd t).

  Lemma dumps_for_ids_names w f ms sh mask i outs evs :
    length outs = length (fouts f) -> dumps_for dis w f ms sh mask i outs = Ok evs ->
    map dump_id evs = map (fun o => (o, unravel (ext_of mask sh) i, w)) (filter (fun o => Bool.eqb (dis o) w) (fouts f)).
  Proof.
    intros Hl H. rewrite (dumps_for_ids dis w f ms sh mask i outs evs H).
    apply (filter_combine_fst (fun o => Bool.eqb (dis o) w) (fun o => (o, unravel (ext_of mask sh) i, w))). exact Hl.
  Qed.

  (* a task whose future holds a result made exactly one call and exactly its worker-side dumps *)
  Lemma task_ok_ids p t outs :
    In t (tasks_of p) -> oc_res (run_task body dis t) = Ok outs ->
    map call_id (oc_calls (run_task body dis t)) = [task_id t]
    /\ map dump_id (oc_dumps (run_task body dis t)) = task_wids t
    /\ length outs = length (fouts (prep_fun p)).
  Proof.
    intros Ht H. destruct p as [f ms kw sh mask|f kw]; cbn [tasks_of] in Ht.
    - apply in_map_iff in Ht as [i [<- _]].
      destruct (run_task_mapped_inv body dis _ _ _ _ _ _ _ H) as (sel & evs & _ & _ & Hl & Hd & ->).
      cbn [oc_calls oc_dumps map call_id c_fn c_idx task_id fst snd prep_fun task_wids].
      repeat split; [|exact Hl]. exact (dumps_for_ids_names true f ms sh mask i outs evs Hl Hd).
    - destruct Ht as [<-|[]]. destruct (run_task_single_inv body dis _ _ _ H) as (_ & Hl & ->).
      cbn [oc_calls oc_dumps map call_id c_fn c_idx task_id fst snd prep_fun task_wids]. repeat split. exact Hl.
  Qed.

  Lemma task_ids_of_prep p : map task_id (tasks_of p) = ids_of_prep p.
  Proof. destruct p; cbn [tasks_of ids_of_prep map]; [|reflexivity]. rewrite map_map. reflexivity. Qed.

  Lemma task_wids_of_prep p : flat_map task_wids (tasks_of p) = ids_w true p.
  Proof. destruct p; cbn [tasks_of ids_w flat_map]; [|reflexivity]. now rewrite flat_map_map. Qed.

  (* the parent's collection loop: one dump per missing index and parent-dumped output *)
  Lemma collect_ids f ms sh mask : forall l ol A0 T0 A T,
    length ol = length l -> (forall outs, In outs ol -> length outs = length (fouts f)) ->
    fold_left (fun acc io =>
                 do st <- acc;
                 do arrs <- mapM (fun av => place sh mask (fst io) (snd av) (fst av)) (combine (fst st) (snd io));
                 do evs <- dumps_for dis false f ms sh mask (fst io) (snd io);
                 Ok (arrs, snd st ++ evs)) (combine l ol) (Ok (A0, T0)) = Ok (A, T) ->
    map dump_id T = map dump_id T0 ++
      flat_map (fun i => map (fun o => (o, unravel (ext_of mask sh) i, false))
                             (filter (fun o => Bool.eqb (dis o) false) (fouts f))) l.
  Proof.
    induction l as [|i l IH]; intros [|outs ol] A0 T0 A T Hl Hk H; cbn [length] in Hl; try discriminate;
      cbn [combine fold_left flat_map] in *.
    - injection H as _ <-. now rewrite app_nil_r.
    - cbn [bind fst snd] in H.
      destruct (mapM _ (combine A0 outs)) as [A1|e]; cbn [bind] in H; [|rewrite fold_left_bind_err in H; discriminate].
      destruct (dumps_for dis false f ms sh mask i outs) as [evs|e] eqn:Ed; cbn [bind] in H;
        [|rewrite fold_left_bind_err in H; discriminate].
      rewrite (IH ol A1 (T0 ++ evs) A T) by (try lia; try exact H; intros o Ho; apply Hk; now right).
      rewrite map_app, <- app_assoc. f_equal. f_equal.
      apply (dumps_for_ids_names false f ms sh mask i outs evs); [apply Hk; now left|exact Ed].
  Qed.

  Variable preps_all : list prep.
  Variable pi : list nat.
  Notation tasks := (flat_map tasks_of preps_all).
  Notation done := (execute body dis (flat_map tasks_of preps_all) (order (length (flat_map tasks_of preps_all)) pi)).

  Lemma finish_inv wtrace pre p post r :
    preps_all = pre ++ p :: post ->
    finish_prep dis done wtrace (length (flat_map tasks_of pre)) p = Ok r ->
    (forall t, In t (tasks_of p) -> exists outs, oc_res (run_task body dis t) = Ok outs)
    /\ map dump_id (snd r) = ids_w false p.
  Proof.
    intros Hp H. destruct p as [f ms kw sh mask|f kw]; cbn [finish_prep] in H.
    - destruct (mapM _ (seq 0 _)) as [ol|e] eqn:Em; cbn [bind] in H; [|discriminate].
      destruct (collect_mapped dis f ms sh mask _ ol) as [[A T]|e] eqn:Ec; cbn [bind] in H; [|discriminate].
      injection H as <-. cbn [snd].
      assert (forall i, i < prod (ext_of mask sh) ->
                exists outs, oc_res (run_task body dis (PMapped f ms kw sh mask, Some i)) = Ok outs /\ In outs ol) as Hres.
      { intros i Hi. cbn [missing_of] in Em. rewrite seq_length in Em.
        destruct (mapM_ok_in _ _ _ i Em) as [outs [Ho Hin]]; [apply in_seq; lia|].
        rewrite (await_slot body dis preps_all pi pre _ post i (PMapped f ms kw sh mask, Some i) Hp) in Ho.
        - eauto.
        - cbn [tasks_of missing_of]. rewrite nth_error_map, nth_error_seq0 by exact Hi. reflexivity. }
      split.
      + intros t Ht. cbn [tasks_of missing_of] in Ht. apply in_map_iff in Ht as [i [<- Hi]]. apply in_seq in Hi.
        destruct (Hres i ltac:(lia)) as [outs [Ho _]]. eauto.
      + unfold collect_mapped in Ec. cbn [ids_w].
        apply (collect_ids f ms sh mask _ ol _ [] A T) in Ec; [exact Ec| |].
        * rewrite (mapM_length _ _ _ Em). cbn [missing_of]. now rewrite !seq_length.
        * intros outs Hin. cbn [missing_of] in Em. rewrite seq_length in Em.
          apply mapM_Forall2 in Em.
          assert (exists i, In i (seq 0 (prod (ext_of mask sh))) /\
                            await done (length (flat_map tasks_of pre) + i) = Ok outs) as [i [Hi Ho]].
          { clear - Em Hin. induction Em as [|a b l r Hab Hrest IH]; [contradiction|].
            destruct Hin as [<-|Hin]; [exists a; split; [now left|exact Hab]|].
            destruct (IH Hin) as [i [Hi Ho]]. exists i. split; [now right|exact Ho]. }
          apply in_seq in Hi.
          rewrite (await_slot body dis preps_all pi pre _ post i (PMapped f ms kw sh mask, Some i) Hp) in Ho.
          -- now destruct (run_task_mapped_inv body dis _ _ _ _ _ _ _ Ho) as (_ & _ & _ & _ & Hl & _).
          -- cbn [tasks_of missing_of]. rewrite nth_error_map, nth_error_seq0 by lia. reflexivity.
    - destruct (await done _) as [outs|e] eqn:Ea; cbn [bind] in H; [|discriminate]. injection H as <-. cbn [snd ids_w].
      split; [|reflexivity]. intros t [<-|[]]. exists outs.
      rewrite <- (Nat.add_0_r (length (flat_map tasks_of pre))) in Ea.
      now rewrite (await_slot body dis preps_all pi pre _ post 0 (PSingle f kw, None) Hp) in Ea.
  Qed.

  Lemma parent_inv wtrace : forall rest pre ps ps',
    preps_all = pre ++ rest ->
    parent dis done wtrace rest (length (flat_map tasks_of pre)) ps = Ok ps' ->
    (forall t, In t (flat_map tasks_of rest) -> exists outs, oc_res (run_task body dis t) = Ok outs)
    /\ exists PT, p_trace ps' = p_trace ps ++ PT /\ map dump_id PT = flat_map (ids_w false) rest.
  Proof.
    induction rest as [|p rest IH]; intros pre ps ps' Hp H; cbn [parent] in H.
    - injection H as <-. split; [intros t []|]. exists []. now rewrite app_nil_r.
    - destruct (finish_prep dis done wtrace _ p) as [r|e] eqn:Ef; cbn [bind] in H; [|discriminate].
      destruct (finish_inv wtrace pre p rest r Hp Ef) as [Hok Hids].
      rewrite <- flat_map_length_app in H.
      destruct (IH (pre ++ [p]) _ _ ltac:(now rewrite <- app_assoc) H) as [Hok' [PT [Ht Hpt]]]. cbn [p_trace] in Ht.
      split.
      + intros t Ht'. cbn [flat_map] in Ht'. apply in_app_or in Ht' as [Ht'|Ht']; [now apply Hok|now apply Hok'].
      + exists (snd r ++ PT). split; [now rewrite Ht, app_assoc|].
        cbn [flat_map]. now rewrite map_app, Hids, Hpt.
  Qed.
End Logs.

Lemma Permutation_flat_map_ext {A B} (g h : A -> list B) l :
  (forall x, In x l -> Permutation (g x) (h x)) -> Permutation (flat_map g l) (flat_map h l).
Proof.
  induction l as [|x l IH]; intros H; cbn [flat_map]; [apply Permutation_refl|].
  apply Permutation_app; [apply H; now left|apply IH; intros y Hy; apply H; now right].
Qed.

Lemma flat_map_flat_map' {A B C} (f : B -> list C) (g : A -> list B) l :
  flat_map f (flat_map g l) = flat_map (fun x => flat_map f (g x)) l.
Proof. induction l as [|x l IH]; cbn [flat_map]; [reflexivity|]. now rewrite flat_map_app, IH. Qed.

Lemma flat_map_singleton {A B} (g : A -> B) l : flat_map (fun x => [g x]) l = map g l.
Proof. induction l as [|x l IH]; cbn; [reflexivity|now rewrite IH]. Qed.

Section LogsRun.
  Variable body : mfunc -> env -> result (list val).
  Variable dis : str -> bool.
  Variable user : shape_dict.

  Lemma ids_w_perm p : Permutation (ids_w dis true p ++ ids_w dis false p) (dump_ids_of_prep dis p).
  Proof.
    destruct p as [f ms kw sh mask|f kw]; cbn [ids_w dump_ids_of_prep app]; [|apply Permutation_refl].
    eapply Permutation_trans; [apply flat_map_app_perm|]. apply Permutation_flat_map_ext. intros i _.
    rewrite (map_ext_in (fun o => (o, unravel (ext_of mask sh) i, true)) (fun o => (o, unravel (ext_of mask sh) i, dis o))).
    2:{ intros o Ho. apply filter_In in Ho as [_ Ho]. destruct (dis o); [reflexivity|discriminate]. }
    rewrite (map_ext_in (fun o => (o, unravel (ext_of mask sh) i, false)) (fun o => (o, unravel (ext_of mask sh) i, dis o))).
    2:{ intros o Ho. apply filter_In in Ho as [_ Ho]. destruct (dis o); [discriminate|reflexivity]. }
    rewrite <- map_app. apply Permutation_map.
    rewrite (filter_ext (fun o => Bool.eqb (dis o) false) (fun o => negb (Bool.eqb (dis o) true)))
      by (intros o; destruct (dis o); reflexivity).
    apply filter_partition_perm.
  Qed.

  Lemma ids_of_prep_fun p id : In id (ids_of_prep p) -> fst id = prep_fun p.
  Proof.
    destruct p; cbn [ids_of_prep prep_fun].
    - intros H. apply in_map_iff in H as [i [<- _]]. reflexivity.
    - intros [<-|[]]. reflexivity.
  Qed.

  (* one generation of a successful parallel run: what is appended to the logs *)
  Theorem gen_logs ps gen pi ps' :
    par_gen body dis user ps gen pi = Ok ps' ->
    exists preps L T,
      map prep_fun preps = gen /\ p_preps ps' = p_preps ps ++ preps
      /\ p_log ps' = p_log ps ++ L /\ Permutation (map call_id L) (flat_map ids_of_prep preps)
      /\ p_trace ps' = p_trace ps ++ T /\ Permutation (map dump_id T) (flat_map (dump_ids_of_prep dis) preps).
  Proof.
    unfold par_gen. intros H.
    destruct (submit_gen user (p_env ps) (p_shapes ps) gen) as [[preps shapes']|e] eqn:Es; cbn [bind fst snd] in H; [|discriminate].
    destruct (parent_fields _ _ _ _ _ _ _ H) as (_ & Hlog & Hpreps). cbn [p_log p_preps] in *.
    destruct (parent_inv body dis preps pi _ preps [] _ _ eq_refl H) as [Hok [PT [Htr Hpt]]]. cbn [p_trace] in Htr.
    set (tasks := flat_map tasks_of preps) in *.
    assert (forall t, In t tasks -> exists p outs, In t (tasks_of p) /\ oc_res (run_task body dis t) = Ok outs) as Hok'.
    { intros t Ht. destruct (Hok t Ht) as [outs Ho]. apply in_flat_map in Ht as [p [_ Ht]]. eauto. }
    exists preps. eexists. eexists. split; [eapply submit_gen_funs; exact Es|]. split; [exact Hpreps|].
    split; [exact Hlog|]. split; [|split; [rewrite Htr, <- app_assoc; reflexivity|]].
    - rewrite execute_calls.
      eapply Permutation_trans; [apply Permutation_map, Permutation_flat_map_l, order_perm|].
      rewrite (flat_map_slots body dis oc_calls tasks), map_flat_map.
      rewrite (flat_map_ext_in _ (fun t => [task_id t])).
      2:{ intros t Ht. destruct (Hok' t Ht) as (p & outs & Hin & Ho).
          now destruct (task_ok_ids body dis p t outs Hin Ho) as [Hc _]. }
      rewrite flat_map_singleton. unfold tasks. rewrite map_flat_map.
      rewrite (flat_map_ext_in _ ids_of_prep) by (intros p _; apply task_ids_of_prep). apply Permutation_refl.
    - rewrite map_app, Hpt.
      apply Permutation_trans with (flat_map (ids_w dis true) preps ++ flat_map (ids_w dis false) preps).
      2:{ eapply Permutation_trans; [apply flat_map_app_perm|].
          apply Permutation_flat_map_ext. intros p _. apply ids_w_perm. }
      apply Permutation_app_tail. rewrite execute_dumps.
      eapply Permutation_trans; [apply Permutation_map, Permutation_flat_map_l, order_perm|].
      rewrite (flat_map_slots body dis oc_dumps tasks), map_flat_map.
      rewrite (flat_map_ext_in _ (task_wids dis)).
      2:{ intros t Ht. destruct (Hok' t Ht) as (p & outs & Hin & Ho).
          now destruct (task_ok_ids body dis p t outs Hin Ho) as [_ [Hd _]]. }
      unfold tasks. rewrite flat_map_flat_map'.
      rewrite (flat_map_ext_in _ (ids_w dis true)) by (intros p _; apply task_wids_of_prep). apply Permutation_refl.
  Qed.

  Theorem gens_logs : forall gens ps pis ps',
    par_gens body dis user ps gens pis = Ok ps' ->
    exists PP L T,
      map prep_fun PP = concat gens /\ p_preps ps' = p_preps ps ++ PP
      /\ p_log ps' = p_log ps ++ L /\ Permutation (map call_id L) (flat_map ids_of_prep PP)
      /\ p_trace ps' = p_trace ps ++ T /\ Permutation (map dump_id T) (flat_map (dump_ids_of_prep dis) PP).
  Proof.
    induction gens as [|g rest IH]; intros ps pis ps' H; cbn [par_gens] in H.
    - injection H as <-. exists [], [], []. cbn. rewrite !app_nil_r. repeat split; constructor.
    - destruct (par_gen body dis user ps g (hd [] pis)) as [ps1|e] eqn:Eg; cbn [bind] in H; [|discriminate].
      destruct (gen_logs _ _ _ _ Eg) as (P1 & L1 & T1 & Hf1 & Hp1 & Hl1 & Hc1 & Ht1 & Hd1).
      destruct (IH _ _ _ H) as (P2 & L2 & T2 & Hf2 & Hp2 & Hl2 & Hc2 & Ht2 & Hd2).
      exists (P1 ++ P2), (L1 ++ L2), (T1 ++ T2). cbn [concat].
      rewrite map_app, Hf1, Hf2, Hp2, Hp1, Hl2, Hl1, Ht2, Ht1, <- !app_assoc, !map_app, !flat_map_app.
      repeat split; now apply Permutation_app.
  Qed.

  (* ---------- barrier ---------- *)
  Definition consumes_from (c : call) (p : prep) : Prop :=
    exists q, In q (fparams (c_fn c)) /\ In q (fouts (prep_fun p)).
  Definition barrier_prop (log : list call) (preps : list prep) : Prop :=
    forall l1 c l2, log = l1 ++ c :: l2 ->
    forall p, In p preps -> consumes_from c p ->
    forall id, In id (ids_of_prep p) -> In id (map call_id l1).

  Lemma call_in_preps L preps c :
    Permutation (map call_id L) (flat_map ids_of_prep preps) -> In c L -> In (c_fn c) (map prep_fun preps).
  Proof.
    intros HP Hc. assert (In (call_id c) (map call_id L)) as Hin by (now apply in_map).
    apply (Permutation_in _ HP) in Hin. apply in_flat_map in Hin as [p [Hp Hid]].
    apply ids_of_prep_fun in Hid. cbn [call_id fst] in Hid. rewrite Hid. now apply in_map.
  Qed.

  Theorem gens_barrier : forall gens ps pis ps',
    layered gens = true -> par_gens body dis user ps gens pis = Ok ps' ->
    barrier_prop (p_log ps) (p_preps ps) ->
    Permutation (map call_id (p_log ps)) (flat_map ids_of_prep (p_preps ps)) ->
    (forall c, In c (p_log ps) -> forall q, In q (fparams (c_fn c)) -> ~ In q (flat_map fouts (concat gens))) ->
    barrier_prop (p_log ps') (p_preps ps').
  Proof.
    induction gens as [|g rest IH]; intros ps pis ps' Hlay H Hbar Hperm Hold; cbn [par_gens] in H.
    - now injection H as <-.
    - destruct (par_gen body dis user ps g (hd [] pis)) as [ps1|e] eqn:Eg; cbn [bind] in H; [|discriminate].
      destruct (gen_logs _ _ _ _ Eg) as (P1 & L1 & T1 & Hf1 & Hp1 & Hl1 & Hc1 & _ & _).
      destruct (layered_cons _ _ Hlay) as [Hg Hrest]. cbn [concat] in Hold.
      assert (forall c, In c L1 -> In (c_fn c) g) as HL1.
      { intros c Hc. rewrite <- Hf1. eapply call_in_preps; eassumption. }
      apply (IH ps1 (tl pis) ps' Hrest H).
      + (* barrier for the enlarged log *)
        rewrite Hl1, Hp1. intros l1 c l2 Heq p Hp Hcons id Hid.
        apply app_eq_app in Heq as [l [[Ha Hb]|[Ha Hb]]].
        * (* c inside the new segment, or at its start *)
          destruct l as [|c' l].
          -- rewrite app_nil_r in Ha. cbn [app] in Hb. subst l1.
             assert (In c L1) as HcL by (rewrite <- Hb; now left).
             apply in_app_or in Hp as [Hp|Hp].
             ++ apply (Permutation_in _ (Permutation_sym Hperm)). apply in_flat_map. eauto.
             ++ exfalso. destruct Hcons as [q [Hq Hqo]]. apply (Hg (c_fn c) (HL1 c HcL) q Hq).
                rewrite flat_map_app. apply in_or_app. left. apply in_flat_map. exists (prep_fun p).
                split; [rewrite <- Hf1; now apply in_map|exact Hqo].
          -- cbn [app] in Hb. injection Hb as -> Hb.
             apply in_app_or in Hp as [Hp|Hp].
             ++ eapply (Hbar _ _ _ Ha); eassumption.
             ++ exfalso. destruct Hcons as [q [Hq Hqo]].
                apply (Hold c' ltac:(rewrite Ha; apply in_or_app; right; now left) q Hq).
                rewrite flat_map_app. apply in_or_app. left. apply in_flat_map. exists (prep_fun p).
                split; [rewrite <- Hf1; now apply in_map|exact Hqo].
        * (* c inside the new segment *)
          subst l1. assert (In c L1) as HcL by (rewrite Hb; apply in_or_app; right; now left).
          rewrite map_app. apply in_or_app. left.
          apply in_app_or in Hp as [Hp|Hp].
          -- apply (Permutation_in _ (Permutation_sym Hperm)). apply in_flat_map. eauto.
          -- exfalso. destruct Hcons as [q [Hq Hqo]]. apply (Hg (c_fn c) (HL1 c HcL) q Hq).
             rewrite flat_map_app. apply in_or_app. left. apply in_flat_map. exists (prep_fun p).
             split; [rewrite <- Hf1; now apply in_map|exact Hqo].
      + rewrite Hl1, Hp1, map_app, flat_map_app. now apply Permutation_app.
      + rewrite Hl1. intros c Hc q Hq Hin. apply in_app_or in Hc as [Hc|Hc].
        * apply (Hold c Hc q Hq). rewrite flat_map_app. apply in_or_app. now right.
        * apply (Hg (c_fn c) (HL1 c Hc) q Hq). rewrite flat_map_app. apply in_or_app. now right.
  Qed.
End LogsRun.

(* ================================================================ converse: a successful parallel run means
   the sequential run succeeds too *)
Lemma sto_dump_from_items sh mask key v l st :
  dump_items sh mask key v = Ok l -> sto_dump sh mask key v st = Ok (l ++ st).
Proof.
  unfold dump_items, sto_dump. destruct v as [x|a]; destruct (int_of mask sh) as [|d t]; try discriminate.
  - intros [= <-]. reflexivity.
  - destruct (negb _); [discriminate|]. destruct (mapM _ _) as [l0|e]; cbn [bind]; [|discriminate].
    intros [= <-]. now rewrite app_nil_r.
Qed.

Lemma Forall2_impl_in {A B} (R R' : A -> B -> Prop) l r :
  Forall2 R l r -> (forall x y, In x l -> R x y -> R' x y) -> Forall2 R' l r.
Proof.
  induction 1 as [|x y l r Hxy Hrest IH]; intros H; constructor.
  - apply H; [now left|exact Hxy].
  - apply IH. intros a b Ha. apply H. now right.
Qed.

(* a mapped function has at least one output name (a MapSpec has at least one output) *)
Definition prep_named (p : prep) : Prop :=
  match p with PMapped f _ _ _ _ => fouts f <> [] | PSingle _ _ => True end.

Lemma prep_func_named user shapes e f p s :
  (is_mapped f = true -> fouts f <> []) -> prep_func user shapes e f = Ok (p, s) -> prep_named p.
Proof.
  intros Hn. unfold prep_func. destruct (func_shape user shapes f) as [shm|]; cbn [bind]; [|discriminate].
  destruct (func_kwargs f e) as [kw|]; cbn [bind]; [|discriminate].
  destruct (is_mapped f).
  - destruct (fspec f); [|discriminate]. destruct shm as [[sh mask]|]; [|discriminate].
    intros [= <- _]. cbn [prep_named]. now apply Hn.
  - intros [= <- _]. exact I.
Qed.

Lemma submit_gen_named user e gen : forall shapes preps s,
  (forall f, In f gen -> is_mapped f = true -> fouts f <> []) ->
  submit_gen user e shapes gen = Ok (preps, s) -> Forall prep_named preps.
Proof.
  induction gen as [|f t IH]; intros shapes preps s Hn H; cbn [submit_gen] in H.
  - injection H as <- _. constructor.
  - destruct (prep_func user shapes e f) as [[p sa]|] eqn:Ep; cbn [bind fst snd] in H; [|discriminate].
    destruct (submit_gen user e sa t) as [[ps sb]|] eqn:Et; cbn [bind fst snd] in H; [|discriminate].
    injection H as <- _. constructor.
    + eapply prep_func_named; [|exact Ep]. apply Hn. now left.
    + eapply IH; [|exact Et]. intros g Hg. apply Hn. now right.
Qed.

Section Converse.
  Variable body : mfunc -> env -> result (list val).
  Variable dis : str -> bool.

  Lemma dumps_for_inv w f ms sh mask i outs evs :
    dumps_for dis w f ms sh mask i outs = Ok evs ->
    forall ov, In ov (combine (fouts f) outs) -> Bool.eqb (dis (fst ov)) w = true ->
    output_key ms (ext_of mask sh) i = Ok (unravel (ext_of mask sh) i)
    /\ exists l, dump_items sh mask (unravel (ext_of mask sh) i) (snd ov) = Ok l.
  Proof.
    unfold dumps_for. intros H ov Hov Hw.
    assert (In ov (filter (fun ov => Bool.eqb (dis (fst ov)) w) (combine (fouts f) outs))) as Hin
      by (apply filter_In; split; assumption).
    destruct (filter _ (combine (fouts f) outs)) as [|ov0 sel] eqn:Ef; [contradiction|].
    destruct (output_key ms (ext_of mask sh) i) as [key|e] eqn:Ek; cbn [bind] in H; [|discriminate].
    pose proof (output_key_unravel _ _ _ _ Ek) as ->. split; [reflexivity|].
    destruct (mapM_ok_in _ _ _ ov H Hin) as [ev [Hev _]].
    destruct (dump_items sh mask _ (snd ov)) as [l|e]; [eauto|discriminate].
  Qed.

  Section OneMapped.
    Variables (f : mfunc) (ms : mapspec) (kw : env) (sh : list nat) (mask : list bool).
    Notation k := (length (fouts f)).
    Notation p := (PMapped f ms kw sh mask).
    Hypothesis Hk : 0 < k.

    Lemma seq_from_par l : forall ol A0 T0 A T S0,
      length S0 = k ->
      Forall2 (fun i outs => oc_res (run_task body dis (p, Some i)) = Ok outs) l ol ->
      fold_left (fun acc io =>
                   do st <- acc;
                   do arrs <- mapM (fun av => place sh mask (fst io) (snd av) (fst av)) (combine (fst st) (snd io));
                   do evs <- dumps_for dis false f ms sh mask (fst io) (snd io);
                   Ok (arrs, snd st ++ evs)) (combine l ol) (Ok (A0, T0)) = Ok (A, T) ->
      exists S, fold_left (seq_step body f ms kw sh mask) l (Ok (A0, S0)) = Ok (A, S).
    Proof.
      intros ol A0 T0 A T S0 HS HF. revert A0 T0 A T S0 HS.
      induction HF as [|i outs l ol Hi HF IH]; intros A0 T0 A T S0 HS H; cbn [combine fold_left] in *.
      - injection H as <- _. eauto.
      - cbn [bind fst snd] in H.
        destruct (mapM _ (combine A0 outs)) as [A1|e] eqn:Ea; cbn [bind] in H; [|rewrite fold_left_bind_err in H; discriminate].
        destruct (dumps_for dis false f ms sh mask i outs) as [evp|e] eqn:Edp; cbn [bind] in H;
          [|rewrite fold_left_bind_err in H; discriminate].
        destruct (run_task_mapped_inv body dis _ _ _ _ _ _ _ Hi) as (sel & evw & Hs & Hb & Hl & Hdw & _).
        assert (forall ov, In ov (combine (fouts f) outs) ->
                  output_key ms (ext_of mask sh) i = Ok (unravel (ext_of mask sh) i)
                  /\ exists l, dump_items sh mask (unravel (ext_of mask sh) i) (snd ov) = Ok l) as Hall.
        { intros ov Hov. destruct (dis (fst ov)) eqn:Ed.
          - apply (dumps_for_inv true _ _ _ _ _ _ _ Hdw ov Hov). now rewrite Ed.
          - apply (dumps_for_inv false _ _ _ _ _ _ _ Edp ov Hov). now rewrite Ed. }
        assert (output_key ms (ext_of mask sh) i = Ok (unravel (ext_of mask sh) i)) as Hkey.
        { destruct (fouts f) as [|o0 os] eqn:Ef; [cbn in Hk; lia|]. destruct outs as [|v0 vs]; [cbn in Hl; discriminate|].
          now destruct (Hall (o0, v0) (or_introl eq_refl)). }
        set (items := fun v => match dump_items sh mask (unravel (ext_of mask sh) i) v with Ok l => l | Err _ => [] end).
        assert (seq_step body f ms kw sh mask (Ok (A0, S0)) i
                = Ok (A1, map (fun sv => items (snd sv) ++ fst sv) (combine S0 outs))) as Hstep.
        { unfold seq_step. cbn [bind fst snd]. rewrite Hs. cbn [bind]. rewrite Hb. cbn [bind].
          rewrite Hl, Nat.eqb_refl. cbn [negb]. rewrite Hkey. cbn [bind]. rewrite Ea. cbn [bind].
          rewrite (mapM_ok_map_in _ (fun sv => items (snd sv) ++ fst sv)); [reflexivity|].
          intros [s0 v] Hin. cbn [fst snd].
          destruct (in_combine_of_snd v (fouts f) outs (in_combine_r _ _ _ _ Hin) ltac:(lia)) as [o Ho].
          destruct (Hall (o, v) Ho) as [_ [l' Hl']]. cbn [snd] in Hl'. unfold items. rewrite Hl'.
          now apply sto_dump_from_items. }
        destruct (IH A1 (T0 ++ evp) A T (map (fun sv => items (snd sv) ++ fst sv) (combine S0 outs))) as [S HSf].
        + rewrite map_length, combine_length. lia.
        + exact H.
        + exists S. now rewrite Hstep.
    Qed.
  End OneMapped.

  Variable preps_all : list prep.
  Variable pi : list nat.
  Notation done := (execute body dis (flat_map tasks_of preps_all) (order (length (flat_map tasks_of preps_all)) pi)).

  Lemma finish_seq_rev wtrace pre p post r c0 :
    preps_all = pre ++ p :: post -> prep_named p ->
    finish_prep dis done wtrace (length (flat_map tasks_of pre)) p = Ok r ->
    exists c1, seq_prep body c0 p = Ok c1.
  Proof.
    intros Hp Hne H. destruct p as [f ms kw sh mask|f kw]; cbn [finish_prep seq_prep prep_fun prep_named] in *.
    - destruct (mapM _ (seq 0 _)) as [ol|e] eqn:Em; cbn [bind] in H; [|discriminate].
      destruct (collect_mapped dis f ms sh mask _ ol) as [[A T]|e] eqn:Ec; cbn [bind] in H; [|discriminate].
      cbn [missing_of] in Em, Ec. rewrite seq_length in Em.
      assert (Forall2 (fun i outs => oc_res (run_task body dis (PMapped f ms kw sh mask, Some i)) = Ok outs)
                      (seq 0 (prod (ext_of mask sh))) ol) as HF.
      { apply (Forall2_impl_in _ _ _ _ (mapM_Forall2 _ _ _ Em)). intros i outs Hi Hio. apply in_seq in Hi.
        rewrite <- (await_slot body dis preps_all pi pre _ post i (PMapped f ms kw sh mask, Some i) Hp); [exact Hio|].
        cbn [tasks_of missing_of]. rewrite nth_error_map, nth_error_seq0 by lia. reflexivity. }
      unfold collect_mapped in Ec.
      destruct (seq_from_par f ms kw sh mask ltac:(destruct (fouts f); [congruence|cbn; lia]) _ _ _ _ _ _
                  (repeat ([] : sto) (length (fouts f))) (repeat_length _ _) HF Ec) as [S HS].
      rewrite run_mapped_unfold. unfold init_arrs. rewrite HS. cbn [bind]. eauto.
    - destruct (await done _) as [outs|e] eqn:Ea; cbn [bind] in H; [|discriminate].
      rewrite <- (Nat.add_0_r (length (flat_map tasks_of pre))) in Ea.
      rewrite (await_slot body dis preps_all pi pre _ post 0 (PSingle f kw, None) Hp) in Ea by reflexivity.
      destruct (run_task_single_inv body dis _ _ _ Ea) as (Hb & Hl & _).
      rewrite Hb. cbn [bind]. rewrite Hl, Nat.eqb_refl. cbn [negb]. eauto.
  Qed.

  Lemma parent_seq_rev wtrace : forall rest pre c0 ps ps',
    preps_all = pre ++ rest -> (forall p, In p rest -> prep_named p) ->
    parent dis done wtrace rest (length (flat_map tasks_of pre)) ps = Ok ps' ->
    exists c, seq_preps body c0 rest = Ok c.
  Proof.
    induction rest as [|p rest IH]; intros pre c0 ps ps' Hp Hne H; cbn [parent] in H.
    - exists c0. reflexivity.
    - destruct (finish_prep dis done wtrace _ p) as [r|e] eqn:Ef; cbn [bind] in H; [|discriminate].
      destruct (finish_seq_rev wtrace pre p rest r c0 Hp (Hne p (or_introl eq_refl)) Ef) as [c1 Hc1].
      rewrite <- flat_map_length_app in H.
      destruct (IH (pre ++ [p]) c1 _ _ ltac:(now rewrite <- app_assoc) (fun q Hq => Hne q (or_intror Hq)) H) as [c Hc].
      exists c. unfold seq_preps. cbn [fold_left bind]. rewrite Hc1. exact Hc.
  Qed.
End Converse.

Section ConverseRun.
  Variable body : mfunc -> env -> result (list val).
  Variable dis : str -> bool.
  Variable user : shape_dict.
  Notation seq_fold := (fold_left (fun acc f => do st <- acc; run_func body user st f)).

  Lemma seq_preps_gen gen : forall rs e0 new preps shapes' c,
    r_env rs = new ++ e0 ->
    (forall f, In f gen -> forall q, In q (fparams f) -> ~ In q (map fst new) /\ ~ In q (flat_map fouts gen)) ->
    submit_gen user e0 (r_shapes rs) gen = Ok (preps, shapes') ->
    seq_preps body (core_of rs) preps = Ok c ->
    seq_fold gen (Ok rs) = Ok (state_of c shapes').
  Proof.
    induction gen as [|f t IH]; intros rs e0 new preps shapes' c Henv Hlay Hsub Hsp; cbn [submit_gen] in Hsub.
    - injection Hsub as <- <-. unfold seq_preps in Hsp. cbn [fold_left] in *. injection Hsp as <-.
      destruct rs; reflexivity.
    - destruct (prep_func user (r_shapes rs) e0 f) as [[p sa]|e] eqn:Ep; cbn [bind fst snd] in Hsub; [|discriminate].
      destruct (submit_gen user e0 sa t) as [[ps sb]|e] eqn:Et; cbn [bind fst snd] in Hsub; [|discriminate].
      injection Hsub as <- <-. unfold seq_preps in Hsp. cbn [fold_left bind] in Hsp.
      destruct (seq_prep body (core_of rs) p) as [ca|e] eqn:Ec; [|rewrite seq_preps_err in Hsp; discriminate].
      cbn [fold_left bind]. rewrite run_func_prep, Henv.
      rewrite prep_func_env_irrel by (intros q Hq; apply (Hlay f (or_introl eq_refl) q Hq)).
      rewrite Ep. cbn [bind fst snd]. rewrite Ec. cbn [bind].
      destruct (seq_prep_env _ _ _ _ Ec) as [newa [Hea Hka]]. rewrite (prep_func_fun _ _ _ _ _ _ Ep) in Hka.
      apply (IH (state_of ca sa) e0 (newa ++ new) ps sb c).
      + cbn [state_of r_env]. rewrite Hea. cbn [core_of fst]. rewrite Henv. now rewrite app_assoc.
      + intros g Hg q Hq. destruct (Hlay g (or_intror Hg) q Hq) as [H1 H2]. cbn [flat_map] in H2. split.
        * rewrite map_app. intros Hin. apply in_app_or in Hin as [Hin|Hin]; [|now apply H1].
          apply H2. apply in_or_app. left. now apply Hka.
        * intros Hin. apply H2. apply in_or_app. now right.
      + exact Et.
      + replace (core_of (state_of ca sa)) with ca by (destruct ca as [[? ?] ?]; reflexivity). exact Hsp.
  Qed.

  Lemma par_gen_seq_ok ps rs gen pi ps' :
    st_rel ps rs ->
    (forall f, In f gen -> forall q, In q (fparams f) -> ~ In q (flat_map fouts gen)) ->
    (forall f, In f gen -> is_mapped f = true -> fouts f <> []) ->
    par_gen body dis user ps gen pi = Ok ps' ->
    exists rs', seq_fold gen (Ok rs) = Ok rs'.
  Proof.
    intros (He & Hsh & _) Hlay Hne H. unfold par_gen in H.
    destruct (submit_gen user (p_env ps) (p_shapes ps) gen) as [[preps shapes']|e] eqn:Es; cbn [bind fst snd] in H; [|discriminate].
    assert (forall p, In p preps -> prep_named p) as Hne'.
    { apply Forall_forall. eapply submit_gen_named; eassumption. }
    destruct (parent_seq_rev body dis preps pi _ preps [] (core_of rs) _ _ eq_refl Hne' H) as [c Hc].
    exists (state_of c shapes'). apply (seq_preps_gen gen rs (r_env rs) [] preps shapes' c); try assumption.
    - reflexivity.
    - intros f Hf q Hq. split; [intros []|exact (Hlay f Hf q Hq)].
    - now rewrite <- He, <- Hsh.
  Qed.

  Theorem par_gens_seq_ok : forall gens ps rs pis ps',
    st_rel ps rs -> NoDup (flat_map fouts (concat gens)) -> layered gens = true ->
    (forall f, In f (concat gens) -> is_mapped f = true -> fouts f <> []) ->
    par_gens body dis user ps gens pis = Ok ps' ->
    exists rs', seq_fold (concat gens) (Ok rs) = Ok rs'.
  Proof.
    induction gens as [|g rest IH]; intros ps rs pis ps' Hrel Hnd Hlay Hne H; cbn [par_gens concat] in *.
    - exists rs. reflexivity.
    - destruct (par_gen body dis user ps g (hd [] pis)) as [ps1|e] eqn:Eg; cbn [bind] in H; [|discriminate].
      destruct (layered_cons _ _ Hlay) as [Hg Hrest].
      assert (forall f, In f g -> forall q, In q (fparams f) -> ~ In q (flat_map fouts g)) as Hg'.
      { intros f Hf q Hq Hin. apply (Hg f Hf q Hq). rewrite flat_map_app. apply in_or_app. now left. }
      destruct (par_gen_seq_ok ps rs g (hd [] pis) ps1 Hrel Hg' (fun f Hf => Hne f (in_or_app _ _ _ (or_introl Hf))) Eg)
        as [rs1 Hs1].
      rewrite flat_map_app in Hnd. destruct (NoDup_app_inv _ _ Hnd) as [Hndg _].
      destruct (par_gen_equiv body dis user ps rs g (hd [] pis) rs1 Hrel Hg' Hndg Hs1) as (ps1' & _ & Hp1 & Hrel1 & _).
      rewrite Eg in Hp1. injection Hp1 as <-.
      destruct (IH ps1 rs1 (tl pis) ps' Hrel1) as [rs' Hs']; [|exact Hrest| |exact H|].
      + clear - Hnd. induction (flat_map fouts g) as [|a l IHl]; [exact Hnd|]. cbn [app] in Hnd.
        inversion Hnd; subst. now apply IHl.
      + intros f Hf. apply Hne. apply in_or_app. now right.
      + exists rs'. now rewrite fold_left_app, Hs1.
  Qed.
End ConverseRun.

(* ================================================================ the theorems *)
Lemma ids_tasks_length p : length (ids_of_prep p) = length (tasks_of p).
Proof. destruct p; cbn [ids_of_prep tasks_of]; [now rewrite !map_length|reflexivity]. Qed.

Lemma flat_map_length_ext {A B C} (g : A -> list B) (h : A -> list C) l :
  (forall x, length (g x) = length (h x)) -> length (flat_map g l) = length (flat_map h l).
Proof. intros H. induction l as [|x l IH]; cbn [flat_map]; [reflexivity|]. now rewrite !app_length, H, IH. Qed.

Lemma layering_ok_split gens :
  layering_ok gens = true -> NoDup (flat_map fouts (concat gens)) /\ layered gens = true.
Proof.
  unfold layering_ok. intros H. apply andb_true_iff in H as [H1 H2]. split; [|exact H2]. now apply nodup_str_NoDup.
Qed.

Section Theorems.
  Variable body : mfunc -> env -> result (list val).
  Variable dis : str -> bool.
  Variable user : shape_dict.

  Notation seq_fold := (fold_left (fun acc f => do st <- acc; run_func body user st f)).

  Theorem par_gens_equiv : forall gens ps rs pis rs',
    st_rel ps rs -> length (p_log ps) = r_calls rs ->
    NoDup (flat_map fouts (concat gens)) -> layered gens = true ->
    seq_fold (concat gens) (Ok rs) = Ok rs' ->
    exists ps', par_gens body dis user ps gens pis = Ok ps' /\ st_rel ps' rs' /\ length (p_log ps') = r_calls rs'.
  Proof.
    induction gens as [|g rest IH]; intros ps rs pis rs' Hrel Hcnt Hnd Hlay Hseq; cbn [concat] in *.
    - cbn [fold_left] in Hseq. injection Hseq as <-. exists ps. repeat split; [apply Hrel..|exact Hcnt].
    - rewrite fold_left_app in Hseq.
      destruct (seq_fold g (Ok rs)) as [rs1|e] eqn:Eg; [|rewrite run_fold_err in Hseq; discriminate].
      destruct (layered_cons _ _ Hlay) as [Hg Hrest].
      rewrite flat_map_app in Hnd. destruct (NoDup_app_inv _ _ Hnd) as [Hndg _].
      destruct (par_gen_equiv body dis user ps rs g (hd [] pis) rs1 Hrel) as (ps1 & preps & Hp1 & Hrel1 & Hpp & Hc1).
      + intros f Hf q Hq Hin. apply (Hg f Hf q Hq). rewrite flat_map_app. apply in_or_app. now left.
      + exact Hndg.
      + exact Eg.
      + cbn [par_gens]. rewrite Hp1. cbn [bind]. apply (IH ps1 rs1 (tl pis) rs' Hrel1); [| |exact Hrest|exact Hseq].
        * destruct (gen_logs body dis user _ _ _ _ Hp1) as (P1 & L1 & T1 & _ & Hpp' & Hl1 & Hperm & _).
          rewrite Hpp in Hpp'. apply app_inv_head in Hpp'. subst P1.
          rewrite Hl1, app_length, Hc1, Hcnt. f_equal.
          rewrite <- (map_length call_id), (Permutation_length Hperm).
          apply flat_map_length_ext. apply ids_tasks_length.
        * clear - Hnd. induction (flat_map fouts g) as [|a l IHl]; [exact Hnd|]. cbn [app] in Hnd.
          inversion Hnd; subst. now apply IHl.
  Qed.

  (* C03, main theorem: for EVERY list of schedules the parallel run returns what the sequential run returns *)
  Theorem par_equiv_seq gens inputs pis rs :
    layering_ok gens = true ->
    map_run body (concat gens) inputs user = Ok rs ->
    exists ps, par_run body dis gens inputs user pis = Ok ps
               /\ p_env ps = r_env rs /\ p_shapes ps = r_shapes rs /\ p_out ps = r_out rs
               /\ length (p_log ps) = r_calls rs.
  Proof.
    intros Hl Hseq. destruct (layering_ok_split _ Hl) as [Hnd Hlay].
    assert (st_rel (par_init inputs)
              {| r_env := inputs; r_shapes := init_shapes inputs; r_out := []; r_calls := 0 |}) as Hrel
      by (repeat split).
    destruct (par_gens_equiv gens (par_init inputs) _ pis rs Hrel eq_refl Hnd Hlay Hseq)
      as (ps & Hp & (H1 & H2 & H3) & H4).
    exists ps. repeat split; assumption.
  Qed.

  (* ... hence any two schedules give the same results *)
  Corollary par_schedule_independent gens inputs pis pis' rs :
    layering_ok gens = true -> map_run body (concat gens) inputs user = Ok rs ->
    exists ps ps', par_run body dis gens inputs user pis = Ok ps /\ par_run body dis gens inputs user pis' = Ok ps'
                   /\ p_out ps = p_out ps' /\ p_env ps = p_env ps'.
  Proof.
    intros Hl Hseq.
    destruct (par_equiv_seq gens inputs pis rs Hl Hseq) as (ps & Hp & H1 & _ & H3 & _).
    destruct (par_equiv_seq gens inputs pis' rs Hl Hseq) as (ps' & Hp' & H1' & _ & H3' & _).
    exists ps, ps'. repeat split; congruence.
  Qed.

  (* every submitted task is invoked exactly once: the log is a permutation of
     [(f, Some 0); ...; (f, Some (n-1))] per mapped function and [(f, None)] per unmapped one *)
  Theorem calls_exactly_once gens inputs pis ps :
    par_run body dis gens inputs user pis = Ok ps ->
    map prep_fun (p_preps ps) = concat gens
    /\ Permutation (map call_id (p_log ps)) (flat_map ids_of_prep (p_preps ps)).
  Proof.
    intros H. destruct (gens_logs body dis user _ _ _ _ H) as (PP & L & T & Hf & Hp & Hl & Hc & _).
    cbn [par_init p_preps p_log app] in Hp, Hl. subst. split; assumption.
  Qed.

  (* each element is dumped exactly once: by the worker iff the storage dumps in the subprocess *)
  Theorem single_dump gens inputs pis ps :
    par_run body dis gens inputs user pis = Ok ps ->
    Permutation (map dump_id (p_trace ps)) (flat_map (dump_ids_of_prep dis) (p_preps ps)).
  Proof.
    intros H. destruct (gens_logs body dis user _ _ _ _ H) as (PP & L & T & _ & Hp & _ & _ & Ht & Hd).
    cbn [par_init p_preps p_trace app] in Hp, Ht. subst. exact Hd.
  Qed.

  (* no call before all calls of the functions whose values it consumes *)
  Theorem barrier gens inputs pis ps :
    layered gens = true -> par_run body dis gens inputs user pis = Ok ps ->
    forall l1 c l2, p_log ps = l1 ++ c :: l2 ->
    forall p, In p (p_preps ps) -> (exists q, In q (fparams (c_fn c)) /\ In q (fouts (prep_fun p))) ->
    forall id, In id (ids_of_prep p) -> In id (map call_id l1).
  Proof.
    intros Hlay H. apply (gens_barrier body dis user gens (par_init inputs) pis ps Hlay H).
    - intros l1 c l2 Heq. destruct l1; discriminate.
    - apply Permutation_refl.
    - intros c [].
  Qed.
End Theorems.

Section Theorems2.
  Variable body : mfunc -> env -> result (list val).
  Variable dis : str -> bool.
  Variable user : shape_dict.

  (* converse: a parallel run that succeeds (for SOME schedule) implies that the sequential run succeeds, with the
     same results; hence the parallel run succeeds for one schedule iff it succeeds for all of them *)
  Theorem par_ok_seq_ok gens inputs pis ps :
    layering_ok gens = true -> (forall f, In f (concat gens) -> is_mapped f = true -> fouts f <> []) ->
    par_run body dis gens inputs user pis = Ok ps ->
    exists rs, map_run body (concat gens) inputs user = Ok rs
               /\ p_env ps = r_env rs /\ p_shapes ps = r_shapes rs /\ p_out ps = r_out rs
               /\ length (p_log ps) = r_calls rs.
  Proof.
    intros Hl Hne H. destruct (layering_ok_split _ Hl) as [Hnd Hlay].
    assert (st_rel (par_init inputs)
              {| r_env := inputs; r_shapes := init_shapes inputs; r_out := []; r_calls := 0 |}) as Hrel
      by (repeat split).
    destruct (par_gens_seq_ok body dis user gens _ _ pis ps Hrel Hnd Hlay Hne H) as [rs Hs].
    exists rs. split; [exact Hs|].
    destruct (par_equiv_seq body dis user gens inputs pis rs Hl Hs) as (ps' & Hp' & H1 & H2 & H3 & H4).
    rewrite H in Hp'. injection Hp' as <-. repeat split; assumption.
  Qed.

  Corollary par_ok_any_schedule gens inputs pis pis' ps :
    layering_ok gens = true -> (forall f, In f (concat gens) -> is_mapped f = true -> fouts f <> []) ->
    par_run body dis gens inputs user pis = Ok ps ->
    exists ps', par_run body dis gens inputs user pis' = Ok ps' /\ p_out ps' = p_out ps /\ p_env ps' = p_env ps.
  Proof.
    intros Hl Hne H. destruct (par_ok_seq_ok gens inputs pis ps Hl Hne H) as (rs & Hs & H1 & _ & H3 & _).
    destruct (par_equiv_seq body dis user gens inputs pis' rs Hl Hs) as (ps' & Hp' & H1' & _ & H3' & _).
    exists ps'. repeat split; congruence.
  Qed.
End Theorems2.

(* the hypothesis of the converse theorems follows from C01's request_ok: a function with a MapSpec carries the
   output names of its (non-empty) MapSpec outputs *)
Lemma request_ok_named p inputs :
  MapDenote.request_ok p inputs = true -> forall f, In f p -> is_mapped f = true -> fouts f <> [].
Proof.
  unfold MapDenote.request_ok. intros H f Hf Hm.
  apply andb_true_iff in H as [H _]. apply andb_true_iff in H as [H _].
  rewrite forallb_forall in H. specialize (H f Hf). unfold MapDenote.func_ok in H.
  apply andb_true_iff in H as [_ H]. unfold is_mapped in Hm.
  destruct (fspec f) as [ms|]; [|discriminate].
  do 4 (apply andb_true_iff in H as [H _]).
  apply andb_true_iff in H as [Hwf Heq].
  apply (list_eqb_eq str_eqb str_eqb_eq) in Heq. rewrite <- Heq.
  unfold wf_decl in Hwf. apply andb_true_iff in Hwf as [_ Hwf].
  destruct (outs ms); [discriminate|]. discriminate.
Qed.

Section Theorems3.
  Variable body : mfunc -> env -> result (list val).
  Variable dis : str -> bool.
  Variable user : shape_dict.

  Theorem par_ok_seq_ok_req gens inputs pis ps :
    layering_ok gens = true -> MapDenote.request_ok (concat gens) inputs = true ->
    par_run body dis gens inputs user pis = Ok ps ->
    exists rs, map_run body (concat gens) inputs user = Ok rs
               /\ p_env ps = r_env rs /\ p_shapes ps = r_shapes rs /\ p_out ps = r_out rs
               /\ length (p_log ps) = r_calls rs.
  Proof. intros Hl Hr. apply par_ok_seq_ok; [exact Hl|exact (request_ok_named _ _ Hr)]. Qed.

  Theorem par_ok_any_schedule_req gens inputs pis pis' ps :
    layering_ok gens = true -> MapDenote.request_ok (concat gens) inputs = true ->
    par_run body dis gens inputs user pis = Ok ps ->
    exists ps', par_run body dis gens inputs user pis' = Ok ps' /\ p_out ps' = p_out ps /\ p_env ps' = p_env ps.
  Proof. intros Hl Hr. apply par_ok_any_schedule; [exact Hl|exact (request_ok_named _ _ Hr)]. Qed.
End Theorems3.
