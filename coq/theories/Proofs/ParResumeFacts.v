(* Proofs about Model/ParResume.v: a run on an existing store (resume, fixed_indices) executed generation-wise under
   ANY schedule leaves the store and returns the results of the sequential Model/MapResume run; the calls are a
   permutation of the sequential ones (= exactly the selected missing elements), every dump happens once. *)
From Coq Require Import Permutation.
From Verif Require Import Base.Prelude Base.StrUtil Base.Index Base.NdArr Base.PyRange Base.StrSeq
  Model.MapSpec Model.MapRun Model.ParGen
  Proofs.IndexFacts Proofs.StrFacts Proofs.ListFacts Proofs.ParGenFacts.
From Verif Require Import Model.MapResume Model.ParResume Proofs.MapResumeFacts.

(* ================================================================ dumps applied to one storage *)
Definition dumps_to (o : str) (x : nat) (a : action) : bool :=
  match a with ADump o' pos _ => str_eqb o' o && (pos =? x) | _ => false end.

Lemma apply_dumps_length o tr : forall st, length (apply_dumps o st tr) = length st.
Proof.
  unfold apply_dumps. induction tr as [|a tr IH]; intros st; cbn [fold_left]; [reflexivity|].
  rewrite IH. destruct a as [| o' pos v |]; try reflexivity. destruct (str_eqb o' o); [apply MapResumeFacts.upd_length|reflexivity].
Qed.

(* the cell x of a storage after the dumps of a trace whose dumps into (o, x) all carry the value V x *)
Lemma apply_dumps_nth o (V : nat -> val) x tr : forall st,
  (forall pos v, In (ADump o pos v) tr -> v = V pos) -> x < length st ->
  nth x (apply_dumps o st tr) None = if existsb (dumps_to o x) tr then Some (Ok (V x)) else nth x st None.
Proof.
  unfold apply_dumps. induction tr as [|a tr IH]; intros st HV Hx; cbn [fold_left existsb]; [reflexivity|].
  assert (HV' : forall pos v, In (ADump o pos v) tr -> v = V pos) by (intros pos v H; apply HV; now right).
  destruct a as [| o' pos v |]; cbn [dumps_to orb]; try (apply IH; assumption).
  destruct (str_eqb o' o) eqn:Eo; cbn [andb]; [|apply IH; assumption].
  apply str_eqb_eq in Eo. subst o'.
  rewrite IH by (try assumption; now rewrite MapResumeFacts.upd_length).
  destruct (existsb (dumps_to o x) tr); [now rewrite orb_true_r|]. rewrite orb_false_r.
  destruct (pos =? x) eqn:E.
  - apply Nat.eqb_eq in E. subst pos. rewrite nth_upd by exact Hx. rewrite Nat.eqb_refl. f_equal. f_equal. apply HV. now left.
  - apply nth_upd_other. apply Nat.eqb_neq in E. lia.
Qed.

Lemma existsb_dumps_to o x tr : existsb (dumps_to o x) tr = true <-> exists v, In (ADump o x v) tr.
Proof.
  rewrite existsb_exists. split.
  - intros [a [Ha Hd]]. destruct a as [| o' pos v |]; cbn [dumps_to] in Hd; try discriminate.
    apply andb_true_iff in Hd as [E1 E2]. apply str_eqb_eq in E1. apply Nat.eqb_eq in E2. subst. eauto.
  - intros [v Hv]. exists (ADump o x v). split; [exact Hv|]. cbn [dumps_to]. now rewrite str_eqb_refl, Nat.eqb_refl.
Qed.

Lemma process_collect f sh mask st ex :
  process_mapped f sh mask st ex = lift (m_tr st) (collect_arrays f sh mask (m_stores st) (m_results st) ex).
Proof.
  unfold process_mapped, collect_arrays.
  destruct (fold_left _ (m_results st) _) as [a1|e]; cbn [lift rbind bind]; [|reflexivity].
  destruct (fold_left _ ex (Ok a1)) as [a2|e]; reflexivity.
Qed.

Lemma rstore_eq r r' : st_arr r = st_arr r' -> st_val r = st_val r' -> r = r'.
Proof. destruct r, r'; cbn. now intros -> ->. Qed.

(* ================================================================ one mapped function *)
Section RFunc.
  Variable body : mfunc -> env -> result (list val).
  Variable dis : str -> bool.
  Variables (f : mfunc) (ms : mapspec) (kw : env) (sh : list nat) (mask : list bool).
  Notation ext := (ext_of mask sh).
  Notation N := (prod (ext_of mask sh)).
  Notation k := (length (fouts f)).
  Notation sel_at := (sel_at ms kw sh mask).
  Notation outs_at := (outs_at body f ms kw sh mask).

  Definition elem_ok (i : nat) : Prop :=
    select_kwargs ms kw ext i = Ok (sel_at i) /\ body f (sel_at i) = Ok (outs_at i)
    /\ length (outs_at i) = k /\ output_key ms ext i = Ok (unravel ext i).

  Lemma compute_elem_ok st i st' : compute_elem body f ms kw sh mask st i = ROk st' -> elem_ok i.
  Proof.
    unfold compute_elem, elem_ok, MapResumeFacts.outs_at, MapResumeFacts.sel_at.
    destruct (select_kwargs ms kw ext i) as [sel|] eqn:Es; cbn [lift rbind]; [|discriminate].
    destruct (body f sel) as [outs|] eqn:Eb; cbn [lift rbind]; [|discriminate].
    destruct (length outs =? k) eqn:El; cbn [negb]; [|discriminate].
    destruct (output_key ms ext i) as [key|] eqn:Ek; cbn [lift rbind]; [|discriminate].
    intros _. apply Nat.eqb_eq in El. apply MapResumeFacts.output_key_unravel in Ek. subst key. auto.
  Qed.

  Lemma step_fold_elems L : forall st0 st, step_fold body f ms kw sh mask L st0 = ROk st -> forall x, In x L -> elem_ok x.
  Proof.
    induction L as [|y L IH]; intros st0 st H x Hx; [contradiction|].
    apply step_fold_cons in H as [st1 [Hc Hr]]. destruct Hx as [<-|Hx]; [eapply compute_elem_ok; exact Hc|].
    eapply IH; eassumption.
  Qed.

  (* the dumps of element i for the outputs dumped by the worker (w = true) / the parent (w = false) *)
  Definition dumps_w (w : bool) (i : nat) : list action :=
    map (fun ov : str * val => ADump (fst ov) i (snd ov))
        (filter (fun ov => Bool.eqb (dis (fst ov)) w) (combine (fouts f) (outs_at i))).

  Lemma rdumps_ok w i : i < N -> elem_ok i -> rdumps dis w f ms sh mask i (outs_at i) = Ok (dumps_w w i).
  Proof.
    intros Hi (_ & _ & _ & Hk). unfold rdumps, dumps_w.
    destruct (filter _ _) as [|ov0 sel]; [reflexivity|]. rewrite Hk. cbn [bind].
    rewrite ravel_unravel by exact Hi. reflexivity.
  Qed.

  Lemma run_rtask_ok rs stores ex miss i : i < N -> elem_ok i ->
    run_rtask body dis rs (RMapped f ms kw sh mask stores ex miss, Some i)
    = {| rk_acts := ACall (fname f) (Some i) (sel_at i) :: dumps_w true i; rk_res := Ok (outs_at i) |}.
  Proof.
    intros Hi Hok. pose proof (rdumps_ok true i Hi Hok) as Hd. destruct Hok as (Hs & Hb & Hl & _).
    cbn [run_rtask]. rewrite Hs, Hb, Hl, Nat.eqb_refl. cbn [negb]. rewrite Hd. reflexivity.
  Qed.

  (* whatever the order of the dumps: a trace that contains, of the dumps into this function's outputs, exactly the
     dumps of the elements of L fills the stores like the sequential loop over L *)
  Lemma apply_filled (L : list nat) (stores : list estore) (tr : list action) :
    NoDup (fouts f) -> length stores = k ->
    (forall i, In i L -> length (outs_at i) = k) ->
    (forall o pos v, In (ADump o pos v) tr -> In o (fouts f) -> In pos L /\ In (o, v) (combine (fouts f) (outs_at pos))) ->
    (forall i ov, In i L -> In ov (combine (fouts f) (outs_at i)) -> In (ADump (fst ov) i (snd ov)) tr) ->
    filled body f ms kw sh mask L stores
           (map (fun os : str * estore => apply_dumps (fst os) (snd os) tr) (combine (fouts f) stores)).
  Proof.
    intros Hnd Hk Hlen Hsound Hcompl. split.
    - rewrite map_length, combine_length. lia.
    - intros j Hj.
      assert (Hjk : j < k) by lia.
      set (o := nth j (fouts f) []).
      assert (Hnth : nth j (map (fun os : str * estore => apply_dumps (fst os) (snd os) tr) (combine (fouts f) stores)) []
                     = apply_dumps o (nth j stores []) tr).
      { rewrite (nth_map_default _ _ j (([] : str), ([] : estore))) by (rewrite combine_length; lia).
        rewrite combine_nth by (symmetry; exact Hk). reflexivity. }
      rewrite Hnth. split; [apply apply_dumps_length|]. intros x Hx.
      rewrite (apply_dumps_nth o (fun pos => nth j (outs_at pos) dflt)).
      + destruct (memb x L) eqn:Em.
        * apply memb_In in Em.
          replace (existsb (dumps_to o x) tr) with true; [reflexivity|]. symmetry. apply existsb_dumps_to.
          exists (nth j (outs_at x) dflt).
          apply (Hcompl x (o, nth j (outs_at x) dflt) Em).
          apply in_combine_nth; [apply Hlen; exact Em|exact Hjk].
        * replace (existsb (dumps_to o x) tr) with false; [reflexivity|]. symmetry.
          destruct (existsb (dumps_to o x) tr) eqn:E; [|reflexivity].
          apply existsb_dumps_to in E as [v Hv].
          destruct (Hsound o x v Hv (nth_In _ _ Hjk)) as [HL _]. apply memb_In in HL. congruence.
      + intros pos v Hv. destruct (Hsound o pos v Hv (nth_In _ _ Hjk)) as [HL Hov].
        apply (combine_nth_NoDup (fouts f) (outs_at pos) j [] dflt v Hnd (Hlen pos HL) Hjk Hov).
      + exact Hx.
  Qed.
End RFunc.

(* ================================================================ executing a batch (as in ParGenFacts) *)
Section RExec.
  Variable body : mfunc -> env -> result (list val).
  Variable dis : str -> bool.
  Variable rs : rstore.

  Lemma rawait_rexecute tasks pi s :
    In s pi -> rawait (rexecute body dis rs tasks pi) s = rk_res (rrun_slot body dis rs tasks s).
  Proof.
    unfold rawait, rexecute. induction pi as [|a pi IH]; intros Hin; [contradiction|].
    cbn [map find fst]. destruct (a =? s) eqn:E.
    - apply Nat.eqb_eq in E. subst a. reflexivity.
    - apply Nat.eqb_neq in E. destruct Hin as [->|Hin]; [congruence|]. now apply IH.
  Qed.

  Lemma rexecute_acts tasks pi :
    flat_map (fun x => rk_acts (snd x)) (rexecute body dis rs tasks pi)
    = flat_map (fun s => rk_acts (rrun_slot body dis rs tasks s)) pi.
  Proof. unfold rexecute. rewrite flat_map_concat_map, map_map, <- flat_map_concat_map. reflexivity. Qed.

  Lemma rrun_slot_nth tasks s t : nth_error tasks s = Some t -> rrun_slot body dis rs tasks s = run_rtask body dis rs t.
  Proof. unfold rrun_slot. now intros ->. Qed.

  Lemma rflat_map_slots tasks :
    flat_map (fun s => rk_acts (rrun_slot body dis rs tasks s)) (seq 0 (length tasks))
    = flat_map (fun t => rk_acts (run_rtask body dis rs t)) tasks.
  Proof.
    rewrite !flat_map_concat_map. f_equal.
    transitivity (map (fun o => match o with Some t => rk_acts (run_rtask body dis rs t) | None => [] end)
                      (map (nth_error tasks) (seq 0 (length tasks)))).
    - rewrite map_map. apply map_ext. intros s. unfold rrun_slot. destruct (nth_error tasks s); reflexivity.
    - rewrite map_nth_error_seq, map_map. reflexivity.
  Qed.

  Lemma rwtrace_In tasks pi a :
    In a (flat_map (fun x => rk_acts (snd x)) (rexecute body dis rs tasks (order (length tasks) pi)))
    <-> exists t, In t tasks /\ In a (rk_acts (run_rtask body dis rs t)).
  Proof.
    rewrite rexecute_acts, in_flat_map. split.
    - intros [s [Hs Ha]]. apply order_In in Hs. unfold rrun_slot in Ha.
      destruct (nth_error tasks s) as [t|] eqn:E; [|apply nth_error_None in E; lia].
      exists t. split; [eapply nth_error_In; exact E|exact Ha].
    - intros [t [Ht Ha]]. apply In_nth_error in Ht as [s Hs]. exists s. split.
      + apply order_In. apply nth_error_Some. congruence.
      + now rewrite (rrun_slot_nth _ _ _ Hs).
  Qed.

  Lemma rdumps_names w f ms sh mask i outs d :
    rdumps dis w f ms sh mask i outs = Ok d -> forall o pos v, In (ADump o pos v) d -> In o (fouts f).
  Proof.
    unfold rdumps. destruct (filter _ _) as [|ov0 sel] eqn:Ef.
    - intros [= <-] o pos v [].
    - destruct (output_key _ _ _) as [key|]; cbn [bind]; [|discriminate]. intros [= <-] o pos v Hin.
      change (In (ADump o pos v) (map (fun ov : str * val => ADump (fst ov) (ravel (ext_of mask sh) key) (snd ov))
                                      (ov0 :: sel))) in Hin.
      apply in_map_iff in Hin as [[o' v'] [E Hov]]. injection E as -> _ _. rewrite <- Ef in Hov.
      apply filter_In in Hov as [Hov _]. eapply in_combine_l. exact Hov.
  Qed.

  (* a task only dumps into the storages of its own function *)
  Lemma racts_names t o pos v :
    In (ADump o pos v) (rk_acts (run_rtask body dis rs t)) -> In o (fouts (rprep_fun (fst t))).
  Proof.
    destruct t as [[f ms kw sh mask stores ex miss|f kw] [i|]]; cbn [run_rtask fst rprep_fun]; try (cbn; contradiction).
    - destruct (select_kwargs _ _ _ _) as [sel|e]; [|cbn; contradiction].
      destruct (body f sel) as [outs|e]; [|cbn; intros [E|[]]; discriminate].
      destruct (negb _); [cbn; intros [E|[]]; discriminate|].
      destruct (rdumps dis true f ms sh mask i outs) as [d|e] eqn:Ed; [|cbn; intros [E|[]]; discriminate].
      cbn [rk_acts app]. intros [E|Hin]; [discriminate|]. eapply rdumps_names; eassumption.
    - destruct (load_single rs f) as [[outs|]|e]; try (cbn; contradiction).
      destruct (body f kw) as [outs|e]; [|cbn; intros [E|[]]; discriminate].
      destruct (negb _); cbn; intros [E|[]]; discriminate.
  Qed.

  Lemma rtasks_of_fst q t : In t (rtasks_of q) -> fst t = q.
  Proof.
    destruct q; cbn [rtasks_of].
    - intros H. apply in_map_iff in H as [i [<- _]]. reflexivity.
    - intros [<-|[]]. reflexivity.
  Qed.
End RExec.

(* ================================================================ one generation: what the sequential run does *)
Section RGen.
  Variable body : mfunc -> env -> result (list val).
  Variable dis : str -> bool.
  Variable c : ctx.
  Variable fx : option fixed.
  Variable rs0 : rstore.          (* the store when the generation starts *)

  (* the task of the sequential run that corresponds to a preparation made on rs0 *)
  Definition task_matches (p : rprep) (t : task) : Prop :=
    match p, t with
    | RMapped f ms kw sh mask stores ex miss, TMapped f' sh' mask' st ex' =>
        f' = f /\ sh' = sh /\ mask' = mask /\ ex' = ex
        /\ length stores = length (fouts f)
        /\ filled body f ms kw sh mask miss stores (m_stores st)
        /\ m_results st = map (fun i => (i, outs_at body f ms kw sh mask i)) miss
        /\ (forall i, In i miss -> i < prod (ext_of mask sh) /\ elem_ok body f ms kw sh mask i)
    | RSingle f kw, TSingle f' outs =>
        f' = f /\ rk_res (run_rtask body dis rs0 (p, None)) = Ok outs
    | _, _ => False
    end.
  Definition sub_trace (p : rprep) : list action :=
    match p with
    | RMapped f ms kw sh mask _ _ miss => flat_map (elem_trace body f ms kw sh mask) miss
    | RSingle f kw => rk_acts (run_rtask body dis rs0 (p, None))
    end.
  Definition next_store (r : rstore) (p : rprep) (t : task) : rstore :=
    match t with
    | TMapped f _ _ st _ => put_stores r f (m_stores st)
    | TSingle _ _ => r
    end.

  (* a store that differs from rs0 only in the storage arrays named in `names` *)
  Definition agrees (names : list str) (r : rstore) : Prop :=
    st_val r = st_val rs0 /\ forall o, ~ In o names -> dict_get (st_arr r) o = dict_get (st_arr rs0) o.

  Lemma kwargs_agree names r f :
    agrees names r -> (forall q, In q (fparams f) -> ~ In q names) ->
    func_kwargs_sel c r f = func_kwargs_sel c rs0 f.
  Proof.
    intros [Hv Ha] Hq. unfold func_kwargs_sel. apply mapM_ext_in. intros q Hin.
    unfold lookup_arg_sel, get_arr. rewrite Hv, (Ha q (Hq q Hin)). reflexivity.
  Qed.

  Lemma stores_agree names r f n :
    agrees names r -> (forall o, In o (fouts f) -> ~ In o names) -> stores_of r f n = stores_of rs0 f n.
  Proof.
    intros [_ Ha] Ho. unfold stores_of. apply map_ext_in. intros o Hin. unfold get_arr. now rewrite (Ha o (Ho o Hin)).
  Qed.

  Lemma load_agree names r f : agrees names r -> load_single r f = load_single rs0 f.
  Proof. intros [Hv _]. unfold load_single. now rewrite Hv. Qed.

  Lemma agrees_put names r f sts :
    agrees names r -> agrees (fouts f ++ names) (put_stores r f sts).
  Proof.
    intros [Hv Ha]. unfold put_stores. split.
    - now rewrite put_stores_val.
    - intros o Ho. rewrite put_stores_arr_other by (intros X; apply Ho, in_or_app; now left).
      apply Ha. intros X. apply Ho, in_or_app. now right.
  Qed.

  Lemma submit_func_char names ps f ps' t :
    agrees names (p_store ps) ->
    (forall q, In q (fparams f) -> ~ In q names) -> (forall o, In o (fouts f) -> ~ In o names) ->
    submit_func body c fx ps f = ROk (ps', t) ->
    exists p, rprep_func c fx rs0 f = Ok p /\ rprep_fun p = f /\ task_matches p t
              /\ p_out ps' = p_out ps /\ p_tr ps' = p_tr ps ++ sub_trace p
              /\ p_store ps' = next_store (p_store ps) p t.
  Proof.
    intros Hag Hq Ho H. unfold submit_func in H. unfold rprep_func.
    rewrite (kwargs_agree names _ f Hag Hq) in H.
    destruct (func_kwargs_sel c rs0 f) as [kw|] eqn:Ek; cbn [lift rbind bind] in *; [|discriminate].
    destruct (is_mapped f).
    - destruct (fspec f) as [ms|]; [|discriminate].
      destruct (shape_of c f) as [[sh mask]|] eqn:Es; cbn [lift rbind bind fst snd] in *; [|discriminate].
      rewrite (stores_agree names _ f _ Hag Ho) in H.
      set (stores := stores_of rs0 f (prod (ext_of mask sh))) in *.
      destruct (submit_mapped body f ms kw sh mask fx stores (p_tr ps)) as [[st ex]|] eqn:Em; cbn [rbind fst snd] in H; [|discriminate].
      injection H as <- <-.
      assert (Hk : length stores = length (fouts f)) by (unfold stores, stores_of; now rewrite map_length).
      destruct (submit_mapped_exact body f ms kw sh mask fx stores (p_tr ps) st ex Hk Em)
        as (fm & Hfm & Hex & Hfill & Hres & Htr & _).
      rewrite Hfm. cbn [bind]. rewrite classify_eq. cbn [fst snd].
      eexists. split; [reflexivity|]. split; [reflexivity|]. cbn [task_matches sub_trace next_store p_out p_tr p_store].
      split; [refine (conj eq_refl (conj eq_refl (conj eq_refl (conj Hex (conj Hk (conj Hfill (conj Hres _)))))))
             |split; [reflexivity|split; [exact Htr|reflexivity]]].
      intros i Hi0. split.
      + apply filter_In in Hi0 as [Hi0 _]. apply in_seq in Hi0. lia.
      + unfold submit_mapped in Em. rewrite Hfm in Em. cbn [lift rbind] in Em. rewrite classify_eq in Em. cbn [fst snd] in Em.
        match type of Em with (rdo st0 <- ?F; _) = _ => destruct F as [st1|] eqn:Ef; cbn [rbind] in Em; [|discriminate] end.
        eapply (step_fold_elems body f ms kw sh mask); [exact Ef|exact Hi0].
    - destruct (execute_single body f kw (p_store ps) (p_tr ps)) as [[outs tr']|] eqn:Ee; cbn [rbind fst snd] in H; [|discriminate].
      injection H as <- <-. eexists. split; [reflexivity|]. split; [reflexivity|].
      cbn [task_matches sub_trace next_store p_out p_tr p_store run_rtask].
      unfold execute_single in Ee. rewrite (load_agree names _ f Hag) in Ee.
      destruct (load_single rs0 f) as [[o|]|] eqn:El; cbn [lift rbind] in Ee; [| |discriminate].
      + injection Ee as <- <-. cbn [rk_res rk_acts]. rewrite app_nil_r. repeat split; reflexivity.
      + destruct (body f kw) as [o|] eqn:Eb; cbn [lift rbind] in Ee; [|discriminate].
        destruct (negb (length o =? length (fouts f))); [discriminate|]. injection Ee as <- <-.
        cbn [rk_res rk_acts]. repeat split; reflexivity.
  Qed.

  Definition stores_after (r : rstore) (preps : list rprep) (ts : list task) : rstore :=
    fold_left (fun r pt => next_store r (fst pt) (snd pt)) (combine preps ts) r.

  Lemma submit_fold_char gen : forall names ps acc ps1 tasks,
    agrees names (p_store ps) ->
    (forall f, In f gen -> forall q, In q (fparams f) -> ~ In q names /\ ~ In q (flat_map fouts gen)) ->
    NoDup (flat_map fouts gen) -> (forall o, In o (flat_map fouts gen) -> ~ In o names) ->
    fold_left (fun a f => rdo pt <- a; rdo r <- submit_func body c fx (fst pt) f; ROk (fst r, snd pt ++ [snd r]))
              gen (ROk (ps, acc)) = ROk (ps1, tasks) ->
    exists preps ts,
      mapM (rprep_func c fx rs0) gen = Ok preps /\ tasks = acc ++ ts /\ Forall2 task_matches preps ts
      /\ map rprep_fun preps = gen
      /\ p_out ps1 = p_out ps /\ p_tr ps1 = p_tr ps ++ flat_map sub_trace preps
      /\ p_store ps1 = stores_after (p_store ps) preps ts.
  Proof.
    induction gen as [|f gen IH]; intros names ps acc ps1 tasks Hag Hlay Hnd Hdis H; cbn [fold_left] in H.
    - injection H as <- <-. exists [], []. cbn. rewrite !app_nil_r. repeat split. constructor.
    - cbn [rbind fst snd] in H.
      destruct (submit_func body c fx ps f) as [[ps2 t]|e tr] eqn:Es; cbn [rbind fst snd] in H;
        [|rewrite rfold_err in H; discriminate].
      cbn [flat_map] in Hnd, Hdis.
      destruct (ParGenFacts.NoDup_app_inv _ _ Hnd) as [Hndf Hfg].
      destruct (submit_func_char names ps f ps2 t Hag) as (p & Hp & Hpf & Hm & Ho & Ht & Hst); [| |exact Es|].
      { intros q Hq. apply (Hlay f (or_introl eq_refl) q Hq). }
      { intros o Hin. apply Hdis, in_or_app. now left. }
      destruct (IH (fouts f ++ names) ps2 (acc ++ [t]) ps1 tasks) as (preps & ts & Hmm & Htk & Hf2 & Hfun & Ho' & Ht' & Hst').
      + rewrite Hst. destruct t; cbn [next_store]; [|].
        * destruct p; cbn [task_matches rprep_fun] in Hm, Hpf; try contradiction. destruct Hm as (E & _). rewrite E, Hpf. now apply agrees_put.
        * destruct Hag as [A B]. split; [exact A|]. intros o Hno. apply B. intros X. apply Hno, in_or_app. now right.
      + intros g Hg q Hq. destruct (Hlay g (or_intror Hg) q Hq) as [H1 H2]. cbn [flat_map] in H2. split.
        * intros X. apply in_app_or in X as [X|X]; [apply H2, in_or_app; now left|now apply H1].
        * intros X. apply H2, in_or_app. now right.
      + clear - Hnd. induction (fouts f) as [|a l IHl]; [exact Hnd|]. cbn [app] in Hnd. inversion Hnd; subst. now apply IHl.
      + intros o Hin X. apply in_app_or in X as [X|X]; [exact (Hfg o X Hin)|].
        apply (Hdis o); [apply in_or_app; now right|exact X].
      + exact H.
      + exists (p :: preps), (t :: ts). cbn [mapM]. rewrite Hp. cbn [bind]. rewrite Hmm. cbn [bind map flat_map combine].
        rewrite Htk, <- app_assoc. cbn [app]. repeat split; try (constructor; assumption).
        * now rewrite Hpf, Hfun.
        * congruence.
        * rewrite Ht', Ht, <- app_assoc. reflexivity.
        * unfold stores_after. cbn [combine fold_left fst snd]. rewrite Hst', Hst. reflexivity.
  Qed.
End RGen.

(* ================================================================ one generation: the parallel side *)
Lemma dump_single_arr f outs r tr : st_arr (fst (dump_single f outs r tr)) = st_arr r.
Proof. unfold dump_single. cbn [fst]. apply set_val_arr. Qed.

Lemma set_val_fold_val l : forall r r', st_val r = st_val r' ->
  st_val (fold_left (fun r ov => set_val r (fst ov) (snd ov)) l r)
  = st_val (fold_left (fun r (ov : str * val) => set_val r (fst ov) (snd ov)) l r').
Proof.
  induction l as [|[o v] l IH]; intros r r' H; cbn [fold_left]; [exact H|]. apply IH. cbn [set_val st_val fst snd]. now rewrite H.
Qed.

Lemma dump_single_val f outs r r' tr tr' :
  st_val r = st_val r' -> st_val (fst (dump_single f outs r tr)) = st_val (fst (dump_single f outs r' tr')).
Proof. intros H. unfold dump_single. cbn [fst]. now apply set_val_fold_val. Qed.

Lemma put_stores_arr_fold l : forall r r', st_arr r = st_arr r' ->
  st_arr (fold_left (fun r (os : str * estore) => set_arr r (fst os) (snd os)) l r)
  = st_arr (fold_left (fun r (os : str * estore) => set_arr r (fst os) (snd os)) l r').
Proof.
  induction l as [|[o s0] l IH]; intros r r' H; cbn [fold_left]; [exact H|]. apply IH. cbn [set_arr st_arr fst snd]. now rewrite H.
Qed.

Section RPar.
  Variable body : mfunc -> env -> result (list val).
  Variable dis : str -> bool.
  Variable rs0 : rstore.
  Variable preps_all : list rprep.
  Variable pi : list nat.

  Notation tasks := (flat_map rtasks_of preps_all).
  Notation done := (rexecute body dis rs0 (flat_map rtasks_of preps_all) (order (length (flat_map rtasks_of preps_all)) pi)).
  Notation wtrace := (flat_map (fun x => rk_acts (snd x))
                        (rexecute body dis rs0 (flat_map rtasks_of preps_all) (order (length (flat_map rtasks_of preps_all)) pi))).
  Notation task_matches := (task_matches body dis rs0).

  Lemma rawait_slot pre p post k t :
    preps_all = pre ++ p :: post -> nth_error (rtasks_of p) k = Some t ->
    rawait done (length (flat_map rtasks_of pre) + k) = rk_res (run_rtask body dis rs0 t).
  Proof.
    intros Hp Hk.
    assert (nth_error tasks (length (flat_map rtasks_of pre) + k) = Some t) as Hn.
    { rewrite Hp, nth_error_flat_map_mid; [exact Hk|]. apply nth_error_Some. congruence. }
    rewrite rawait_rexecute.
    - f_equal. now apply rrun_slot_nth.
    - apply order_In. apply nth_error_Some. congruence.
  Qed.

  Hypothesis Hnd : NoDup (flat_map (fun p => fouts (rprep_fun p)) preps_all).

  (* what the parent appends to the trace for a function *)
  Definition par_ptrace (p : rprep) (t : task) : list action :=
    match p, t with
    | RMapped f ms kw sh mask _ _ miss, _ => flat_map (dumps_w body dis f ms kw sh mask false) miss
    | RSingle f _, TSingle _ outs => map (fun ov : str * val => ADumpSingle (fst ov) (snd ov)) (combine (fouts f) outs)
    | _, _ => []
    end.

  Lemma combine_map_self {A B} (h : A -> B) l : combine l (map h l) = map (fun x => (x, h x)) l.
  Proof. induction l as [|x l IH]; cbn; [reflexivity|now rewrite IH]. Qed.

  Lemma rfinish_char pre p post t ps_par ps_seq ps_seq' :
    preps_all = pre ++ p :: post -> task_matches p t ->
    process_task ps_seq t = ROk ps_seq' ->
    p_out ps_par = p_out ps_seq -> st_val (p_store ps_par) = st_val (p_store ps_seq) ->
    exists ps_par',
      rfinish dis done wtrace (length (flat_map rtasks_of pre)) p ps_par = Ok ps_par'
      /\ p_out ps_par' = p_out ps_seq' /\ st_val (p_store ps_par') = st_val (p_store ps_seq')
      /\ st_arr (p_store ps_par') = st_arr (next_store (p_store ps_par) p t)
      /\ st_arr (p_store ps_seq') = st_arr (p_store ps_seq)
      /\ p_tr ps_par' = p_tr ps_par ++ par_ptrace p t
      /\ p_tr ps_seq' = p_tr ps_seq ++ match t with
                                       | TSingle f outs => map (fun ov : str * val => ADumpSingle (fst ov) (snd ov)) (combine (fouts f) outs)
                                       | _ => [] end.
  Proof.
    intros Hp Hm Hproc Ho Hv.
    destruct (NoDup_flat_map_mid _ _ _ _ (eq_ind _ (fun l => NoDup (flat_map _ l)) Hnd _ Hp)) as [Hndf Hdisj].
    destruct p as [f ms kw sh mask stores ex miss|f kw]; destruct t as [f' sh' mask' st ex'|f' outs];
      cbn [task_matches] in Hm; try contradiction.
    - destruct Hm as (-> & -> & -> & -> & Hk & Hfill & Hres & Hel). cbn [rprep_fun] in Hndf, Hdisj.
      cbn [process_task] in Hproc. rewrite process_collect in Hproc. cbn [m_stores m_results m_tr] in Hproc.
      destruct (collect_arrays f sh mask (m_stores st) (m_results st) ex) as [arrs|e] eqn:Ec; cbn [lift rbind] in Hproc; [|discriminate].
      injection Hproc as <-. cbn [rfinish].
      set (P := RMapped f ms kw sh mask stores ex miss) in *.
      (* the futures, paired with the missing indices by position *)
      rewrite (mapM_ok_map_in _ (fun j => outs_at body f ms kw sh mask (nth j miss 0))).
      2:{ intros j Hj. apply in_seq in Hj.
          assert (Hin : In (nth j miss 0) miss) by (apply nth_In; lia).
          destruct (Hel _ Hin) as [HN Hok].
          rewrite (rawait_slot pre P post j (P, Some (nth j miss 0)) Hp).
          - unfold P. now rewrite (run_rtask_ok body dis f ms kw sh mask rs0 stores ex miss _ HN Hok).
          - unfold P. cbn [rtasks_of]. rewrite nth_error_map. rewrite (nth_error_nth' miss 0) by lia. reflexivity. }
      cbn [bind].
      assert (Hol : map (fun j => outs_at body f ms kw sh mask (nth j miss 0)) (seq 0 (length miss))
                    = map (outs_at body f ms kw sh mask) miss).
      { symmetry. rewrite (MapResumeFacts.map_nth_seq 0 miss) at 1. now rewrite map_map. }
      rewrite Hol, combine_map_self.
      (* the parent's dumps *)
      rewrite (mapM_ok_map_in _ (fun io : nat * list val => dumps_w body dis f ms kw sh mask false (fst io))).
      2:{ intros [i o] Hin. apply in_map_iff in Hin as [i' [E Hi']]. injection E as <- <-. cbn [fst snd].
          destruct (Hel _ Hi') as [HN Hok]. now apply rdumps_ok. }
      cbn [bind]. rewrite <- flat_map_concat_map, flat_map_map. cbn [fst].
      (* the stores: whatever the order of the dumps *)
      set (ptrace := flat_map (fun x => dumps_w body dis f ms kw sh mask false x) miss).
      assert (Hst : map (fun os : str * estore => apply_dumps (fst os) (snd os) (wtrace ++ ptrace)) (combine (fouts f) stores)
                    = m_stores st).
      { apply (filled_unique body f ms kw sh mask miss stores); [|exact Hfill].
        apply apply_filled; [exact Hndf|exact Hk| | |].
        - intros i Hi. now destruct (Hel i Hi) as [_ (_ & _ & Hl & _)].
        - intros o pos v Hin Hof. apply in_app_or in Hin as [Hin|Hin].
          + apply rwtrace_In in Hin as [tk [Htk Hin]].
            apply in_flat_map in Htk as [q [Hq Htk]]. rewrite Hp in Hq.
            assert (q = P) as ->.
            { apply in_app_or in Hq as [Hq|[<-|Hq]]; [|reflexivity|].
              - exfalso. apply racts_names in Hin. rewrite (rtasks_of_fst _ _ Htk) in Hin.
                exact (Hdisj q (in_or_app _ _ _ (or_introl Hq)) o Hof Hin).
              - exfalso. apply racts_names in Hin. rewrite (rtasks_of_fst _ _ Htk) in Hin.
                exact (Hdisj q (in_or_app _ _ _ (or_intror Hq)) o Hof Hin). }
            unfold P in Htk. cbn [rtasks_of] in Htk. apply in_map_iff in Htk as [i [<- Hi]].
            destruct (Hel _ Hi) as [HN Hok].
            rewrite (run_rtask_ok body dis f ms kw sh mask rs0 stores ex miss _ HN Hok) in Hin. cbn [rk_acts] in Hin.
            destruct Hin as [E|Hin]; [discriminate|]. unfold dumps_w in Hin.
            apply in_map_iff in Hin as [[o' v'] [E Hov]]. injection E as <- <- <-.
            apply filter_In in Hov as [Hov _]. split; assumption.
          + apply in_flat_map in Hin as [i [Hi Hin]]. unfold dumps_w in Hin.
            apply in_map_iff in Hin as [[o' v'] [E Hov]]. injection E as <- <- <-.
            apply filter_In in Hov as [Hov _]. split; assumption.
        - intros i ov Hi Hov. destruct (Hel _ Hi) as [HN Hok]. apply in_or_app.
          destruct (dis (fst ov)) eqn:Ed.
          + left. apply rwtrace_In. exists (P, Some i). split.
            * apply in_flat_map. exists P. split; [rewrite Hp; apply in_or_app; right; now left|].
              unfold P. cbn [rtasks_of]. apply (in_map (fun i0 => (RMapped f ms kw sh mask stores ex miss, Some i0))). exact Hi.
            * unfold P. rewrite (run_rtask_ok body dis f ms kw sh mask rs0 stores ex miss _ HN Hok). cbn [rk_acts]. right.
              unfold dumps_w. apply (in_map (fun ov0 : str * val => ADump (fst ov0) i (snd ov0))).
              apply filter_In. split; [exact Hov|now rewrite Ed].
          + right. apply in_flat_map. exists i. split; [exact Hi|]. unfold dumps_w.
            apply (in_map (fun ov0 : str * val => ADump (fst ov0) i (snd ov0))).
            apply filter_In. split; [exact Hov|now rewrite Ed]. }
      rewrite Hst, <- Hres, Ec. cbn [bind].
      eexists. split; [reflexivity|]. cbn [p_out p_store p_tr next_store par_ptrace].
      repeat split; try reflexivity.
      + now rewrite Ho.
      + unfold put_stores. rewrite put_stores_val. exact Hv.
      + now rewrite app_nil_r.
    - destruct Hm as (-> & Hr). cbn [process_task] in Hproc. injection Hproc as <-. cbn [rfinish].
      rewrite <- (Nat.add_0_r (length (flat_map rtasks_of pre))).
      rewrite (rawait_slot pre _ post 0 (RSingle f kw, None) Hp) by reflexivity.
      rewrite Hr. cbn [bind]. eexists. split; [reflexivity|]. cbn [p_out p_store p_tr next_store par_ptrace].
      repeat split.
      + now rewrite Ho.
      + unfold dump_single. cbn [fst]. apply set_val_fold_val. exact Hv.
      + unfold dump_single. cbn [fst]. apply set_val_arr.
      + unfold dump_single. cbn [fst]. apply set_val_arr.
  Qed.
End RPar.

Lemma perm_4 {A} (a b c d : list A) : Permutation ((a ++ b) ++ (c ++ d)) ((a ++ c) ++ (b ++ d)).
Proof.
  rewrite <- !app_assoc. apply Permutation_app_head. rewrite !app_assoc. apply Permutation_app_tail. apply Permutation_app_comm.
Qed.

Section RGenThm.
  Variable body : mfunc -> env -> result (list val).
  Variable dis : str -> bool.
  Variable c : ctx.
  Variable fx : option fixed.

  Definition seq_strace (t : task) : list action :=
    match t with
    | TSingle f outs => map (fun ov : str * val => ADumpSingle (fst ov) (snd ov)) (combine (fouts f) outs)
    | _ => []
    end.

  Lemma stores_after_val preps : forall ts r, st_val (stores_after r preps ts) = st_val r.
  Proof.
    unfold stores_after. induction preps as [|p preps IH]; intros [|t ts] r; cbn [combine fold_left fst snd]; try reflexivity.
    rewrite IH. destruct t; cbn [next_store]; [|reflexivity]. unfold put_stores. apply put_stores_val.
  Qed.

  Lemma stores_after_arr preps : forall ts r r', st_arr r = st_arr r' ->
    st_arr (stores_after r preps ts) = st_arr (stores_after r' preps ts).
  Proof.
    unfold stores_after. induction preps as [|p preps IH]; intros [|t ts] r r' H; cbn [combine fold_left fst snd]; try exact H.
    apply IH. destruct t; cbn [next_store]; [|exact H]. unfold put_stores. now apply put_stores_arr_fold.
  Qed.

  Lemma rparent_char rs0 preps_all pi :
    NoDup (flat_map (fun p => fouts (rprep_fun p)) preps_all) ->
    forall rest ts pre ps_par ps_seq ps_seq',
    preps_all = pre ++ rest -> Forall2 (task_matches body dis rs0) rest ts ->
    fold_left (fun acc t => rdo ps0 <- acc; process_task ps0 t) ts (ROk ps_seq) = ROk ps_seq' ->
    p_out ps_par = p_out ps_seq -> st_val (p_store ps_par) = st_val (p_store ps_seq) ->
    let done := rexecute body dis rs0 (flat_map rtasks_of preps_all) (order (length (flat_map rtasks_of preps_all)) pi) in
    let wtrace := flat_map (fun x => rk_acts (snd x)) done in
    exists ps_par',
      rparent dis done wtrace rest (length (flat_map rtasks_of pre)) ps_par = Ok ps_par'
      /\ p_out ps_par' = p_out ps_seq' /\ st_val (p_store ps_par') = st_val (p_store ps_seq')
      /\ st_arr (p_store ps_par') = st_arr (stores_after (p_store ps_par) rest ts)
      /\ st_arr (p_store ps_seq') = st_arr (p_store ps_seq)
      /\ p_tr ps_par' = p_tr ps_par ++ flat_map (fun pt => par_ptrace body dis (fst pt) (snd pt)) (combine rest ts)
      /\ p_tr ps_seq' = p_tr ps_seq ++ flat_map seq_strace ts.
  Proof.
    intros Hnd rest ts pre ps_par ps_seq ps_seq' Hp HF. revert pre ps_par ps_seq Hp.
    induction HF as [|p t rest ts Hm HF IH]; intros pre ps_par ps_seq Hp Hfold Ho Hv done wtrace;
      cbn [fold_left rparent combine flat_map] in *.
    - injection Hfold as <-. exists ps_par. unfold stores_after. cbn. rewrite !app_nil_r. repeat split; assumption.
    - cbn [rbind] in Hfold. destruct (process_task ps_seq t) as [ps_seq1|e tr] eqn:Ep; [|rewrite rfold_err in Hfold; discriminate].
      destruct (rfinish_char body dis rs0 preps_all pi Hnd pre p rest t ps_par ps_seq ps_seq1 Hp Hm Ep Ho Hv)
        as (ps_par1 & Hfin & Ho1 & Hv1 & Ha1 & Hs1 & Ht1 & Hts1).
      fold done in Hfin. fold wtrace in Hfin. rewrite Hfin. cbn [bind]. rewrite <- flat_map_length_app.
      destruct (IH (pre ++ [p]) ps_par1 ps_seq1 ltac:(now rewrite <- app_assoc) Hfold Ho1 Hv1)
        as (ps_par' & Hpar & Ho' & Hv' & Ha' & Hs' & Ht' & Hts').
      exists ps_par'. split; [exact Hpar|]. split; [exact Ho'|]. split; [exact Hv'|]. split; [|split; [|split]].
      + rewrite Ha'. unfold stores_after at 2. cbn [combine fold_left fst snd]. fold (stores_after (next_store (p_store ps_par) p t) rest ts).
        now apply stores_after_arr.
      + now rewrite Hs', Hs1.
      + rewrite Ht', Ht1, <- app_assoc. reflexivity.
      + rewrite Hts', Hts1, <- app_assoc. destruct t; reflexivity.
  Qed.

  (* the traces agree as multisets *)
  Lemma pair_trace_perm rs0 p t :
    task_matches body dis rs0 p t ->
    Permutation (flat_map (fun tk => rk_acts (run_rtask body dis rs0 tk)) (rtasks_of p) ++ par_ptrace body dis p t)
                (sub_trace body dis rs0 p ++ seq_strace t).
  Proof.
    intros Hm. destruct p as [f ms kw sh mask stores ex miss|f kw]; destruct t as [f' sh' mask' st ex'|f' outs];
      cbn [task_matches] in Hm; try contradiction.
    - destruct Hm as (_ & _ & _ & _ & _ & _ & _ & Hel).
      cbn [rtasks_of par_ptrace sub_trace seq_strace]. rewrite app_nil_r, flat_map_map.
      rewrite (flat_map_ext_in _ (fun i => ACall (fname f) (Some i) (sel_at ms kw sh mask i) :: dumps_w body dis f ms kw sh mask true i)).
      2:{ intros i Hi. destruct (Hel i Hi) as [HN Hok].
          now rewrite (run_rtask_ok body dis f ms kw sh mask rs0 stores ex miss i HN Hok). }
      eapply Permutation_trans; [apply flat_map_app_perm|]. apply Permutation_flat_map_ext. intros i _.
      unfold elem_trace. cbn [app]. apply perm_skip. unfold dumps_w. rewrite <- map_app. apply Permutation_map.
      rewrite (filter_ext (fun ov : str * val => Bool.eqb (dis (fst ov)) false) (fun ov => negb (Bool.eqb (dis (fst ov)) true)))
        by (intros ov; destruct (dis (fst ov)); reflexivity).
      apply filter_partition_perm.
    - destruct Hm as (-> & _). cbn [rtasks_of par_ptrace sub_trace seq_strace flat_map]. rewrite app_nil_r. apply Permutation_refl.
  Qed.

  Lemma traces_perm rs0 preps ts :
    Forall2 (task_matches body dis rs0) preps ts ->
    Permutation (flat_map (fun p => flat_map (fun tk => rk_acts (run_rtask body dis rs0 tk)) (rtasks_of p)) preps
                 ++ flat_map (fun pt => par_ptrace body dis (fst pt) (snd pt)) (combine preps ts))
                (flat_map (sub_trace body dis rs0) preps ++ flat_map seq_strace ts).
  Proof.
    induction 1 as [|p t preps ts Hm HF IH]; cbn [flat_map combine fst snd]; [apply Permutation_refl|].
    eapply Permutation_trans; [apply perm_4|]. eapply Permutation_trans; [|apply perm_4].
    apply Permutation_app; [now apply pair_trace_perm|exact IH].
  Qed.

  (* one generation on an existing store: any schedule gives the store, the results and (as a multiset) the trace of
     the sequential run *)
  Theorem par_generation_equiv ps gen pi ps' :
    (forall f, In f gen -> forall q, In q (fparams f) -> ~ In q (flat_map fouts gen)) ->
    NoDup (flat_map fouts gen) ->
    run_generation body c fx ps gen = ROk ps' ->
    exists ps'', par_generation body dis c fx ps gen pi = Ok ps''
                 /\ p_store ps'' = p_store ps' /\ p_out ps'' = p_out ps' /\ Permutation (p_tr ps'') (p_tr ps').
  Proof.
    intros Hlay Hnd H. unfold run_generation in H.
    destruct (fold_left _ gen (ROk (ps, []))) as [[ps1 tasks]|] eqn:Es; cbn [rbind fst snd] in H; [|discriminate].
    destruct (submit_fold_char body dis c fx (p_store ps) gen [] ps [] ps1 tasks) as (preps & ts & Hmm & Htk & HF & Hfun & Ho & Ht & Hst).
    - split; [reflexivity|]. intros; reflexivity.
    - intros f Hf q Hq. split; [intros []|exact (Hlay f Hf q Hq)].
    - exact Hnd.
    - intros o _ [].
    - exact Es.
    - cbn [app] in Htk. subst tasks.
      assert (Hnd' : NoDup (flat_map (fun p => fouts (rprep_fun p)) preps)).
      { rewrite <- (flat_map_map fouts rprep_fun preps), Hfun. exact Hnd. }
      set (tks := flat_map rtasks_of preps).
      set (done := rexecute body dis (p_store ps) tks (order (length tks) pi)).
      set (wtrace := flat_map (fun x => rk_acts (snd x)) done).
      destruct (rparent_char (p_store ps) preps pi Hnd' preps ts []
                  {| p_store := p_store ps; p_out := p_out ps; p_tr := p_tr ps ++ wtrace |} ps1 ps' eq_refl HF H)
        as (ps'' & Hpar & Ho'' & Hv'' & Ha'' & Hs'' & Ht'' & Hts'').
      + cbn [p_out]. now rewrite Ho.
      + cbn [p_store]. now rewrite Hst, stores_after_val.
      + exists ps''. unfold par_generation. rewrite Hmm. cbn [bind]. cbn [flat_map length] in Hpar.
        fold tks. fold done. fold wtrace. split; [exact Hpar|]. split; [|split; [exact Ho''|]].
        * apply rstore_eq; [|exact Hv'']. cbn [p_store] in Ha''. now rewrite Ha'', Hs'', Hst.
        * rewrite Ht'', Hts'', Ht. cbn [p_tr]. rewrite <- !app_assoc. apply Permutation_app_head.
          eapply Permutation_trans; [|apply (traces_perm (p_store ps) preps ts HF)].
          apply Permutation_app_tail. unfold wtrace, done. rewrite rexecute_acts.
          eapply Permutation_trans; [apply Permutation_flat_map_l, order_perm|].
          rewrite rflat_map_slots. unfold tks. rewrite flat_map_flat_map'. apply Permutation_refl.
  Qed.
End RGenThm.

(* ================================================================ the whole run *)
Definition with_tr (ps : pstate) (tr : list action) : pstate :=
  {| p_store := p_store ps; p_out := p_out ps; p_tr := tr |}.

Section RRun.
  Variable body : mfunc -> env -> result (list val).
  Variable dis : str -> bool.

  (* the parallel run only ever appends to the trace it is given *)
  Lemma rfinish_shift done wtrace off p ps r :
    rfinish dis done wtrace off p ps = Ok r ->
    exists suf, p_tr r = p_tr ps ++ suf /\
      forall tr0, rfinish dis done wtrace off p (with_tr ps tr0) = Ok (with_tr r (tr0 ++ suf)).
  Proof.
    destruct p as [f ms kw sh mask stores ex miss|f kw]; cbn [rfinish].
    - destruct (mapM _ (seq 0 (length miss))) as [ol|]; cbn [bind]; [|discriminate].
      destruct (mapM _ (combine miss ol)) as [pd|]; cbn [bind]; [|discriminate].
      destruct (collect_arrays _ _ _ _ _ _) as [arrs|]; cbn [bind]; [|discriminate].
      intros [= <-]. eexists. split; [reflexivity|]. intros tr0. reflexivity.
    - destruct (rawait done off) as [outs|]; cbn [bind]; [|discriminate].
      intros [= <-]. unfold dump_single. cbn [fst snd p_tr]. eexists. split; [reflexivity|]. intros tr0. reflexivity.
  Qed.

  Lemma rparent_shift done wtrace : forall preps off ps r,
    rparent dis done wtrace preps off ps = Ok r ->
    exists suf, p_tr r = p_tr ps ++ suf /\
      forall tr0, rparent dis done wtrace preps off (with_tr ps tr0) = Ok (with_tr r (tr0 ++ suf)).
  Proof.
    induction preps as [|p preps IH]; intros off ps r H; cbn [rparent] in *.
    - injection H as <-. exists []. split; [now rewrite app_nil_r|]. intros tr0. now rewrite app_nil_r.
    - destruct (rfinish dis done wtrace off p ps) as [ps1|] eqn:Ef; cbn [bind] in H; [|discriminate].
      destruct (rfinish_shift _ _ _ _ _ _ Ef) as (s1 & Hs1 & Hf1).
      destruct (IH _ _ _ H) as (s2 & Hs2 & Hf2).
      exists (s1 ++ s2). split; [now rewrite Hs2, Hs1, app_assoc|].
      intros tr0. rewrite Hf1. cbn [bind]. rewrite (Hf2 (tr0 ++ s1)).
      unfold with_tr. cbn [p_store p_out]. now rewrite app_assoc.
  Qed.

  Lemma par_generation_shift c fx ps gen pi r :
    par_generation body dis c fx ps gen pi = Ok r ->
    exists suf, p_tr r = p_tr ps ++ suf /\
      forall tr0, par_generation body dis c fx (with_tr ps tr0) gen pi = Ok (with_tr r (tr0 ++ suf)).
  Proof.
    unfold par_generation. cbn [with_tr p_store p_out p_tr].
    destruct (mapM _ gen) as [preps|]; cbn [bind]; [|discriminate]. intros H.
    destruct (rparent_shift _ _ _ _ _ _ H) as (suf & Hs & Hf). cbn [p_tr] in Hs.
    eexists. split; [rewrite Hs, <- app_assoc; reflexivity|]. intros tr0.
    specialize (Hf (tr0 ++ flat_map (fun x => rk_acts (snd x))
                             (rexecute body dis (p_store ps) (flat_map rtasks_of preps)
                                       (order (length (flat_map rtasks_of preps)) pi)))).
    unfold with_tr in Hf. cbn [p_store p_out] in Hf. rewrite Hf. unfold with_tr. now rewrite <- app_assoc.
  Qed.

  Theorem par_generations_equiv c fx : forall gens ps_seq ps_par pis ps',
    p_store ps_par = p_store ps_seq -> p_out ps_par = p_out ps_seq -> Permutation (p_tr ps_par) (p_tr ps_seq) ->
    NoDup (flat_map fouts (concat gens)) -> layered gens = true ->
    fold_left (fun acc gen => rdo ps <- acc; run_generation body c fx ps gen) gens (ROk ps_seq) = ROk ps' ->
    exists ps'', par_generations body dis c fx ps_par gens pis = Ok ps''
                 /\ p_store ps'' = p_store ps' /\ p_out ps'' = p_out ps' /\ Permutation (p_tr ps'') (p_tr ps').
  Proof.
    induction gens as [|g rest IH]; intros ps_seq ps_par pis ps' Hs Ho Ht Hnd Hlay H; cbn [fold_left par_generations concat] in *.
    - injection H as <-. exists ps_par. repeat split; assumption.
    - cbn [rbind] in H. destruct (run_generation body c fx ps_seq g) as [ps1|e tr] eqn:Eg; [|rewrite rfold_err in H; discriminate].
      destruct (layered_cons _ _ Hlay) as [Hg Hrest].
      rewrite flat_map_app in Hnd. destruct (ParGenFacts.NoDup_app_inv _ _ Hnd) as [Hndg _].
      destruct (par_generation_equiv body dis c fx ps_seq g (hd [] pis) ps1) as (r & Hr & Hrs & Hro & Hrt).
      + intros f Hf q Hq Hin. apply (Hg f Hf q Hq). rewrite flat_map_app. apply in_or_app. now left.
      + exact Hndg.
      + exact Eg.
      + destruct (par_generation_shift _ _ _ _ _ _ Hr) as (suf & Hsuf & Hshift).
        assert (ps_par = with_tr ps_seq (p_tr ps_par)) as Epar.
        { destruct ps_par, ps_seq. cbn in *. now subst. }
        rewrite Epar, Hshift. cbn [bind].
        apply (IH ps1 (with_tr r (p_tr ps_par ++ suf)) (tl pis) ps'); cbn [with_tr p_store p_out p_tr]; try assumption.
        * eapply Permutation_trans; [|exact Hrt]. rewrite Hsuf. now apply Permutation_app_tail.
        * clear - Hnd. induction (flat_map fouts g) as [|a l IHl]; [exact Hnd|]. cbn [app] in Hnd. inversion Hnd; subst. now apply IHl.
  Qed.

  (* C03 on an existing store: resume (cleanup=False) and fixed_indices under ANY schedule *)
  Theorem par_run_sel_equiv p gens inputs user fx rs pis ps :
    NoDup (flat_map fouts (concat gens)) -> layered gens = true ->
    seq_run_sel body p gens inputs user fx rs = ROk ps ->
    exists ps', par_run_sel body dis p gens inputs user fx rs pis = Ok ps'
                /\ p_store ps' = p_store ps /\ p_out ps' = p_out ps /\ Permutation (p_tr ps') (p_tr ps).
  Proof.
    intros Hnd Hlay H. unfold seq_run_sel in H. unfold par_run_sel.
    destruct (validate_fixed fx inputs p); cbn [lift rbind bind] in *; [|discriminate].
    destruct (all_shapes user inputs p) as [shapes|]; cbn [lift rbind bind] in *; [|discriminate].
    eapply par_generations_equiv; try eassumption; reflexivity.
  Qed.

  (* the calls of the parallel run on an existing store: a permutation of the sequential ones *)
  Corollary par_run_sel_calls p gens inputs user fx rs pis ps :
    NoDup (flat_map fouts (concat gens)) -> layered gens = true ->
    seq_run_sel body p gens inputs user fx rs = ROk ps ->
    exists ps', par_run_sel body dis p gens inputs user fx rs pis = Ok ps'
                /\ Permutation (calls_of (p_tr ps')) (calls_of (p_tr ps)).
  Proof.
    intros Hnd Hlay H. destruct (par_run_sel_equiv p gens inputs user fx rs pis ps Hnd Hlay H) as (ps' & Hp & _ & _ & Ht).
    exists ps'. split; [exact Hp|]. unfold calls_of. now apply Permutation_flat_map_l.
  Qed.

  (* map_run_sel is the sequential run over the model's own generations *)
  Lemma map_run_sel_seq p inputs user fx rs :
    map_run_sel body p inputs user fx rs = seq_run_sel body p (generations p) inputs user fx rs.
  Proof. reflexivity. Qed.
End RRun.
