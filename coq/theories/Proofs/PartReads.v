(* C06, whole pipelines: the static conditions of Proofs/PartSim.v (a selected element reads only selected upstream
   cells) follow from what _validate_fixed_indices checks (no fixed axis is reduced) for pipelines whose MapSpecs spell
   every array with the same axis names (validate_consistent_axes). *)
From Verif Require Import Base.Prelude Base.StrUtil Base.Index Base.NdArr Base.PyRange Base.StrSeq
  Model.MapSpec Model.MapSpecSpec Model.MapRun Model.MapDenote
  Proofs.IndexFacts Proofs.StrFacts Proofs.MapSpecFacts Proofs.ListFacts Proofs.PlaceFacts Proofs.SelectFacts
  Proofs.MapRunFacts.
From Verif Require Import Model.MapResume Model.FixedSpec Proofs.MapResumeFacts Proofs.MapValuesFacts
  Proofs.MapResumeDenote Proofs.FixedSpecFacts Proofs.PartSim Proofs.PyRangeFacts.

(* ------------------------------------------------------------------ the shapes dictionary only grows *)
Definition shapes_step (user : shape_dict) (acc : result shapes_t) (f : mfunc) : result shapes_t :=
  do shapes <- acc;
  do shm <- func_shape user shapes f;
  Ok (match shm with Some sm => map (fun o => (o, sm)) (fouts f) ++ shapes | None => shapes end).

Lemma shapes_step_err user l e : fold_left (shapes_step user) l (Err e) = Err e.
Proof. induction l as [|f l IH]; cbn; [reflexivity | exact IH]. Qed.

Lemma dget_prefix_other {V} (names : list str) (v : V) (S : list (str * V)) n :
  ~ In n names -> dict_get (map (fun o => (o, v)) names ++ S) n = dict_get S n.
Proof.
  intros H. rewrite dget_app, dget_notin; [reflexivity|]. rewrite map_map. cbn [fst]. now rewrite map_id.
Qed.

Lemma dget_prefix_same {V} (names : list str) (v : V) (S : list (str * V)) n :
  In n names -> dict_get (map (fun o => (o, v)) names ++ S) n = Some v.
Proof.
  intros H. induction names as [|o names IH]; [destruct H|]. cbn [map app dict_get].
  destruct (str_eqb n o) eqn:E; [reflexivity|]. apply IH. destruct H as [->|H]; [now rewrite str_eqb_refl in E | exact H].
Qed.

(* with uniqueness of the output names *)
Lemma shapes_mono user p : forall S0 S,
  NoDup (flat_map fouts p) ->
  (forall o, In o (flat_map fouts p) -> dict_get S0 o = None) ->
  fold_left (shapes_step user) p (Ok S0) = Ok S ->
  forall n v, dict_get S0 n = Some v -> dict_get S n = Some v.
Proof.
  induction p as [|f p IH]; intros S0 S Hnd Hfresh H n v Hn; cbn [fold_left] in H; [now injection H as <-|].
  unfold shapes_step at 2 in H. cbn [bind] in H.
  destruct (func_shape user S0 f) as [shm|e]; cbn [bind] in H; [|rewrite shapes_step_err in H; discriminate].
  cbn [flat_map] in Hnd, Hfresh. destruct (NoDup_app_inv _ _ Hnd) as [_ [Hnd2 Hdis]].
  apply (IH _ S Hnd2) with (n := n) (v := v) in H; [exact H | |].
  - intros o Ho. destruct shm as [sm|]; [|apply Hfresh; apply in_or_app; now right].
    rewrite dget_prefix_other; [apply Hfresh; apply in_or_app; now right|].
    intros X. exact (Hdis o X Ho).
  - destruct shm as [sm|]; [|exact Hn]. rewrite dget_prefix_other; [exact Hn|].
    intros X. rewrite (Hfresh n) in Hn; [discriminate | apply in_or_app; now left].
Qed.

(* every function with a MapSpec got its shape from a dictionary that the final one extends *)
Lemma all_shapes_facts user p : forall S0 S,
  NoDup (flat_map fouts p) ->
  (forall o, In o (flat_map fouts p) -> dict_get S0 o = None) ->
  fold_left (shapes_step user) p (Ok S0) = Ok S ->
  forall f, In f p ->
    exists Sf shm, func_shape user Sf f = Ok shm
      /\ (forall sm o, shm = Some sm -> In o (fouts f) -> dict_get S o = Some sm)
      /\ (forall n v, dict_get Sf n = Some v -> dict_get S n = Some v).
Proof.
  induction p as [|g p IH]; intros S0 S Hnd Hfresh H f Hf; [destruct Hf|]. cbn [fold_left] in H.
  unfold shapes_step at 2 in H. cbn [bind] in H.
  destruct (func_shape user S0 g) as [shm|e] eqn:Es; cbn [bind] in H; [|rewrite shapes_step_err in H; discriminate].
  cbn [flat_map] in Hnd, Hfresh. destruct (NoDup_app_inv _ _ Hnd) as [_ [Hnd2 Hdis]].
  set (S1 := match shm with Some sm => map (fun o => (o, sm)) (fouts g) ++ S0 | None => S0 end) in *.
  assert (Hfresh1 : forall o, In o (flat_map fouts p) -> dict_get S1 o = None).
  { intros o Ho. subst S1. destruct shm as [sm|]; [|apply Hfresh; apply in_or_app; now right].
    rewrite dget_prefix_other; [apply Hfresh; apply in_or_app; now right|]. intros X. exact (Hdis o X Ho). }
  destruct Hf as [<-|Hf].
  - exists S0, shm. split; [exact Es|]. split.
    + intros sm o -> Ho. apply (shapes_mono user p S1 S Hnd2 Hfresh1 H). subst S1. now apply dget_prefix_same.
    + intros n v Hn. apply (shapes_mono user p S1 S Hnd2 Hfresh1 H). subst S1. destruct shm as [sm|]; [|exact Hn].
      rewrite dget_prefix_other; [exact Hn|]. intros X. rewrite (Hfresh n) in Hn; [discriminate | apply in_or_app; now left].
  - exact (IH S1 S Hnd2 Hfresh1 H f Hf).
Qed.

(* ------------------------------------------------------------------ what MapSpec.shape establishes *)
Definition shape_go (m : mapspec) (ishapes internal : shape_dict) (o0 : aspec) :=
  fix go (axs : list (option str)) (k : nat) : result (list nat * list bool) :=
    match axs with
    | [] => Ok ([], [])
    | None :: _ => Err AssertionError
    | Some index :: t =>
        let relevant := filter (fun x => mem_str index (indices x)) (ins m) in
        match relevant with
        | _ :: _ =>
            do d <- common_dim ishapes index relevant;
            do r <- go t k;
            Ok (d :: fst r, true :: snd r)
        | [] =>
            match dict_get internal (aname o0) with
            | None => Err ValueError
            | Some ish =>
                match nth_error ish k with
                | None => Err ValueError
                | Some d => do r <- go t (S k); Ok (d :: fst r, false :: snd r)
                end
            end
        end
    end.

Lemma shape_unfold m ishapes internal :
  shape m ishapes internal
  = do _ <- validate_shapes m ishapes internal;
    match outs m with
    | [] => Err IndexError
    | o0 :: _ => shape_go m ishapes internal o0 (axes o0) 0
    end.
Proof. reflexivity. Qed.

Lemma common_dim_in ish x arrays d a : common_dim ish x arrays = Ok d -> In a arrays -> get_dim ish x a = Ok d.
Proof.
  unfold common_dim. destruct (mapM (get_dim ish x) arrays) as [dims|] eqn:E; cbn [bind]; [|discriminate].
  destruct dims as [|d0 rest]; [discriminate|]. destruct (forallb (Nat.eqb d0) rest) eqn:Ea; [|discriminate].
  intros H Ha. injection H as <-. destruct (mapM_ok_in _ _ _ a E Ha) as [y [Hy Hin]]. rewrite Hy. f_equal.
  destruct Hin as [<-|Hin]; [reflexivity|]. rewrite forallb_forall in Ea. symmetry. now apply Nat.eqb_eq, Ea.
Qed.

Lemma shape_go_dims m ish internal o0 : forall l k sh mask,
  shape_go m ish internal o0 l k = Ok (sh, mask) ->
  forall t x a, nth_error l t = Some (Some x) -> In a (ins m) -> In x (indices a) ->
    exists d, nth_error sh t = Some d /\ nth_error mask t = Some true /\ get_dim ish x a = Ok d.
Proof.
  induction l as [|ax l IH]; intros k sh mask H t x a Ht Ha Hx; [destruct t; discriminate|].
  cbn [shape_go] in H. destruct ax as [index|]; [|discriminate]. fold (shape_go m ish internal o0) in H.
  destruct (filter (fun x0 => mem_str index (indices x0)) (ins m)) as [|r0 rs] eqn:F.
  - destruct (dict_get internal (aname o0)) as [ishp|]; [|discriminate].
    destruct (nth_error ishp k) as [d|]; [|discriminate].
    destruct (shape_go m ish internal o0 l (S k)) as [[sh' mask']|] eqn:E; cbn [bind] in H; [|discriminate].
    injection H as <- <-. destruct t as [|t]; cbn [nth_error] in Ht |- *.
    + injection Ht as ->. exfalso.
      assert (X : In a (filter (fun x0 => mem_str x (indices x0)) (ins m))) by (apply filter_In; split; [exact Ha | now apply mem_str_In]).
      rewrite F in X. destruct X.
    + exact (IH _ _ _ E t x a Ht Ha Hx).
  - destruct (common_dim ish index (r0 :: rs)) as [d|] eqn:Ec; cbn [bind] in H; [|discriminate].
    destruct (shape_go m ish internal o0 l k) as [[sh' mask']|] eqn:E; cbn [bind] in H; [|discriminate].
    injection H as <- <-. destruct t as [|t]; cbn [nth_error] in Ht |- *.
    + injection Ht as ->. exists d. split; [reflexivity|]. split; [reflexivity|].
      apply (common_dim_in ish x (r0 :: rs) d a Ec). rewrite <- F. apply filter_In. split; [exact Ha | now apply mem_str_In].
    + exact (IH _ _ _ E t x a Ht Ha Hx).
Qed.

Lemma index_of_nodup x : forall l k, NoDup (somes l) -> nth_error l k = Some (Some x) -> index_of x l = Some k.
Proof.
  induction l as [|[y|] l IH]; intros k Hnd Hk; [destruct k; discriminate| |].
  - cbn [somes] in Hnd. inversion Hnd as [|? ? Hni Hnd']; subst. destruct k as [|k]; cbn [nth_error] in Hk.
    + injection Hk as ->. cbn [index_of]. now rewrite str_eqb_refl.
    + cbn [index_of]. destruct (str_eqb x y) eqn:E.
      * apply str_eqb_eq in E. subst y. exfalso. apply Hni. apply somes_In. eapply nth_error_In; eauto.
      * rewrite (IH k Hnd' Hk). reflexivity.
  - cbn [somes] in Hnd. destruct k as [|k]; cbn [nth_error] in Hk; [discriminate|]. cbn [index_of]. now rewrite (IH k Hnd Hk).
Qed.

(* summary: the shape of a function against the shapes of its mapped inputs *)
Lemma shape_input_facts m ish internal sh mask :
  shape m ish internal = Ok (sh, mask) ->
  (forall a, In a (ins m) -> exists sha, dict_get ish (aname a) = Some sha /\ length sha = length (axes a))
  /\ (forall o0 rest, outs m = o0 :: rest ->
        forall t x a k, nth_error (axes o0) t = Some (Some x) -> In a (ins m) -> NoDup (indices a) ->
          nth_error (axes a) k = Some (Some x) ->
          exists d sha, nth_error sh t = Some d /\ nth_error mask t = Some true
                        /\ dict_get ish (aname a) = Some sha /\ nth_error sha k = Some d).
Proof.
  intros H. rewrite shape_unfold in H.
  destruct (validate_shapes m ish internal) as [u|] eqn:Ev; cbn [bind] in H; [|discriminate].
  split.
  - intros a Ha. unfold validate_shapes in Ev.
    destruct (negb (keys_subset ish (map aname (ins m)))); [discriminate|].
    destruct (negb (forallb _ (map aname (ins m)))); [discriminate|].
    destruct (forallb _ (ins m)) eqn:Er; cbn [negb] in Ev; [|discriminate].
    rewrite forallb_forall in Er. specialize (Er a Ha). destruct (dict_get ish (aname a)) as [sha|]; [|discriminate].
    exists sha. split; [reflexivity|]. now apply Nat.eqb_eq in Er.
  - intros o0 rest Ho t x a k Ht Ha Hnd Hk. rewrite Ho in H.
    assert (Hx : In x (indices a)) by (unfold indices; apply somes_In; eapply nth_error_In; eauto).
    destruct (shape_go_dims m ish internal o0 _ _ _ _ H t x a Ht Ha Hx) as [d [D1 [D2 D3]]].
    unfold get_dim in D3. rewrite (index_of_nodup x (axes a) k Hnd Hk) in D3.
    destruct (dict_get ish (aname a)) as [sha|]; [|discriminate].
    destruct (nth_error sha k) as [d'|] eqn:En; [|discriminate]. injection D3 as ->.
    exists d, sha. auto.
Qed.

Lemma ish_get (S : shapes_t) names n : NoDup names ->
  dict_get (flat_map (fun n0 => match dict_get S n0 with Some sm => [(n0, fst sm)] | None => [] end) names) n
  = if mem_str n names then option_map fst (dict_get S n) else None.
Proof.
  induction names as [|n0 names IH]; intros Hnd; [reflexivity|]. inversion Hnd as [|? ? Hni Hnd']; subst.
  cbn [flat_map mem_str existsb]. fold (mem_str n names).
  destruct (str_eqb n n0) eqn:E.
  - apply str_eqb_eq in E. subst n0. cbn [orb].
    destruct (dict_get S n) as [sm|]; cbn [app dict_get option_map].
    + now rewrite str_eqb_refl.
    + rewrite (IH Hnd'). assert (X : mem_str n names = false) by (now apply mem_str_false). now rewrite X.
  - cbn [orb]. destruct (dict_get S n0) as [sm|]; cbn [app dict_get]; [rewrite E|]; exact (IH Hnd').
Qed.

(* ------------------------------------------------------------------ output specs, masks, positions *)
Lemma no_colon_axes o : no_colon o = true -> axes o = map Some (indices o).
Proof.
  unfold no_colon, indices. intros H. apply Bool.negb_true_iff in H.
  induction (axes o) as [|[x|] l IH]; cbn [existsb is_none orb somes map] in *; [reflexivity | | discriminate].
  now rewrite <- IH.
Qed.

Lemma wf_decl_outs ms : wf_decl ms = true ->
  exists o0 rest, outs ms = o0 :: rest /\ forall o, In o (outs ms) -> axes o = map Some (indices o0).
Proof.
  unfold wf_decl. intros H. apply andb_true_iff in H as [_ H]. destruct (outs ms) as [|o0 rest] eqn:Eo; [discriminate|].
  exists o0, rest. split; [reflexivity|]. apply andb_true_iff in H as [H _]. apply andb_true_iff in H as [Hnc Heq].
  rewrite forallb_forall in Hnc, Heq. intros o Ho. rewrite (no_colon_axes o (Hnc o Ho)). f_equal.
  destruct Ho as [<-|Ho]; [reflexivity|]. now apply (list_eqb_eq str_eqb str_eqb_eq), Heq.
Qed.

Lemma ext_names ms l :
  ext_of (map (is_ext_axis ms) (map Some l)) l = filter (fun n => mem_str n (input_indices_list ms)) l.
Proof.
  induction l as [|x l IH]; [reflexivity|]. cbn [map is_ext_axis ext_of filter]. rewrite relevant_nonempty.
  destruct (mem_str x (input_indices_list ms)); cbn [ext_of]; now rewrite IH.
Qed.

(* position kk of an external projection is one position t of the full tuples, the same for all of them *)
Lemma ext_of_pos (mask : list bool) : forall kk, kk < length (filter id mask) ->
  exists t, nth_error mask t = Some true /\
    forall (A : Type) (l : list A), length l = length mask -> nth_error (ext_of mask l) kk = nth_error l t.
Proof.
  induction mask as [|b mask IH]; intros kk Hk; cbn [filter length] in Hk; [lia|].
  destruct b; cbn [id] in Hk.
  - destruct kk as [|kk].
    + exists 0. split; [reflexivity|]. intros A [|x l] Hl; [discriminate | reflexivity].
    + cbn [length] in Hk. destruct (IH kk ltac:(lia)) as [t [T1 T2]]. exists (S t). split; [exact T1|].
      intros A [|x l] Hl; [discriminate|]. cbn [ext_of nth_error]. apply T2. now injection Hl.
  - destruct (IH kk Hk) as [t [T1 T2]]. exists (S t). split; [exact T1|].
    intros A [|x l] Hl; [discriminate|]. cbn [ext_of nth_error]. apply T2. now injection Hl.
Qed.

Lemma part_positions_nth d names ext e : in_bounds ext e = true ->
  nth (ravel ext e) (part_positions d names ext) false = in_part d names ext e.
Proof.
  intros Hb. unfold part_positions. apply nth_error_nth.
  rewrite <- unravel_enumerates, map_map, nth_error_map, nth_error_seq0 by (now apply ravel_lt).
  cbn [option_map]. now rewrite unravel_ravel.
Qed.

Lemma part_positions_lin d names ext i : i < prod ext ->
  nth i (part_positions d names ext) false = in_part d names ext (unravel ext i).
Proof.
  intros Hi. rewrite <- (ravel_unravel ext i Hi) at 1. apply part_positions_nth. now apply unravel_in_bounds.
Qed.

Lemma carriers_of_intro p sp k a : In sp (arrayspecs p) -> nth_error (axes sp) k = Some (Some a) ->
  In (aname sp, k) (carriers_of p a).
Proof.
  intros Hsp Hk. unfold carriers_of. apply in_flat_map. exists sp. split; [exact Hsp|].
  apply in_flat_map. exists (k, Some a). split.
  - exact (combine_seq_nth (axes sp) 0 k (Some a) Hk).
  - cbn [fst snd]. rewrite str_eqb_refl. left. reflexivity.
Qed.

Lemma coord_ok_free d a n cc : ~ In a (map fst d) -> coord_ok d a n cc = true.
Proof. intros H. unfold coord_ok. now rewrite (dget_notin d a H). Qed.

Lemma ext_of_In {A} (mask : list bool) : forall (l : list A) x, In x (ext_of mask l) -> In x l.
Proof.
  induction mask as [|b mask IH]; intros [|y l] x H; cbn [ext_of] in H; try (destruct b; destruct H; fail); try destruct H.
  destruct b; cbn [ext_of] in H.
  - destruct H as [->|H]; [now left | right; now apply IH].
  - right. now apply IH.
Qed.

Lemma arrayspecs_In p f m sp : In f p -> fspec f = Some m -> In sp (ins m ++ outs m) -> In sp (arrayspecs p).
Proof. intros Hf Hs Hsp. unfold arrayspecs. apply in_flat_map. exists f. split; [exact Hf|]. now rewrite Hs. Qed.

Lemma Forall2_nth_map {A B C} (R : B -> C -> Prop) (F : A -> B) (l : list A) : forall (l' : list C) t y c0,
  Forall2 R (map F l) l' -> nth_error l t = Some y -> nth_error l' t = Some c0 -> R (F y) c0.
Proof.
  induction l as [|x l IH]; intros l' t y c0 H Hy Hc; [destruct t; discriminate|].
  cbn [map] in H. inversion H as [|? ? ? l2 H1 H2]; subst. destruct t as [|t]; cbn [nth_error] in Hy, Hc.
  - injection Hy as <-. injection Hc as <-. exact H1.
  - exact (IH l2 t y c0 H2 Hy Hc).
Qed.

Lemma NoDup_map_same {A B} (F : A -> B) (l : list A) x y :
  NoDup (map F l) -> In x l -> In y l -> F x = F y -> x = y.
Proof.
  induction l as [|z l IH]; intros Hnd Hx Hy E; [destruct Hx|]. cbn [map] in Hnd. inversion Hnd as [|? ? Hni Hnd']; subst.
  destruct Hx as [->|Hx], Hy as [->|Hy]; auto.
  - exfalso. apply Hni. rewrite E. now apply in_map.
  - exfalso. apply Hni. rewrite <- E. now apply in_map.
Qed.

(* ------------------------------------------------------------------ the static conditions *)
Section Reads.
  Variable body : mfunc -> env -> result (list val).
  Variable user : shape_dict.
  Variable p : list mfunc.
  Variable inputs : env.
  Variable D : den_state.
  Let c : ctx := {| x_p := p; x_inputs := inputs; x_shapes := d_shapes D |}.

  Hypothesis HD : forall f, In f p -> den_fact body D f.
  Hypothesis Hfok : forall f, In f p -> func_ok f = true.
  Hypothesis Hndo : NoDup (flat_map fouts p).
  Hypothesis Hfresh : forall o, In o (flat_map fouts p) -> dict_get (init_shapes inputs) o = None.
  Hypothesis Hshapes : fold_left (shapes_step user) p (Ok (init_shapes inputs)) = Ok (d_shapes D).
  Hypothesis Hcons : consistent_axes (arrayspecs p).
  Variable fx : fixed.
  Hypothesis Hnr : forall a, In a (map fst fx) -> axis_reduced p a = false.

  Notation mdata := (mapped_data body p inputs D HD Hfok).

  (* every output of a mapped function has the function's shape *)
  Lemma out_shape g q sh mask : In g p -> is_mapped g = true -> shape_of c g = Ok (sh, mask) -> In q (fouts g) ->
    dict_get (d_shapes D) q = Some (sh, mask).
  Proof.
    intros Hg Hm Hs Hq. destruct (HD g Hg) as [kw [_ H]]. rewrite Hm in H.
    destruct H as [ms [sh' [mask' [arrs [_ [_ [_ [_ [_ [_ A7]]]]]]]]]].
    apply In_nth_error in Hq as [j Hj]. destruct (A7 j q Hj) as [B _]. rewrite B.
    unfold shape_of in Hs. destruct (fouts g) as [|o0 os] eqn:Ef; [discriminate|].
    destruct (A7 0 o0 eq_refl) as [B0 _]. cbn [x_shapes c] in Hs. rewrite B0 in Hs. now injection Hs as <- <-.
  Qed.

  (* the MapSpec.shape call behind the shape of f, and the input shapes it saw *)
  Lemma func_shape_facts f ms sh mask : In f p -> fspec f = Some ms -> shape_of c f = Ok (sh, mask) ->
    exists ish internal, shape ms ish internal = Ok (sh, mask)
      /\ forall a sha, In a (ins ms) -> dict_get ish (aname a) = Some sha ->
           exists mq, dict_get (d_shapes D) (aname a) = Some (sha, mq).
  Proof.
    intros Hf Hs Hsh.
    destruct (all_shapes_facts user p _ _ Hndo Hfresh Hshapes f Hf) as [Sf [shm [E1 [E2 E3]]]].
    unfold func_shape in E1. rewrite Hs in E1.
    match type of E1 with (do r <- shape ms ?i ?n; _) = _ => set (ish := i) in *; set (internal := n) in * end.
    destruct (shape ms ish internal) as [r|] eqn:Er; cbn [bind] in E1; [|discriminate]. injection E1 as <-.
    assert (Hr : r = (sh, mask)).
    { unfold shape_of in Hsh. destruct (fouts f) as [|o0 os] eqn:Ef; [discriminate|]. cbn [x_shapes c] in Hsh.
      rewrite (E2 r o0 eq_refl) in Hsh by (now left). now injection Hsh. }
    subst r. exists ish, internal. split; [exact Er|].
    intros a sha Ha Hg. subst ish.
    assert (Hnd : NoDup (map aname (ins ms))).
    { pose proof (Hfok f Hf) as Hok. unfold func_ok in Hok. rewrite Hs in Hok. apply andb_true_iff in Hok as [_ Hok].
      apply andb_true_iff in Hok as [Hok _]. apply andb_true_iff in Hok as [Hok _]. apply andb_true_iff in Hok as [_ Hok].
      now apply nodup_str_NoDup. }
    rewrite (ish_get Sf _ (aname a) Hnd) in Hg.
    destruct (mem_str (aname a) (map aname (ins ms))); [|discriminate].
    destruct (dict_get Sf (aname a)) as [[s0 m0]|] eqn:Eg; [|discriminate]. cbn in Hg. injection Hg as ->.
    exists m0. now apply E3.
  Qed.

  (* the output specs of a mapped function *)
  Lemma out_spec_facts g msg shg maskg : In g p -> is_mapped g = true -> fspec g = Some msg -> shape_of c g = Ok (shg, maskg) ->
    length shg = length (output_indices msg)
    /\ length maskg = length shg
    /\ ext_of maskg (output_indices msg) = external_indices msg
    /\ forall q, In q (fouts g) -> exists oq, In oq (outs msg) /\ aname oq = q /\ axes oq = map Some (output_indices msg).
  Proof.
    intros Hg Hm Hs Hsh.
    destruct (func_shape_facts g msg shg maskg Hg Hs Hsh) as [ish [internal [Eshape _]]].
    destruct (shape_mask _ _ _ _ _ Eshape) as [o0 [rest [Ho [Hl Hmk]]]].
    pose proof (Hfok g Hg) as Hok. destruct (func_ok_spec g msg Hok Hs) as [W1 _].
    destruct (wf_decl_outs msg W1) as [o0' [rest' [Ho' Hax]]]. rewrite Ho in Ho'. injection Ho' as <- <-.
    assert (Hoi : output_indices msg = indices o0) by (unfold output_indices; now rewrite Ho).
    assert (Hax0 : axes o0 = map Some (indices o0)) by (apply Hax; rewrite Ho; now left).
    split; [rewrite Hl, Hax0, map_length, Hoi; reflexivity|].
    split; [rewrite Hmk, map_length; now symmetry|].
    split.
    - rewrite Hmk, Hax0, Hoi. unfold external_indices. rewrite Hoi. apply ext_names.
    - intros q Hq. unfold func_ok in Hok. rewrite Hs in Hok. apply andb_true_iff in Hok as [_ Hok].
      apply andb_true_iff in Hok as [Hok _]. apply andb_true_iff in Hok as [Hok _]. apply andb_true_iff in Hok as [Hok _].
      apply andb_true_iff in Hok as [Hok _]. apply andb_true_iff in Hok as [_ Heq].
      apply (list_eqb_eq str_eqb str_eqb_eq) in Heq. rewrite <- Heq in Hq. apply in_map_iff in Hq as [oq [E Hoq]].
      exists oq. split; [exact Hoq|]. split; [exact E|]. rewrite Hoi. now apply Hax.
  Qed.

  (* an axis that some consumer reduces is not fixed *)
  Lemma reduced_not_fixed b q t f :
    In (q, t) (carriers_of p b) -> In f p -> In q (fparams f) ->
    match fspec f with
    | None => True
    | Some m => match find (fun sp => str_eqb (aname sp) q) (ins m) with
                | None => True
                | Some sp => nth_error (axes sp) t = Some None
                end
    end ->
    ~ In b (map fst fx).
  Proof.
    intros Hcar Hf Hq Hred Hin. pose proof (Hnr b Hin) as Hn.
    assert (T : axis_reduced p b = true); [|rewrite T in Hn; discriminate].
    unfold axis_reduced. apply existsb_exists. exists (q, t). split; [exact Hcar|]. cbn [fst snd].
    apply existsb_exists. exists f. split; [exact Hf|]. apply andb_true_iff. split; [now apply mem_str_In|].
    destruct (fspec f) as [m|]; [|reflexivity].
    destruct (find (fun sp => str_eqb (aname sp) q) (ins m)) as [sp|]; [|reflexivity]. now rewrite Hred.
  Qed.

  Theorem whole_reads_hold : whole_reads_ok p inputs D fx.
  Proof.
    intros f q g Hf Hq Hni Hp Hmg msg shg maskg mg i K2 K3 Hmgm Hi. fold c in K3.
    destruct (producer_Some _ _ _ Hp) as [Hg Hqo].
    destruct (out_spec_facts g msg shg maskg Hg Hmg K2 K3) as [L1 [L2 [L3 L4]]].
    rewrite (mask_fixed_axes_spec fx msg shg maskg mg L1 Hmgm), part_positions_lin by exact Hi.
    apply in_part_nth. split; [apply ext_of_length2; now symmetry|]. split; [now rewrite unravel_length|].
    intros kk b n cc Hb _ _. apply coord_ok_free.
    apply nth_error_In, ext_of_In, In_nth_error in Hb as [t Ht].
    destruct (L4 q Hqo) as [oq [Hoq [Hnq Haxq]]].
    apply (reduced_not_fixed b q t f); [| exact Hf | exact Hq |].
    - rewrite <- Hnq. apply carriers_of_intro.
      + apply (arrayspecs_In p g msg oq Hg K2). apply in_or_app. now right.
      + rewrite Haxq, nth_error_map, Ht. reflexivity.
    - destruct (fspec f) as [m|] eqn:Esf; [|exact I].
      destruct (find (fun sp => str_eqb (aname sp) q) (ins m)) as [sp|] eqn:Efind; [|exact I]. exfalso.
      destruct (find_some _ _ Efind) as [Hsp Hn]. apply str_eqb_eq in Hn.
      apply (Hni m sp); [|reflexivity | exact Hsp | exact Hn].
      unfold is_mapped. rewrite Esf. destruct (ins m); [destruct Hsp | reflexivity].
  Qed.

  Theorem reads_hold : reads_ok p inputs D fx.
  Proof.
    intros f ms sh mask m i a g Hf Hmf Ks Ksh Hm Hi Hsel Ha Hp Hmg msg shg maskg mg idx K2 K3 Hmgm Hb Hk.
    fold c in Ksh, K3. set (q := aname a) in *.
    destruct (producer_Some _ _ _ Hp) as [Hg Hqo].
    destruct (out_spec_facts g msg shg maskg Hg Hmg K2 K3) as [L1 [L2 [L3 L4]]].
    destruct (out_spec_facts f ms sh mask Hf Hmf Ks Ksh) as [F1 [F2 [F3 _]]].
    pose proof (Hfok f Hf) as Hok. destruct (func_ok_spec f ms Hok Ks) as [W1 [W2 [W3 W4]]].
    assert (Hqpar : In q (fparams f) /\ NoDup (indices a)).
    { unfold func_ok in Hok. rewrite Ks in Hok. apply andb_true_iff in Hok as [_ Hok].
      apply andb_true_iff in Hok as [Hok Hax]. apply andb_true_iff in Hok as [Hok _]. apply andb_true_iff in Hok as [Hok _].
      apply andb_true_iff in Hok as [_ Hpar]. rewrite forallb_forall in Hpar, Hax.
      specialize (Hpar a Ha). apply andb_true_iff in Hpar as [Hpar _]. split; [now apply mem_str_In|].
      apply nodup_str_NoDup. exact (Hax a Ha). }
    destruct Hqpar as [Hqpar Hnda].
    destruct (func_shape_facts f ms sh mask Hf Ks Ksh) as [ish [internal [Eshape Hish]]].
    destruct (shape_input_facts ms ish internal sh mask Eshape) as [R1 R2].
    destruct (R1 a Ha) as [sha [Hsha Hrank]].
    destruct (Hish a sha Ha Hsha) as [mq Hmq].
    pose proof (out_shape g q shg maskg Hg Hmg K3 Hqo) as Hos. unfold q in Hos. rewrite Hos in Hmq. injection Hmq as <- <-.
    destruct (wf_decl_outs ms W1) as [o0 [rest [Ho Hax]]].
    assert (Hoi : output_indices ms = indices o0) by (unfold output_indices; now rewrite Ho).
    assert (Hax0 : axes o0 = map Some (output_indices ms)) by (rewrite Hoi; apply Hax; rewrite Ho; now left).
    destruct (mdata f Hf Hmf) as [_ [ms' [sh' [mask' [_ [_ [Ks' [Ksh' [_ [_ [P1 [P2 [P3 _]]]]]]]]]]]]]. fold c in Ksh'.
    rewrite Ks in Ks'. injection Ks' as <-. rewrite Ksh in Ksh'. injection Ksh' as <- <-.
    destruct (in_bounds_proj maskg shg idx L2 Hb) as [Hbe _].
    rewrite (mask_fixed_axes_spec fx msg shg maskg mg L1 Hmgm), part_positions_nth by exact Hbe.
    apply in_part_nth. split; [apply ext_of_length2; now symmetry|]. split; [pose proof (in_bounds_length _ _ Hbe) as X; lia|].
    intros kk b n cc Hb1 Hn1 Hc1.
    assert (Hkk : kk < length (filter id maskg)).
    { rewrite <- (ext_of_length maskg shg) by (now symmetry). apply nth_error_Some. congruence. }
    destruct (ext_of_pos maskg kk Hkk) as [t [T1 T2]].
    rewrite T2 in Hb1 by (now rewrite L2). rewrite T2 in Hn1 by (now symmetry).
    rewrite T2 in Hc1 by (pose proof (in_bounds_length _ _ Hb) as X; lia).
    destruct (L4 q Hqo) as [oq [Hoq [Hnq Haxq]]].
    assert (Hoqt : nth_error (axes oq) t = Some (Some b)) by (now rewrite Haxq, nth_error_map, Hb1).
    assert (Hoqa : In oq (arrayspecs p)) by (apply (arrayspecs_In p g msg oq Hg K2); apply in_or_app; now right).
    assert (Haa : In a (arrayspecs p)) by (apply (arrayspecs_In p f ms a Hf Ks); apply in_or_app; now left).
    destruct (nth_error (axes a) t) as [ax|] eqn:Eax.
    2:{ apply nth_error_None in Eax. assert (t < length shg) by (apply nth_error_Some; congruence). lia. }
    destruct ax as [x|].
    - (* a named axis: the coordinate is the one of the selected element of f *)
      assert (x = b) by (apply (Hcons a oq t x b Haa Hoqa (eq_sym Hnq) Eax Hoqt)). subst x.
      pose proof (Forall2_nth_map _ _ (axes a) idx t (Some b) cc Hk Eax Hc1) as Hcc. cbn beta iota in Hcc.
      assert (Hbx : In b (external_indices ms)) by (apply (input_axis_in_ext ms W1 a b Ha); eapply nth_error_In; eauto).
      destruct (pos_of_Some _ _ Hbx) as [pp [Hpp Hppl]].
      set (e := unravel (ext_of mask sh) i) in *.
      assert (Hel : length e = length (external_indices ms)) by (unfold e; now rewrite unravel_length).
      rewrite (zip_lookup_pos _ e b pp (ext_NoDup ms W3) Hel Hpp) in Hcc.
      destruct (nth_error e pp) as [ce|] eqn:Ece; [|apply nth_error_None in Ece; lia]. subst cc.
      (* f is selected at i *)
      rewrite (mask_fixed_axes_spec fx ms sh mask m F1 Hm), part_positions_lin in Hsel by exact Hi. fold e in Hsel.
      apply in_part_nth in Hsel as [_ [_ Hsel]]. rewrite F3 in Hsel.
      destruct (nth_error (ext_of mask sh) pp) as [nf|] eqn:Enf; [|apply nth_error_None in Enf; lia].
      specialize (Hsel pp b nf ce (pos_of_Some_nth _ _ _ Hpp) Enf Ece).
      (* the dimension of f's axis b is the dimension of the input at t *)
      assert (Hpk : pp < length (filter id mask)).
      { rewrite <- (ext_of_length mask sh) by (now symmetry). lia. }
      destruct (ext_of_pos mask pp Hpk) as [tf [U1 U2]].
      rewrite U2 in Enf by (now symmetry).
      assert (Etf : nth_error (output_indices ms) tf = Some b).
      { rewrite <- U2 by (rewrite F2; now symmetry). rewrite F3. now apply pos_of_Some_nth. }
      destruct (R2 o0 rest Ho tf b a t) as [d [sha' [D1 [_ [D3 D4]]]]]; [now rewrite Hax0, nth_error_map, Etf | exact Ha | exact Hnda | exact Eax|].
      rewrite Hsha in D3. injection D3 as <-. rewrite Hn1 in D4. injection D4 as <-. rewrite Enf in D1. injection D1 as <-.
      exact Hsel.
    - (* ':' : the axis is reduced, hence not fixed *)
      apply coord_ok_free. apply (reduced_not_fixed b q t f); [| exact Hf | exact Hqpar |].
      + rewrite <- Hnq. now apply carriers_of_intro.
      + rewrite Ks. destruct (find (fun sp => str_eqb (aname sp) q) (ins ms)) as [sp|] eqn:Efind.
        * destruct (find_some _ _ Efind) as [Hsp Hn]. apply str_eqb_eq in Hn.
          assert (sp = a) by (apply (NoDup_map_same aname (ins ms) sp a W2 Hsp Ha Hn)). now subst sp.
        * pose proof (find_none _ _ Efind a Ha) as X. cbn beta in X. unfold q in X. now rewrite str_eqb_refl in X.
  Qed.
End Reads.

(* ------------------------------------------------------------------ the masks can be computed *)
Lemma mapM_combine_exists {A B C} (G : A * B -> result C) (l1 : list A) : forall (l2 : list B),
  (forall kk x n, nth_error l1 kk = Some x -> nth_error l2 kk = Some n -> exists y, G (x, n) = Ok y) ->
  exists r, mapM G (combine l1 l2) = Ok r.
Proof.
  induction l1 as [|x l1 IH]; intros l2 H; [eexists; reflexivity|]. destruct l2 as [|n l2]; [eexists; reflexivity|].
  cbn [combine mapM]. destruct (H 0 x n eq_refl eq_refl) as [y Hy]. rewrite Hy. cbn [bind].
  destruct (IH l2 (fun kk => H (S kk))) as [r Hr]. rewrite Hr. cbn [bind]. eexists. reflexivity.
Qed.

Section Masks.
  Variable body : mfunc -> env -> result (list val).
  Variable user : shape_dict.
  Variable p : list mfunc.
  Variable inputs : env.
  Variable D : den_state.
  Let c : ctx := {| x_p := p; x_inputs := inputs; x_shapes := d_shapes D |}.
  Hypothesis HD : forall f, In f p -> den_fact body D f.
  Hypothesis Hfok : forall f, In f p -> func_ok f = true.
  Hypothesis Hndo : NoDup (flat_map fouts p).
  Hypothesis Hfresh : forall o, In o (flat_map fouts p) -> dict_get (init_shapes inputs) o = None.
  Hypothesis Hshapes : fold_left (shapes_step user) p (Ok (init_shapes inputs)) = Ok (d_shapes D).
  Variable fx : fixed.
  Hypothesis Hrange : fixed_in_range p (d_shapes D) fx = true.

  Theorem masks_hold : masks_defined p inputs D fx.
  Proof.
    intros f ms sh mask Hf Hm Ks Ksh. fold c in Ksh.
    destruct (out_spec_facts user p inputs D Hfok Hndo Hfresh Hshapes f ms sh mask Hf Hm Ks Ksh) as [F1 [F2 [F3 F4]]].
    unfold mask_fixed_axes, np_assign_true. rewrite ext_of_map.
    assert (Hl : length (map (key_of fx) (ext_of mask (output_indices ms))) = length (ext_of mask sh))
      by (rewrite map_length; apply ext_of_length2; now symmetry).
    rewrite Hl, Nat.ltb_irrefl, Nat.sub_diag. cbn [repeat]. rewrite app_nil_r.
    destruct (mapM_combine_exists (fun kn : fsel * nat => fsel_indices (fst kn) (snd kn))
                (map (key_of fx) (ext_of mask (output_indices ms))) (ext_of mask sh)) as [ls Hls].
    2:{ rewrite Hls. cbn [bind]. eexists. reflexivity. }
    intros kk sel n Hk Hn. cbn [fst snd]. rewrite nth_error_map in Hk.
    destruct (nth_error (ext_of mask (output_indices ms)) kk) as [b|] eqn:Eb; [|discriminate]. cbn in Hk. injection Hk as <-.
    unfold key_of. destruct (dict_get fx b) as [sel|] eqn:Eg; [|rewrite full_slice_indices; eauto].
    assert (Hkk : kk < length (filter id mask)).
    { rewrite <- (ext_of_length mask sh) by (now symmetry). apply nth_error_Some. congruence. }
    destruct (ext_of_pos mask kk Hkk) as [t [T1 T2]].
    rewrite T2 in Eb by (rewrite F2; now symmetry). rewrite T2 in Hn by (now symmetry).
    unfold shape_of in Ksh. destruct (fouts f) as [|o0 os] eqn:Ef; [discriminate|]. cbn [x_shapes c] in Ksh.
    destruct (dict_get (d_shapes D) o0) as [sm|] eqn:Es; [|discriminate]. injection Ksh as ->.
    destruct (F4 o0 (or_introl eq_refl)) as [oq [Hoq [Hnq Haxq]]].
    unfold fixed_in_range in Hrange. rewrite forallb_forall in Hrange.
    specialize (Hrange (b, sel) (dict_get_In _ _ _ Eg)). cbn [fst snd] in Hrange. rewrite forallb_forall in Hrange.
    assert (Hcar : In (o0, t) (carriers_of p b)).
    { rewrite <- Hnq. apply carriers_of_intro.
      - apply (arrayspecs_In p f ms oq Hf Ks). apply in_or_app. now right.
      - now rewrite Haxq, nth_error_map, Eb. }
    specialize (Hrange (o0, t) Hcar). unfold dim_of in Hrange. cbn [fst snd] in Hrange. rewrite Es in Hrange. cbn [fst] in Hrange.
    rewrite Hn in Hrange. unfold sel_in_range in Hrange. destruct (fsel_indices sel n) as [l|]; [eauto | discriminate].
  Qed.
End Masks.

(* ------------------------------------------------------------------ the theorem for whole pipelines *)
(* A PART, i.e. a run with a fixed_indices request that _validate_fixed_indices accepts (and whose indices are in
   range also on the axes that only internal shapes carry), started on ANY sub-store of the denoted store: it
   completes, the store is again a sub-store of the denoted store, every value it dumps is the denoted one. *)
Theorem part_from_substore body user p inputs D fx rs :
  body_arity body ->
  request_ok p inputs = true -> denote_run body p inputs user = Ok D -> pipeline_order_ok p = true ->
  consistent_axes (arrayspecs p) ->
  validate_fixed (Some fx) inputs p = Ok tt -> fixed_in_range p (d_shapes D) fx = true ->
  (forall g, In g p -> fsub body p inputs D rs g) ->
  exists ps, map_run_sel body p inputs user (Some fx) rs = ROk ps
    /\ (forall g, In g p -> fsub body p inputs D (p_store ps) g)
    /\ Forall (dump_den body p inputs D) (p_tr ps)
    /\ (forall g o, In g p -> is_mapped g = false -> In o (fouts g) ->
          dict_get (st_val (p_store ps)) o = Some (Ok (dval D o))).
Proof.
  intros Harity Hreq Hden Hord Hcons Hval Hrange Hsub.
  destruct (pipeline_order_ok_spec p (request_ok_nodup p inputs Hreq) Hord) as [Htopo [Hpb Hall]].
  pose proof Hreq as Hreq'. unfold request_ok in Hreq'. apply andb_true_iff in Hreq' as [Hreq' _]. apply andb_true_iff in Hreq' as [Hok Hnd].
  apply nodup_str_NoDup in Hnd. destruct (NoDup_app_inv _ _ Hnd) as [Hndo [_ Hdisj]].
  pose proof Hden as Hden'. unfold denote_run in Hden'.
  set (d0 := {| d_env := inputs; d_shapes := init_shapes inputs; d_out := [] |}) in *.
  destruct (denote_fold_facts body user p d0 D Hok Htopo) as [HD _]; [intros; reflexivity | exact Hndo | exact Hden'|].
  destruct (denote_fold_env body user p d0 D Hok Hden') as [_ Hshapes]. cbn [d_shapes d0] in Hshapes.
  assert (Hfok : forall f, In f p -> func_ok f = true) by (rewrite forallb_forall in Hok; exact Hok).
  assert (Hfresh : forall o, In o (flat_map fouts p) -> dict_get (init_shapes inputs) o = None).
  { intros o Ho. apply dget_notin. intros X. apply init_shapes_names in X. exact (Hdisj o Ho X). }
  assert (Hnr : forall a, In a (map fst fx) -> axis_reduced p a = false).
  { intros a Ha. destruct (axis_reduced p a) eqn:E; [|reflexivity].
    destruct (reduced_axis_rejected_decl p Hcons fx inputs a Ha E) as [e He]. pose proof (eq_trans (eq_sym Hval) He) as X. discriminate X. }
  apply (part_from_substore_reads body user p inputs D fx rs Harity Hreq Hden Htopo Hpb Hall Hval); [| | | exact Hsub].
  - exact (masks_hold user p inputs D Hfok Hndo Hfresh Hshapes fx Hrange).
  - exact (reads_hold body user p inputs D HD Hfok Hndo Hfresh Hshapes Hcons fx Hnr).
  - exact (whole_reads_hold user p inputs D Hfok Hndo Hfresh Hshapes fx Hnr).
Qed.

(* ------------------------------------------------------------------ pieces, then the whole *)
(* the parts run one after the other, each on the store the previous one left; their traces *)
Inductive parts_run (body : mfunc -> env -> result (list val)) (p : list mfunc) (inputs : env) (user : shape_dict)
  : list fixed -> rstore -> rstore -> list (list action) -> Prop :=
| parts_nil rs : parts_run body p inputs user [] rs rs []
| parts_cons fx fxs rs ps rs' trs :
    map_run_sel body p inputs user (Some fx) rs = ROk ps ->
    parts_run body p inputs user fxs (p_store ps) rs' trs ->
    parts_run body p inputs user (fx :: fxs) rs rs' (p_tr ps :: trs).

(* PIECES_EQ_WHOLE against the denotation, unconditional in the parts: ANY sequence of accepted requests (in any order,
   overlapping or not, covering or not), started on any sub-store of the denoted store (e.g. the empty one):
   every part completes; the final full run completes; its Result.output is the denoted array for every output; the
   final store is the full denoted store; every value dumped on the way is the denoted one. *)
Theorem pieces_eq_whole body user p inputs D : forall fxs rs,
  body_arity body ->
  request_ok p inputs = true -> denote_run body p inputs user = Ok D -> pipeline_order_ok p = true ->
  consistent_axes (arrayspecs p) ->
  (forall fx, In fx fxs -> validate_fixed (Some fx) inputs p = Ok tt /\ fixed_in_range p (d_shapes D) fx = true) ->
  (forall g, In g p -> fsub body p inputs D rs g) ->
  exists rsN trs psF,
    parts_run body p inputs user fxs rs rsN trs
    /\ (forall g, In g p -> fsub body p inputs D rsN g)
    /\ Forall (Forall (dump_den body p inputs D)) trs
    /\ map_run_sel body p inputs user None rsN = ROk psF
    /\ (forall f, In f p -> ffull body p inputs D (p_store psF) f)
    /\ (forall f o, In f p -> In o (fouts f) -> dict_get (p_out psF) o = dict_get (d_out D) o)
    /\ Forall (dump_den body p inputs D) (p_tr psF).
Proof.
  induction fxs as [|fx fxs IH]; intros rs Harity Hreq Hden Hord Hcons Hacc Hsub.
  - destruct (full_run_on_substore_denotes body user p inputs D rs Harity Hreq Hden Hord Hsub) as [psF [F1 [F2 [F3 F4]]]].
    exists rs, [], psF. split; [constructor|]. auto 10.
  - destruct (Hacc fx (or_introl eq_refl)) as [Hval Hrange].
    destruct (part_from_substore body user p inputs D fx rs Harity Hreq Hden Hord Hcons Hval Hrange Hsub) as [ps [P1 [P2 [P3 _]]]].
    destruct (IH (p_store ps) Harity Hreq Hden Hord Hcons (fun fx' H' => Hacc fx' (or_intror H')) P2)
      as [rsN [trs [psF [Q1 [Q2 [Q3 Q4]]]]]].
    exists rsN, (p_tr ps :: trs), psF. split; [econstructor; eauto|]. split; [exact Q2|]. split; [constructor; assumption | exact Q4].
Qed.
