(* C06, whole pipelines: a run with a fixed_indices request (a PART) started on a sub-store of the denoted store
   completes and leaves a sub-store of the denoted store, provided every selected element reads only upstream cells
   that the same request selects (reads_ok / whole_reads_ok below; derived from _validate_fixed_indices in
   Proofs/PartReads.v).  The partially filled upstream arrays are materialised with "--" in the missing cells; the
   selected elements never look at those cells. *)
From Verif Require Import Base.Prelude Base.StrUtil Base.Index Base.NdArr Base.PyRange Base.StrSeq
  Model.MapSpec Model.MapSpecSpec Model.MapRun Model.MapDenote
  Proofs.IndexFacts Proofs.StrFacts Proofs.MapSpecFacts Proofs.ListFacts Proofs.PlaceFacts Proofs.SelectFacts
  Proofs.MapRunFacts.
From Verif Require Import Model.MapResume Model.FixedSpec Proofs.MapResumeFacts Proofs.MapValuesFacts
  Proofs.MapResumeDenote.

(* ------------------------------------------------------------------ partial placements *)
Lemma upd_pairs_miss {A} (pairs : list (nat * A)) : forall init q,
  ~ In q (map fst pairs) -> nth_error (upd_pairs pairs init) q = nth_error init q.
Proof.
  unfold upd_pairs. induction pairs as [|[p x] pairs IH]; intros init q Hq; cbn [fold_left fst snd]; [reflexivity|].
  rewrite IH by (intros H; apply Hq; right; exact H).
  apply nth_error_upd_other. intros E. apply Hq. left. exact E.
Qed.

Lemma upd_pairs_hit {A} (G : nat -> A) (pairs : list (nat * A)) :
  (forall p x, In (p, x) pairs -> x = G p) ->
  forall init q, q < length init -> In q (map fst pairs) -> nth_error (upd_pairs pairs init) q = Some (G q).
Proof.
  induction pairs as [|[p x] pairs IH]; intros Hc init q Hq Hin; [destruct Hin|].
  change (upd_pairs ((p, x) :: pairs) init) with (upd_pairs pairs (upd init p x)).
  destruct (in_dec Nat.eq_dec q (map fst pairs)) as [Hi|Hn].
  - apply IH; [intros p' x' H; apply Hc; right; exact H | now rewrite upd_length | exact Hi].
  - rewrite upd_pairs_miss by exact Hn. destruct Hin as [E|Hin]; [|contradiction]. cbn [fst] in E. subst p.
    rewrite nth_error_upd_same by exact Hq. f_equal. apply Hc. left. reflexivity.
Qed.

(* placing the values of the linear indices in L: every full index whose external cell is in L holds its target *)
Lemma place_pure_hit sh mask (V : nat -> val) (L : list nat) init idx :
  length mask = length sh -> length init = prod sh ->
  (forall i, In i L -> i < prod (ext_of mask sh)) ->
  in_bounds sh idx = true -> In (ravel (ext_of mask sh) (ext_of mask idx)) L ->
  nth_error (fold_left (fun arr i => place_pure sh mask i (V i) arr) L init) (ravel sh idx)
  = Some (target_elem sh mask V idx).
Proof.
  intros Hlen Hinit Hlt Hb Hin. unfold place_pure, upd_pairs.
  rewrite <- (fold_left_flat_map (fun r px => upd r (fst px) (snd px)) (fun i => place_pairs sh mask i (V i))).
  fold (upd_pairs (flat_map (fun i => place_pairs sh mask i (V i)) L) init).
  rewrite (upd_pairs_hit (fun q => target_elem sh mask V (unravel sh q))).
  - now rewrite unravel_ravel.
  - intros p x Hp. apply in_flat_map in Hp as [i [Hi Hp]]. apply Hlt in Hi.
    unfold place_pairs in Hp. apply in_map_iff in Hp as [jj [E Hjj]]. injection E as <- <-.
    destruct (merge_facts sh mask Hlen i jj Hi Hjj) as [Hb' [E1 [E2 E3]]].
    rewrite unravel_ravel by exact Hb'. unfold target_elem. rewrite E3, E2. reflexivity.
  - rewrite Hinit. now apply ravel_lt.
  - destruct (split_facts sh mask Hlen _ Hb) as [Hi [Hjj Hm]].
    apply in_map_iff. exists (ravel sh idx, elem (V (ravel (ext_of mask sh) (ext_of mask idx))) (int_of mask idx)).
    split; [reflexivity|]. apply in_flat_map. exists (ravel (ext_of mask sh) (ext_of mask idx)).
    split; [exact Hin|]. unfold place_pairs. apply in_map_iff.
    exists (int_of mask idx). split; [|exact Hjj]. now rewrite Hm.
Qed.

Lemma place_pure_fold_length sh mask (V : nat -> val) (L : list nat) : forall init,
  length (fold_left (fun arr i => place_pure sh mask i (V i) arr) L init) = length init.
Proof.
  induction L as [|x L IH]; intros init; cbn [fold_left]; [reflexivity|].
  rewrite IH. unfold place_pure. apply upd_pairs_length.
Qed.

Lemma target_nth sh mask V idx : in_bounds sh idx = true ->
  nth_error (target sh mask V) (ravel sh idx) = Some (target_elem sh mask V idx).
Proof.
  intros Hb. unfold target. rewrite <- unravel_enumerates, map_map, nth_error_map.
  rewrite nth_error_seq0 by (now apply ravel_lt). cbn [option_map]. now rewrite unravel_ravel.
Qed.

(* ------------------------------------------------------------------ folds *)
Lemma fold_left_filter {A B} (g : A -> B -> A) (P : B -> bool) (l : list B) : forall a,
  fold_left (fun a0 x => if P x then g a0 x else a0) l a = fold_left g (filter P l) a.
Proof.
  induction l as [|x l IH]; intros a; cbn [fold_left filter]; [reflexivity|].
  destruct (P x); cbn [fold_left]; apply IH.
Qed.

Lemma fold_left_ext_in {A B} (g h : A -> B -> A) (l : list B) :
  (forall a x, In x l -> g a x = h a x) -> forall a, fold_left g l a = fold_left h l a.
Proof.
  induction l as [|x l IH]; intros H a; cbn [fold_left]; [reflexivity|].
  rewrite (H a x (or_introl eq_refl)). apply IH. intros a0 y Hy. apply H. right. exact Hy.
Qed.

Lemma fold_left_combine_seq {A C} (g : A -> nat * C -> A) (d : C) (st : list C) : forall base a,
  fold_left g (combine (seq base (length st)) st) a
  = fold_left (fun a0 i => g a0 (i, nth (i - base) st d)) (seq base (length st)) a.
Proof.
  induction st as [|x st IH]; intros base a; cbn [length seq combine fold_left]; [reflexivity|].
  rewrite Nat.sub_diag. cbn [nth]. rewrite IH. apply fold_left_ext_in. intros a0 i Hi. apply in_seq in Hi.
  replace (i - base) with (S (i - S base)) by lia. reflexivity.
Qed.

Lemma rfold_ext_in {S X} (F G : S -> X -> res S) (l : list X) :
  (forall s x, In x l -> F s x = G s x) ->
  forall a, fold_left (fun acc x => rdo s <- acc; F s x) l a = fold_left (fun acc x => rdo s <- acc; G s x) l a.
Proof.
  intros H. apply fold_left_ext_in. intros [s|e tr] x Hx; cbn [rbind]; [now apply H | reflexivity].
Qed.

(* ------------------------------------------------------------------ basic indexing looks only at the cells its key names *)
Definition key_matches (key : list kitem) (idx : list nat) : Prop :=
  Forall2 (fun k x => match k with KInt n => x = n | KAll => True end) key idx.

Lemma merge_key_matches key : forall j,
  length j = length (filter negb (map key_is_int key)) ->
  key_matches key (merge (map key_is_int key) (key_ints key) j).
Proof.
  induction key as [|[n|] key IH]; intros j Hj; cbn [map key_is_int key_ints flat_map app merge filter negb] in *.
  - constructor.
  - constructor; [reflexivity | now apply IH].
  - destruct j as [|x j]; cbn [length] in Hj; [discriminate|]. constructor; [exact I | apply IH; lia].
Qed.

Lemma nd_index_ext {A} (a a' : nd A) key :
  shp a' = shp a ->
  (forall idx, in_bounds (shp a) idx = true -> key_matches key idx -> nd_get a' idx = nd_get a idx) ->
  nd_index a' key = nd_index a key.
Proof.
  intros Hs Hg. unfold nd_index. rewrite Hs.
  destruct (length key =? length (shp a)) eqn:El; cbn [negb]; [|reflexivity].
  destruct (in_bounds _ (key_ints key)); cbn [negb]; [|reflexivity].
  rewrite (MapResumeFacts.mapM_ext_in
             (fun j => match nd_get a' (merge (map key_is_int key) (key_ints key) j) with Some x => Ok x | None => Err IndexError end)
             (fun j => match nd_get a (merge (map key_is_int key) (key_ints key) j) with Some x => Ok x | None => Err IndexError end));
    [reflexivity|].
  intros j Hj. apply in_all_indices_iff in Hj.
  set (idx := merge (map key_is_int key) (key_ints key) j).
  destruct (in_bounds (shp a) idx) eqn:Eb.
  - rewrite Hg; [reflexivity | exact Eb|]. apply merge_key_matches.
    pose proof (in_bounds_length _ _ Hj) as Hl. apply Nat.eqb_eq in El.
    pose proof (int_of_length (map key_is_int key) (shp a) ltac:(now rewrite map_length)) as Hi. congruence.
  - unfold nd_get. now rewrite Hs, Eb.
Qed.

Lemma index_val_ext (a a' : nd str) key :
  shp a' = shp a ->
  (forall idx, in_bounds (shp a) idx = true -> key_matches key idx -> nd_get a' idx = nd_get a idx) ->
  index_val (VA a') key = index_val (VA a) key.
Proof. intros Hs Hg. unfold index_val. now rewrite (nd_index_ext a a' key Hs Hg). Qed.

(* ------------------------------------------------------------------ one mapped function, selected elements only *)
Section OneSel.
  Variable body : mfunc -> env -> result (list val).
  Hypothesis Harity : body_arity body.
  Variables (f : mfunc) (ms : mapspec) (kw : env) (sh : list nat) (mask : list bool).
  Hypothesis Hwf : wf_decl ms = true.
  Hypothesis Hnames : NoDup (map aname (ins ms)).
  Hypothesis Hout : NoDup (output_indices ms).
  Hypothesis Hk : 0 < length (fouts f).
  Hypothesis Hlen : length mask = length sh.
  Hypothesis Hext : length (ext_of mask sh) = length (external_indices ms).
  Hypothesis Hpos : forallb (fun d => 0 <? d) sh = true.
  Variable arrs : list (nd str).
  Hypothesis Hden : denote_mapped body f ms kw sh mask = Ok arrs.

  Notation N := (prod (ext_of mask sh)).
  Notation OL := (outs_lin body f ms kw sh mask).
  Notation kk := (length (fouts f)).
  Notation csub := (cells_sub body f ms kw sh mask).
  Notation itf := (it_facts body Harity f ms kw sh mask Hwf Hnames Hout Hk Hlen Hext Hpos arrs Hden).

  Lemma csub_all_len stores : csub stores -> all_len sh mask stores.
  Proof. intros [Hl Hc] j Hj. rewrite Hl in Hj. now destruct (Hc j Hj). Qed.

  (* a run of the function under any request on a sub-store: it completes; the store stays a sub-store and holds every
     selected element afterwards *)
  Lemma submit_mapped_den_sel fxo fm stores tr :
    csub stores -> mask_fixed_axes fxo ms sh mask = Ok fm ->
    let missing := filter (fun i => selb fm i && miss_any stores i) (seq 0 N) in
    exists st, submit_mapped body f ms kw sh mask fxo stores tr
               = ROk (st, filter (fun i => selb fm i && negb (miss_any stores i)) (seq 0 N))
      /\ csub (m_stores st)
      /\ (forall i, i < N -> selb fm i = true -> miss_any (m_stores st) i = false)
      /\ (forall i, i < N -> miss_any stores i = false -> miss_any (m_stores st) i = false)
      /\ m_results st = map (fun i => (i, OL i)) missing
      /\ m_tr st = tr ++ flat_map (elem_trace body f ms kw sh mask) missing.
  Proof.
    intros Hs Hfm missing. pose proof Hs as [Hl Hc]. unfold submit_mapped. rewrite Hfm. cbn [lift rbind].
    rewrite classify_eq. cbn [fst snd]. fold missing.
    assert (Hml : forall x, In x missing -> x < N) by (intros x Hx; apply filter_In in Hx as [Hx _]; apply in_seq in Hx; lia).
    destruct (step_fold_succeeds body Harity f ms kw sh mask Hwf Hnames Hout Hk Hlen Hext Hpos arrs Hden
                missing {| m_stores := stores; m_results := []; m_tr := tr |} Hml) as [st Hst].
    unfold step_fold in Hst. rewrite Hst. cbn [rbind]. exists st. split; [reflexivity|].
    destruct (step_fold_spec body f ms kw sh mask missing {| m_stores := stores; m_results := []; m_tr := tr |} st [] stores Hml Hl
                (filled_nil body f ms kw sh mask stores) Hst) as [Hfill [Hres Htr]]. cbn [app m_results m_tr] in Hfill, Hres, Htr.
    assert (Hmiss : forall x, x < N -> miss_any (m_stores st) x = negb (memb x missing) && miss_any stores x).
    { intros x Hx. apply (miss_any_filled body f ms kw sh mask missing stores); [now apply csub_all_len | exact Hx | exact Hfill]. }
    split; [|split; [|split; [|split]]].
    - destruct Hfill as [FL FH]. split; [now rewrite FL|]. intros j Hj. destruct (Hc j Hj) as [C1 C2].
      destruct (FH j) as [FA FB]; [now rewrite Hl|]. split; [now rewrite FA|].
      intros i Hi. rewrite FB by (rewrite C1; exact Hi).
      destruct (memb i missing) eqn:Em; [|now apply C2].
      right. rewrite (outs_at_lin body Harity f ms kw sh mask Hwf Hnames Hout Hk Hlen Hext Hpos arrs Hden i Hi). reflexivity.
    - intros i Hi Hsel. rewrite (Hmiss i Hi). destruct (miss_any stores i) eqn:Em; [|apply andb_false_r].
      assert (Hin : In i missing) by (apply filter_In; split; [apply in_seq; lia | now rewrite Hsel, Em]).
      apply memb_In in Hin. now rewrite Hin.
    - intros i Hi Hp. rewrite (Hmiss i Hi), Hp. apply andb_false_r.
    - rewrite Hres. apply map_ext_in. intros i Hi.
      now rewrite (outs_at_lin body Harity f ms kw sh mask Hwf Hnames Hout Hk Hlen Hext Hpos arrs Hden i (Hml i Hi)).
    - exact Htr.
  Qed.

  (* reading a present element back gives the denoted outputs *)
  Lemma get_all_sub stores i : csub stores -> i < N -> miss_any stores i = false ->
    mapM (fun e : estore => get_from_index e i) stores = Ok (OL i).
  Proof.
    intros [Hl Hc] Hi Hp. destruct (itf i Hi) as [_ [_ [_ [Hlo _]]]].
    rewrite (list_eq_map_nth (OL i) dflt), Hlo.
    pose proof (list_eq_map_nth stores ([] : estore)) as Es. rewrite Hl in Es.
    rewrite Es at 1. rewrite mapM_map_comp.
    apply mapM_ok_map_in. intros j Hj. apply in_seq in Hj.
    destruct (Hc j) as [_ C]; [lia|]. unfold get_from_index.
    destruct (C i Hi) as [Hn|Hs]; [|now rewrite Hs]. exfalso.
    unfold miss_any in Hp. apply Bool.not_true_iff_false in Hp. apply Hp. apply existsb_exists.
    exists (nth j stores []). split; [apply nth_In; lia|]. exact (f_equal cell_missing Hn).
  Qed.

  (* the result arrays of a part can always be assembled *)
  Lemma process_mapped_ok st ex :
    csub (m_stores st) ->
    (forall i, In i ex -> i < N /\ miss_any (m_stores st) i = false) ->
    (exists Lm, m_results st = map (fun i => (i, OL i)) Lm /\ forall i, In i Lm -> i < N) ->
    exists ar, process_mapped f sh mask st ex = ROk ar.
  Proof.
    intros Hsub Hex [Lm [Hres HLm]]. unfold process_mapped.
    set (G := fun (xs : list (list str)) (i : nat) => zipw (place_pure sh mask i) xs (OL i)).
    assert (Hput : forall xs i, i < N -> put_elem sh mask xs i (OL i) = Ok (G xs i)).
    { intros xs i Hi. destruct (itf i Hi) as [_ [_ [_ [_ [Hv _]]]]]. unfold put_elem, G, zipw.
      apply mapM_ok_map_in. intros [a v] Hin. cbn [fst snd]. apply place_ok; [exact Hlen | exact Hi|].
      apply Hv. eapply in_combine_r. exact Hin. }
    rewrite Hres, fold_left_map_arg. cbn [fst snd].
    rewrite (fold_left_bind_ok _ G) by (intros i xs Hi; apply Hput; now apply HLm). cbn [lift rbind].
    rewrite (fold_left_bind_ok (fun xs i => do outs <- mapM (fun e : estore => get_from_index e i) (m_stores st); put_elem sh mask xs i outs) G).
    2:{ intros i xs Hi. destruct (Hex i Hi) as [Hi1 Hi2]. rewrite (get_all_sub _ i Hsub Hi1 Hi2). cbn [bind]. now apply Hput. }
    cbn [lift rbind]. eexists. reflexivity.
  Qed.

  (* to_array of a sub-store: the denoted array wherever the external cell is present *)
  Lemma render_sub stores j : csub stores -> j < kk ->
    exists d, render sh mask (nth j stores []) = Ok {| shp := sh; dat := d |} /\ length d = prod sh
      /\ forall idx, in_bounds sh idx = true ->
           nth (ravel (ext_of mask sh) (ext_of mask idx)) (nth j stores []) None <> None ->
           nth_error d (ravel sh idx) = Some (target_elem sh mask (col body f ms kw sh mask j) idx).
  Proof.
    intros [Hl Hc] Hj. destruct (Hc j Hj) as [C1 C2]. unfold render.
    set (stj := nth j stores []) in *.
    set (V := col body f ms kw sh mask j).
    set (pres := fun i => negb (cell_missing (nth i stj None))).
    rewrite (fold_left_bind_ok _ (fun arr (ic : nat * cell) => if pres (fst ic) then place_pure sh mask (fst ic) (V (fst ic)) arr else arr)).
    - cbn [bind]. eexists. split; [reflexivity|].
      rewrite (fold_left_combine_seq (fun arr (ic : nat * cell) => if pres (fst ic) then place_pure sh mask (fst ic) (V (fst ic)) arr else arr) None stj 0).
      cbn [fst]. rewrite (fold_left_filter (fun arr i => place_pure sh mask i (V i) arr) pres).
      split; [rewrite place_pure_fold_length; apply repeat_length|].
      intros idx Hb Hp. apply place_pure_hit; [exact Hlen | apply repeat_length | | exact Hb |].
      + intros i Hi. apply filter_In in Hi as [Hi _]. apply in_seq in Hi. lia.
      + destruct (split_facts sh mask Hlen _ Hb) as [Hi _].
        apply filter_In. split; [apply in_seq; lia|]. unfold pres.
        destruct (nth _ stj None); [reflexivity | contradiction].
    - intros [i cl] arr Hin. cbn [fst snd].
      assert (Hi : i < N) by (apply in_combine_l in Hin; apply in_seq in Hin; lia).
      assert (Hcl : cl = nth i stj None).
      { destruct (in_combine_seq _ _ _ _ Hin) as [_ Q]. rewrite Nat.sub_0_r in Q.
        symmetry. now apply nth_error_nth. }
      unfold pres. rewrite <- Hcl. destruct (C2 i Hi) as [Hn|Hs]; rewrite Hcl.
      + rewrite Hn. reflexivity.
      + rewrite Hs. cbn [cell_missing negb].
        destruct (itf i Hi) as [_ [_ [_ [Hlo [Hv _]]]]]. apply place_ok; [exact Hlen | exact Hi|].
        apply Hv. apply nth_In. rewrite Hlo. exact Hj.
  Qed.
End OneSel.

(* ------------------------------------------------------------------ generic: two mapM over the same list *)
Lemma mapM_exists_in {A B} (F : A -> result B) (l : list A) :
  (forall x, In x l -> exists y, F x = Ok y) -> exists r, mapM F l = Ok r.
Proof.
  induction l as [|x l IH]; intros H; cbn [mapM]; [eexists; reflexivity|].
  destruct (H x (or_introl eq_refl)) as [y Hy]. rewrite Hy. cbn [bind].
  destruct (IH (fun z Hz => H z (or_intror Hz))) as [r Hr]. rewrite Hr. cbn [bind]. eexists. reflexivity.
Qed.

Lemma mapM_pointwise {A B C} (F F' : A -> result B) (H : B -> result C) (l : list A) : forall r r',
  mapM F l = Ok r -> mapM F' l = Ok r' ->
  (forall x y y', In x l -> F x = Ok y -> F' x = Ok y' -> H y' = H y) -> mapM H r' = mapM H r.
Proof.
  induction l as [|x l IH]; intros r r' E E' Hp; cbn [mapM] in E, E'.
  - injection E as <-. injection E' as <-. reflexivity.
  - destruct (F x) as [y|] eqn:Ey; cbn [bind] in E; [|discriminate].
    destruct (mapM F l) as [t|] eqn:Et; cbn [bind] in E; [|discriminate]. injection E as <-.
    destruct (F' x) as [y'|] eqn:Ey'; cbn [bind] in E'; [|discriminate].
    destruct (mapM F' l) as [t'|] eqn:Et'; cbn [bind] in E'; [|discriminate]. injection E' as <-.
    cbn [mapM]. rewrite (Hp x y y' (or_introl eq_refl) Ey Ey').
    rewrite (IH t t' eq_refl eq_refl (fun z w w' Hz => Hp z w w' (or_intror Hz))). reflexivity.
Qed.

(* the element loop looks at the arguments only through the selection of the elements it computes *)
Lemma submit_mapped_kw_ext body f ms kw kw' sh mask fxo fm stores tr :
  mask_fixed_axes fxo ms sh mask = Ok fm ->
  (forall i, i < prod (ext_of mask sh) -> selb fm i = true ->
     select_kwargs ms kw' (ext_of mask sh) i = select_kwargs ms kw (ext_of mask sh) i) ->
  submit_mapped body f ms kw' sh mask fxo stores tr = submit_mapped body f ms kw sh mask fxo stores tr.
Proof.
  intros Hfm Hag. unfold submit_mapped. rewrite Hfm. cbn [lift rbind]. rewrite classify_eq. cbn [fst snd].
  f_equal. apply rfold_ext_in. intros st i Hi. apply filter_In in Hi as [Hi Hc]. apply in_seq in Hi.
  apply andb_true_iff in Hc as [Hc _]. unfold compute_elem. rewrite Hag by (lia || exact Hc). reflexivity.
Qed.

(* ------------------------------------------------------------------ whole pipelines under a request *)
Section PartSim.
  Variable body : mfunc -> env -> result (list val).
  Hypothesis Harity : body_arity body.
  Variable p : list mfunc.
  Variable inputs : env.
  Variable D : den_state.
  Let c : ctx := {| x_p := p; x_inputs := inputs; x_shapes := d_shapes D |}.

  Hypothesis HD : forall f, In f p -> den_fact body D f.
  Hypothesis Hfok : forall f, In f p -> func_ok f = true.
  Hypothesis Huniq : forall g f o, In g p -> In f p -> In o (fouts g) -> In o (fouts f) -> g = f.
  Hypothesis Hin_disj : forall f o, In f p -> In o (fouts f) -> dict_get inputs o = None.
  Hypothesis Henv : forall q, (forall f, In f p -> ~ In q (fouts f)) -> dict_get (d_env D) q = dict_get inputs q.

  Variable fx : fixed.

  Notation fsub' := (fsub body p inputs D).
  Notation ffull' := (ffull body p inputs D).
  Notation dval' := (dval D).
  Notation mdata := (mapped_data body p inputs D HD Hfok).

  (* the elements of g that the request selects are present (g has run in this part) *)
  Definition sel_present (rs : rstore) (g : mfunc) : Prop :=
    if is_mapped g then
      forall ms sh mask m, fspec g = Some ms -> shape_of c g = Ok (sh, mask) ->
        mask_fixed_axes (Some fx) ms sh mask = Ok (Some m) ->
        forall i, i < prod (ext_of mask sh) -> nth i m false = true ->
          miss_any (stores_of rs g (prod (ext_of mask sh))) i = false
    else forall o, In o (fouts g) -> dict_get (st_val rs) o <> None.

  Lemma sel_present_ext r r' g :
    (forall o, In o (fouts g) -> dict_get (st_arr r) o = dict_get (st_arr r') o /\ dict_get (st_val r) o = dict_get (st_val r') o) ->
    sel_present r g -> sel_present r' g.
  Proof.
    intros H. unfold sel_present. destruct (is_mapped g).
    - assert (E : forall n, stores_of r g n = stores_of r' g n) by (intros n; apply stores_of_ext; intros o Ho; apply H; exact Ho).
      intros X ms sh mask m A1 A2 A3 i Hi Hs. rewrite <- E. now apply (X ms sh mask m).
    - intros X o Ho. rewrite <- (proj2 (H o Ho)). now apply X.
  Qed.

  (* ---- the static conditions on the request (established in Proofs/PartReads.v) ---- *)
  (* every mapped function's mask can be computed (no fixed index out of range) *)
  Definition masks_defined : Prop :=
    forall f ms sh mask, In f p -> is_mapped f = true -> fspec f = Some ms -> shape_of c f = Ok (sh, mask) ->
      exists m, mask_fixed_axes (Some fx) ms sh mask = Ok (Some m).
  (* a selected element of f reads, through its MapSpec, only cells of an upstream array that the request selects *)
  Definition reads_ok : Prop :=
    forall f ms sh mask m i a g,
      In f p -> is_mapped f = true -> fspec f = Some ms -> shape_of c f = Ok (sh, mask) ->
      mask_fixed_axes (Some fx) ms sh mask = Ok (Some m) -> i < prod (ext_of mask sh) -> nth i m false = true ->
      In a (ins ms) -> producer p (aname a) = Some g -> is_mapped g = true ->
      forall msg shg maskg mg idx,
        fspec g = Some msg -> shape_of c g = Ok (shg, maskg) -> mask_fixed_axes (Some fx) msg shg maskg = Ok (Some mg) ->
        in_bounds shg idx = true -> key_matches (MapSpecFacts.key_of ms (unravel (ext_of mask sh) i) a) idx ->
        nth (ravel (ext_of maskg shg) (ext_of maskg idx)) mg false = true.
  (* an upstream array that is consumed whole is selected completely *)
  Definition whole_reads_ok : Prop :=
    forall f q g, In f p -> In q (fparams f) ->
      (forall ms a, is_mapped f = true -> fspec f = Some ms -> In a (ins ms) -> aname a <> q) ->
      producer p q = Some g -> is_mapped g = true ->
      forall msg shg maskg mg i,
        fspec g = Some msg -> shape_of c g = Ok (shg, maskg) -> mask_fixed_axes (Some fx) msg shg maskg = Ok (Some mg) ->
        i < prod (ext_of maskg shg) -> nth i mg false = true.

  Hypothesis Hmask : masks_defined.
  Hypothesis Hreads : reads_ok.
  Hypothesis Hwhole : whole_reads_ok.

  (* sub-cells that are all present are full *)
  Lemma sub_present_full f ms kw sh mask stores :
    cells_sub body f ms kw sh mask stores ->
    (forall i, i < prod (ext_of mask sh) -> miss_any stores i = false) ->
    cells_full body f ms kw sh mask stores.
  Proof.
    intros [Hl Hc] Hp. split; [exact Hl|]. intros j Hj. destruct (Hc j Hj) as [C1 C2]. split; [exact C1|].
    intros i Hi. destruct (C2 i Hi) as [Hn|Hs]; [|exact Hs]. exfalso.
    specialize (Hp i Hi). unfold miss_any in Hp. apply Bool.not_true_iff_false in Hp. apply Hp. apply existsb_exists.
    exists (nth j stores []). split; [apply nth_In; lia|]. exact (f_equal cell_missing Hn).
  Qed.

  (* how the argument delivered for parameter q relates to the denotation's argument *)
  Definition arg_rel (rs : rstore) (f : mfunc) (q : str) (v' v : val) : Prop :=
    v' = v \/
    exists ms a g shg maskg arr arr',
      is_mapped f = true /\ fspec f = Some ms /\ find (fun a0 => str_eqb (aname a0) q) (ins ms) = Some a
      /\ producer p q = Some g /\ is_mapped g = true /\ shape_of c g = Ok (shg, maskg)
      /\ v = VA arr /\ v' = VA arr' /\ shp arr = shg /\ shp arr' = shg
      /\ forall idx, in_bounds shg idx = true ->
           miss_any (stores_of rs g (prod (ext_of maskg shg))) (ravel (ext_of maskg shg) (ext_of maskg idx)) = false ->
           nd_get arr' idx = nd_get arr idx.

  Lemma miss_any_nth rs g n i j o : nth_error (fouts g) j = Some o ->
    miss_any (stores_of rs g n) i = false -> nth i (get_arr rs o n) None <> None.
  Proof.
    intros Hj Hm Hn. destruct (stores_of_nth rs g n j o Hj) as [E Hl].
    unfold miss_any in Hm. apply Bool.not_true_iff_false in Hm. apply Hm. apply existsb_exists.
    exists (nth j (stores_of rs g n) []). split; [now apply nth_In|]. rewrite E. exact (f_equal cell_missing Hn).
  Qed.

  Lemma lookup_part rs f q v :
    In f p -> In q (fparams f) ->
    (forall g, In g p -> fsub' rs g) ->
    (forall g, producer p q = Some g -> sel_present rs g) ->
    lookup_arg f (d_env D) q = Ok v ->
    exists v', lookup_arg_sel c rs f q = Ok v' /\ arg_rel rs f q v' v.
  Proof.
    intros Hf Hq Hsub Hdone Hl. unfold lookup_arg_sel. unfold lookup_arg in Hl.
    destruct (dict_get (fbound f) q) as [b|]; [exists v; split; [exact Hl | now left]|].
    cbn [x_inputs c]. destruct (dict_get inputs q) as [vi|] eqn:Ei.
    { rewrite Henv, Ei in Hl by (intros g Hg X; rewrite (Hin_disj g q Hg X) in Ei; discriminate).
      exists v. split; [exact Hl | now left]. }
    cbn [x_p c]. destruct (producer p q) as [g|] eqn:Ep.
    2:{ rewrite Henv, Ei in Hl.
        - exists v. split; [exact Hl | now left].
        - intros g Hg X. unfold producer in Ep. pose proof (find_none _ _ Ep g Hg) as Hn. cbn beta in Hn.
          apply mem_str_false in Hn. contradiction. }
    destruct (producer_Some _ _ _ Ep) as [Hg Hqo]. specialize (Hdone g eq_refl). pose proof (Hsub g Hg) as Hsg.
    unfold sel_present in Hdone. unfold fsub in Hsg. destruct (is_mapped g) eqn:Emg.
    - destruct (mdata g Hg Emg) as [kwg [msg [shg [maskg [arrsg [K1 [K2 [K3 [K4 [K5 [P1 [P2 [P3 [W1 [W2 [W3 [W4 Hent]]]]]]]]]]]]]]]]].
      fold c in K3. rewrite K3. cbn [bind fst snd].
      apply In_nth_error in Hqo as [j Hj]. destruct (Hent j q Hj) as [a [Ha [_ Hde]]]. rewrite Hde in Hl. injection Hl as <-.
      specialize (Hsg kwg msg shg maskg arrsg K1 K2 K3 K4).
      destruct (stores_of_nth rs g (prod (ext_of maskg shg)) j q Hj) as [Hn Hjl]. rewrite <- Hn.
      assert (Hjk : j < length (fouts g)) by (apply nth_error_Some; congruence).
      assert (Harr : a = {| shp := shg; dat := target shg maskg (col body g msg kwg shg maskg j) |}).
      { rewrite (denote_mapped_arrays body g msg kwg shg maskg P2 arrsg K4 dflt) in Ha.
        rewrite nth_error_map in Ha. rewrite nth_error_seq0 in Ha by exact Hjk. cbn [option_map] in Ha. now injection Ha as <-. }
      destruct (Hmask g msg shg maskg Hg Emg K2 K3) as [mg Hmg].
      (* is q read through f's MapSpec? *)
      destruct (is_mapped f) eqn:Emf.
      + destruct (mdata f Hf Emf) as [kwf [msf [shf [maskf [arrsf [F1 [F2 [F3 _]]]]]]]].
        destruct (find (fun a0 => str_eqb (aname a0) q) (ins msf)) as [af|] eqn:Efind.
        * (* indexed: the partial array *)
          destruct (render_sub body Harity g msg kwg shg maskg W1 W2 W3 W4 P2 P3 P1 arrsg K4 _ j Hsg Hjk) as [d [R1 [R2 R3]]].
          rewrite R1. cbn [bind]. eexists. split; [reflexivity|]. right.
          exists msf, af, g, shg, maskg, a, {| shp := shg; dat := d |}.
          repeat split; auto; [now rewrite Harr|].
          intros idx Hb Hp. unfold nd_get. cbn [shp dat]. rewrite Harr. cbn [shp dat]. rewrite Hb.
          rewrite R3; [now rewrite target_nth | exact Hb|].
          rewrite Hn. eapply miss_any_nth; eauto.
        * (* not indexed: consumed whole *)
          assert (Hall : forall i, i < prod (ext_of maskg shg) -> miss_any (stores_of rs g (prod (ext_of maskg shg))) i = false).
          { assert (Hni : forall ms a, is_mapped f = true -> fspec f = Some ms -> In a (ins ms) -> aname a <> q).
            { intros ms a0 _ Hs Ha' Hn'. rewrite F2 in Hs. injection Hs as <-.
              pose proof (find_none _ _ Efind a0 Ha') as X. cbn beta in X. rewrite Hn', str_eqb_refl in X. discriminate. }
            intros i Hi. apply (Hdone msg shg maskg mg K2 K3 Hmg i Hi).
            exact (Hwhole f q g Hf Hq Hni Ep Emg msg shg maskg mg i K2 K3 Hmg Hi). }
          pose proof (sub_present_full g msg kwg shg maskg _ Hsg Hall) as Hfull.
          rewrite (render_full body Harity g msg kwg shg maskg W1 W2 W3 W4 P2 P3 P1 arrsg K4 _ j Hfull Hjk). cbn [bind].
          eexists. split; [reflexivity|]. left. now rewrite Harr.
      + assert (Hall : forall i, i < prod (ext_of maskg shg) -> miss_any (stores_of rs g (prod (ext_of maskg shg))) i = false).
        { assert (Hni : forall ms a, is_mapped f = true -> fspec f = Some ms -> In a (ins ms) -> aname a <> q)
            by (intros ms a0 X; congruence).
          intros i Hi. apply (Hdone msg shg maskg mg K2 K3 Hmg i Hi).
          exact (Hwhole f q g Hf Hq Hni Ep Emg msg shg maskg mg i K2 K3 Hmg Hi). }
        pose proof (sub_present_full g msg kwg shg maskg _ Hsg Hall) as Hfull.
        rewrite (render_full body Harity g msg kwg shg maskg W1 W2 W3 W4 P2 P3 P1 arrsg K4 _ j Hfull Hjk). cbn [bind].
        eexists. split; [reflexivity|]. left. now rewrite Harr.
    - destruct (single_data body p D HD g Hg Emg) as [_ [_ [_ [_ [_ [_ Hde]]]]]].
      rewrite (Hde q Hqo) in Hl. injection Hl as <-.
      destruct (Hsg q Hqo) as [Hn|Hs]; [exfalso; exact (Hdone q Hqo Hn)|]. rewrite Hs.
      eexists. split; [reflexivity | now left].
  Qed.

  (* the arguments of a function under the request: they exist, and relate to the denotation's *)
  Lemma kwargs_part rs f kw :
    In f p -> (forall g, In g p -> fsub' rs g) ->
    (forall q g, In q (fparams f) -> producer p q = Some g -> sel_present rs g) ->
    func_kwargs f (d_env D) = Ok kw ->
    exists kw', func_kwargs_sel c rs f = Ok kw'
      /\ forall (H : str * val -> result (str * val)),
           (forall q v v', In q (fparams f) -> arg_rel rs f q v' v -> H (q, v') = H (q, v)) -> mapM H kw' = mapM H kw.
  Proof.
    intros Hf Hsub Hdone Hkw. unfold func_kwargs_sel, func_kwargs in *.
    assert (Hv : forall q, In q (fparams f) -> exists v, lookup_arg f (d_env D) q = Ok v).
    { intros q Hq. destruct (mapM_ok_in _ _ _ q Hkw Hq) as [y [Hy _]].
      destruct (lookup_arg f (d_env D) q) as [v|]; [eauto | discriminate]. }
    destruct (mapM_exists_in (fun q => do v <- lookup_arg_sel c rs f q; Ok (q, v)) (fparams f)) as [kw' Hkw'].
    { intros q Hq. destruct (Hv q Hq) as [v Hl].
      destruct (lookup_part rs f q v Hf Hq Hsub (fun g Hp => Hdone q g Hq Hp) Hl) as [v' [E _]]. rewrite E. cbn [bind]. eauto. }
    exists kw'. split; [exact Hkw'|]. intros H HH.
    apply (mapM_pointwise _ _ H (fparams f) kw kw' Hkw Hkw').
    intros q y y' Hq Ey Ey'. destruct (Hv q Hq) as [v Hl]. rewrite Hl in Ey. cbn [bind] in Ey. injection Ey as <-.
    destruct (lookup_part rs f q v Hf Hq Hsub (fun g Hp => Hdone q g Hq Hp) Hl) as [v' [E R]].
    rewrite E in Ey'. cbn [bind] in Ey'. injection Ey' as <-. now apply HH.
  Qed.

  (* ... hence a selected element sees exactly the denotation's arguments *)
  Lemma select_part rs f ms sh mask m kw kw' i :
    In f p -> is_mapped f = true -> fspec f = Some ms -> shape_of c f = Ok (sh, mask) ->
    wf_decl ms = true -> NoDup (map aname (ins ms)) -> NoDup (output_indices ms) ->
    length (ext_of mask sh) = length (external_indices ms) -> forallb (fun d => 0 <? d) sh = true ->
    mask_fixed_axes (Some fx) ms sh mask = Ok (Some m) ->
    (forall q g, In q (fparams f) -> producer p q = Some g -> sel_present rs g) ->
    (forall H : str * val -> result (str * val),
       (forall q v v', In q (fparams f) -> arg_rel rs f q v' v -> H (q, v') = H (q, v)) -> mapM H kw' = mapM H kw) ->
    i < prod (ext_of mask sh) -> nth i m false = true ->
    select_kwargs ms kw' (ext_of mask sh) i = select_kwargs ms kw (ext_of mask sh) i.
  Proof.
    intros Hf Hm Hs Hsh W1 W2 W3 P3 P1 Hfm Hdone Hrel Hi Hsel.
    assert (Hep : forallb (fun d => 0 <? d) (ext_of mask sh) = true) by (now apply forallb_pos_proj).
    rewrite !(select_kwargs_arg_at ms W1 W2 W3 _ _ i P3 Hep).
    apply Hrel. intros q v v' Hq [->|R]; [reflexivity|].
    destruct R as [ms' [a [g [shg [maskg [arr [arr' [_ [Hs' [Hfind [Hp [Hmg [Hshg [-> [-> [S1 [S2 Hag]]]]]]]]]]]]]]]]].
    rewrite Hs in Hs'. injection Hs' as <-.
    unfold arg_at. cbn [fst snd]. rewrite Hfind.
    destruct (find_some _ _ Hfind) as [Ha Hn]. apply str_eqb_eq in Hn.
    assert (Hel : length (unravel (ext_of mask sh) i) = length (external_indices ms)) by (now rewrite unravel_length).
    rewrite (arg_key_of ms W1 W3 _ a Hel Ha). cbn [bind].
    rewrite (index_val_ext arr arr' (MapSpecFacts.key_of ms (unravel (ext_of mask sh) i) a)); [reflexivity | congruence|].
    intros idx Hb Hk. rewrite S1 in Hb. apply Hag; [exact Hb|].
    destruct (producer_Some _ _ _ Hp) as [Hg _].
    destruct (mdata g Hg Hmg) as [kwg [msg [shg' [maskg' [arrsg [K1 [K2 [K3 _]]]]]]]]. fold c in K3.
    rewrite Hshg in K3. injection K3 as <- <-.
    destruct (Hmask g msg shg maskg Hg Hmg K2 Hshg) as [mg Hmgm].
    pose proof (Hdone q g Hq Hp) as Hd. unfold sel_present in Hd. rewrite Hmg in Hd.
    apply (Hd msg shg maskg mg K2 Hshg Hmgm).
    - destruct (in_bounds_proj maskg shg idx) as [He _]; [|exact Hb | now apply ravel_lt].
      destruct (mdata g Hg Hmg) as [_ [_ [shg2 [maskg2 [_ [_ [_ [K3' [_ [_ [_ [P2' _]]]]]]]]]]]]. fold c in K3'.
      rewrite Hshg in K3'. now injection K3' as <- <-.
    - rewrite <- Hn in Hp. exact (Hreads f ms sh mask m i a g Hf Hm Hs Hsh Hfm Hi Hsel Ha Hp Hmg msg shg maskg mg idx K2 Hshg Hmgm Hb Hk).
  Qed.

  (* processing the task of f succeeds from any state *)
  Definition task_part_good (t : task) (f : mfunc) : Prop :=
    forall ps0, exists ps1, process_task ps0 t = ROk ps1
      /\ p_store ps1 = (if is_mapped f then p_store ps0 else single_effect D f (p_store ps0))
      /\ tr_ext body p inputs D (p_tr ps0) (p_tr ps1).

  Lemma submit_func_part ps f :
    In f p ->
    (forall g, In g p -> fsub' (p_store ps) g) ->
    (forall q g, In q (fparams f) -> producer p q = Some g -> sel_present (p_store ps) g) ->
    exists ps' t, submit_func body c (Some fx) ps f = ROk (ps', t)
      /\ (forall o, ~ In o (fouts f) -> dict_get (st_arr (p_store ps')) o = dict_get (st_arr (p_store ps)) o)
      /\ st_val (p_store ps') = st_val (p_store ps)
      /\ (is_mapped f = true -> fsub' (p_store ps') f /\ sel_present (p_store ps') f)
      /\ (is_mapped f = false -> p_store ps' = p_store ps)
      /\ task_part_good t f
      /\ tr_ext body p inputs D (p_tr ps) (p_tr ps').
  Proof.
    intros Hin Hsub Hdone. unfold submit_func.
    destruct (is_mapped f) eqn:Em.
    - destruct (mdata f Hin Em) as [kw [ms [sh [mask [arrs [K1 [K2 [K3 [K4 [K5 [P1 [P2 [P3 [W1 [W2 [W3 [W4 Hent]]]]]]]]]]]]]]]]].
      fold c in K3.
      destruct (kwargs_part (p_store ps) f kw Hin Hsub Hdone K1) as [kw' [Hkw' Hrel]].
      rewrite Hkw'. cbn [lift rbind]. rewrite K2, K3. cbn [lift rbind fst snd].
      set (N := prod (ext_of mask sh)).
      destruct (Hmask f ms sh mask Hin Em K2 K3) as [m Hm].
      pose proof (Hsub f Hin) as Hs. unfold fsub in Hs. rewrite Em in Hs. specialize (Hs kw ms sh mask arrs K1 K2 K3 K4). fold N in Hs.
      rewrite (submit_mapped_kw_ext body f ms kw kw' sh mask (Some fx) (Some m) _ (p_tr ps) Hm).
      2:{ intros i Hi Hsel. cbn [selb] in Hsel.
          exact (select_part (p_store ps) f ms sh mask m kw kw' i Hin Em K2 K3 W1 W2 W3 P3 P1 Hm Hdone Hrel Hi Hsel). }
      destruct (submit_mapped_den_sel body Harity f ms kw sh mask W1 W2 W3 W4 P2 P3 P1 arrs K4 (Some fx) (Some m) _ (p_tr ps) Hs Hm)
        as [st [E1 [E2 [E3 [E4 [E5 E6]]]]]].
      fold N in E1, E3, E4, E5, E6. rewrite E1. cbn [rbind fst snd].
      assert (Hlen : length (m_stores st) = length (fouts f)) by (destruct E2 as [A _]; exact A).
      eexists _, _. split; [reflexivity|]. cbn [p_store p_tr].
      split; [intros o Ho; unfold put_stores; now apply put_stores_arr_other|].
      split; [unfold put_stores; apply put_stores_val|].
      assert (Hsame : stores_of (put_stores (p_store ps) f (m_stores st)) f N = m_stores st)
        by (apply stores_of_put_same; [exact (fouts_NoDup p Hfok f Hin) | exact Hlen]).
      split; [|split; [discriminate|split]].
      + intros _. split.
        * unfold fsub. rewrite Em. intros kw0 ms0 sh0 mask0 arrs0 K1' K2' K3' K4'. fold c in K3'.
          rewrite K1 in K1'. injection K1' as <-. rewrite K2 in K2'. injection K2' as <-.
          rewrite K3 in K3'. injection K3' as <- <-. fold N. rewrite Hsame. exact E2.
        * unfold sel_present. rewrite Em. intros ms0 sh0 mask0 m0 K2' K3' Hm0 i Hi Hsel.
          rewrite K2 in K2'. injection K2' as <-. rewrite K3 in K3'. injection K3' as <- <-.
          rewrite Hm in Hm0. injection Hm0 as <-. fold N. rewrite Hsame. apply E3; [exact Hi | exact Hsel].
      + intros ps0. cbn [process_task].
        destruct (process_mapped_ok body Harity f ms kw sh mask W1 W2 W3 W4 P2 P3 P1 arrs K4
                    {| m_stores := m_stores st; m_results := m_results st; m_tr := p_tr ps0 |}
                    (filter (fun i => selb (Some m) i && negb (miss_any (stores_of (p_store ps) f N) i)) (seq 0 N))) as [ar Har].
        * exact E2.
        * intros i Hi. apply filter_In in Hi as [Hi Hc]. apply in_seq in Hi. apply andb_true_iff in Hc as [_ Hc].
          apply Bool.negb_true_iff in Hc. split; [lia|]. apply E4; [lia | exact Hc].
        * cbn [m_results]. eexists. split; [exact E5|]. intros i Hi. apply filter_In in Hi as [Hi _]. apply in_seq in Hi. lia.
        * rewrite Har. cbn [rbind]. eexists. split; [reflexivity|]. cbn [p_store p_tr]. rewrite Em.
          split; [reflexivity | apply tr_ext_refl].
      + (* the trace: calls and dumps of denoted values *)
        rewrite E6. eexists. split; [reflexivity|]. apply Forall_forall. intros a Ha. apply in_flat_map in Ha as [i [Hi Ha]].
        apply filter_In in Hi as [Hi _]. apply in_seq in Hi.
        unfold elem_trace in Ha. destruct Ha as [<-|Ha]; [exact I|].
        apply in_map_iff in Ha as [[o v] [<- Hov]]. cbn [fst snd dump_den].
        apply In_nth_error in Hov as [j Hj].
        assert (Hjo : nth_error (fouts f) j = Some o /\ nth_error (MapResumeFacts.outs_at body f ms kw sh mask i) j = Some v).
        { clear - Hj. revert j Hj. generalize (MapResumeFacts.outs_at body f ms kw sh mask i) as l2. generalize (fouts f) as l1.
          induction l1 as [|a l1 IH]; intros [|b l2] [|j] Hj; cbn in *; try discriminate.
          - injection Hj as <- <-. auto.
          - now apply IH. }
        destruct Hjo as [J1 J2].
        exists f, j, kw, ms, sh, mask, arrs. repeat split; auto; [fold N; lia|].
        rewrite <- (outs_at_lin body Harity f ms kw sh mask W1 W2 W3 W4 P2 P3 P1 arrs K4 i) by (fold N; lia).
        symmetry. now apply nth_error_some_nth.
    - destruct (single_data body p D HD f Hin Em) as [kw [outs [S1 [S2 [S3 [S4 S5]]]]]].
      destruct (kwargs_part (p_store ps) f kw Hin Hsub Hdone S1) as [kw' [Hkw' Hrel]].
      assert (Ekw : kw' = kw).
      { assert (Hid : forall l : env, mapM (fun x : str * val => Ok x) l = Ok l)
          by (induction l as [|x l IH]; cbn; [reflexivity | now rewrite IH]).
        pose proof (Hrel (fun x => Ok x)) as HH. rewrite !Hid in HH.
        assert (HX : Ok kw' = Ok kw); [|now injection HX].
        apply HH. intros q v v' _ [->|R]; [reflexivity|].
        destruct R as [? [? [? [? [? [? [? [X _]]]]]]]]. congruence. }
      rewrite Hkw', Ekw. cbn [lift rbind]. unfold execute_single.
      assert (Hnoerr : forall o, In o (fouts f) -> dict_get (st_val (p_store ps)) o = None \/ dict_get (st_val (p_store ps)) o = Some (Ok (dval' o))).
      { pose proof (Hsub f Hin) as Hs. unfold fsub in Hs. rewrite Em in Hs. exact Hs. }
      assert (Hload : load_single (p_store ps) f = Ok None \/ load_single (p_store ps) f = Ok (Some outs)).
      { unfold load_single. rewrite S4.
        assert (G : forall l, (forall o, In o l -> dict_get (st_val (p_store ps)) o = None \/ dict_get (st_val (p_store ps)) o = Some (Ok (dval' o))) ->
                  exists lo, mapM (fun o => match dict_get (st_val (p_store ps)) o with
                                            | Some (Ok v) => Ok (Some v) | Some (Err e) => Err e | None => Ok None end) l = Ok lo
                             /\ (forallb (fun x => match x with Some _ => true | None => false end) lo = true ->
                                 flat_map (fun x => match x with Some v => [v] | None => [] end) lo = map dval' l)).
        { induction l as [|o l IH]; intros Hl; cbn.
          - exists []. split; [reflexivity|]. reflexivity.
          - destruct (IH (fun o' Ho' => Hl o' (or_intror Ho'))) as [lo [E1 E2]]. rewrite E1.
            destruct (Hl o (or_introl eq_refl)) as [Hn|Hs]; rewrite ?Hn, ?Hs; cbn.
            + exists (None :: lo). split; [reflexivity|]. cbn. discriminate.
            + exists (Some (dval' o) :: lo). split; [reflexivity|]. cbn. intros Ha. now rewrite (E2 Ha). }
        destruct (G (fouts f) Hnoerr) as [lo [E1 E2]]. rewrite E1. cbn [bind].
        destruct (forallb _ lo) eqn:Ea; [right; now rewrite (E2 eq_refl) | left; reflexivity]. }
      assert (Hgood : task_part_good (TSingle f outs) f).
      { intros ps0. cbn [process_task]. eexists. split; [reflexivity|]. cbn [p_store p_tr dump_single fst snd]. rewrite Em.
        split; [unfold single_effect; now rewrite S4|].
        eexists. split; [reflexivity|]. apply Forall_forall. intros a Ha. apply in_map_iff in Ha as [[o v] [<- Hov]].
        cbn [fst snd dump_den]. rewrite S4, combine_map_self in Hov. apply in_map_iff in Hov as [o' [E Ho']].
        injection E as <- <-. split; [reflexivity|]. exists f. auto. }
      destruct Hload as [Hl|Hl]; rewrite Hl; cbn [lift rbind].
      + rewrite S2. cbn [lift rbind]. rewrite S3, Nat.eqb_refl. cbn [negb rbind fst snd].
        eexists _, _. split; [reflexivity|]. cbn [p_store p_tr]. repeat split; auto; try discriminate.
        eexists. split; [reflexivity|]. constructor; [exact I | constructor].
      + cbn [rbind fst snd]. eexists _, _. split; [reflexivity|]. cbn [p_store p_tr]. repeat split; auto; try discriminate.
        apply tr_ext_refl.
  Qed.

  (* the store invariants across the submit of f ... *)
  Lemma submit_effect_part r r' f :
    In f p ->
    (forall o, ~ In o (fouts f) -> dict_get (st_arr r') o = dict_get (st_arr r) o) ->
    st_val r' = st_val r ->
    (is_mapped f = true -> fsub' r' f /\ sel_present r' f) -> (is_mapped f = false -> r' = r) ->
    (forall g, In g p -> fsub' r g) ->
    (forall g, In g p -> fsub' r' g) /\ (forall g, In g p -> sel_present r g -> sel_present r' g).
  Proof.
    intros Hf Harr Hval Hm Hu Hsub.
    assert (Hoth : forall g, In g p -> shares g f = false ->
               forall o, In o (fouts g) -> dict_get (st_arr r) o = dict_get (st_arr r') o /\ dict_get (st_val r) o = dict_get (st_val r') o).
    { intros g Hg Hs o Ho. split; [symmetry; apply Harr; eapply shares_false; eauto | now rewrite Hval]. }
    split.
    - intros g Hg. destruct (shares g f) eqn:Es.
      + apply (shares_eq p Huniq g f Hg Hf) in Es. subst g. destruct (is_mapped f) eqn:Em.
        * now apply Hm.
        * rewrite (Hu eq_refl). now apply Hsub.
      + apply (proj1 (f_ext body p inputs D r r' g (Hoth g Hg Es))). now apply Hsub.
    - intros g Hg Hd. destruct (shares g f) eqn:Es.
      + apply (shares_eq p Huniq g f Hg Hf) in Es. subst g. destruct (is_mapped f) eqn:Em; [now apply Hm | now rewrite (Hu eq_refl)].
      + exact (sel_present_ext r r' g (Hoth g Hg Es) Hd).
  Qed.

  (* ... and across the processing of its task *)
  Lemma process_effect_part r f :
    In f p -> (forall g, In g p -> fsub' r g) ->
    let r' := if is_mapped f then r else single_effect D f r in
    (forall g, In g p -> fsub' r' g) /\ (forall g, In g p -> sel_present r g -> sel_present r' g)
    /\ (is_mapped f = false -> sel_present r' f).
  Proof.
    intros Hf Hsub. destruct (process_effect body p inputs D Hfok Huniq r f Hf Hsub) as [S1 [_ S3]].
    destruct (is_mapped f) eqn:Em; cbn zeta in *.
    - split; [exact S1|]. split; [auto | discriminate].
    - assert (Hnew : sel_present (single_effect D f r) f).
      { unfold sel_present. rewrite Em. intros o Ho X. specialize (S3 eq_refl). unfold ffull in S3. rewrite Em in S3.
        rewrite (S3 o Ho) in X. discriminate. }
      split; [exact S1|]. split; [|intros _; exact Hnew].
      intros g Hg Hd. destruct (shares g f) eqn:Es.
      + apply (shares_eq p Huniq g f Hg Hf) in Es. subst g. exact Hnew.
      + apply (sel_present_ext r _ g); [|exact Hd]. intros o Ho. split.
        * unfold single_effect. now rewrite set_val_arr.
        * symmetry. apply set_val_other. eapply shares_false; eauto.
  Qed.

  Notation trx := (tr_ext body p inputs D).

  (* all functions of a generation are submitted *)
  Lemma submit_fold_part gen : forall ps tasks,
    (forall f, In f gen -> In f p) ->
    (forall g, In g p -> fsub' (p_store ps) g) ->
    (forall f q g, In f gen -> In q (fparams f) -> producer p q = Some g -> sel_present (p_store ps) g) ->
    exists ps' new,
      fold_left (fun acc f => rdo pt <- acc; rdo r <- submit_func body c (Some fx) (fst pt) f; ROk (fst r, snd pt ++ [snd r]))
                gen (ROk (ps, tasks)) = ROk (ps', tasks ++ new)
      /\ Forall2 task_part_good new gen
      /\ (forall g, In g p -> fsub' (p_store ps') g)
      /\ (forall g, In g p -> sel_present (p_store ps) g -> sel_present (p_store ps') g)
      /\ (forall f, In f gen -> is_mapped f = true -> sel_present (p_store ps') f)
      /\ trx (p_tr ps) (p_tr ps').
  Proof.
    induction gen as [|f gen IH]; intros ps tasks Hgen Hsub Hprod.
    - exists ps, []. rewrite app_nil_r. cbn. repeat split; auto; [intros f [] | apply tr_ext_refl].
    - pose proof (Hgen f (or_introl eq_refl)) as Hf.
      destruct (submit_func_part ps f Hf Hsub (fun q g Hq Hp => Hprod f q g (or_introl eq_refl) Hq Hp))
        as [ps1 [t [E1 [E3 [E4 [E5 [E6 [E7 E8]]]]]]]].
      destruct (submit_effect_part (p_store ps) (p_store ps1) f Hf E3 E4 E5 E6 Hsub) as [S1 S2].
      destruct (IH ps1 (tasks ++ [t])) as [ps' [new [F1 [F3 [F4 [F5 [F6 F7]]]]]]].
      + intros g Hg. apply Hgen. right. exact Hg.
      + exact S1.
      + intros g q h Hg Hq Hp. destruct (producer_Some _ _ _ Hp) as [Hh _]. apply S2; [exact Hh|]. eapply Hprod; eauto. right. exact Hg.
      + exists ps', (t :: new). cbn [fold_left rbind fst snd]. rewrite E1. cbn [rbind fst snd].
        rewrite <- app_assoc in F1. cbn [app] in F1. split; [exact F1|].
        split; [constructor; assumption|]. split; [exact F4|]. split; [|split].
        * intros g Hg Hd. apply F5; [exact Hg|]. now apply S2.
        * intros g [<-|Hg] Hm; [|now apply F6]. apply F5; [exact Hf|]. now apply E5.
        * eapply tr_ext_trans; [exact E8 | exact F7].
  Qed.

  (* ... and their tasks processed *)
  Lemma process_fold_part tasks : forall gen ps,
    Forall2 task_part_good tasks gen -> (forall f, In f gen -> In f p) ->
    (forall g, In g p -> fsub' (p_store ps) g) ->
    exists ps', fold_left (fun acc t => rdo ps0 <- acc; process_task ps0 t) tasks (ROk ps) = ROk ps'
      /\ (forall g, In g p -> fsub' (p_store ps') g)
      /\ (forall g, In g p -> sel_present (p_store ps) g -> sel_present (p_store ps') g)
      /\ (forall f, In f gen -> is_mapped f = false -> sel_present (p_store ps') f)
      /\ trx (p_tr ps) (p_tr ps').
  Proof.
    induction tasks as [|t tasks IH]; intros gen ps HF Hgen Hsub; inversion HF as [|? f ? gen' Hg1 Hg2]; subst.
    - exists ps. cbn. repeat split; auto; [intros f [] | apply tr_ext_refl].
    - destruct (Hg1 ps) as [ps1 [E1 [E3 E4]]].
      destruct (process_effect_part (p_store ps) f (Hgen f (or_introl eq_refl)) Hsub) as [S1 [S2 S3]].
      rewrite <- E3 in S1, S2, S3.
      destruct (IH gen' ps1 Hg2 (fun g Hg => Hgen g (or_intror Hg)) S1) as [ps' [F1 [F3 [F4 [F5 F6]]]]].
      exists ps'. cbn [fold_left rbind]. rewrite E1. split; [exact F1|]. split; [exact F3|]. split; [|split].
      + intros g Hg Hd. apply F4; [exact Hg|]. now apply S2.
      + intros g [<-|Hg] Hm; [|now apply F5]. apply F4; [apply Hgen; left; reflexivity|]. now apply S3.
      + eapply tr_ext_trans; [exact E4 | exact F6].
  Qed.

  Lemma run_generation_part ps gen :
    (forall f, In f gen -> In f p) ->
    (forall g, In g p -> fsub' (p_store ps) g) ->
    (forall f q g, In f gen -> In q (fparams f) -> producer p q = Some g -> sel_present (p_store ps) g) ->
    exists ps', run_generation body c (Some fx) ps gen = ROk ps'
      /\ (forall g, In g p -> fsub' (p_store ps') g)
      /\ (forall g, In g p -> sel_present (p_store ps) g -> sel_present (p_store ps') g)
      /\ (forall f, In f gen -> sel_present (p_store ps') f)
      /\ trx (p_tr ps) (p_tr ps').
  Proof.
    intros Hgen Hsub Hprod. unfold run_generation.
    destruct (submit_fold_part gen ps [] Hgen Hsub Hprod) as [ps1 [new [F1 [F3 [F4 [F5 [F6 F7]]]]]]].
    cbn [app] in F1. rewrite F1. cbn [rbind fst snd].
    destruct (process_fold_part new gen ps1 F3 Hgen F4) as [ps' [G1 [G3 [G4 [G5 G6]]]]].
    exists ps'. split; [exact G1|]. split; [exact G3|]. split; [|split].
    - intros g Hg Hd. apply G4; [exact Hg|]. now apply F5.
    - intros f Hf. destruct (is_mapped f) eqn:Em; [|now apply G5].
      apply G4; [now apply Hgen|]. now apply F6.
    - eapply tr_ext_trans; eauto.
  Qed.

  Lemma generations_part gens : forall before ps,
    (forall gen f, In gen gens -> In f gen -> In f p) ->
    (forall g, In g p -> fsub' (p_store ps) g) ->
    (forall g, In g before -> sel_present (p_store ps) g) -> (forall g, In g before -> In g p) ->
    producers_before p before gens ->
    exists ps', fold_left (fun acc gen => rdo ps0 <- acc; run_generation body c (Some fx) ps0 gen) gens (ROk ps) = ROk ps'
      /\ (forall g, In g p -> fsub' (p_store ps') g)
      /\ (forall g, In g (before ++ concat gens) -> sel_present (p_store ps') g)
      /\ trx (p_tr ps) (p_tr ps').
  Proof.
    induction gens as [|gen rest IH]; intros before ps Hin Hsub Hdone Hbp Hpb.
    - exists ps. cbn. rewrite app_nil_r. split; [reflexivity|]. split; [exact Hsub|]. split; [exact Hdone | apply tr_ext_refl].
    - destruct Hpb as [P1 P2].
      destruct (run_generation_part ps gen (fun f Hf => Hin gen f (or_introl eq_refl) Hf) Hsub) as [ps1 [E1 [E3 [E4 [E5 E6]]]]].
      { intros f q g Hf Hq Hp. apply Hdone. eapply P1; eauto. }
      destruct (IH (before ++ gen) ps1) as [ps' [F1 [F3 [F5 F4]]]].
      + intros g f Hg Hf. apply (Hin g f (or_intror Hg) Hf).
      + exact E3.
      + intros g Hg. apply in_app_or in Hg as [Hg|Hg]; [apply E4; [now apply Hbp | now apply Hdone] | now apply E5].
      + intros g Hg. apply in_app_or in Hg as [Hg|Hg]; [now apply Hbp | apply (Hin gen g (or_introl eq_refl) Hg)].
      + exact P2.
      + exists ps'. cbn [fold_left rbind concat]. rewrite E1. split; [exact F1|]. split; [exact F3|]. split.
        * intros g Hg. apply F5. now rewrite <- app_assoc.
        * eapply tr_ext_trans; eauto.
  Qed.
End PartSim.

(* ------------------------------------------------------------------ assembling *)
(* A PART on a sub-store of the denoted store: for a request that _validate_fixed_indices accepts, whose masks can be
   computed and whose selected elements read only selected upstream cells, the run completes, the store is again a
   sub-store of the denoted store, and every value it dumps is the denoted one. *)
Theorem part_from_substore_reads body user p inputs D fx rs :
  body_arity body ->
  request_ok p inputs = true -> denote_run body p inputs user = Ok D ->
  topo_list p -> producers_before p [] (generations p) ->
  (forall f, In f p -> In f (concat (generations p))) ->
  validate_fixed (Some fx) inputs p = Ok tt ->
  masks_defined p inputs D fx -> reads_ok p inputs D fx -> whole_reads_ok p inputs D fx ->
  (forall g, In g p -> fsub body p inputs D rs g) ->
  exists ps, map_run_sel body p inputs user (Some fx) rs = ROk ps
    /\ (forall g, In g p -> fsub body p inputs D (p_store ps) g)
    /\ Forall (dump_den body p inputs D) (p_tr ps)
    /\ (forall g o, In g p -> is_mapped g = false -> In o (fouts g) ->
          dict_get (st_val (p_store ps)) o = Some (Ok (dval D o))).
Proof.
  intros Harity Hreq Hden Htopo Hpb Hall Hval Hmask Hreads Hwhole Hsub.
  unfold request_ok in Hreq. apply andb_true_iff in Hreq as [Hreq _]. apply andb_true_iff in Hreq as [Hok Hnd].
  apply nodup_str_NoDup in Hnd. destruct (NoDup_app_inv _ _ Hnd) as [Hndo [_ Hdisj]].
  unfold denote_run in Hden.
  set (d0 := {| d_env := inputs; d_shapes := init_shapes inputs; d_out := [] |}) in *.
  destruct (denote_fold_facts body user p d0 D Hok Htopo) as [HD _]; [intros; reflexivity | exact Hndo | exact Hden|].
  destruct (denote_fold_env body user p d0 D Hok Hden) as [Henv Hshapes]. cbn [d_env d_shapes d0] in Henv, Hshapes.
  assert (Hfok : forall f, In f p -> func_ok f = true) by (rewrite forallb_forall in Hok; exact Hok).
  assert (Huniq := NoDup_flat_uniq p Hndo).
  assert (Hin_disj : forall f o, In f p -> In o (fouts f) -> dict_get inputs o = None).
  { intros f o Hf Ho. apply dget_notin. apply Hdisj. apply in_flat_map. eauto. }
  assert (Henv' : forall q, (forall f, In f p -> ~ In q (fouts f)) -> dict_get (d_env D) q = dict_get inputs q).
  { intros q Hq. apply Henv. intros X. apply in_flat_map in X as [f [Hf X]]. exact (Hq f Hf X). }
  unfold map_run_sel. rewrite Hval. cbn [lift rbind]. unfold all_shapes. rewrite Hshapes. cbn [lift rbind].
  destruct (generations_part body Harity p inputs D HD Hfok Huniq Hin_disj Henv' fx Hmask Hreads Hwhole (generations p) []
              {| p_store := rs; p_out := []; p_tr := [] |}) as [ps [E1 [E3 [E6 [trx [E4 E5]]]]]].
  - intros gen f Hg Hf. eapply generations_In; eauto.
  - exact Hsub.
  - intros g [].
  - intros g [].
  - exact Hpb.
  - exists ps. split; [exact E1|]. split; [exact E3|]. cbn [app p_tr] in E4. split; [now rewrite E4|].
    intros g o Hg Hm Ho. specialize (E6 g (Hall g Hg)). unfold sel_present in E6. rewrite Hm in E6.
    pose proof (E3 g Hg) as Hs. unfold fsub in Hs. rewrite Hm in Hs.
    destruct (Hs o Ho) as [Hn|Hv]; [exfalso; exact (E6 o Ho Hn) | exact Hv].
Qed.
