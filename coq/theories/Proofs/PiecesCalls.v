(* C06: the call logs of a sequence of runs on one run folder (parts, then the whole) are duplicate-free:
   a run calls a function only for elements that miss an output, what it computes is present afterwards, and what is
   present stays present. *)
From Verif Require Import Base.Prelude Base.StrUtil Base.Index Base.NdArr Base.PyRange Base.StrSeq
  Model.MapSpec Model.MapSpecSpec Model.MapRun Model.MapDenote
  Proofs.IndexFacts Proofs.StrFacts Proofs.MapSpecFacts Proofs.ListFacts Proofs.MapRunFacts.
From Verif Require Import Model.MapResume Model.FixedSpec Proofs.MapResumeFacts Proofs.MapValuesFacts
  Proofs.MapResumeDenote Proofs.FixedSpecFacts Proofs.PartSim Proofs.PartReads.

Lemma NoDup_app_in {A} (a b : list A) : NoDup a -> NoDup b -> (forall x, In x a -> ~ In x b) -> NoDup (a ++ b).
Proof.
  induction a as [|x a IH]; intros Ha Hb Hd; [exact Hb|]. inversion Ha as [|? ? Hni Ha']; subst. cbn. constructor.
  - intros H. apply in_app_or in H as [H|H]; [contradiction | exact (Hd x (or_introl eq_refl) H)].
  - apply IH; auto. intros y Hy. apply Hd. now right.
Qed.

Lemma NoDup_map_inj {A B} (F : A -> B) l : (forall a b, F a = F b -> a = b) -> NoDup l -> NoDup (map F l).
Proof.
  intros Hinj. induction 1 as [|x l Hni _ IH]; cbn; constructor; [|exact IH].
  intros H. apply in_map_iff in H as [y [E Hy]]. apply Hinj in E. now subst.
Qed.

Lemma existsb_and_const {A} (P : A -> bool) (b : bool) l : existsb (fun x => P x && b) l = existsb P l && b.
Proof. induction l as [|x l IH]; cbn [existsb]; [reflexivity|]. rewrite IH. destruct (P x), (existsb P l), b; reflexivity. Qed.

Section Calls.
  Variable body : mfunc -> env -> result (list val).
  Variable user : shape_dict.
  Variable p : list mfunc.
  Variable inputs : env.
  Variable shapes : shapes_t.
  Let c : ctx := {| x_p := p; x_inputs := inputs; x_shapes := shapes |}.
  Hypothesis Hshapes : all_shapes user inputs p = Ok shapes.
  Hypothesis Huniq : forall g f o, In g p -> In f p -> In o (fouts g) -> In o (fouts f) -> g = f.
  Hypothesis Hndg : NoDup (flat_map fouts (concat (generations p))).
  Hypothesis Hnames : NoDup (map fname (concat (generations p))).
  Hypothesis Hall : forall f, In f p -> In f (concat (generations p)).

  Lemma gens_in_p f : In f (concat (generations p)) -> In f p.
  Proof. intros H. apply in_concat in H as [gen [Hg Hf]]. eapply generations_In; eauto. Qed.

  Lemma fname_inj f g : In f p -> In g p -> fname f = fname g -> f = g.
  Proof. intros Hf Hg E. exact (NoDup_map_same fname _ f g Hnames (Hall f Hf) (Hall g Hg) E). Qed.

  (* the element / the function of this call is stored *)
  Definition has (rs : rstore) (cl : str * option nat) : Prop :=
    exists f, In f p /\ fname f = fst cl /\
      match snd cl with
      | Some i => is_mapped f = true /\ exists sm, shape_of c f = Ok sm /\ i < prod (ext_of (snd sm) (fst sm))
                                                   /\ miss_any (stores_of rs f (prod (ext_of (snd sm) (fst sm)))) i = false
      | None => is_mapped f = false /\ exists outs, load_single rs f = Ok (Some outs)
      end.

  (* one successful run (with or without a request) on the store rs *)
  Variables (fxo : option fixed) (rs : rstore) (ps : pstate).
  Hypothesis Hsized : sized c rs.
  Hypothesis Hrun : map_run_sel body p inputs user fxo rs = ROk ps.
  (* after it, every function without mapped inputs can be loaded *)
  Hypothesis Hsing : forall f, In f p -> is_mapped f = false -> exists outs, load_single (p_store ps) f = Ok (Some outs).

  Let Hinv : inv c fxo rs (concat (generations p)) ps :=
    part_run_exact body c fxo rs Hsized Huniq user ps Hshapes Hndg Hrun.

  Lemma calls_in cl : In cl (calls_of (p_tr ps)) ->
    exists f, In f (concat (generations p)) /\ In cl (calls_for c fxo rs f).
  Proof. intros H. rewrite (i_calls _ _ _ _ _ Hinv) in H. cbn [calls_of flat_map app] in H. now apply in_flat_map in H. Qed.

  Lemma sized_after : sized c (p_store ps).
  Proof. exact (i_sized _ _ _ _ _ Hinv). Qed.

  (* (A) a run calls only what is not stored *)
  Lemma calls_not_stored cl : In cl (calls_of (p_tr ps)) -> ~ has rs cl.
  Proof.
    intros H [g [Hg [Hn Hh]]]. destruct (calls_in cl H) as [f [Hf Hc]]. pose proof (gens_in_p f Hf) as Hfp.
    unfold calls_for in Hc. destruct (is_mapped f) eqn:Em.
    - destruct (fspec f) as [ms|]; [|destruct Hc]. destruct (shape_of c f) as [sm|] eqn:Es; [|destruct Hc].
      destruct (mask_fixed_axes fxo ms (fst sm) (snd sm)) as [fm|]; [|destruct Hc].
      apply in_map_iff in Hc as [i [<- Hi]]. cbn [fst snd] in Hn, Hh.
      assert (g = f) by (now apply fname_inj). subst g. destruct Hh as [_ [sm' [Es' [_ Hp]]]].
      rewrite Es in Es'. injection Es' as <-. apply filter_In in Hi as [_ Hi]. apply andb_true_iff in Hi as [_ Hi]. congruence.
    - assert (Hcl : cl = (fname f, None)).
      { destruct (load_single rs f) as [[?|]|]; [destruct Hc | |]; destruct Hc as [Hc|[]]; now symmetry. }
      subst cl. cbn [fst snd] in Hn, Hh. assert (g = f) by (now apply fname_inj). subst g.
      destruct Hh as [_ [outs Ho]]. rewrite Ho in Hc. destruct Hc.
  Qed.

  Lemma miss_any_after f sm i : In f p -> is_mapped f = true -> shape_of c f = Ok sm -> i < prod (ext_of (snd sm) (fst sm)) ->
    exists ms fm, fspec f = Some ms /\ mask_fixed_axes fxo ms (fst sm) (snd sm) = Ok fm /\
      miss_any (stores_of (p_store ps) f (prod (ext_of (snd sm) (fst sm)))) i
      = miss_any (stores_of rs f (prod (ext_of (snd sm) (fst sm)))) i
        && negb (selb fm i && miss_any (stores_of rs f (prod (ext_of (snd sm) (fst sm)))) i).
  Proof.
    intros Hf Hm Hs Hi. set (N := prod (ext_of (snd sm) (fst sm))) in *.
    destruct (fspec f) as [ms|] eqn:Esp; [|unfold is_mapped in Hm; rewrite Esp in Hm; discriminate].
    destruct (i_masks _ _ _ _ _ Hinv f (Hall f Hf) Hm ms sm Esp Hs) as [fm [Hfm Hcells]]. fold N in Hcells.
    exists ms, fm. split; [reflexivity|]. split; [exact Hfm|].
    unfold miss_any, stores_of. rewrite !existsb_map_comp. cbn beta.
    rewrite <- existsb_and_const.
    apply existsb_ext_in'. intros o Ho. cbn beta. refine (eq_trans (Hcells o i Ho Hi) _). unfold miss_any, stores_of.
    rewrite existsb_map_comp. reflexivity.
  Qed.

  (* (B) what a run calls is stored afterwards *)
  Lemma calls_stored_after cl : In cl (calls_of (p_tr ps)) -> has (p_store ps) cl.
  Proof.
    intros H. destruct (calls_in cl H) as [f [Hf Hc]]. pose proof (gens_in_p f Hf) as Hfp.
    unfold calls_for in Hc. destruct (is_mapped f) eqn:Em.
    - destruct (fspec f) as [ms|] eqn:Esp; [|destruct Hc]. destruct (shape_of c f) as [sm|] eqn:Es; [|destruct Hc].
      destruct (mask_fixed_axes fxo ms (fst sm) (snd sm)) as [fm|] eqn:Efm; [|destruct Hc].
      apply in_map_iff in Hc as [i [<- Hi]]. apply filter_In in Hi as [Hi Hb]. apply in_seq in Hi.
      exists f. split; [exact Hfp|]. split; [reflexivity|]. cbn [snd]. split; [exact Em|]. exists sm. split; [exact Es|].
      split; [lia|]. destruct (miss_any_after f sm i Hfp Em Es ltac:(lia)) as [ms' [fm' [E1 [E2 E3]]]].
      rewrite Esp in E1. injection E1 as <-. rewrite Efm in E2. injection E2 as <-. rewrite E3, Hb. cbn [negb]. apply andb_false_r.
    - assert (Hcl : cl = (fname f, None)).
      { destruct (load_single rs f) as [[?|]|]; [destruct Hc | |]; destruct Hc as [Hc|[]]; now symmetry. }
      subst cl. exists f. split; [exact Hfp|]. split; [reflexivity|]. cbn [snd]. split; [exact Em | now apply Hsing].
  Qed.

  (* (C) what is stored stays stored *)
  Lemma has_mono cl : has rs cl -> has (p_store ps) cl.
  Proof.
    intros [f [Hf [Hn Hh]]]. exists f. split; [exact Hf|]. split; [exact Hn|]. destruct (snd cl) as [i|].
    - destruct Hh as [Hm [sm [Es [Hi Hp]]]]. split; [exact Hm|]. exists sm. split; [exact Es|]. split; [exact Hi|].
      destruct (miss_any_after f sm i Hf Hm Es Hi) as [ms' [fm' [_ [_ E3]]]]. now rewrite E3, Hp.
    - destruct Hh as [Hm _]. split; [exact Hm | now apply Hsing].
  Qed.

  (* (D) within one run no call is made twice *)
  Lemma calls_NoDup : NoDup (calls_of (p_tr ps)).
  Proof.
    rewrite (i_calls _ _ _ _ _ Hinv). cbn [calls_of flat_map app].
    assert (G : forall l, NoDup (map fname l) -> NoDup (flat_map (calls_for c fxo rs) l)).
    { induction l as [|f l IH]; intros Hnd; [constructor|]. cbn [map] in Hnd. inversion Hnd as [|? ? Hni Hnd']; subst.
      cbn [flat_map]. apply NoDup_app_in; [| now apply IH |].
      - unfold calls_for. destruct (is_mapped f).
        + destruct (fspec f); [|constructor]. destruct (shape_of c f); [|constructor]. destruct (mask_fixed_axes _ _ _ _); [|constructor].
          apply NoDup_map_inj; [intros a1 b1 E; now injection E|]. apply NoDup_filter, seq_NoDup.
        + destruct (load_single rs f) as [[?|]|]; repeat constructor; intros [].
      - intros cl H1 H2. apply in_flat_map in H2 as [g [Hg H2]].
        assert (Hfn : forall h cl0, In cl0 (calls_for c fxo rs h) -> fst cl0 = fname h).
        { intros h cl0 Hc. unfold calls_for in Hc. destruct (is_mapped h).
          - destruct (fspec h); [|destruct Hc]. destruct (shape_of c h); [|destruct Hc]. destruct (mask_fixed_axes _ _ _ _); [|destruct Hc].
            apply in_map_iff in Hc as [i [<- _]]. reflexivity.
          - destruct (load_single rs h) as [[?|]|]; [destruct Hc | |]; destruct Hc as [<-|[]]; reflexivity. }
        apply Hni. rewrite <- (Hfn f cl H1), (Hfn g cl H2). now apply in_map. }
    apply G. exact Hnames.
  Qed.
End Calls.

(* ------------------------------------------------------------------ a sequence of runs on one folder *)
Section Seq.
  Variable body : mfunc -> env -> result (list val).
  Variable user : shape_dict.
  Variable p : list mfunc.
  Variable inputs : env.
  Variable shapes : shapes_t.
  Let c : ctx := {| x_p := p; x_inputs := inputs; x_shapes := shapes |}.
  Hypothesis Hshapes : all_shapes user inputs p = Ok shapes.
  Hypothesis Huniq : forall g f o, In g p -> In f p -> In o (fouts g) -> In o (fouts f) -> g = f.
  Hypothesis Hndg : NoDup (flat_map fouts (concat (generations p))).
  Hypothesis Hnames : NoDup (map fname (concat (generations p))).
  Hypothesis Hall : forall f, In f p -> In f (concat (generations p)).

  (* runs one after the other, each on the store the previous one left, each leaving every function without mapped
     inputs loadable *)
  Inductive seq_run : list (option fixed) -> rstore -> list (list action) -> Prop :=
  | sr_nil rs : seq_run [] rs []
  | sr_cons fxo l rs ps trs :
      map_run_sel body p inputs user fxo rs = ROk ps ->
      (forall f, In f p -> is_mapped f = false -> exists outs, load_single (p_store ps) f = Ok (Some outs)) ->
      seq_run l (p_store ps) trs -> seq_run (fxo :: l) rs (p_tr ps :: trs).

  Lemma seq_calls_NoDup l rs trs : sized c rs -> seq_run l rs trs ->
    NoDup (concat (map calls_of trs)) /\ forall cl, In cl (concat (map calls_of trs)) -> ~ has p inputs shapes rs cl.
  Proof.
    intros Hs H. induction H as [rs | fxo l rs ps trs Hrun Hsing _ IH]; cbn [map concat]; [split; [constructor | intros cl []]|].
    destruct (IH (sized_after body user p inputs shapes Hshapes Huniq Hndg fxo rs ps Hs Hrun)) as [I1 I2]. split.
    - apply NoDup_app_in; [exact (calls_NoDup body user p inputs shapes Hshapes Huniq Hndg Hnames fxo rs ps Hs Hrun) | exact I1|].
      intros cl H1 H2. apply (I2 cl H2).
      exact (calls_stored_after body user p inputs shapes Hshapes Huniq Hndg Hall fxo rs ps Hs Hrun Hsing cl H1).
    - intros cl H. apply in_app_or in H as [H|H].
      + exact (calls_not_stored body user p inputs shapes Hshapes Huniq Hndg Hnames Hall fxo rs ps Hs Hrun cl H).
      + intros Hh. apply (I2 cl H).
        exact (has_mono body user p inputs shapes Hshapes Huniq Hndg Hall fxo rs ps Hs Hrun Hsing cl Hh).
  Qed.
End Seq.

Lemma load_single_all rs f : (forall o, In o (fouts f) -> exists v, dict_get (st_val rs) o = Some (Ok v)) ->
  exists outs, load_single rs f = Ok (Some outs).
Proof.
  intros H. unfold load_single.
  assert (G : forall l, (forall o, In o l -> exists v, dict_get (st_val rs) o = Some (Ok v)) ->
            exists lo, mapM (fun o => match dict_get (st_val rs) o with
                                      | Some (Ok v) => Ok (Some v) | Some (Err e) => Err e | None => Ok None end) l = Ok lo
                       /\ forallb (fun x => match x with Some _ => true | None => false end) lo = true).
  { induction l as [|o l IH]; intros Hl; cbn [mapM]; [exists []; split; reflexivity|].
    destruct (Hl o (or_introl eq_refl)) as [v Hv]. rewrite Hv. cbn [bind].
    destruct (IH (fun o' Ho' => Hl o' (or_intror Ho'))) as [lo [E1 E2]]. rewrite E1. cbn [bind].
    exists (Some v :: lo). split; [reflexivity|]. cbn. exact E2. }
  destruct (G (fouts f) H) as [lo [E1 E2]]. rewrite E1. cbn [bind]. rewrite E2. eexists. reflexivity.
Qed.

(* PIECES, THEN THE WHOLE: the call logs are duplicate-free.  Any sequence of accepted requests and then a full run:
   all runs complete (pieces_eq_whole), and no (function, element) is called twice over all of them. *)
Theorem pieces_calls_duplicate_free body user p inputs D : forall fxs rs,
  body_arity body ->
  request_ok p inputs = true -> denote_run body p inputs user = Ok D -> pipeline_order_ok p = true ->
  consistent_axes (arrayspecs p) ->
  NoDup (flat_map fouts (concat (generations p))) -> NoDup (map fname (concat (generations p))) ->
  (forall fx, In fx fxs -> validate_fixed (Some fx) inputs p = Ok tt /\ fixed_in_range p (d_shapes D) fx = true) ->
  sized {| x_p := p; x_inputs := inputs; x_shapes := d_shapes D |} rs ->
  (forall g, In g p -> fsub body p inputs D rs g) ->
  exists rsN trs psF,
    parts_run body p inputs user fxs rs rsN trs
    /\ map_run_sel body p inputs user None rsN = ROk psF
    /\ NoDup (concat (map calls_of (trs ++ [p_tr psF]))).
Proof.
  intros fxs rs Harity Hreq Hden Hord Hcons Hndg Hnames Hacc Hsized Hsub.
  destruct (pipeline_order_ok_spec p (request_ok_nodup p inputs Hreq) Hord) as [_ [_ Hall]].
  pose proof (NoDup_flat_uniq p (request_ok_nodup p inputs Hreq)) as Huniq.
  assert (Hshapes : all_shapes user inputs p = Ok (d_shapes D)).
  { pose proof Hreq as Hreq'. unfold request_ok in Hreq'. apply andb_true_iff in Hreq' as [Hreq' _]. apply andb_true_iff in Hreq' as [Hok _].
    pose proof Hden as Hden'. unfold denote_run in Hden'.
    destruct (denote_fold_env body user p _ D Hok Hden') as [_ Hs]. exact Hs. }
  assert (G : forall fxs0 rs0, (forall fx, In fx fxs0 -> In fx fxs) -> (forall g, In g p -> fsub body p inputs D rs0 g) ->
            exists rsN trs psF, parts_run body p inputs user fxs0 rs0 rsN trs
              /\ map_run_sel body p inputs user None rsN = ROk psF
              /\ seq_run body user p inputs (map Some fxs0 ++ [None]) rs0 (trs ++ [p_tr psF])).
  { induction fxs0 as [|fx fxs0 IH]; intros rs0 Hin Hs0.
    - destruct (full_run_on_substore_denotes body user p inputs D rs0 Harity Hreq Hden Hord Hs0) as [psF [F1 [F2 _]]].
      exists rs0, [], psF. split; [constructor|]. split; [exact F1|]. cbn [map app]. econstructor; [exact F1 | | constructor].
      intros f Hf Hm. apply load_single_all. intros o Ho. specialize (F2 f Hf). unfold ffull in F2. rewrite Hm in F2. eauto.
    - destruct (Hacc fx (Hin fx (or_introl eq_refl))) as [Hval Hrange].
      destruct (part_from_substore body user p inputs D fx rs0 Harity Hreq Hden Hord Hcons Hval Hrange Hs0) as [ps [P1 [P2 [_ P4]]]].
      destruct (IH (p_store ps) (fun fx' H' => Hin fx' (or_intror H')) P2) as [rsN [trs [psF [Q1 [Q2 Q3]]]]].
      exists rsN, (p_tr ps :: trs), psF. split; [econstructor; eauto|]. split; [exact Q2|]. cbn [map app]. econstructor; [exact P1 | | exact Q3].
      intros f Hf Hm. apply load_single_all. intros o Ho. eauto. }
  destruct (G fxs rs (fun fx H => H) Hsub) as [rsN [trs [psF [Q1 [Q2 Q3]]]]].
  exists rsN, trs, psF. split; [exact Q1|]. split; [exact Q2|].
  exact (proj1 (seq_calls_NoDup body user p inputs (d_shapes D) Hshapes Huniq Hndg Hnames Hall _ rs _ Hsized Q3)).
Qed.
